// g++ -std=c++17 -O1 -I/tmp/mut/C18 demo.cpp -o demo
//
// C18: "... for every pressure mask ...", quantified over "all pressure masks
// (interleaved, contiguous, pattern strings)".
//
// The interleaved pattern string is documented as '%n:m' = "each (n+i*m)-th
// variable is treated as pressure" (examples/schur_pressure_correction.cpp).
// schur_pressure_correction::params(ptree) parses it with hard-coded character
// positions, so every pattern whose start n has two digits ("%10:11", "%10:12",
// "%12:16", ...) is mis-parsed: the stride becomes atoi(":11") == 0 and the
// constructor never returns (for(i = start; i < n; i += 0)).
#include <vector>
#include <string>
#include <cstdio>
#include <csignal>
#include <unistd.h>

#include <amgcl/backend/builtin.hpp>
#include <amgcl/make_solver.hpp>
#include <amgcl/solver/preonly.hpp>
#include <amgcl/preconditioner/dummy.hpp>
#include <amgcl/preconditioner/schur_pressure_correction.hpp>
#include <boost/property_tree/ptree.hpp>

typedef amgcl::backend::builtin<double> Backend;
typedef amgcl::make_solver<amgcl::preconditioner::dummy<Backend>, amgcl::solver::preonly<Backend>> Solver;
typedef amgcl::preconditioner::schur_pressure_correction<Solver, Solver> Schur;

static const char *current = "";
static void on_alarm(int) {
    char buf[256];
    int k = std::snprintf(buf, sizeof(buf),
            "VIOLATION: schur_pressure_correction::params(ptree) does not terminate for pmask_pattern \"%s\" "
            "(stride parsed as 0, schur_pressure_correction.hpp:146-148)\n", current);
    ssize_t w = write(1, buf, k); (void)w;
    _exit(1);
}

static std::vector<char> expected(size_t n, size_t start, size_t stride) {
    std::vector<char> m(n, 0);
    for(size_t i = start; i < n; i += stride) m[i] = 1;
    return m;
}

static int check(size_t n, size_t start, size_t stride) {
    std::string pat = "%" + std::to_string(start) + ":" + std::to_string(stride);
    current = pat.c_str();

    boost::property_tree::ptree p;
    p.put("pmask_size", n);
    p.put("pmask_pattern", pat);

    alarm(5);
    Schur::params prm(p);
    alarm(0);

    bool ok = (prm.pmask == expected(n, start, stride));
    std::printf("pattern %-8s : %s\n", pat.c_str(), ok ? "ok" : "WRONG MASK");
    std::fflush(stdout);
    return ok ? 0 : 1;
}

int main() {
    std::signal(SIGALRM, on_alarm);
    const size_t n = 66;
    int fail = 0;
    fail |= check(n, 1, 2);     // fine
    fail |= check(n, 3, 4);     // fine
    fail |= check(n, 2, 11);    // fine: two-digit stride works
    fail |= check(n, 9, 11);    // fine
    fail |= check(n, 10, 11);   // 11 unknowns per node, pressure is the last one: hangs
    if (fail) std::printf("VIOLATION: wrong pressure mask\n"); else std::printf("OK\n");
    return fail;
}
