// C02 / F6: with block value types smoothed_aggregation inverts the lumped diagonal block
// D_i = A_ii + sum_{weak j} A_ij of the filtered matrix. It only guards against D_i == 0;
// for 2x2 blocks D_i can be a non-zero SINGULAR matrix (one component of the block row has
// zero row sum and all of its couplings are weak, while the node is strongly coupled through
// the other component). math::inverse() then returns inf/NaN, P contains NaN and the
// preconditioner maps every right-hand side to NaN.
//
// Matrix (n=6, three nodes with unknowns (u_i, v_i), scalar index 2*i + component):
//   edges (graph Laplacian weights): u0-u1: 1, u0-v0: 1, v0-v2: 1, v1-v2: 1/4, u2-v2: 1
//   diagonal shifts: u1: +1, u2: +7
// Symmetric, irreducible, off-diagonals <= 0, weakly diagonally dominant with strict
// dominance in rows u1, u2 -> SPD M-matrix with dyadic entries.
// Node 1: A_11 = diag(2, 1/4), A_10 = diag(-1, 0) (strong), A_12 = diag(0, -1/4) (weak)
//   => D_1 = diag(2, 0).
//
// build: g++ -std=c++17 -O1 -I<amgcl root> demo.cpp
#include <vector>
#include <map>
#include <cmath>
#include <cstdio>
#include <tuple>

#include <amgcl/backend/builtin.hpp>
#include <amgcl/value_type/static_matrix.hpp>
#include <amgcl/adapter/crs_tuple.hpp>
#include <amgcl/adapter/block_matrix.hpp>
#include <amgcl/amg.hpp>
#include <amgcl/coarsening/smoothed_aggregation.hpp>
#include <amgcl/coarsening/aggregation.hpp>
#include <amgcl/relaxation/spai0.hpp>
#include <amgcl/relaxation/gauss_seidel.hpp>

typedef amgcl::static_matrix<double, 2, 2> val_t;
typedef amgcl::static_matrix<double, 2, 1> rhs_t;
typedef amgcl::backend::builtin<val_t> Backend;

static int n = 6;
static std::vector<ptrdiff_t> ptr, col;
static std::vector<double> val;

static void build() {
    std::vector<std::map<int,double>> r(n);
    auto edge = [&](int i, int j, double w) { r[i][j] -= w; r[j][i] -= w; r[i][i] += w; r[j][j] += w; };
    const int u0 = 0, v0 = 1, u1 = 2, v1 = 3, u2 = 4, v2 = 5;
    edge(u0, u1, 1); edge(u0, v0, 1); edge(v0, v2, 1); edge(v1, v2, 0.25); edge(u2, v2, 1);
    r[u1][u1] += 1; r[u2][u2] += 7;
    ptr.assign(1, 0);
    for (int i = 0; i < n; ++i) { for (auto &kv : r[i]) { col.push_back(kv.first); val.push_back(kv.second); } ptr.push_back(col.size()); }
    printf("A =\n");
    for (int i = 0; i < n; ++i) { for (int j = 0; j < n; ++j) printf("%6g ", r[i].count(j) ? r[i][j] : 0.0); printf("\n"); }
}

template <template <class> class C, template <class> class R>
static int probe(const char *name) {
    typedef amgcl::amg<Backend, C, R> AMG;
    auto At = std::tie(n, ptr, col, val);
    auto Ab = amgcl::adapter::block_matrix<val_t>(At);
    typename AMG::params prm; prm.coarse_enough = 1;
    AMG amg(Ab, prm);
    int nb = n / 2, nonfinite = 0;
    amgcl::backend::numa_vector<rhs_t> f(nb), x(nb);
    for (int j = 0; j < n; ++j) {
        for (int i = 0; i < nb; ++i) f[i] = amgcl::math::zero<rhs_t>();
        f[j / 2](j % 2) = 1.0;
        amg.apply(f, x);
        for (int i = 0; i < n; ++i) if (!std::isfinite(x[i / 2](i % 2))) ++nonfinite;
    }
    printf("%-44s: %d of %d entries of B are NaN/Inf\n", name, nonfinite, n * n);
    return nonfinite;
}

int main() {
    build();
    int ctl = probe<amgcl::coarsening::aggregation, amgcl::relaxation::spai0>("aggregation + spai0 (control)");
    int bad = probe<amgcl::coarsening::smoothed_aggregation, amgcl::relaxation::spai0>("smoothed_aggregation + spai0");
    bad    += probe<amgcl::coarsening::smoothed_aggregation, amgcl::relaxation::gauss_seidel>("smoothed_aggregation + gauss_seidel");
    if (ctl) { printf("control failed?!\n"); return 2; }
    if (bad) { printf("VIOLATION: smoothed_aggregation with 2x2 block values returns NaN for an SPD M-matrix (singular lumped diagonal block is inverted)\n"); return 1; }
    printf("OK\n");
    return 0;
}
