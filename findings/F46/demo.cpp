// g++ -std=c++17 -O1 -I. -I/usr/include/eigen3 demo.cpp -o demo
// reproducer: math::inner_product of complex rhs blocks is conjugate-linear in the SECOND argument for static_matrix (and for
// complex scalars: x * conj(y)), but in the FIRST argument for Eigen blocks (value_type/eigen.hpp: x.adjoint() * y)
#include <complex>
#include <iostream>
#include <Eigen/Dense>
#include <amgcl/value_type/complex.hpp>
#include <amgcl/value_type/static_matrix.hpp>
#include <amgcl/value_type/eigen.hpp>
int main() {
    typedef std::complex<double> C;
    amgcl::static_matrix<C, 2, 1> xs, ys; Eigen::Matrix<C, 2, 1> xe, ye;
    xs(0) = xe(0) = C(1, 2); xs(1) = xe(1) = C(0, 1); ys(0) = ye(0) = C(3, -1); ys(1) = ye(1) = C(2, 2);
    C a = amgcl::math::inner_product(xs, ys), b = amgcl::math::inner_product(xe, ye), s = amgcl::math::inner_product(C(1, 2), C(3, -1));
    std::cout << "static_matrix: " << a << "  Eigen: " << b << "  scalar <1+2i, 3-i>: " << s << std::endl;
    return a == b ? 0 : 1;      // exits 1: the two value types disagree (the results are complex conjugates of each other)
}
