// C08 / F1: backend::diagonal() returns uninitialised memory for rows that have no stored diagonal entry
// (g++ -std=c++17 -O1 -I<amgcl root> demo.cpp)
//
// All array allocations are filled with a poison byte so that the uninitialised read is deterministic
// (a fresh heap page would otherwise often happen to contain zeros and hide the defect).
#include <cstdlib>
#include <cstring>
#include <cmath>
#include <new>
#include <vector>
#include <iostream>

static unsigned char POISON = 0xAB;
void* operator new[](std::size_t n) { void *p = std::malloc(n ? n : 1); if (!p) throw std::bad_alloc(); std::memset(p, POISON, n); return p; }
void  operator delete[](void *p) noexcept { std::free(p); }
void  operator delete[](void *p, std::size_t) noexcept { std::free(p); }

#include <amgcl/backend/builtin.hpp>

int main() {
    typedef amgcl::backend::crs<double> matrix;

    // 3x3, rows sorted, no duplicates:
    //   [ 2 1 0 ]
    //   [ 1 . 0 ]    row 1 has no stored diagonal entry
    //   [ . . . ]    row 2 is empty
    std::vector<ptrdiff_t> ptr = {0, 2, 3, 3};
    std::vector<ptrdiff_t> col = {0, 1, 0};
    std::vector<double>    val = {2, 1, 1};
    matrix A(3, 3, ptr, col, val);

    int bad = 0;

    // 1. plain extraction: dense definition d[i] = A(i,i) = {2, 0, 0}
    const double expect[3] = {2, 0, 0};
    auto d = amgcl::backend::diagonal(A);
    for (int i = 0; i < 3; ++i) {
        if (!((*d)[i] == expect[i])) {
            std::cout << "diagonal(A)[" << i << "] = " << (*d)[i] << ", expected " << expect[i] << std::endl;
            ++bad;
        }
    }

    // 2. inverted diagonal: whatever value is chosen for a zero diagonal (the code maps a stored zero to 1),
    //    it has to be a function of the matrix, not of the previous heap contents.
    POISON = 0xAB; auto i1 = amgcl::backend::diagonal(A, true);
    POISON = 0x3F; auto i2 = amgcl::backend::diagonal(A, true);
    if ((*i1)[0] != 0.5 || (*i2)[0] != 0.5) { std::cout << "inverted diagonal of row 0 is wrong" << std::endl; ++bad; }
    for (int i = 1; i < 3; ++i) {
        double a = (*i1)[i], b = (*i2)[i];
        if (std::memcmp(&a, &b, sizeof(double)) != 0 || !std::isfinite(a)) {
            std::cout << "diagonal(A, invert)[" << i << "] depends on heap garbage: " << a << " vs " << b
                      << " (expected 1, as for a stored zero)" << std::endl;
            ++bad;
        }
    }

    if (bad) { std::cout << "VIOLATED: " << bad << " wrong diagonal entries" << std::endl; return 1; }
    std::cout << "ok" << std::endl;
    return 0;
}
