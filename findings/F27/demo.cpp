// Reproducer (C05, complex systems): amgcl/solver/detail/givens_rotations.hpp, generate_plane_rotation computes
//     cs = 1 / sqrt(1 + tmp * tmp),  sn = tmp * cs          (and the mirrored branch)
// For a complex value type the plane rotation [conj(cs) conj(sn); -sn cs] is unitary only with 1 + |tmp|^2
// (= 1 + conj(tmp) * tmp).  With tmp * tmp the rotation still annihilates the sub-diagonal entry but it is not
// unitary, so the rotated small least-squares problem of GMRES / FGMRES / LGMRES is no longer equivalent to
// min || f - A x ||: from the second iteration of a restart cycle on, the returned iterate is NOT the residual
// minimiser over x0 + K_k (real value types are not affected: tmp * tmp = |tmp|^2 there).
//
//   g++ -std=c++17 -I<amgcl> notes/repro_c05_complex_givens.cpp -o repro && ./repro
// unchanged library:  |cs|^2 + |sn|^2 = 1.66667,  GMRES(2) iterate 2 is 6.5e-2 away from the minimiser (||f - A x|| = 1.27513 > 1.27185)  -> exit 1
// with repo_patches/complex_givens.patch:  1,  ~1e-16                                                    -> exit 0
#include <iostream>
#include <vector>
#include <complex>
#include <tuple>
#include <cmath>
#include <amgcl/value_type/complex.hpp>
#include <amgcl/backend/builtin.hpp>
#include <amgcl/adapter/crs_tuple.hpp>
#include <amgcl/solver/gmres.hpp>
#include <amgcl/solver/detail/givens_rotations.hpp>

typedef std::complex<double> C;
typedef amgcl::backend::builtin<C> Backend;
struct identity { template <class V1, class V2> void apply(const V1 &f, V2 &&x) const { for (size_t i = 0; i < f.size(); ++i) x[i] = f[i]; } };

int main() {
    int bad = 0;
    // 1. the rotation itself: dx = i, dy = 1/2
    C cs, sn; amgcl::solver::detail::generate_plane_rotation(C(0, 1), C(0.5, 0), cs, sn);
    double rownorm = std::norm(cs) + std::norm(sn);
    std::cout << "|cs|^2 + |sn|^2 = " << rownorm << " (a unitary rotation has 1)\n";
    if (std::fabs(rownorm - 1) > 1e-12) ++bad;

    // 2. GMRES(2), two iterations, 3 x 3 complex non-Hermitian system, identity preconditioner, x0 = 0
    const int n = 3;
    C a[3][3] = {{C(0, 2), C(1, 0), C(0, 0)}, {C(0, 0), C(0, -2), C(1, 0)}, {C(1, 0), C(0, 0), C(1, 2)}};
    std::vector<ptrdiff_t> ptr = {0, 3, 6, 9}, col = {0, 1, 2, 0, 1, 2, 0, 1, 2}; std::vector<C> val;
    for (int i = 0; i < n; ++i) for (int j = 0; j < n; ++j) val.push_back(a[i][j]);
    Backend::matrix A(std::tie(n, ptr, col, val));
    std::vector<C> f = {C(1, 0), C(0, 1), C(1, 1)}, x(n, C(0));
    amgcl::solver::gmres<Backend>::params prm; prm.M = 2; prm.maxiter = 2; prm.tol = 0;
    amgcl::solver::gmres<Backend> S(n, prm);
    S(A, identity(), f, x);

    // the minimiser of || f - A y || over span{f, A f} by the normal equations of W = [A f, A A f]
    auto mul = [&](const std::vector<C> &v) { std::vector<C> w(n, C(0)); for (int i = 0; i < n; ++i) for (int j = 0; j < n; ++j) w[i] += a[i][j] * v[j]; return w; };
    auto dot = [&](const std::vector<C> &u, const std::vector<C> &v) { C s = 0; for (int i = 0; i < n; ++i) s += std::conj(u[i]) * v[i]; return s; };
    std::vector<C> k0 = f, k1 = mul(f), w0 = k1, w1 = mul(k1);
    C g00 = dot(w0, w0), g01 = dot(w0, w1), g10 = dot(w1, w0), g11 = dot(w1, w1), b0 = dot(w0, f), b1 = dot(w1, f), det = g00 * g11 - g01 * g10;
    C y0 = (b0 * g11 - g01 * b1) / det, y1 = (g00 * b1 - g10 * b0) / det;
    double d = 0, nx = 0, rl = 0, rm = 0;
    std::vector<C> xm(n); for (int i = 0; i < n; ++i) { xm[i] = y0 * k0[i] + y1 * k1[i]; d += std::norm(x[i] - xm[i]); nx += std::norm(xm[i]); }
    std::vector<C> Ax = mul(x), Axm = mul(xm); for (int i = 0; i < n; ++i) { rl += std::norm(f[i] - Ax[i]); rm += std::norm(f[i] - Axm[i]); }
    std::cout << "GMRES(2), k = 2: relative distance to the residual minimiser over K_2 = " << std::sqrt(d / nx)
              << "   ||f - A x|| = " << std::sqrt(rl) << "  minimum = " << std::sqrt(rm) << "\n";
    if (std::sqrt(d / nx) > 1e-9) ++bad;
    std::cout << (bad ? "FAILED\n" : "OK\n");
    return bad ? 1 : 0;
}
