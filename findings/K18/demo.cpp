// C15 / F1: deflated_solver changes an initial guess that already satisfies
// the tolerance (and still reports zero iterations).
//
// Clause: "an initial guess that already satisfies the tolerance is returned
// unchanged in zero iterations".
//
// All data are small integers; tol = 0.25, the guess has relative residual
// 0.104, and deflated_solver moves it by exactly 1.0 in every component.
#include <iostream>
#include <vector>
#include <cmath>
#include <amgcl/backend/builtin.hpp>
#include <amgcl/adapter/crs_tuple.hpp>
#include <amgcl/deflated_solver.hpp>
#include <amgcl/make_solver.hpp>
#include <amgcl/relaxation/spai0.hpp>
#include <amgcl/relaxation/as_preconditioner.hpp>
#include <amgcl/solver/cg.hpp>

typedef amgcl::backend::builtin<double> Backend;
typedef amgcl::relaxation::as_preconditioner<Backend, amgcl::relaxation::spai0> Precond;
typedef amgcl::deflated_solver<Precond, amgcl::solver::cg<Backend> > DSolver;
typedef amgcl::make_solver    <Precond, amgcl::solver::cg<Backend> > MSolver;

int main() {
    const int n = 8;
    std::vector<ptrdiff_t> ptr{0}, col; std::vector<double> val;
    for(int i = 0; i < n; ++i) {
        if (i > 0)     { col.push_back(i-1); val.push_back(-1); }
        col.push_back(i); val.push_back(2);
        if (i < n - 1) { col.push_back(i+1); val.push_back(-1); }
        ptr.push_back(col.size());
    }
    auto A = std::tie(n, ptr, col, val);

    // exact solution and right-hand side
    std::vector<double> xe(n), b(n, 0.0);
    for(int i = 0; i < n; ++i) xe[i] = 8 + (i % 3);
    for(int i = 0; i < n; ++i)
        for(auto j = ptr[i]; j < ptr[i+1]; ++j) b[i] += val[j] * xe[col[j]];

    // initial guess = exact solution + 1: residual is (-1,0,...,0,-1)
    std::vector<double> x0(n);
    for(int i = 0; i < n; ++i) x0[i] = xe[i] + 1;

    double nb = 0, nr = 0;
    for(int i = 0; i < n; ++i) {
        double r = b[i];
        for(auto j = ptr[i]; j < ptr[i+1]; ++j) r -= val[j] * x0[col[j]];
        nr += r * r; nb += b[i] * b[i];
    }
    const double tol = 0.25;
    const double rel = std::sqrt(nr / nb);
    std::cout << "relative residual of the guess = " << rel << ", tol = " << tol << std::endl;
    if (!(rel < 0.5 * tol)) { std::cout << "bad demo setup" << std::endl; return 3; }

    // reference: plain make_solver with the same preconditioner / solver / tol
    {
        MSolver::params p; p.solver.tol = tol;
        MSolver M(A, p);
        std::vector<double> x = x0;
        size_t it; double res; std::tie(it, res) = M(b, x);
        std::cout << "make_solver:     iters = " << it << ", res = " << res
                  << ", x " << (x == x0 ? "unchanged" : "CHANGED") << std::endl;
        if (it != 0 || x != x0) { std::cout << "unexpected: make_solver violates the clause" << std::endl; return 2; }
    }

    std::vector<double> Z(n, 1.0);   // one deflation vector: constants
    DSolver::params p;
    p.nvec = 1; p.vec = Z.data();
    p.solver.tol = tol;
    DSolver S(A, p);

    std::vector<double> x = x0;
    size_t it; double res; std::tie(it, res) = S(b, x);

    double md = 0;
    for(int i = 0; i < n; ++i) md = std::max(md, std::fabs(x[i] - x0[i]));
    std::cout << "deflated_solver: iters = " << it << ", res = " << res
              << ", max |x - x0| = " << md << std::endl;

    if (it != 0 || md != 0) {
        std::cout << "VIOLATION: the initial guess satisfied the tolerance but was "
                  << (md != 0 ? "modified" : "iterated on") << std::endl;
        return 1;
    }
    std::cout << "OK" << std::endl;
    return 0;
}
