// g++ -std=c++17 -O1 -I/tmp/mut/C18 demo.cpp -o demo
//
// C18 / CPR: "... identically for scalar input with block_size b and for
// b x b block input", quantified over active_rows settings.
//
// cpr_drs with BLOCK-valued input and active_rows < n:
//   (a) the np x np pressure matrix handed to PPrecond keeps the entries whose
//       column lies outside of the active range -> column indices >= np
//       (out-of-bounds accesses in any real pressure preconditioner);
//   (b) the dynamic-row-sum weights are computed including these inactive
//       columns, so Fpp - and the action of the preconditioner on the ACTIVE
//       part - differs from what the same class computes for the same system
//       given as scalar input with block_size = B.
// cpr.hpp had exactly this defect and was fixed; cpr_drs.hpp was not.
#include <vector>
#include <cmath>
#include <cstdio>
#include <memory>
#include <algorithm>

#include <amgcl/backend/builtin.hpp>
#include <amgcl/value_type/static_matrix.hpp>
#include <amgcl/adapter/crs_tuple.hpp>
#include <amgcl/adapter/block_matrix.hpp>
#include <amgcl/preconditioner/dummy.hpp>
#include <amgcl/preconditioner/cpr_drs.hpp>

typedef amgcl::backend::builtin<double> SBackend;

static std::vector<double> dense_solve(std::vector<double> A, std::vector<double> b, int n) {
    for(int k = 0; k < n; ++k) {
        int p = k;
        for(int i = k + 1; i < n; ++i) if (std::fabs(A[i*n+k]) > std::fabs(A[p*n+k])) p = i;
        if (p != k) { for(int j = 0; j < n; ++j) std::swap(A[k*n+j], A[p*n+j]); std::swap(b[k], b[p]); }
        for(int i = k + 1; i < n; ++i) {
            double m = A[i*n+k] / A[k*n+k];
            for(int j = k; j < n; ++j) A[i*n+j] -= m * A[k*n+j];
            b[i] -= m * b[k];
        }
    }
    for(int i = n; i --> 0; ) {
        for(int j = i + 1; j < n; ++j) b[i] -= A[i*n+j] * b[j];
        b[i] /= A[i*n+i];
    }
    return b;
}

// Exact pressure solve that validates the matrix it is given.
static int g_bad_cols = 0;
static std::vector<double> g_App;
struct exact_precond {
    typedef SBackend backend_type;
    typedef SBackend::matrix matrix;
    typedef SBackend::vector vector;
    typedef double value_type;
    typedef amgcl::backend::builtin<double>::matrix build_matrix;
    typedef amgcl::detail::empty_params params;
    typedef SBackend::params backend_params;

    std::shared_ptr<matrix> A; int n; std::vector<double> D;

    exact_precond(std::shared_ptr<build_matrix> M, const params& = params(), const backend_params& = backend_params())
        : A(M), n(amgcl::backend::rows(*M)), D(n * n, 0.0)
    {
        g_bad_cols = 0;
        for(int i = 0; i < n; ++i)
            for(ptrdiff_t j = M->ptr[i]; j < M->ptr[i+1]; ++j) {
                if (M->col[j] < 0 || M->col[j] >= n) {
                    ++g_bad_cols;
                    std::printf("   pressure matrix (%d x %d): row %d has an entry in column %ld\n",
                            n, (int)amgcl::backend::cols(*M), i, (long)M->col[j]);
                    continue;
                }
                D[i*n + M->col[j]] += M->val[j];
            }
        g_App = D;
    }
    template <class V1, class V2>
    void apply(const V1 &rhs, V2 &&x) const {
        std::vector<double> b(n);
        for(int i = 0; i < n; ++i) b[i] = rhs[i];
        b = dense_solve(D, b, n);
        for(int i = 0; i < n; ++i) x[i] = b[i];
    }
    std::shared_ptr<matrix> system_matrix_ptr() const { return A; }
    const matrix& system_matrix() const { return *A; }
    size_t bytes() const { return 0; }
    friend std::ostream& operator<<(std::ostream &os, const exact_precond&) { return os << "exact"; }
};

int main() {
    const int B = 2, nb = 4, n = nb * B, act = 2;  // 2 active cells + 2 inactive (well-like) block rows

    // Block (i,j), i != j:  [[-1/4, 1/8],[c, 1/8]],  diagonal blocks [[4, 1/2],[1, 4]].
    // The coupling of the active cells to the INACTIVE block columns is strong
    // in the (1,0) position (c = 16), the coupling between active cells is weak (c = 1/4).
    std::vector<double> A(n * n, 0.0);
    for(int ib = 0; ib < nb; ++ib) for(int jb = 0; jb < nb; ++jb) {
        double *o = &A[(ib*B)*n + jb*B];
        if (ib == jb) { o[0] = 4; o[1] = 0.5; o[n] = 1; o[n+1] = 4; }
        else { o[0] = -0.25; o[1] = 0.125; o[n] = (jb >= act && ib < act) ? 16 : 0.25; o[n+1] = 0.125; }
    }
    std::vector<ptrdiff_t> ptr(1, 0), col; std::vector<double> val;
    for(int i = 0; i < n; ++i) { for(int j = 0; j < n; ++j) { col.push_back(j); val.push_back(A[i*n+j]); } ptr.push_back(col.size()); }
    auto Acrs = std::tie(n, ptr, col, val);
    std::vector<double> f = {1, 2, -1, 0.5, 3, -2, 1, 1};

    int fail = 0;

    // ---- scalar input, block_size = B, active_rows = act*B -----------------
    std::vector<double> xs(n, 0.0), App_s;
    {
        typedef amgcl::preconditioner::cpr_drs<exact_precond, amgcl::preconditioner::dummy<SBackend>> CPR;
        CPR::params prm; prm.block_size = B; prm.active_rows = act * B;
        std::printf("scalar input:\n");
        CPR P(Acrs, prm);
        App_s = g_App;
        if (g_bad_cols) fail = 1;
        P.apply(f, xs);
    }
    // ---- B x B block input, active_rows = act ------------------------------
    std::vector<double> xb_(n, 0.0), App_b;
    {
        typedef amgcl::static_matrix<double, B, B> bval;
        typedef amgcl::static_matrix<double, B, 1> brhs;
        typedef amgcl::backend::builtin<bval> BBackend;
        typedef amgcl::preconditioner::cpr_drs<exact_precond, amgcl::preconditioner::dummy<BBackend>> BCPR;
        BCPR::params prm; prm.active_rows = act;
        std::printf("block input:\n");
        BCPR P(amgcl::adapter::block_matrix<bval>(Acrs), prm);
        App_b = g_App;
        if (g_bad_cols) {
            std::printf("VIOLATION (a): %d entries of the %d x %d pressure matrix have column index >= %d\n", g_bad_cols, act, act, act);
            fail = 1;
        }
        std::vector<brhs> fb(nb), xb(nb);
        for(int ib = 0; ib < nb; ++ib) for(int i = 0; i < B; ++i) { fb[ib](i) = f[ib*B+i]; xb[ib](i) = 0; }
        P.apply(fb, xb);
        for(int ib = 0; ib < nb; ++ib) for(int i = 0; i < B; ++i) xb_[ib*B+i] = xb[ib](i);
    }

    double ea = 0, ex = 0;
    for(int i = 0; i < act*act; ++i) ea = std::max(ea, std::fabs(App_s[i] - App_b[i]));
    for(int i = 0; i < n; ++i) ex = std::max(ex, std::fabs(xs[i] - xb_[i]));
    std::printf("active part of the pressure matrix, scalar vs block input: max diff %.3e\n", ea);
    std::printf("   App(0,0): scalar %.4f, block %.4f\n", App_s[0], App_b[0]);
    std::printf("apply(), scalar vs block input: max diff %.3e\n", ex);
    if (ea > 1e-12 || ex > 1e-12) {
        std::printf("VIOLATION (b): scalar and block input give different pressure matrix / action\n");
        fail = 1;
    }
    if (!fail) std::printf("OK\n");
    return fail;
}
