// g++ -std=c++17 -O1 -I. demo.cpp -o demo
// Stand-alone reproducer (package alloc2, C10): preconditioner::cpr on a matrix one of whose block rows stores no
// entry inside its diagonal block.  first_scalar_pass() calls invert(v, &fpp->val[ik]) only when the diagonal block is
// met (cur_col == ip), so fpp->val[ik..ik+B) keeps whatever the heap held; Fpp is then used by apply().
// Exit status 0 = identical for two heap fill patterns, 1 = they differ (observed on /repo 3939604: x[2] = -nan vs 0).
//   g++ -std=c++17 -O1 -I/repo notes/repro_c10_cpr_no_diag_block_uninit.cpp -o repro && ./repro
#include <new>
#include <cstdlib>
#include <cstring>
#include <cstdio>
#include <vector>
#include <tuple>
static int g_fill = 0;
void *operator new(std::size_t n) { void *p = std::malloc(n ? n : 1); if (!p) throw std::bad_alloc(); std::memset(p, g_fill, n); return p; }
void *operator new[](std::size_t n) { void *p = std::malloc(n ? n : 1); if (!p) throw std::bad_alloc(); std::memset(p, g_fill, n); return p; }
void operator delete(void *p) noexcept { std::free(p); }
void operator delete[](void *p) noexcept { std::free(p); }
void operator delete(void *p, std::size_t) noexcept { std::free(p); }
void operator delete[](void *p, std::size_t) noexcept { std::free(p); }
#include <amgcl/backend/builtin.hpp>
#include <amgcl/adapter/crs_tuple.hpp>
#include <amgcl/relaxation/as_preconditioner.hpp>
#include <amgcl/relaxation/spai0.hpp>
#include <amgcl/preconditioner/cpr.hpp>
typedef amgcl::backend::builtin<double> Backend;
typedef amgcl::relaxation::as_preconditioner<Backend, amgcl::relaxation::spai0> PSpai;
typedef amgcl::preconditioner::cpr<PSpai, PSpai> CPR;
static std::vector<double> run(int fill) {
    g_fill = fill;
    // 4x4, block size 2; block row 1 (rows 2,3) stores entries in block column 0 only
    std::vector<ptrdiff_t> ptr = {0, 2, 4, 6, 8}, col = {0, 1, 0, 1, 0, 1, 0, 1};
    std::vector<double> val = {4, -1, -1, 4, -1, -2, -3, -1}, rhs = {1, 1, 1, 1}, x(4, 0.0);
    ptrdiff_t n = 4;
    auto A = std::tie(n, ptr, col, val);
    CPR::params prm; prm.block_size = 2;
    CPR P(A, prm);
    P.apply(rhs, x);
    g_fill = 0;
    return x;
}
int main() {
    auto a = run(0x00), b = run(0x7F);
    bool same = true;
    for (int i = 0; i < 4; ++i) { std::printf("x[%d]: fill 0x00 -> %.17g   fill 0x7F -> %.17g\n", i, a[i], b[i]); if (std::memcmp(&a[i], &b[i], sizeof(double))) same = false; }
    std::printf(same ? "SAME\n" : "DIFFERENT: result depends on prior heap contents\n");
    return same ? 0 : 1;
}
