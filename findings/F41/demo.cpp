// g++ -std=c++17 -O1 -I. demo.cpp -o demo
// C16 / F41: amgcl::reorder::cuthill_mckee<rev>::get on an EMPTY (0 x 0) matrix wrote perm[0] and read levelSet[0] /
// degree[0] of empty vectors (cuthill_mckee.hpp, `perm[0] = initialNode;` ...): segmentation fault in a plain build.
// Input: a well-formed empty CRS matrix, perm.size() == rows(A) == 0 (mode 0: cuthill_mckee<false>, mode 1: cuthill_mckee<true>);
// the same call is what solver::skyline_lu, adapter::reorder and amg (an empty system is its own coarsest level) reach first.
// Property (C16): Cuthill-McKee always returns a permutation of 0..n-1 -- for n = 0 the empty permutation, without touching
// memory.  Each mode runs in a forked child; exit 0 iff every child survives and leaves a longer `perm` untouched.
// Lean: Properties/C16c.lean cmk_empty (model with the early return), cmk_total (no out-of-range access for any n).
#include <vector>
#include <iostream>
#include <cstdlib>
#include <unistd.h>
#include <sys/wait.h>
#include <amgcl/backend/builtin.hpp>
#include <amgcl/reorder/cuthill_mckee.hpp>

static int run_mode(int mode) {
    std::vector<ptrdiff_t> ptr(1, 0), col; std::vector<double> val;
    amgcl::backend::crs<double, ptrdiff_t, ptrdiff_t> A(0, 0, ptr, col, val);
    if (mode == 0 || mode == 1) {
        std::vector<ptrdiff_t> perm(amgcl::backend::rows(A));
        if (mode == 0) amgcl::reorder::cuthill_mckee<false>::get(A, perm); else amgcl::reorder::cuthill_mckee<true>::get(A, perm);
        if (!perm.empty()) return 1;
        std::vector<ptrdiff_t> longer(3, 7);      // a caller's longer vector must be left alone
        if (mode == 0) amgcl::reorder::cuthill_mckee<false>::get(A, longer); else amgcl::reorder::cuthill_mckee<true>::get(A, longer);
        for (auto v : longer) if (v != 7) return 1;
    }
    return 0;
}

int main() {
    int bad = 0;
    const char *names[] = {"cuthill_mckee<false>::get", "cuthill_mckee<true>::get"};
    for (int mode = 0; mode < 2; ++mode) {
        std::cout.flush();
        pid_t pid = fork();
        if (pid < 0) { std::cout << "fork failed" << std::endl; return 2; }
        if (pid == 0) { int rc = 3; try { rc = run_mode(mode); } catch (...) { rc = 4; } _exit(rc); }
        int st = 0; waitpid(pid, &st, 0);
        bool ok = WIFEXITED(st) && WEXITSTATUS(st) == 0;
        std::cout << names[mode] << " on a 0 x 0 matrix: ";
        if (ok) std::cout << "ok";
        else if (WIFSIGNALED(st)) std::cout << "killed by signal " << WTERMSIG(st);
        else std::cout << "failed (exit " << WEXITSTATUS(st) << ")";
        std::cout << std::endl;
        if (!ok) ++bad;
    }
    std::cout << (bad ? "VIOLATED" : "holds") << ": " << bad << " of 2 variants fail on the empty system" << std::endl;
    return bad ? 1 : 0;
}
