// MPI: 3
// C12 (subdomain deflation: the projected residual is orthogonal to the global deflation space and the result solves
// the original system): amgcl::mpi::subdomain_deflation lets every rank choose its own number of deflation vectors
// (params::num_def_vec is gathered with MPI_Allgather into dv_size[rank]).  When the remote part of A*Z is sized
// (subdomain_deflation.hpp:265-272) the row width is taken from dv_size[d] with d = Acp.domain(col), which is the
// INDEX of the neighbour in the receive list, not its rank.  As soon as the ranks use different numbers of vectors the
// rows of AZ_rem are too short (writes run into the next row and behind the array) or too long (uninitialised column
// numbers are used as indices into the coarse matrix): wrong coarse matrix E = Z^T A Z, or a crash.
// Here: 1-D Poisson, 12 unknowns on 3 ranks, 1 / 2 / 1 constant-type deflation vectors.
//   mpicxx -std=c++17 -O1 -I<amgcl root> demo.cpp && mpirun -np 3 ./a.out      (exit 0: property holds)
#include <cstdlib>
#include <cstring>
#include <new>
static unsigned char POISON = 0x7B;       // deterministic heap contents: uninitialised column numbers become huge
void* operator new[](std::size_t n) { void *p = std::malloc(n ? n : 1); if (!p) throw std::bad_alloc(); std::memset(p, POISON, n); return p; }
void  operator delete[](void *p) noexcept { std::free(p); }
void  operator delete[](void *p, std::size_t) noexcept { std::free(p); }
#include <iostream>
#include <vector>
#include <cmath>
#include <amgcl/backend/builtin.hpp>
#include <amgcl/adapter/crs_tuple.hpp>
#include <amgcl/relaxation/as_preconditioner.hpp>
#include <amgcl/relaxation/spai0.hpp>
#include <amgcl/solver/cg.hpp>
#include <amgcl/mpi/subdomain_deflation.hpp>

int main(int argc, char **argv) {
    MPI_Init(&argc, &argv);
    int bad = 0;
    {
        amgcl::mpi::communicator comm(MPI_COMM_WORLD);
        if (comm.size != 3) { if (comm.rank == 0) std::cout << "run with 3 ranks" << std::endl; MPI_Finalize(); return 2; }
        typedef amgcl::backend::builtin<double> BD;
        const int n = 12, nl = 4, rb = comm.rank * nl;
        std::vector<ptrdiff_t> ptr(1, 0), col; std::vector<double> val, f(nl, 1.0), x(nl, 0.0);
        for (int i = rb; i < rb + nl; ++i) { for (int j = i - 1; j <= i + 1; ++j) if (j >= 0 && j < n) { col.push_back(j); val.push_back(j == i ? 2.0 : -1.0); } ptr.push_back(col.size()); }
        typedef amgcl::mpi::subdomain_deflation<amgcl::relaxation::as_preconditioner<BD, amgcl::relaxation::spai0>, amgcl::solver::cg<BD, amgcl::mpi::inner_product>> SDD;
        SDD::params prm; prm.isolver.tol = 1e-12; prm.isolver.maxiter = 200;
        const unsigned ndv = comm.rank == 1 ? 2 : 1;                         // 1 / 2 / 1 vectors
        prm.num_def_vec = ndv; prm.def_vec = [](ptrdiff_t i, unsigned j) { return j == 0 ? 1.0 : (double)i; };
        SDD solve(comm, std::make_tuple((size_t)nl, ptr, col, val), prm);
        size_t iters; double resid; std::tie(iters, resid) = solve(f, x);
        // gather the solution, recompute the residual of the ORIGINAL system
        std::vector<double> X(n); MPI_Allgather(x.data(), nl, MPI_DOUBLE, X.data(), nl, MPI_DOUBLE, comm);
        double rr = 0, ff = 0; std::vector<double> res(n);
        for (int i = 0; i < n; ++i) { double s = 1.0; for (int j = i - 1; j <= i + 1; ++j) if (j >= 0 && j < n) s -= (j == i ? 2.0 : -1.0) * X[j]; res[i] = s; rr += s * s; ff += 1.0; }
        double rel = std::sqrt(rr / ff);
        if (comm.rank == 0) {
            std::cout << "iters " << iters << ", reported residual " << resid << ", true residual " << rel << std::endl;
            if (!(rel <= 1e-8)) { std::cout << "the returned x does not solve the system" << std::endl; ++bad; }
            if (!(std::fabs(rel - resid) <= 1e-8)) { std::cout << "reported residual is not the true one" << std::endl; ++bad; }
            for (int q = 0; q < 3; ++q) for (unsigned j = 0; j < (q == 1 ? 2u : 1u); ++j) { double zr = 0; for (int i = 0; i < nl; ++i) zr += (j == 0 ? 1.0 : (double)i) * res[q * nl + i]; if (!(std::fabs(zr) <= 1e-8)) { std::cout << "residual not orthogonal to deflation vector " << j << " of rank " << q << ": " << zr << std::endl; ++bad; } }
        }
    }
    MPI_Bcast(&bad, 1, MPI_INT, 0, MPI_COMM_WORLD);
    MPI_Finalize();
    if (bad) { std::cout << "VIOLATED: subdomain deflation with 1/2/1 deflation vectors per rank" << std::endl; return 1; }
    std::cout << "ok" << std::endl; return 0;
}
