// MPI: 2
// C12 / C03 (rebuild keeps every coarse level the Galerkin product and the preconditioner that of the new matrix):
// amgcl::mpi::amg::level::rebuild (mpi/amg.hpp:321-352) recomputes the coarse operators with
// C.coarse_operator(A, P, R) but -- unlike the first setup (level constructor: sort_rows(*a), amg.hpp:271) and unlike
// the serial amg::level::rebuild (amg.hpp:451 sort_rows(*A)) -- does not sort their rows.  The distributed product
// returns rows in the order of accumulation; relaxations that walk a row in column order (ilu0, and the rest of the
// ILU family / spai1 through the run-time wrapper) are then built on unsorted rows and are simply wrong.
// Here: rebuild() with the SAME matrix must give the same preconditioner; with ilu0 smoothing it does not.
//   mpicxx -std=c++17 -O1 -I<amgcl root> demo.cpp && mpirun -np 2 ./a.out      (exit 0: property holds)
#include <iostream>
#include <vector>
#include <cmath>
#include <amgcl/backend/builtin.hpp>
#include <amgcl/adapter/crs_tuple.hpp>
#include <amgcl/mpi/amg.hpp>
#include <amgcl/mpi/coarsening/aggregation.hpp>
#include <amgcl/mpi/relaxation/ilu0.hpp>
#include <amgcl/mpi/direct_solver/skyline_lu.hpp>
#include <amgcl/mpi/partition/merge.hpp>

int main(int argc, char **argv) {
    MPI_Init(&argc, &argv);
    int bad = 0;
    {
        amgcl::mpi::communicator comm(MPI_COMM_WORLD);
        typedef amgcl::backend::builtin<double> BD;
        // 5-point Laplacian on an 8 x 8 grid, rows split evenly
        const int nx = 8, n = nx * nx, rb = comm.rank * n / comm.size, re = (comm.rank + 1) * n / comm.size, nl = re - rb;
        std::vector<ptrdiff_t> ptr(1, 0), col; std::vector<double> val, f(nl), y0(nl, 0.0), y1(nl, 0.0);
        for (int k = rb; k < re; ++k) { int i = k % nx, j = k / nx;
            if (j > 0) { col.push_back(k - nx); val.push_back(-1); } if (i > 0) { col.push_back(k - 1); val.push_back(-1); }
            col.push_back(k); val.push_back(4);
            if (i + 1 < nx) { col.push_back(k + 1); val.push_back(-1); } if (j + 1 < nx) { col.push_back(k + nx); val.push_back(-1); }
            ptr.push_back(col.size()); f[k - rb] = 1.0 + (k % 3); }
        typedef amgcl::mpi::amg<BD, amgcl::mpi::coarsening::aggregation<BD>, amgcl::mpi::relaxation::ilu0<BD>, amgcl::mpi::direct::skyline_lu<double>, amgcl::mpi::partition::merge<BD>> AMG;
        AMG::params prm; prm.coarse_enough = 4; prm.allow_rebuild = true;
        AMG amg(comm, std::make_tuple((size_t)nl, ptr, col, val), prm);
        amg.apply(f, y0);
        amg.rebuild(std::make_tuple((size_t)nl, ptr, col, val));       // the same matrix
        amg.apply(f, y1);
        double d = 0, s = 0; for (int i = 0; i < nl; ++i) { d = std::max(d, std::fabs(y1[i] - y0[i])); s = std::max(s, std::fabs(y0[i])); }
        double gd = 0, gs = 0; MPI_Allreduce(&d, &gd, 1, MPI_DOUBLE, MPI_MAX, comm); MPI_Allreduce(&s, &gs, 1, MPI_DOUBLE, MPI_MAX, comm);
        if (comm.rank == 0) std::cout << "max |B_rebuilt f - B f| = " << gd << ", max |B f| = " << gs << std::endl;
        if (!(gd <= 1e-10 * gs)) ++bad;
    }
    MPI_Finalize();
    if (bad) { std::cout << "VIOLATED: mpi::amg::rebuild with the same matrix changes the preconditioner (ilu0 on unsorted coarse rows)" << std::endl; return 1; }
    std::cout << "ok" << std::endl; return 0;
}
