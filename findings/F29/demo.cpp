// C05 / F2: complex BiCGStab(L), L >= 2: the Gram matrix of the minimal-residual step is made
// symmetric instead of Hermitian, so the iterates are not the BiCGStab(L) iterates and the
// method does not reach the solution within n iterations.
#include <vector>
#include <complex>
#include <iostream>
#include <cmath>
#include <tuple>
#include <amgcl/backend/builtin.hpp>
#include <amgcl/value_type/complex.hpp>
#include <amgcl/adapter/crs_tuple.hpp>
#include <amgcl/solver/bicgstabl.hpp>

typedef std::complex<double> C;
typedef std::vector<C> V;
typedef std::vector<V> Dense;
typedef amgcl::backend::builtin<C> B;

struct Identity {
    template <class V1, class V2> void apply(const V1 &r, V2 &&x) const {
        for(size_t i = 0; i < r.size(); ++i) x[i] = r[i];
    }
};

static V matvec(const Dense &D, const V &x) {
    int n = D.size(); V y(n, C());
    for(int i = 0; i < n; ++i) for(int j = 0; j < n; ++j) y[i] += D[i][j] * x[j];
    return y;
}
static V resid(const Dense &D, const V &f, const V &x) {
    V y = matvec(D, x); for(size_t i = 0; i < y.size(); ++i) y[i] = f[i] - y[i]; return y;
}
static double nrm(const V &x) { double s = 0; for(auto &v : x) s += std::norm(v); return std::sqrt(s); }
static C dot(const V &a, const V &b) { C s = 0; for(size_t i = 0; i < a.size(); ++i) s += std::conj(a[i]) * b[i]; return s; } // a^H b
static void axpy(C a, const V &x, V &y) { for(size_t i = 0; i < x.size(); ++i) y[i] += a * x[i]; }

// Least squares min || b - sum_k g_k Q_k || by modified Gram-Schmidt QR.
static V lsq(std::vector<V> Q, V b) {
    int L = Q.size();
    std::vector<V> R(L, V(L, C()));
    for(int k = 0; k < L; ++k) {
        for(int i = 0; i < k; ++i) { R[i][k] = dot(Q[i], Q[k]); axpy(-R[i][k], Q[i], Q[k]); }
        R[k][k] = nrm(Q[k]);
        for(auto &v : Q[k]) v /= R[k][k];
    }
    V c(L), g(L);
    for(int k = 0; k < L; ++k) { c[k] = dot(Q[k], b); axpy(-c[k], Q[k], b); }
    for(int k = L; k-- > 0; ) {
        C s = c[k];
        for(int j = k + 1; j < L; ++j) s -= R[k][j] * g[j];
        g[k] = s / R[k][k];
    }
    return g;
}

// BiCGStab(L) exactly as in Sleijpen & Fokkema (1993), Algorithm 3.1, identity preconditioner,
// shadow residual = initial residual, plain minimal-residual polynomial.
static V ref_bicgstabl(const Dense &A, const V &b, V x, int L, int cycles) {
    int n = b.size();
    V rt = resid(A, b, x);
    std::vector<V> r(L + 1, V(n, C())), u(L + 1, V(n, C()));
    r[0] = rt;
    C rho0 = 1, alpha = 0, omega = 1;
    for(int c = 0; c < cycles; ++c) {
        rho0 = -omega * rho0;
        for(int j = 0; j < L; ++j) {
            C rho1 = dot(rt, r[j]);
            C beta = alpha * rho1 / rho0; rho0 = rho1;
            for(int i = 0; i <= j; ++i) for(int q = 0; q < n; ++q) u[i][q] = r[i][q] - beta * u[i][q];
            u[j+1] = matvec(A, u[j]);
            alpha = rho0 / dot(rt, u[j+1]);
            for(int i = 0; i <= j; ++i) axpy(-alpha, u[i+1], r[i]);
            r[j+1] = matvec(A, r[j]);
            axpy(alpha, u[0], x);
        }
        V g = lsq(std::vector<V>(r.begin() + 1, r.end()), r[0]);
        for(int j = 1; j <= L; ++j) axpy(g[j-1], r[j-1], x);
        V rn = r[0], un = u[0];
        for(int j = 1; j <= L; ++j) { axpy(-g[j-1], r[j], rn); axpy(-g[j-1], u[j], un); }
        r[0] = rn; u[0] = un; omega = g[L-1];
    }
    return x;
}

static unsigned long long lcg_state = 12345;
static double lcg() { // uniform in (-1,1), platform independent
    lcg_state = lcg_state * 6364136223846793005ULL + 1442695040888963407ULL;
    return ((lcg_state >> 11) * (1.0 / 9007199254740992.0)) * 2 - 1;
}

int main() {
    const int n = 8;
    // strongly diagonally dominant complex matrix (condition number < 2)
    Dense D(n, V(n));
    for(int i = 0; i < n; ++i) for(int j = 0; j < n; ++j) { double a = lcg(), b = lcg(); D[i][j] = C(a, b) + (i == j ? C(n + 1.0) : C(0)); }
    V f(n), x0(n);
    for(int i = 0; i < n; ++i) { double a = lcg(), b = lcg(), c = lcg(), d = lcg(); f[i] = C(a, b); x0[i] = C(c, d); }

    std::vector<ptrdiff_t> ptr(1, 0), col; V val;
    for(int i = 0; i < n; ++i) {
        for(int j = 0; j < n; ++j) { col.push_back(j); val.push_back(D[i][j]); }
        ptr.push_back(col.size());
    }
    B::matrix A(std::tie(n, ptr, col, val));
    Identity P;

    int bad = 0;
    const int Ls[] = {1, 2, 4};
    for(int L : Ls) {
        for(int c = 1; c * L <= n; ++c) {
            amgcl::solver::bicgstabl<B>::params prm;
            prm.L = L; prm.maxiter = c * L; prm.tol = 1e-14; // convex = true (default): plain MinRes polynomial
            amgcl::solver::bicgstabl<B> S(n, prm);
            V x = x0; size_t it; double res;
            std::tie(it, res) = S(A, P, f, x);

            V xr = ref_bicgstabl(D, f, x0, L, c);
            V d(n); for(int i = 0; i < n; ++i) d[i] = x[i] - xr[i];
            double rl = nrm(resid(D, f, x)) / nrm(f), rr = nrm(resid(D, f, xr)) / nrm(f);
            std::cout << "L=" << L << " k=" << c * L << " iters=" << it << "  lib rel.res=" << rl
                      << "  reference rel.res=" << rr << "  |x_lib - x_ref|=" << nrm(d) << std::endl;
            // deviation measured relative to the current residual level; a correct implementation gives < 1e-6 here
            if (rr > 1e-9 && nrm(d) > 1e-3 * rr) {
                std::cout << "  VIOLATION: iterate " << c * L << " is not the BiCGStab(" << L << ") iterate" << std::endl;
                ++bad;
            }
            if (c * L == n && rl > 1e-11) {
                std::cout << "  VIOLATION: solution not reached within n=" << n << " iterations (reference: " << rr << ")" << std::endl;
                ++bad;
            }
        }
    }
    return bad ? 1 : 0;
}
