// C05 / F6: every solver treats a right-hand side with |f|_2 < 2*DBL_EPSILON (an ABSOLUTE cut-off) as zero:
// it overwrites the initial guess with x = 0 and returns 0 iterations, although the (perfectly
// conditioned, merely small-scaled) system has the solution (1,1).
#include <vector>
#include <iostream>
#include <cmath>
#include <tuple>
#include <amgcl/backend/builtin.hpp>
#include <amgcl/adapter/crs_tuple.hpp>
#include <amgcl/solver/cg.hpp>
#include <amgcl/solver/bicgstab.hpp>
#include <amgcl/solver/bicgstabl.hpp>
#include <amgcl/solver/gmres.hpp>
#include <amgcl/solver/fgmres.hpp>
#include <amgcl/solver/lgmres.hpp>
#include <amgcl/solver/idrs.hpp>
#include <amgcl/solver/richardson.hpp>

typedef amgcl::backend::builtin<double> B;

struct Identity {
    template <class V1, class V2> void apply(const V1 &r, V2 &&x) const {
        for(size_t i = 0; i < r.size(); ++i) x[i] = r[i];
    }
};
// exact inverse of c*[[2,1],[1,2]]
struct ExactInverse {
    double c;
    template <class V1, class V2> void apply(const V1 &r, V2 &&x) const {
        double a = r[0], b = r[1];
        x[0] = (2*a - b) / (3*c); x[1] = (2*b - a) / (3*c);
    }
};

template <class Solver, class Precond>
int run(const char *name, double scale, const Precond &P) {
    int n = 2;
    std::vector<ptrdiff_t> ptr = {0, 2, 4}, col = {0, 1, 0, 1};
    std::vector<double> val = {2*scale, 1*scale, 1*scale, 2*scale};   // SPD, condition number 3 for every scale
    B::matrix A(std::tie(n, ptr, col, val));
    std::vector<double> f = {3*scale, 3*scale};                       // exact solution (1, 1), all data dyadic
    std::vector<double> x = {5, -7};                                  // non-zero initial guess

    typename Solver::params prm; prm.maxiter = 4;                     // n = 2: two iterations suffice
    Solver S(n, prm);
    size_t it; double res;
    std::tie(it, res) = S(A, P, f, x);
    bool ok = std::abs(x[0] - 1) < 1e-6 && std::abs(x[1] - 1) < 1e-6;
    std::cout << name << " scale=" << scale << ": iters=" << it << " returned 'residual'=" << res
              << " x=(" << x[0] << "," << x[1] << ")" << (ok ? "  ok" : "  VIOLATION: expected (1,1)") << std::endl;
    return ok ? 0 : 1;
}

int main() {
    using namespace amgcl::solver;
    int bad = 0;
    const double scales[] = {1.0, std::ldexp(1.0, -60)};   // 2^-60 = 8.7e-19, a pure power-of-two rescaling
    for(double s : scales) {
        Identity I; ExactInverse E{s};
        bad += run< cg<B>        >("cg        ", s, I);
        bad += run< bicgstab<B>  >("bicgstab  ", s, I);
        bad += run< bicgstabl<B> >("bicgstabl ", s, I);
        bad += run< gmres<B>     >("gmres     ", s, I);
        bad += run< fgmres<B>    >("fgmres    ", s, I);
        bad += run< lgmres<B>    >("lgmres    ", s, I);
        bad += run< idrs<B>      >("idrs      ", s, I);
        bad += run< richardson<B>>("richardson", s, E);   // exact preconditioner: one step
    }
    return bad ? 1 : 0;
}
