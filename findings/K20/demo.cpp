// C13 / F3: mixed precision with BLOCK values is not the same operator as with scalar values.
// A single-precision block matrix applied to a double-precision vector,
//     static_matrix<float,B,B> * static_matrix<double,B,1>,
// is evaluated and rounded in FLOAT (operator* returns the scalar type of its LEFT operand),
// whereas the scalar formulation float * double is evaluated in double.  Hence, for a matrix
// whose entries are small integers (exactly representable in float, i.e. the float and the
// double matrix are the same operator):
//   (A) the mat-vec of the float block matrix deviates from the scalar one by ~1e-8 relative
//       instead of ~1e-16 (summation-order rounding);
//   (B) a double-precision Krylov solver with a single-precision block preconditioner called as
//       solve(rhs, x) (make_solver / make_block_solver: iterates on the preconditioner's copy of
//       the system matrix) reports a relative residual < 1e-8 while the true residual of the
//       returned x is ~3e-6; the scalar mixed-precision solver on the same matrix is truthful.
//
// build: g++ -std=c++17 -O1 -I<amgcl> demo.cpp
#include <vector>
#include <tuple>
#include <cmath>
#include <cstdio>
#include <algorithm>

#include <amgcl/backend/builtin.hpp>
#include <amgcl/value_type/static_matrix.hpp>
#include <amgcl/adapter/crs_tuple.hpp>
#include <amgcl/adapter/block_matrix.hpp>
#include <amgcl/make_solver.hpp>
#include <amgcl/make_block_solver.hpp>
#include <amgcl/amg.hpp>
#include <amgcl/coarsening/smoothed_aggregation.hpp>
#include <amgcl/relaxation/spai0.hpp>
#include <amgcl/solver/bicgstab.hpp>

typedef std::vector<ptrdiff_t> ivec;
typedef std::vector<double>    dvec;

// (2D 5-point Laplacian) (x) C with C = tridiag(-1,4,-1) (3x3), zeros of C not stored
// (structurally incomplete blocks).  All entries are integers in [-16, 16].
static ptrdiff_t problem(int nx, int ny, ivec &ptr, ivec &col, dvec &val) {
    const int B = 3;
    const double C[3][3] = {{4,-1,0},{-1,4,-1},{0,-1,4}};
    ptr.assign(1, 0); col.clear(); val.clear();
    for (int j = 0; j < ny; ++j) for (int i = 0; i < nx; ++i) {
        ptrdiff_t p = (ptrdiff_t)j * nx + i;
        for (int r = 0; r < B; ++r) {
            auto blk = [&](ptrdiff_t q, double w) {
                for (int c = 0; c < B; ++c) if (C[r][c] != 0) { col.push_back(q * B + c); val.push_back(w * C[r][c]); }
            };
            if (j > 0)      blk(p - nx, -1);
            if (i > 0)      blk(p - 1,  -1);
            blk(p, 4);
            if (i + 1 < nx) blk(p + 1,  -1);
            if (j + 1 < ny) blk(p + nx, -1);
            ptr.push_back(col.size());
        }
    }
    return (ptrdiff_t)nx * ny * B;
}

static dvec mul(ptrdiff_t n, const ivec &ptr, const ivec &col, const dvec &val, const dvec &x) {
    dvec y(n);
    for (ptrdiff_t i = 0; i < n; ++i) {
        double s = 0;
        for (ptrdiff_t j = ptr[i]; j < ptr[i+1]; ++j) s += val[j] * x[col[j]];
        y[i] = s;
    }
    return y;
}

static double relerr(const dvec &a, const dvec &b) {
    double s = 0, t = 0;
    for (size_t i = 0; i < a.size(); ++i) { s += (a[i]-b[i])*(a[i]-b[i]); t += b[i]*b[i]; }
    return std::sqrt(s / t);
}

int main() {
    typedef amgcl::static_matrix<double, 3, 3> DBlock;
    typedef amgcl::static_matrix<float,  3, 3> FBlock;

    ivec ptr, col; dvec val;
    ptrdiff_t n = problem(20, 20, ptr, col, val);
    auto A = std::tie(n, ptr, col, val);

    int violations = 0;

    // ---------------- (A) operator level -------------------------------------------------
    {
        // every entry is a small integer => the float copies hold exactly the same numbers
        for (double v : val) if ((double)(float)v != v) { std::printf("setup error\n"); return 2; }

        dvec x(n); for (ptrdiff_t i = 0; i < n; ++i) x[i] = 1.0 / (i + 3);
        dvec y_ref = mul(n, ptr, col, val, x);

        amgcl::backend::crs<float>  As(A);                                        // scalar, single precision
        amgcl::backend::crs<FBlock> Ab(amgcl::adapter::block_matrix<FBlock>(A)); // block,  single precision

        dvec ys(n, 0.0), yb(n, 0.0);
        amgcl::backend::spmv(1.0, As, x, 0.0, ys);
        amgcl::backend::spmv(1.0, Ab, x, 0.0, yb);

        double es = relerr(ys, y_ref), eb = relerr(yb, y_ref);
        std::printf("(A) float matrix * double vector, relative deviation from the exact operator:\n");
        std::printf("      scalar crs<float>                 : %.3e\n", es);
        std::printf("      block  crs<static_matrix<float>>  : %.3e\n", eb);
        if (!(es < 1e-14)) { std::printf("unexpected: scalar control is off\n"); return 2; }
        if (!(eb < 1e-12)) { ++violations; std::printf("    -> block product is not the scalar operator up to summation-order rounding\n"); }
    }

    // ---------------- (B) solver level ----------------------------------------------------
    {
        dvec f(n); for (ptrdiff_t i = 0; i < n; ++i) f[i] = 1 + (i % 5);
        auto true_res = [&](const dvec &x) {
            dvec y = mul(n, ptr, col, val, x);
            double s = 0, t = 0;
            for (ptrdiff_t i = 0; i < n; ++i) { s += (f[i]-y[i])*(f[i]-y[i]); t += f[i]*f[i]; }
            return std::sqrt(s / t);
        };

        size_t it; double err;

        // control: scalar single-precision preconditioner, double-precision solver
        {
            typedef amgcl::make_solver<
                amgcl::amg<amgcl::backend::builtin<float>, amgcl::coarsening::smoothed_aggregation, amgcl::relaxation::spai0>,
                amgcl::solver::bicgstab<amgcl::backend::builtin<double>> > Solver;
            Solver::params prm; prm.precond.coarse_enough = 50; prm.precond.coarsening.aggr.block_size = 3;
            Solver solve(A, prm);
            dvec x(n, 0.0);
            std::tie(it, err) = solve(f, x);
            double tr = true_res(x);
            std::printf("(B) scalar  float precond / double solver, solve(f,x): iters=%2zu reported=%.3e true=%.3e\n", it, err, tr);
            if (!(err < 1e-8) || !(tr < 10 * err)) { std::printf("unexpected: scalar control is off\n"); return 2; }
        }
        // block wrapper: make_block_solver, single-precision block preconditioner, double-precision block solver
        {
            typedef amgcl::make_block_solver<
                amgcl::amg<amgcl::backend::builtin<FBlock>, amgcl::coarsening::smoothed_aggregation, amgcl::relaxation::spai0>,
                amgcl::solver::bicgstab<amgcl::backend::builtin<DBlock>> > Solver;
            Solver::params prm; prm.precond.coarse_enough = 50;
            Solver solve(A, prm);
            dvec x(n, 0.0);
            std::tie(it, err) = solve(f, x);
            double tr = true_res(x);
            std::printf("    block   make_block_solver<float|double>,   solve(f,x): iters=%2zu reported=%.3e true=%.3e\n", it, err, tr);
            if (err < 1e-8 && !(tr < 1e-7)) { ++violations; std::printf("    -> reported residual is below 1e-8, true residual of the scalar system is %.1e\n", tr); }
        }
        // block value type directly: make_solver on adapter::block_matrix
        {
            typedef amgcl::make_solver<
                amgcl::amg<amgcl::backend::builtin<FBlock>, amgcl::coarsening::smoothed_aggregation, amgcl::relaxation::spai0>,
                amgcl::solver::bicgstab<amgcl::backend::builtin<DBlock>> > Solver;
            Solver::params prm; prm.precond.coarse_enough = 50;
            Solver solve(amgcl::adapter::block_matrix<DBlock>(A), prm);
            dvec x(n, 0.0);
            auto F = amgcl::backend::reinterpret_as_rhs<DBlock>(f);
            auto X = amgcl::backend::reinterpret_as_rhs<DBlock>(x);
            std::tie(it, err) = solve(F, X);
            double tr = true_res(x);
            std::printf("    block   make_solver<float|double>,         solve(F,X): iters=%2zu reported=%.3e true=%.3e\n", it, err, tr);
            if (err < 1e-8 && !(tr < 1e-7)) { ++violations; std::printf("    -> reported residual is below 1e-8, true residual of the scalar system is %.1e\n", tr); }
        }
    }

    if (violations) {
        std::printf("VIOLATION (%d checks): single-precision block matrix times double vector is rounded to float\n", violations);
        return 1;
    }
    std::printf("property holds\n");
    return 0;
}
