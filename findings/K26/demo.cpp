// g++ -std=c++17 -O1 -I. -I/usr/include/eigen3 demo.cpp -o demo
// reproducer: adapter/eigen.hpp accepts a COLUMN-major Eigen::SparseMatrix (Eigen's default storage order) and silently reads a
// different operator: row_begin(A, i) is InnerIterator(A, i), which walks COLUMN i of a column-major matrix and reports col() == i
#include <iostream>
#include <vector>
#include <Eigen/SparseCore>
#include <amgcl/backend/builtin.hpp>
#include <amgcl/adapter/eigen.hpp>
int main() {
    typedef Eigen::Triplet<double> T; std::vector<T> t = { T(0, 0, 1), T(0, 1, 2), T(1, 1, 3) };      // A = [1 2; 0 3]
    Eigen::SparseMatrix<double, Eigen::RowMajor> Ar(2, 2); Ar.setFromTriplets(t.begin(), t.end());
    Eigen::SparseMatrix<double> Ac(2, 2); Ac.setFromTriplets(t.begin(), t.end());                      // default: ColMajor
    amgcl::backend::crs<double> Br(Ar), Bc(Ac);
    auto show = [](const char *n, const amgcl::backend::crs<double> &B) { std::cout << n << ":"; for (size_t i = 0; i < B.nrows; ++i) for (auto j = B.ptr[i]; j < B.ptr[i+1]; ++j) std::cout << " (" << i << "," << B.col[j] << ")=" << B.val[j]; std::cout << "\n"; };
    show("row-major", Br); show("col-major", Bc);
    std::vector<double> x = {1, 1}, yr(2), yc(2); amgcl::backend::spmv(1.0, Br, x, 0.0, yr); amgcl::backend::spmv(1.0, Bc, x, 0.0, yc);
    std::cout << "A*[1 1]: row-major " << yr[0] << " " << yr[1] << "   col-major " << yc[0] << " " << yc[1] << "  (expected 3 3)\n";
    return (yc[0] == 3 && yc[1] == 3) ? 0 : 1;
}
