// C01 / F2: every iterative solver treats a right-hand side with ||f|| < 2*machine_eps (an ABSOLUTE
// threshold: 4.4e-16 in double, 2.4e-7 in float) as "zero": it overwrites x with 0 -- even when the
// caller's initial guess was already the exact solution -- and returns (0, ||f||). The returned
// "residual" is far below the requested tolerance although the true relative residual
// ||f - A x|| / ||f|| of the returned x is exactly 1.
//
// build: g++ -std=c++17 -O1 -I<amgcl root> demo.cpp
#include <iostream>
#include <vector>
#include <tuple>
#include <cmath>
#include <string>

#include <amgcl/backend/builtin.hpp>
#include <amgcl/make_solver.hpp>
#include <amgcl/amg.hpp>
#include <amgcl/coarsening/smoothed_aggregation.hpp>
#include <amgcl/relaxation/spai0.hpp>
#include <amgcl/solver/cg.hpp>
#include <amgcl/solver/bicgstab.hpp>
#include <amgcl/solver/bicgstabl.hpp>
#include <amgcl/solver/gmres.hpp>
#include <amgcl/solver/fgmres.hpp>
#include <amgcl/solver/lgmres.hpp>
#include <amgcl/solver/idrs.hpp>
#include <amgcl/solver/richardson.hpp>
#include <amgcl/adapter/crs_tuple.hpp>

int bad = 0;

// 2D Poisson on an n x n grid, entries 4 / -1 (exactly representable), scaled rhs.
template <class T, class IterSolver>
void check(const std::string &name, int n, T scale, bool exact_guess) {
    typedef amgcl::backend::builtin<T> B;
    typedef amgcl::make_solver<
        amgcl::amg<B, amgcl::coarsening::smoothed_aggregation, amgcl::relaxation::spai0>,
        IterSolver> Solver;

    std::vector<ptrdiff_t> ptr, col; std::vector<T> val;
    ptr.push_back(0);
    for(int j = 0; j < n; ++j) for(int i = 0; i < n; ++i) {
        int id = j * n + i;
        if (j > 0)   { col.push_back(id - n); val.push_back(-1); }
        if (i > 0)   { col.push_back(id - 1); val.push_back(-1); }
        col.push_back(id); val.push_back(4);
        if (i < n-1) { col.push_back(id + 1); val.push_back(-1); }
        if (j < n-1) { col.push_back(id + n); val.push_back(-1); }
        ptr.push_back(col.size());
    }
    size_t N = size_t(n) * n;

    // exact solution xs = scale * (1, 2, 1, 2, ...), f = A xs computed exactly (small integers * scale)
    std::vector<T> xs(N), f(N), x(N);
    for(size_t i = 0; i < N; ++i) xs[i] = scale * T(1 + i % 2);
    for(size_t i = 0; i < N; ++i) {
        T s = 0;
        for(ptrdiff_t k = ptr[i]; k < ptr[i+1]; ++k) s += val[k] * xs[col[k]];
        f[i] = s;
    }
    for(size_t i = 0; i < N; ++i) x[i] = exact_guess ? xs[i] : T(0);

    typename Solver::params prm;
    prm.precond.coarse_enough = 50;
    Solver solve(std::tie(N, ptr, col, val), prm);

    size_t it; T res;
    std::tie(it, res) = solve(f, x);

    double nr = 0, nf = 0;
    for(size_t i = 0; i < N; ++i) {
        double s = f[i];
        for(ptrdiff_t k = ptr[i]; k < ptr[i+1]; ++k) s -= double(val[k]) * double(x[col[k]]);
        nr += s * s; nf += double(f[i]) * double(f[i]);
    }
    double tr = std::sqrt(nr / nf);

    // truthful means: returned ~ true relative residual. Allow three orders of magnitude of slack
    // (and a rounding floor), the observed discrepancy is 7 (float) to 19 (double) orders.
    double floor_ = (sizeof(T) == 4 ? 1e-4 : 1e-10);
    bool ok = tr <= 1e3 * std::max(double(res), floor_);
    std::cout << name << (sizeof(T) == 4 ? " float " : " double")
              << (exact_guess ? " x0=exact" : " x0=0    ")
              << " ||f||=" << std::sqrt(nf) << " iters=" << it << " returned=" << res
              << " true_rel_res=" << tr << (ok ? "" : "   <-- VIOLATION") << std::endl;
    if (!ok) ++bad;
}

template <class T>
void all(int n, T scale, bool exact_guess) {
    typedef amgcl::backend::builtin<T> B;
    check<T, amgcl::solver::cg<B>        >("cg        ", n, scale, exact_guess);
    check<T, amgcl::solver::bicgstab<B>  >("bicgstab  ", n, scale, exact_guess);
    check<T, amgcl::solver::bicgstabl<B> >("bicgstabl ", n, scale, exact_guess);
    check<T, amgcl::solver::gmres<B>     >("gmres     ", n, scale, exact_guess);
    check<T, amgcl::solver::fgmres<B>    >("fgmres    ", n, scale, exact_guess);
    check<T, amgcl::solver::lgmres<B>    >("lgmres    ", n, scale, exact_guess);
    check<T, amgcl::solver::idrs<B>      >("idrs      ", n, scale, exact_guess);
    check<T, amgcl::solver::richardson<B>>("richardson", n, scale, exact_guess);
}

int main() {
    // control: the same problem with an O(1) right-hand side is solved truthfully
    all<double>(16, 1.0, false);
    // double: rhs scaled by 2^-70 (~8.5e-22): perfectly representable, system perfectly well conditioned
    all<double>(16, std::ldexp(1.0, -70), false);
    all<double>(16, std::ldexp(1.0, -70), true);
    // float: rhs scaled by 2^-30 (~9.3e-10), ||f|| ~ 5e-8 -- an entirely ordinary magnitude
    all<float>(16, std::ldexp(1.0f, -30), false);
    all<float>(16, std::ldexp(1.0f, -30), true);

    if (bad) std::cout << bad << " violations: the returned residual is not the relative residual of the returned x (which is 0, true relative residual 1)" << std::endl;
    return bad ? 1 : 0;
}
