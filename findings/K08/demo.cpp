// g++ -std=c++17 -O1 -I/tmp/mut/C18 demo.cpp -o demo
//
// C18 / CPR: "the pressure matrix [is] equal to the first-row-of-inverse-
// diagonal-block weighting of A".
//
// cpr::invert() LU-factorises the (transposed) diagonal block WITHOUT pivoting.
// For a perfectly conditioned diagonal block whose (0,0) entry is tiny (or
// zero) the computed "first row of the inverse" is wrong by O(1), so Fpp, the
// pressure matrix App = Fpp*A*Scatter and the action of the preconditioner
// are wrong.  All data below are dyadic, the reference is exact up to 1 ulp.
//
//   D = [ e 1 ]   e = 2^-60      D^-1 = 1/(e-1) [  1 -1 ]    first row ~ (-1, 1),  cond(D) ~ 2.6
//       [ 1 1 ]                                 [ -1  e ]
//
// cpr computes the weights (0, 1) instead.  (With e == 0 exactly the block is
// still invertible, first row (-1,1); cpr then trips assert(!is_zero(d)) or,
// with -DNDEBUG, produces NaN.)
#include <vector>
#include <cmath>
#include <cstdio>
#include <memory>
#include <algorithm>

#include <amgcl/backend/builtin.hpp>
#include <amgcl/value_type/static_matrix.hpp>
#include <amgcl/adapter/crs_tuple.hpp>
#include <amgcl/adapter/block_matrix.hpp>
#include <amgcl/preconditioner/dummy.hpp>
#include <amgcl/preconditioner/cpr.hpp>

typedef amgcl::backend::builtin<double> SBackend;

static std::vector<double> dense_solve(std::vector<double> A, std::vector<double> b, int n) {
    for(int k = 0; k < n; ++k) {
        int p = k;
        for(int i = k + 1; i < n; ++i) if (std::fabs(A[i*n+k]) > std::fabs(A[p*n+k])) p = i;
        if (p != k) { for(int j = 0; j < n; ++j) std::swap(A[k*n+j], A[p*n+j]); std::swap(b[k], b[p]); }
        for(int i = k + 1; i < n; ++i) {
            double m = A[i*n+k] / A[k*n+k];
            for(int j = k; j < n; ++j) A[i*n+j] -= m * A[k*n+j];
            b[i] -= m * b[k];
        }
    }
    for(int i = n; i --> 0; ) {
        for(int j = i + 1; j < n; ++j) b[i] -= A[i*n+j] * b[j];
        b[i] /= A[i*n+i];
    }
    return b;
}

// Pressure "preconditioner": exact dense solve; also publishes the pressure
// matrix it was given so that it can be compared with the reference.
static double amax(double a, double d) { return (std::isnan(d) || d > a) ? d : a; } // NaN-propagating max
static std::vector<double> g_App;
struct exact_precond {
    typedef SBackend backend_type;
    typedef SBackend::matrix matrix;
    typedef SBackend::vector vector;
    typedef double value_type;
    typedef amgcl::backend::builtin<double>::matrix build_matrix;
    typedef amgcl::detail::empty_params params;
    typedef SBackend::params backend_params;

    std::shared_ptr<matrix> A; int n; std::vector<double> D;

    exact_precond(std::shared_ptr<build_matrix> M, const params& = params(), const backend_params& = backend_params())
        : A(M), n(amgcl::backend::rows(*M)), D(n * n, 0.0)
    {
        for(int i = 0; i < n; ++i)
            for(ptrdiff_t j = M->ptr[i]; j < M->ptr[i+1]; ++j)
                D[i*n + M->col[j]] += M->val[j];
        g_App = D;
    }
    template <class V1, class V2>
    void apply(const V1 &rhs, V2 &&x) const {
        std::vector<double> b(n);
        for(int i = 0; i < n; ++i) b[i] = rhs[i];
        b = dense_solve(D, b, n);
        for(int i = 0; i < n; ++i) x[i] = b[i];
    }
    std::shared_ptr<matrix> system_matrix_ptr() const { return A; }
    const matrix& system_matrix() const { return *A; }
    size_t bytes() const { return 0; }
    friend std::ostream& operator<<(std::ostream &os, const exact_precond&) { return os << "exact"; }
};

int main() {
    const int B = 2, nb = 3, n = nb * B;
    const double e = std::ldexp(1.0, -60);

    // Block tridiagonal system, every block stored densely.
    std::vector<double> A(n * n, 0.0);
    for(int ib = 0; ib < nb; ++ib) {
        double *d = &A[(ib*B)*n + ib*B];
        d[0] = e; d[1] = 1; d[n] = 1; d[n+1] = 1;          // diagonal block D
        for(int jb = 0; jb < nb; ++jb) {
            if (std::abs(ib - jb) != 1) continue;
            double *o = &A[(ib*B)*n + jb*B];
            o[0] = 0.5; o[1] = 0.25; o[n] = 0.125; o[n+1] = 0.25;
        }
    }
    std::vector<ptrdiff_t> ptr(1, 0), col; std::vector<double> val;
    for(int i = 0; i < n; ++i) {
        for(int j = 0; j < n; ++j) if (std::abs(i/B - j/B) <= 1) { col.push_back(j); val.push_back(A[i*n+j]); }
        ptr.push_back(col.size());
    }
    std::vector<double> f = {1, 2, -1, 0.5, 3, -2};

    // ---- reference ---------------------------------------------------------
    std::vector<double> W(nb * n, 0.0);
    for(int ib = 0; ib < nb; ++ib) {
        std::vector<double> Dt(B*B), u(B, 0.0);
        for(int i = 0; i < B; ++i) for(int j = 0; j < B; ++j) Dt[j*B+i] = A[(ib*B+i)*n + ib*B+j];
        u[0] = 1; u = dense_solve(Dt, u, B);        // first row of inv(D)  (pivoted)
        for(int i = 0; i < B; ++i) W[ib*n + ib*B+i] = u[i];
    }
    std::vector<double> App(nb * nb, 0.0);
    for(int ib = 0; ib < nb; ++ib) for(int jb = 0; jb < nb; ++jb) for(int k = 0; k < n; ++k)
        App[ib*nb+jb] += W[ib*n+k] * A[k*n + jb*B];
    std::vector<double> r(n), rp(nb, 0.0), xref(f);
    for(int i = 0; i < n; ++i) { double s = f[i]; for(int j = 0; j < n; ++j) s -= A[i*n+j]*f[j]; r[i] = s; }
    for(int ib = 0; ib < nb; ++ib) for(int k = 0; k < n; ++k) rp[ib] += W[ib*n+k]*r[k];
    rp = dense_solve(App, rp, nb);
    for(int ib = 0; ib < nb; ++ib) xref[ib*B] += rp[ib];

    int fail = 0;

    // ---- cpr, scalar input -------------------------------------------------
    {
        typedef amgcl::preconditioner::cpr<exact_precond, amgcl::preconditioner::dummy<SBackend>> CPR;
        CPR::params prm; prm.block_size = B;
        CPR P(std::tie(n, ptr, col, val), prm);
        double ea = 0; for(int i = 0; i < nb*nb; ++i) ea = amax(ea, std::fabs(g_App[i] - App[i]));
        std::vector<double> x(n, 0.0); P.apply(f, x);
        double ex = 0; for(int i = 0; i < n; ++i) ex = amax(ex, std::fabs(x[i] - xref[i]));
        std::printf("scalar input: max|App - App_ref| = %.3e   max|x - x_ref| = %.3e\n", ea, ex);
        std::printf("   App(0,1): cpr %.6f  reference %.6f\n", g_App[1], App[1]);
        if (!(ea < 1e-10) || !(ex < 1e-10)) fail = 1;
    }
    // ---- cpr, block input --------------------------------------------------
    {
        typedef amgcl::static_matrix<double, B, B> bval;
        typedef amgcl::static_matrix<double, B, 1> brhs;
        typedef amgcl::backend::builtin<bval> BBackend;
        typedef amgcl::preconditioner::cpr<exact_precond, amgcl::preconditioner::dummy<BBackend>> BCPR;
        BCPR P(amgcl::adapter::block_matrix<bval>(std::tie(n, ptr, col, val)));
        double ea = 0; for(int i = 0; i < nb*nb; ++i) ea = amax(ea, std::fabs(g_App[i] - App[i]));
        std::vector<brhs> fb(nb), xb(nb);
        for(int ib = 0; ib < nb; ++ib) for(int i = 0; i < B; ++i) { fb[ib](i) = f[ib*B+i]; xb[ib](i) = 0; }
        P.apply(fb, xb);
        double ex = 0; for(int ib = 0; ib < nb; ++ib) for(int i = 0; i < B; ++i) ex = amax(ex, std::fabs(xb[ib](i) - xref[ib*B+i]));
        std::printf("block  input: max|App - App_ref| = %.3e   max|x - x_ref| = %.3e\n", ea, ex);
        if (!(ea < 1e-10) || !(ex < 1e-10)) fail = 1;
    }

    if (fail) std::printf("VIOLATION: CPR pressure matrix is not the first-row-of-inverse-diagonal-block weighting of A\n");
    else std::printf("OK\n");
    return fail;
}
