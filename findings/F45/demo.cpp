// g++ -std=c++17 -O1 -I. demo.cpp -o demo
// C10 ("no ... leak of owned arrays") / C17 ("zero-copy variants never copy or free user memory"): copy assignment INTO a
// non-owning crs (adapter::zero_copy view) allocates new arrays but leaves own_data = false, so nobody ever frees them.
#include <amgcl/backend/builtin.hpp>
#include <amgcl/adapter/zero_copy.hpp>
#include <vector>
#include <cstdio>
#include <cstdlib>
static long live = 0;
void* operator new[](size_t n) { ++live; void *p = malloc(n ? n : 1); if (!p) abort(); return p; }
void operator delete[](void *p) noexcept { if (p) { --live; free(p); } }
void operator delete[](void *p, size_t) noexcept { if (p) { --live; free(p); } }
int main() {
    typedef amgcl::backend::crs<double, ptrdiff_t, ptrdiff_t> M;
    std::vector<ptrdiff_t> ptr = {0, 2, 4}, col = {0, 1, 0, 1}; std::vector<double> val = {2, -1, -1, 2};
    std::vector<ptrdiff_t> ptr2 = {0, 1, 2}, col2 = {0, 1}; std::vector<double> val2 = {5, 7};
    long before = live;
    {
        auto Z = amgcl::adapter::zero_copy(size_t(2), size_t(2), ptr.data(), col.data(), val.data());
        auto B = amgcl::adapter::zero_copy(size_t(2), size_t(2), ptr2.data(), col2.data(), val2.data());
        *Z = *B;                       // refresh the view's contents by copy assignment
        if (Z->val[0] != 5 || Z->val[1] != 7) { printf("FAIL: assignment did not copy\n"); return 1; }
        if (val[0] != 2 || val[3] != 2 || ptr[2] != 4) { printf("FAIL: user arrays were overwritten\n"); return 1; }
    }
    if (live != before) { printf("FAIL: %ld arrays allocated by crs::operator= were never freed (leak of owned arrays)\n", live - before); return 1; }
    printf("OK\n"); return 0;
}
