// FLAGS: -I/usr/include/eigen3
// C13 / F1: Eigen block value type treats every block whose entries are all <= 1e-12 in
// magnitude as "zero" (math::is_zero -> Eigen::isZero() with its default ABSOLUTE
// tolerance), so a perfectly conditioned block system that is merely scaled by a power of
// two cannot be solved with Eigen blocks ("Zero pivot in ILU" / "Zero diagonal in
// skyline_lu"), while the scalar formulation and the static_matrix formulation of the very
// same matrix solve it with identical iteration counts.
//
// build: g++ -std=c++17 -O1 -I<amgcl> -I/usr/include/eigen3 demo.cpp
#include <vector>
#include <tuple>
#include <cmath>
#include <cstdio>
#include <string>

#include <amgcl/backend/builtin.hpp>
#include <amgcl/value_type/static_matrix.hpp>
#include <amgcl/value_type/eigen.hpp>
#include <amgcl/adapter/crs_tuple.hpp>
#include <amgcl/adapter/block_matrix.hpp>
#include <amgcl/make_solver.hpp>
#include <amgcl/amg.hpp>
#include <amgcl/coarsening/smoothed_aggregation.hpp>
#include <amgcl/relaxation/spai0.hpp>
#include <amgcl/relaxation/ilu0.hpp>
#include <amgcl/solver/bicgstab.hpp>

typedef std::vector<ptrdiff_t> ivec;
typedef std::vector<double>    dvec;

// Kronecker-type matrix  (2D 5-point Laplacian on nx x ny grid) (x) C,  C = [[4,-1],[-1,4]],
// every entry multiplied by `scale`.
static ptrdiff_t kron_problem(int nx, int ny, double scale, ivec &ptr, ivec &col, dvec &val) {
    const int B = 2;
    const double C[2][2] = {{4, -1}, {-1, 4}};
    ptr.assign(1, 0); col.clear(); val.clear();
    for (int j = 0; j < ny; ++j) for (int i = 0; i < nx; ++i) {
        ptrdiff_t p = (ptrdiff_t)j * nx + i;
        for (int r = 0; r < B; ++r) {
            auto blk = [&](ptrdiff_t q, double w) {
                for (int c = 0; c < B; ++c) { col.push_back(q * B + c); val.push_back(scale * w * C[r][c]); }
            };
            if (j > 0)      blk(p - nx, -1);
            if (i > 0)      blk(p - 1,  -1);
            blk(p, 4);
            if (i + 1 < nx) blk(p + 1,  -1);
            if (j + 1 < ny) blk(p + nx, -1);
            ptr.push_back(col.size());
        }
    }
    return (ptrdiff_t)nx * ny * B;
}

static double true_relres(ptrdiff_t n, const ivec &ptr, const ivec &col, const dvec &val,
        const dvec &f, const dvec &x) {
    double s = 0, nf = 0;
    for (ptrdiff_t i = 0; i < n; ++i) {
        double r = f[i];
        for (ptrdiff_t j = ptr[i]; j < ptr[i+1]; ++j) r -= val[j] * x[col[j]];
        s += r * r; nf += f[i] * f[i];
    }
    return std::sqrt(s / nf);
}

struct result { bool ok; size_t iters; double reported, truth; std::string what; };

template <class Block, template <class> class Relax>
result solve_block(double scale) {
    ivec ptr, col; dvec val;
    ptrdiff_t n = kron_problem(16, 16, scale, ptr, col, val);
    dvec f(n), x(n, 0.0);
    for (ptrdiff_t i = 0; i < n; ++i) f[i] = 1 + (i % 5);

    typedef amgcl::backend::builtin<Block> Backend;
    typedef amgcl::make_solver<
        amgcl::amg<Backend, amgcl::coarsening::smoothed_aggregation, Relax>,
        amgcl::solver::bicgstab<Backend> > Solver;
    typename Solver::params prm;
    prm.precond.coarse_enough = 50;

    result r = {false, 0, -1, -1, ""};
    try {
        auto A = std::tie(n, ptr, col, val);
        Solver solve(amgcl::adapter::block_matrix<Block>(A), prm);
        auto F = amgcl::backend::reinterpret_as_rhs<Block>(f);
        auto X = amgcl::backend::reinterpret_as_rhs<Block>(x);
        std::tie(r.iters, r.reported) = solve(F, X);
        r.truth = true_relres(n, ptr, col, val, f, x);
        r.ok = (r.reported < 1e-8) && (r.truth < 1e-7);
    } catch (const std::exception &e) {
        r.what = e.what();
    }
    return r;
}

static void show(const char *name, const result &r) {
    if (r.what.empty())
        std::printf("  %-26s iters=%2zu reported=%.3e true=%.3e %s\n", name, r.iters, r.reported, r.truth, r.ok ? "ok" : "FAILED");
    else
        std::printf("  %-26s EXCEPTION: %s\n", name, r.what.c_str());
}

int main() {
    typedef amgcl::static_matrix<double, 2, 2> SM;
    typedef Eigen::Matrix<double, 2, 2>        EM;

    int violations = 0;
    // scale = 1 is the control; 2^-44 ~ 5.7e-14 only changes the exponent of every entry,
    // the problem (and every floating point operation on it) is otherwise identical.
    for (double scale : {1.0, std::ldexp(1.0, -44)}) {
        std::printf("scale = %g\n", scale);
        result s0 = solve_block<SM, amgcl::relaxation::spai0>(scale);
        result e0 = solve_block<EM, amgcl::relaxation::spai0>(scale);
        result s1 = solve_block<SM, amgcl::relaxation::ilu0 >(scale);
        result e1 = solve_block<EM, amgcl::relaxation::ilu0 >(scale);
        show("static_matrix / spai0", s0);
        show("Eigen::Matrix / spai0", e0);
        show("static_matrix / ilu0",  s1);
        show("Eigen::Matrix / ilu0",  e1);
        if (s0.ok && !e0.ok) ++violations;
        if (s1.ok && !e1.ok) ++violations;
        if (!s0.ok || !s1.ok) { std::printf("unexpected: static_matrix reference failed\n"); return 2; }
    }

    // The root cause in isolation:
    EM tiny = EM::Identity() * 1e-13;
    SM tiny_sm = amgcl::math::identity<SM>(); tiny_sm *= 1e-13;
    bool ez = amgcl::math::is_zero(tiny), sz = amgcl::math::is_zero(tiny_sm);
    std::printf("is_zero(1e-13 * I): Eigen=%d static_matrix=%d\n", (int)ez, (int)sz);
    if (ez != sz) ++violations;

    if (violations) {
        std::printf("VIOLATION: the Eigen block formulation fails on a system the static_matrix formulation solves (%d mismatches)\n", violations);
        return 1;
    }
    std::printf("property holds\n");
    return 0;
}
