// C05 / F3: IDR(s) with more shadow vectors than unknowns (s > n): the constructor normalises a
// shadow vector that Gram-Schmidt has reduced to exactly zero -> NaN solution.
#include <vector>
#include <iostream>
#include <cmath>
#include <tuple>
#include <amgcl/backend/builtin.hpp>
#include <amgcl/adapter/crs_tuple.hpp>
#include <amgcl/solver/idrs.hpp>

struct Identity {
    template <class V1, class V2> void apply(const V1 &r, V2 &&x) const {
        for(size_t i = 0; i < r.size(); ++i) x[i] = r[i];
    }
};

template <class T>
int run(int n, int s /* <0: library default */) {
    typedef amgcl::backend::builtin<T> B;
    // tridiagonal (-1, 4, 1): well conditioned, non-symmetric for n >= 2
    std::vector<ptrdiff_t> ptr(1, 0), col; std::vector<T> val;
    for(int i = 0; i < n; ++i) {
        if (i)       { col.push_back(i-1); val.push_back(-1); }
                       col.push_back(i);   val.push_back( 4);
        if (i+1 < n) { col.push_back(i+1); val.push_back( 1); }
        ptr.push_back(col.size());
    }
    typename B::matrix A(std::tie(n, ptr, col, val));
    std::vector<T> f(n, 1), x(n, 0);

    typename amgcl::solver::idrs<B>::params prm;
    if (s > 0) prm.s = s;
    prm.maxiter = n + n / prm.s;
    amgcl::solver::idrs<B> S(n, prm);
    Identity P;
    size_t it; T res;
    std::tie(it, res) = S(A, P, f, x);

    // true residual
    double rn = 0, fn = 0;
    for(int i = 0; i < n; ++i) {
        double r = f[i];
        for(ptrdiff_t j = ptr[i]; j < ptr[i+1]; ++j) r -= double(val[j]) * double(x[col[j]]);
        rn += r * r; fn += double(f[i]) * double(f[i]);
    }
    double rel = std::sqrt(rn / fn);
    bool ok = rel < 1e-4; // false for NaN
    std::cout << (sizeof(T) == 4 ? "float " : "double") << " n=" << n << " s=" << prm.s << " maxiter=" << prm.maxiter
              << ": iters=" << it << " returned res=" << res << " x[0]=" << x[0] << " true rel.res=" << rel
              << (ok ? "  ok" : "  VIOLATION: not the solution within n + n/s iterations") << std::endl;
    return ok ? 0 : 1;
}

int main() {
    int bad = 0;
    bad += run<double>(2, 8);   // s = 8 (upper end of the quantified range), 2 x 2 system
    bad += run<double>(1, -1);  // default parameters (s = 4), 1 x 1 system
    bad += run<float >(2, -1);  // default parameters (s = 4), 2 x 2 system, single precision
    // controls: same systems with s <= n are solved
    bad += run<double>(2, 2);
    bad += run<double>(1, 1);
    bad += run<float >(2, 2);
    return bad ? 1 : 0;
}
