// MPI: 1
// C12 / C10 (no undefined behaviour for every rank count >= 1): amgcl::mpi::subdomain_deflation::init
// waits for the exchange of the deflation vectors with
//     MPI_Waitall(Acp.recv.req.size(), &Acp.recv.req[0], ...);  MPI_Waitall(Acp.send.req.size(), &Acp.send.req[0], ...);
// (subdomain_deflation.hpp:325-326).  A rank without neighbours (always with one rank; a decoupled subdomain) has EMPTY
// request vectors: operator[](0) on an empty std::vector is undefined behaviour (UBSan: reference binding to null
// pointer; -D_GLIBCXX_ASSERTIONS aborts).  Same class as the repaired F16 (pmis.hpp / solver_base.hpp).
// The demo is compiled without sanitizers, so it defines _GLIBCXX_ASSERTIONS itself: the library assertion aborts.
//   mpicxx -std=c++17 -O1 -I<amgcl root> demo.cpp && mpirun -np 1 ./a.out      (exit 0: property holds)
#define _GLIBCXX_ASSERTIONS 1
#include <iostream>
#include <vector>
#include <cmath>
#include <amgcl/backend/builtin.hpp>
#include <amgcl/adapter/crs_tuple.hpp>
#include <amgcl/relaxation/as_preconditioner.hpp>
#include <amgcl/relaxation/spai0.hpp>
#include <amgcl/solver/cg.hpp>
#include <amgcl/mpi/subdomain_deflation.hpp>

int main(int argc, char **argv) {
    MPI_Init(&argc, &argv);
    int bad = 0;
    {
        amgcl::mpi::communicator comm(MPI_COMM_WORLD);
        typedef amgcl::backend::builtin<double> BD;
        // every rank owns a decoupled 4 x 4 Poisson block: no rank has a neighbour
        const int nl = 4, rb = comm.rank * nl; std::vector<ptrdiff_t> ptr(1, 0), col; std::vector<double> val, f(nl, 1.0), x(nl, 0.0);
        for (int i = 0; i < nl; ++i) { for (int j = i - 1; j <= i + 1; ++j) if (j >= 0 && j < nl) { col.push_back(rb + j); val.push_back(j == i ? 2.0 : -1.0); } ptr.push_back(col.size()); }
        typedef amgcl::mpi::subdomain_deflation<amgcl::relaxation::as_preconditioner<BD, amgcl::relaxation::spai0>, amgcl::solver::cg<BD, amgcl::mpi::inner_product>> SDD;
        SDD::params prm; prm.isolver.tol = 1e-12; prm.num_def_vec = 1; prm.def_vec = [](ptrdiff_t, unsigned) { return 1.0; };
        SDD solve(comm, std::make_tuple((size_t)nl, ptr, col, val), prm);      // aborts here while the defect exists
        size_t iters; double resid; std::tie(iters, resid) = solve(f, x);
        if (!(resid <= 1e-8)) ++bad;
        if (comm.rank == 0) std::cout << "iters " << iters << " resid " << resid << std::endl;
    }
    MPI_Finalize();
    if (bad) { std::cout << "VIOLATED" << std::endl; return 1; }
    std::cout << "ok" << std::endl; return 0;
}
