// C02 / F4: with relaxation::damped_jacobi (fixed damping 0.72) the AMG cycle is NOT a
// contraction and B is indefinite for SPD M-matrices when the coarse-level operators have
// lambda_max(D^-1 A_l) > 2/0.72 = 2.78. This happens
//   A) smoothed_aggr_emin, 7-point Poisson 6x6x6, W-cycle (ncycle=2), npre=npost=1:
//      level 2 has lambda_max(D^-1 A) = 3.72, rho(I - B A) = 5.5
//   B) smoothed_aggregation with aggr.block_size=3, 5-point Poisson 9x9 with a_y = 1/8,
//      plain V(1,1)-cycle: level 1 has lambda_max(D^-1 A) = 3.65, rho(I - B A) = 1.41
//   C) smoothed_aggr_emin with aggr.block_size=2, 1D Poisson n=290, V(2,2): rho = 1.23
// The demo runs the stationary iteration e <- e - B A e (i.e. x <- x + B (f - A x) with
// f = 0) from a fixed start vector and reports the growth of the energy norm, an estimate
// of rho, and the sign of w^T B w for w = A e (negative => B is not positive definite).
//
// build: g++ -std=c++17 -O1 -I<amgcl root> demo.cpp
#include <vector>
#include <map>
#include <cmath>
#include <cstdio>
#include <tuple>

#include <amgcl/backend/builtin.hpp>
#include <amgcl/adapter/crs_tuple.hpp>
#include <amgcl/amg.hpp>
#include <amgcl/coarsening/smoothed_aggr_emin.hpp>
#include <amgcl/coarsening/smoothed_aggregation.hpp>
#include <amgcl/relaxation/damped_jacobi.hpp>
#include <amgcl/relaxation/spai0.hpp>

struct CRS { int n; std::vector<ptrdiff_t> ptr, col; std::vector<double> val; };
static void edge(std::vector<std::map<int,double>> &r, int i, int j, double w) {
    r[i][j] -= w; r[j][i] -= w; r[i][i] += w; r[j][j] += w;
}
static CRS assemble(int n, const std::vector<std::map<int,double>> &rows) {
    CRS A; A.n = n; A.ptr.push_back(0);
    for (int i = 0; i < n; ++i) {
        for (auto &kv : rows[i]) { A.col.push_back(kv.first); A.val.push_back(kv.second); }
        A.ptr.push_back(A.col.size());
    }
    return A;
}
// Dirichlet Poisson on an nx x ny x nz grid with coefficients ax, ay, az
static CRS poisson(int nx, int ny, int nz, double ax, double ay, double az) {
    int n = nx * ny * nz; std::vector<std::map<int,double>> r(n);
    for (int k = 0; k < nz; ++k) for (int j = 0; j < ny; ++j) for (int i = 0; i < nx; ++i) {
        int id = (k * ny + j) * nx + i;
        r[id][id] += 0;
        if (i + 1 < nx) edge(r, id, id + 1, ax);
        if (j + 1 < ny) edge(r, id, id + nx, ay);
        if (k + 1 < nz) edge(r, id, id + nx * ny, az);
        if (nx > 1) r[id][id] += ax * ((i == 0) + (i == nx - 1));
        if (ny > 1) r[id][id] += ay * ((j == 0) + (j == ny - 1));
        if (nz > 1) r[id][id] += az * ((k == 0) + (k == nz - 1));
    }
    return assemble(n, r);
}
static std::vector<double> mul(const CRS &A, const std::vector<double> &x) {
    std::vector<double> y(A.n, 0.0);
    for (int i = 0; i < A.n; ++i) for (auto j = A.ptr[i]; j < A.ptr[i+1]; ++j) y[i] += A.val[j] * x[A.col[j]];
    return y;
}
static double dot(const std::vector<double> &a, const std::vector<double> &b) {
    double s = 0; for (size_t i = 0; i < a.size(); ++i) s += a[i] * b[i]; return s;
}

template <class AMG>
static int run(const char *name, const CRS &A, const typename AMG::params &prm, int iters) {
    AMG amg(std::tie(A.n, A.ptr, A.col, A.val), prm);
    int n = A.n;
    std::vector<double> e(n), Be(n);
    for (int i = 0; i < n; ++i) e[i] = ((i * 7919) % 13) - 6.0 + 0.5;   // fixed start vector
    double e0 = std::sqrt(dot(e, mul(A, e))), prev = e0, rate = 0, wBw = 0;
    for (int it = 0; it < iters; ++it) {
        std::vector<double> w = mul(A, e);
        amg.apply(w, Be);
        wBw = dot(w, Be);
        for (int i = 0; i < n; ++i) e[i] -= Be[i];
        double en = std::sqrt(dot(e, mul(A, e)));
        rate = en / prev; prev = en;
        if (en > 1e100 * e0) break;
    }
    printf("%-58s ||e_k||_A/||e_0||_A = %-10.3g last ratio (~rho) = %-8.4g w^T B w = %.3g\n", name, prev / e0, rate, wBw);
    return !(prev < e0) || !(wBw > 0);
}

int main() {
    typedef amgcl::backend::builtin<double> Backend;
    typedef amgcl::amg<Backend, amgcl::coarsening::smoothed_aggr_emin,   amgcl::relaxation::damped_jacobi> EminJ;
    typedef amgcl::amg<Backend, amgcl::coarsening::smoothed_aggregation, amgcl::relaxation::damped_jacobi> SaJ;
    typedef amgcl::amg<Backend, amgcl::coarsening::smoothed_aggr_emin,   amgcl::relaxation::spai0>         EminS;
    typedef amgcl::amg<Backend, amgcl::coarsening::smoothed_aggregation, amgcl::relaxation::spai0>         SaS;
    int bad = 0, ctl = 0;

    CRS A = poisson(6, 6, 6, 1, 1, 1);
    { EminJ::params p; p.coarse_enough = 6; p.ncycle = 2; bad += run<EminJ>("A  emin, damped_jacobi, W(1,1), Poisson 6^3", A, p, 60); }
    { EminS::params p; p.coarse_enough = 6; p.ncycle = 2; ctl += run<EminS>("A' emin, spai0 (control), W(1,1), Poisson 6^3", A, p, 60); }

    CRS B = poisson(9, 9, 1, 1, 1.0 / 8, 0);
    { SaJ::params p; p.coarse_enough = 6; p.coarsening.aggr.block_size = 3; bad += run<SaJ>("B  SA block_size=3, damped_jacobi, V(1,1), aniso 9x9", B, p, 120); }
    { SaS::params p; p.coarse_enough = 6; p.coarsening.aggr.block_size = 3; ctl += run<SaS>("B' SA block_size=3, spai0 (control), V(1,1), aniso 9x9", B, p, 120); }

    CRS C = poisson(290, 1, 1, 1, 0, 0);
    { EminJ::params p; p.coarse_enough = 6; p.coarsening.aggr.block_size = 2; p.npre = p.npost = 2; bad += run<EminJ>("C  emin block_size=2, damped_jacobi, V(2,2), 1D n=290", C, p, 400); }

    if (ctl) { printf("control failed?!\n"); return 2; }
    if (bad) { printf("VIOLATION: the stationary iteration diverges / B is indefinite in %d of 3 damped_jacobi configurations\n", bad); return 1; }
    printf("OK\n");
    return 0;
}
