// C06 / F1: SPAI-0 with complex values is not the least-squares minimiser of ||I - M A||_F
// (the numerator uses a_ii instead of conj(a_ii)).
// Build: g++ -std=c++17 -O1 -I<amgcl root> demo.cpp
#include <iostream>
#include <complex>
#include <vector>
#include <cmath>
#include <amgcl/backend/builtin.hpp>
#include <amgcl/value_type/complex.hpp>
#include <amgcl/relaxation/spai0.hpp>

typedef std::complex<double> C;
typedef amgcl::backend::builtin<C> Backend;

static int check(const char *name, int n,
        const std::vector<ptrdiff_t> &ptr, const std::vector<ptrdiff_t> &col, const std::vector<C> &val,
        bool exact_inverse_fits)
{
    int bad = 0;
    Backend::matrix A(n, n, ptr, col, val);
    amgcl::relaxation::spai0<Backend> S(A, amgcl::relaxation::spai0<Backend>::params(), Backend::params());

    // Recover the diagonal M through the public interface: apply(A, e_i, x) returns x = M e_i.
    std::vector<C> M(n);
    for(int i = 0; i < n; ++i) {
        amgcl::backend::numa_vector<C> e(n), x(n);
        e[i] = C(1, 0);
        S.apply(A, e, x);
        M[i] = x[i];
    }

    for(int i = 0; i < n; ++i) {
        // Row i of (I - M A) is e_i^T - m_i a_i^T; minimiser over the single complex number m_i:
        //   m_i = conj(a_ii) / sum_j |a_ij|^2
        double den = 0; C aii = 0;
        for(ptrdiff_t j = ptr[i]; j < ptr[i+1]; ++j) {
            den += std::norm(val[j]);
            if (col[j] == i) aii = val[j];
        }
        C opt = std::conj(aii) / den;

        auto res2 = [&](C m) {
            double r = 0;
            for(ptrdiff_t j = ptr[i]; j < ptr[i+1]; ++j)
                r += std::norm(C(col[j] == i ? 1.0 : 0.0) - m * val[j]);
            return r;
        };

        double r_lib = res2(M[i]), r_opt = res2(opt), r_zero = res2(C(0));
        if (std::abs(M[i] - opt) > 1e-12 || r_lib > r_opt + 1e-12) {
            ++bad;
            std::cout << name << ": row " << i << ": library m_i = " << M[i]
                      << ", least-squares minimiser = " << opt
                      << "; ||e_i - m_i a_i||^2 = " << r_lib << " (library) vs " << r_opt
                      << " (minimiser) vs " << r_zero << " (M = 0)" << std::endl;
        }
    }

    if (exact_inverse_fits) {
        // A is diagonal: the minimiser is A^-1, so one sweep from x = 0 must return the exact solution.
        amgcl::backend::numa_vector<C> f(n), x(n), t(n), xs(n);
        for(int i = 0; i < n; ++i) { xs[i] = C(1 + i, 2 - i); f[i] = val[ptr[i]] * xs[i]; x[i] = 0; }
        S.apply_pre(A, f, x, t);
        for(int i = 0; i < n; ++i) {
            if (std::abs(x[i] - xs[i]) > 1e-12) {
                ++bad;
                std::cout << name << ": diagonal A, one sweep from 0: x[" << i << "] = " << x[i]
                          << ", exact solution " << xs[i] << std::endl;
            }
        }
    }
    return bad;
}

int main() {
    int bad = 0;

    // (a) complex diagonal matrix diag(i, 2i, 1+i): the exact inverse is diagonal.
    bad += check("diag(i,2i,1+i)", 3, {0,1,2,3}, {0,1,2}, {C(0,1), C(0,2), C(1,1)}, true);

    // (b) 2x2 complex matrix [[i, 1],[1, 2+2i]]
    bad += check("[[i,1],[1,2+2i]]", 2, {0,2,4}, {0,1,0,1}, {C(0,1), C(1,0), C(1,0), C(2,2)}, false);

    // (c) control: real-valued entries stored as complex must pass
    int ctrl = check("control (real entries)", 2, {0,2,4}, {0,1,0,1}, {C(4,0), C(1,0), C(-1,0), C(3,0)}, false);
    if (ctrl) { std::cout << "control failed - demo is broken" << std::endl; return 2; }

    if (bad) {
        std::cout << "VIOLATED: SPAI-0 is not the least-squares minimiser for complex matrices (" << bad << " mismatches)" << std::endl;
        return 1;
    }
    std::cout << "OK" << std::endl;
    return 0;
}
