// C15 / F3: bicgstab with check_after = true destroys an initial guess that
// already satisfies the tolerance; an exact initial guess comes back as NaN.
//
// Clause: "an initial guess that already satisfies the tolerance is returned
// unchanged in zero iterations".
#include <iostream>
#include <vector>
#include <cmath>
#include <amgcl/backend/builtin.hpp>
#include <amgcl/adapter/crs_tuple.hpp>
#include <amgcl/make_solver.hpp>
#include <amgcl/preconditioner/dummy.hpp>
#include <amgcl/relaxation/spai0.hpp>
#include <amgcl/relaxation/as_preconditioner.hpp>
#include <amgcl/solver/bicgstab.hpp>

typedef amgcl::backend::builtin<double> Backend;

template <class Precond>
int run(const char *pname, bool check_after) {
    typedef amgcl::make_solver<Precond, amgcl::solver::bicgstab<Backend> > Solver;

    // 1D Laplacian with integer entries, exact integer solution.
    const int n = 8;
    std::vector<ptrdiff_t> ptr{0}, col; std::vector<double> val;
    for(int i = 0; i < n; ++i) {
        if (i > 0)     { col.push_back(i-1); val.push_back(-1); }
        col.push_back(i); val.push_back(2);
        if (i < n - 1) { col.push_back(i+1); val.push_back(-1); }
        ptr.push_back(col.size());
    }
    std::vector<double> xe(n), b(n, 0.0);
    for(int i = 0; i < n; ++i) xe[i] = 1 + (i * 3) % 7;
    for(int i = 0; i < n; ++i)
        for(auto j = ptr[i]; j < ptr[i+1]; ++j) b[i] += val[j] * xe[col[j]];

    typename Solver::params prm;
    prm.solver.check_after = check_after;
    prm.solver.tol = 1e-8;

    Solver S(std::tie(n, ptr, col, val), prm);

    int bad = 0;
    for(int pass = 0; pass < 2; ++pass) {
        // pass 0: exact guess (residual is exactly zero);
        // pass 1: guess with relative residual ~1e-12 << tol
        std::vector<double> x0 = xe;
        if (pass == 1) x0[3] += 1e-11;
        std::vector<double> x = x0;
        size_t iters; double res;
        std::tie(iters, res) = S(b, x);

        bool nan = false, changed = false;
        for(int i = 0; i < n; ++i) {
            if (std::isnan(x[i])) nan = true;
            if (!(x[i] == x0[i])) changed = true;
        }
        std::cout << pname << " check_after=" << check_after
                  << (pass == 0 ? " exact guess:      " : " converged guess:  ")
                  << "iters=" << iters << " res=" << res
                  << " x[0]=" << x[0] << (nan ? "  <-- NaN" : "")
                  << (changed ? "  <-- x changed" : "") << std::endl;
        // Only the exact guess decides the exit code: there the forced iteration
        // divides 0 by 0 and the (exact) solution handed in is lost.  The second
        // pass is informational (check_after is documented to force an iteration).
        if (pass == 0 && (iters != 0 || changed || nan)) bad = 1;
        if (pass == 1 && !check_after && (iters != 0 || changed)) bad = 1;
    }
    return bad;
}

int main() {
    int bad = 0;
    // reference: default parameters honour the clause
    if (run< amgcl::preconditioner::dummy<Backend> >("dummy", false)) {
        std::cout << "unexpected: default bicgstab violates the clause" << std::endl;
        bad = 1;
    }
    if (run< amgcl::preconditioner::dummy<Backend> >("dummy", true)) bad = 1;
    if (run< amgcl::relaxation::as_preconditioner<Backend, amgcl::relaxation::spai0> >("spai0", true)) bad = 1;
    if (bad) std::cout << "VIOLATION: an exact initial guess was not returned unchanged in zero iterations (it became NaN)" << std::endl;
    return bad;
}
