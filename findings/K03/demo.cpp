// C04 / F1: coarsening A (x) I_b with block_size b is NOT the lifted coarsening of A
// when the diagonal of A has entries of both signs (pointwise_matrix takes |.| of every entry).
#include <iostream>
#include <vector>
#include <memory>
#include <amgcl/backend/builtin.hpp>
#include <amgcl/coarsening/plain_aggregates.hpp>
#include <amgcl/coarsening/pointwise_aggregates.hpp>

typedef amgcl::backend::crs<double, ptrdiff_t, ptrdiff_t> CRS;

static std::shared_ptr<CRS> from_dense(int n, const std::vector<double> &a) {
    auto A = std::make_shared<CRS>();
    A->set_size(n, n, true);
    for (int i = 0; i < n; ++i) for (int j = 0; j < n; ++j) if (a[i*n+j] != 0) ++A->ptr[i+1];
    A->set_nonzeros(A->scan_row_sizes());
    for (int i = 0; i < n; ++i) { ptrdiff_t h = A->ptr[i];
        for (int j = 0; j < n; ++j) if (a[i*n+j] != 0) { A->col[h] = j; A->val[h] = a[i*n+j]; ++h; } }
    return A;
}

int main() {
    using namespace amgcl::coarsening;
    const int n = 3, b = 2;
    // symmetric, indefinite (saddle-point like) 3x3 matrix, all entries dyadic
    std::vector<double> a = {
        1.0,     0.0625,  0.0,
        0.0625, -1.0,     1.0,
        0.0,     1.0,     1.0 };
    auto A = from_dense(n, a);

    // A (x) I_b
    const int N = n*b;
    std::vector<double> ab(N*N, 0.0);
    for (int i = 0; i < n; ++i) for (int j = 0; j < n; ++j) for (int k = 0; k < b; ++k)
        ab[(i*b+k)*N + (j*b+k)] = a[i*n+j];
    auto AB = from_dense(N, ab);

    plain_aggregates::params sp;              // default eps_strong = 0.08
    plain_aggregates sa(*A, sp);

    pointwise_aggregates::params bp;          // default eps_strong = 0.08
    bp.block_size = b;
    pointwise_aggregates ba(*AB, bp, 0);

    int bad = 0;
    std::cout << "scalar count=" << sa.count << "  block count=" << ba.count << " (expected " << sa.count*b << ")\n";
    if (ba.count != sa.count * b) ++bad;
    for (int i = 0; i < n; ++i) for (int k = 0; k < b; ++k) {
        ptrdiff_t want = sa.id[i] < 0 ? -1 : sa.id[i]*b + k;
        ptrdiff_t got  = ba.id[i*b+k] < 0 ? -1 : ba.id[i*b+k];
        std::cout << "  node " << i << " comp " << k << ": lifted id " << want << ", block id " << got << "\n";
        if (want != got) ++bad;
    }
    // strong connections
    for (int i = 0; i < n; ++i) for (ptrdiff_t j = A->ptr[i]; j < A->ptr[i+1]; ++j) {
        int c = A->col[j];
        for (int k = 0; k < b; ++k) { int r = i*b+k;
            for (ptrdiff_t jj = AB->ptr[r]; jj < AB->ptr[r+1]; ++jj) if (AB->col[jj] == c*b+k)
                if ((bool)ba.strong_connection[jj] != (bool)sa.strong_connection[j]) {
                    std::cout << "  strong(" << i << "," << c << ") scalar=" << (int)sa.strong_connection[j]
                              << " block=" << (int)ba.strong_connection[jj] << "\n";
                    ++bad;
                }
        }
    }
    if (bad) { std::cout << "VIOLATION: block coarsening of A(x)I_b differs from lifted coarsening of A (" << bad << " mismatches)\n"; return 1; }
    std::cout << "ok\n";
    return 0;
}
