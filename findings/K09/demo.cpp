// C03 / F1: with near-nullspace vectors the level sizes do not strictly decrease
// (the hierarchy stalls at a level with nullspace.cols unknowns and keeps
// stacking levels of the same size).
//
// build: g++ -std=c++17 -O1 -I<amgcl root> demo.cpp
#define AMGCL_VERIF
#include <vector>
#include <iostream>
#include <cmath>
#include <amgcl/backend/builtin.hpp>
#include <amgcl/amg.hpp>
#include <amgcl/coarsening/smoothed_aggregation.hpp>
#include <amgcl/relaxation/spai0.hpp>
#include <amgcl/adapter/crs_tuple.hpp>

namespace amgcl_verif { struct access {
    template <class AMG> static auto& levels(AMG &a) { return a.levels; }
}; }

int main() {
    typedef amgcl::backend::builtin<double> Backend;
    typedef amgcl::amg<Backend, amgcl::coarsening::smoothed_aggregation, amgcl::relaxation::spai0> AMG;

    // 1D Poisson, n = 50
    const int n = 50;
    std::vector<ptrdiff_t> ptr(1, 0), col; std::vector<double> val;
    for (int i = 0; i < n; ++i) {
        if (i)         { col.push_back(i-1); val.push_back(-1); }
                         col.push_back(i);   val.push_back( 2);
        if (i + 1 < n) { col.push_back(i+1); val.push_back(-1); }
        ptr.push_back(col.size());
    }

    AMG::params prm;
    prm.coarse_enough = 1;      // smaller than nullspace.cols
    prm.max_levels    = 20;     // only to keep the demo short; without it 171 levels are built
    // two near-nullspace vectors: constant and linear
    prm.coarsening.nullspace.cols = 2;
    prm.coarsening.nullspace.B.resize(n * 2);
    for (int i = 0; i < n; ++i) {
        prm.coarsening.nullspace.B[2*i + 0] = 1.0;
        prm.coarsening.nullspace.B[2*i + 1] = (double)i / n;
    }

    AMG amg(std::tie(n, ptr, col, val), prm);
    auto &L = amgcl_verif::access::levels(amg);

    std::vector<size_t> sizes;
    for (auto &l : L) sizes.push_back(l.rows());

    std::cout << "level sizes:";
    for (size_t s : sizes) std::cout << " " << s;
    std::cout << std::endl;

    int bad = 0;
    size_t li = 0;
    for (auto it = L.begin(); it != L.end(); ++it, ++li) {
        if (li && sizes[li] >= sizes[li-1]) {
            std::cout << "VIOLATION: level " << li << " has " << sizes[li]
                      << " unknowns, level " << li-1 << " has " << sizes[li-1]
                      << " (sizes must strictly decrease)";
            auto pv = it; --pv;
            if (pv->P) std::cout << "; P on level " << li-1 << " is "
                                 << pv->P->nrows << "x" << pv->P->ncols;
            std::cout << std::endl;
            ++bad;
        }
    }
    if (bad) {
        std::cout << bad << " non-decreasing level transitions" << std::endl;
        return 1;
    }
    std::cout << "OK: level sizes strictly decrease" << std::endl;
    return 0;
}
