// C08 / F2: power-method spectral radius estimate is NaN for nilpotent matrices (incl. the zero matrix)
// (g++ -std=c++17 -O1 -I<amgcl root> demo.cpp)
#include <cmath>
#include <vector>
#include <iostream>
#include <amgcl/backend/builtin.hpp>

typedef amgcl::backend::crs<double> matrix;

static int check(const char *name, const matrix &A, int iters, double sigma_max) {
    double r = amgcl::backend::spectral_radius<false>(A, iters);
    bool ok = std::isfinite(r) && r <= sigma_max * (1 + 1e-12);
    std::cout << name << ": power_iters=" << iters << " estimate=" << r << " sigma_max=" << sigma_max
              << (ok ? "  ok" : "  VIOLATED") << std::endl;
    return ok ? 0 : 1;
}

int main() {
    int bad = 0;

    {   // 1x1 matrix with an empty row (the zero matrix), sigma_max = 0
        std::vector<ptrdiff_t> ptr = {0, 0}, col; std::vector<double> val;
        matrix A(1, 1, ptr, col, val);
        bad += check("1x1 empty     ", A, 1, 0.0);
        bad += check("1x1 empty     ", A, 2, 0.0);
    }
    {   // 3x3 matrix with all rows empty
        std::vector<ptrdiff_t> ptr = {0, 0, 0, 0}, col; std::vector<double> val;
        matrix A(3, 3, ptr, col, val);
        bad += check("3x3 empty     ", A, 5, 0.0);
    }
    {   // [[0 1],[0 0]]: strictly upper triangular, sigma_max = 1, rho = 0
        std::vector<ptrdiff_t> ptr = {0, 1, 1}, col = {1}; std::vector<double> val = {1};
        matrix A(2, 2, ptr, col, val);
        bad += check("[[0 1],[0 0]] ", A, 2, 1.0);
        bad += check("[[0 1],[0 0]] ", A, 3, 1.0);
        bad += check("[[0 1],[0 0]] ", A, 10, 1.0);
    }
    {   // 3x3 strictly lower triangular, all values 1: sigma_max < 2 (Frobenius norm sqrt(3))
        std::vector<ptrdiff_t> ptr = {0, 0, 1, 3}, col = {0, 0, 1}; std::vector<double> val = {1, 1, 1};
        matrix A(3, 3, ptr, col, val);
        bad += check("3x3 strict low", A, 4, std::sqrt(3.0));
    }

    if (bad) { std::cout << "VIOLATED in " << bad << " cases" << std::endl; return 1; }
    return 0;
}
