// MPI: 1
// C12 (distributed aggregation with near-null space: the tentative prolongation has orthonormal columns, every coarse
// operator is R A P of a full-rank P): amgcl::mpi::coarsening::pmis keeps aggregates that have FEWER unknowns than
// near-null-space vectors (d < nullspace.cols).  The d x cols block of B of such an aggregate has at most d independent
// columns, so the cols - d trailing columns of its block of P_tent are ZERO: P_tent^T P_tent != I and the Galerkin
// operator R A P has zero rows and columns (a singular coarse matrix; the next level's near-null space has zero rows).
// The serial coarsening drops such aggregates (pointwise_aggregates::remove_small_aggregates, min_aggregate =
// nullspace.cols); the distributed code has no counterpart, and with several ranks one- and two-point aggregates
// arise whenever a seed's neighbours are taken by an aggregate of another rank.  One rank suffices to show it:
// two unknowns coupled only to each other and three vectors.
//   mpicxx -std=c++17 -O1 -I<amgcl root> demo.cpp && mpirun -np 1 ./a.out      (exit 0: property holds)
#include <iostream>
#include <vector>
#include <cmath>
#include <amgcl/backend/builtin.hpp>
#include <amgcl/adapter/crs_tuple.hpp>
#include <amgcl/mpi/distributed_matrix.hpp>
#include <amgcl/mpi/coarsening/aggregation.hpp>

int main(int argc, char **argv) {
    MPI_Init(&argc, &argv);
    int bad = 0;
    {
        amgcl::mpi::communicator comm(MPI_COMM_WORLD);
        typedef amgcl::backend::builtin<double> BD;
        // rank 0: a pair {0,1} and a chain {2,3,4,5}; 3 near-null-space vectors (1, x, x^2)
        const int n = 6; std::vector<ptrdiff_t> ptr(1, 0), col; std::vector<double> val;
        auto row = [&](std::initializer_list<std::pair<int,double>> e) { for (auto &cv : e) { col.push_back(cv.first); val.push_back(cv.second); } ptr.push_back(col.size()); };
        size_t nl = comm.rank == 0 ? n : 0;
        if (comm.rank == 0) { row({{0,2},{1,-1}}); row({{0,-1},{1,2}}); row({{2,2},{3,-1}}); row({{2,-1},{3,2},{4,-1}}); row({{3,-1},{4,2},{5,-1}}); row({{4,-1},{5,2}}); }
        amgcl::mpi::distributed_matrix<BD> A(comm, std::make_tuple(nl, ptr, col, val), nl);
        typedef amgcl::mpi::coarsening::aggregation<BD> C; C::params prm; prm.over_interp = 1.0f; prm.aggr.nullspace.cols = 3;
        for (size_t i = 0; i < nl; ++i) { prm.aggr.nullspace.B.push_back(1.0); prm.aggr.nullspace.B.push_back((double)i); prm.aggr.nullspace.B.push_back((double)(i * i)); }
        C c(prm); auto PR = c.transfer_operators(A); auto Ac = c.coarse_operator(A, *std::get<0>(PR), *std::get<1>(PR));
        const auto &P = *std::get<0>(PR)->local(); const auto &G = *Ac->local();
        if (comm.rank == 0) {
            std::cout << "P_tent: " << P.nrows << " x " << P.ncols << ", coarse operator " << G.nrows << " x " << G.ncols << std::endl;
            std::vector<double> cn(P.ncols, 0.0); for (size_t i = 0; i < P.nrows; ++i) for (auto j = P.ptr[i]; j < P.ptr[i+1]; ++j) cn[P.col[j]] += P.val[j] * P.val[j];
            for (size_t k = 0; k < cn.size(); ++k) if (std::fabs(cn[k] - 1.0) > 1e-12) { std::cout << "column " << k << " of P_tent has squared norm " << cn[k] << " (expected 1)" << std::endl; ++bad; }
            for (size_t i = 0; i < G.nrows; ++i) { double s = 0; for (auto j = G.ptr[i]; j < G.ptr[i+1]; ++j) s += std::fabs(G.val[j]); if (s == 0) { std::cout << "row " << i << " of the coarse operator is zero" << std::endl; ++bad; } }
        }
    }
    MPI_Bcast(&bad, 1, MPI_INT, 0, MPI_COMM_WORLD);
    MPI_Finalize();
    if (bad) { std::cout << "VIOLATED: an aggregate with fewer unknowns than nullspace.cols makes the distributed P_tent rank deficient" << std::endl; return 1; }
    std::cout << "ok" << std::endl; return 0;
}
