// MPI: 1
// C12 / C10 (distributed aggregation with near-null space: B_coarse is a function of the input, no memory errors):
// amgcl::mpi::coarsening::pmis::tentative_prolongation (pmis.hpp:898-902) factorizes the d x null_cols block of B of
// every aggregate and then copies R(r,c) for r, c < null_cols into B_coarse.  When an aggregate has FEWER unknowns
// than near-null-space vectors (d < null_cols: an isolated pair with 3 vectors, a one-point aggregate left behind
// when neighbours on another rank take its members, ...) the rows r >= d of R do not exist: QR::R(r,c) reads
// r[r + c*d] behind the end of the d*null_cols buffer (heap-buffer-overflow under ASan) and B_coarse -- the
// near-null space handed to the next level -- holds whatever the heap contained.  The serial coarsening never gets
// there: pointwise_aggregates::remove_small_aggregates drops aggregates with fewer unknowns than nullspace.cols.
// To make the stray read deterministic every allocation is padded and filled with a poison byte.
//   mpicxx -std=c++17 -O1 -I<amgcl root> demo.cpp && mpirun -np 1 ./a.out
#include <cstdlib>
#include <cstring>
#include <new>
static unsigned char POISON = 0xAB;
void* operator new(std::size_t n) { void *p = std::malloc(n + 64); if (!p) throw std::bad_alloc(); std::memset(p, POISON, n + 64); return p; }
void  operator delete(void *p) noexcept { std::free(p); }
void  operator delete(void *p, std::size_t) noexcept { std::free(p); }
#include <iostream>
#include <vector>
#include <cmath>
#include <amgcl/backend/builtin.hpp>
#include <amgcl/adapter/crs_tuple.hpp>
#include <amgcl/mpi/distributed_matrix.hpp>
#include <amgcl/mpi/coarsening/pmis.hpp>

typedef amgcl::backend::builtin<double> BD;
static std::vector<double> coarse_B(amgcl::mpi::communicator comm, unsigned char poison) {
    POISON = poison;
    // two unknowns coupled only to each other -> ONE aggregate with d = 2 unknowns; 3 near-null-space vectors
    std::vector<ptrdiff_t> ptr = {0, 2, 4}, col = {0, 1, 0, 1}; std::vector<double> val = {2, -1, -1, 2};
    size_t nloc = comm.rank == 0 ? 2 : 0; if (!nloc) { ptr.assign(1, 0); col.clear(); val.clear(); }
    amgcl::mpi::distributed_matrix<BD> A(comm, std::make_tuple(nloc, ptr, col, val), nloc);
    amgcl::mpi::coarsening::pmis<BD>::params prm; prm.nullspace.cols = 3;
    const double B[] = { 1, 0, 1,   1, 1, 2 };           // rows (1, x, x^2 + 1) at x = 0, 1
    prm.nullspace.B.assign(B, B + 3 * nloc);
    amgcl::mpi::coarsening::pmis<BD> aggr(A, prm);
    return prm.nullspace.B;                               // swapped with B_coarse (3 x 3 per aggregate) by the constructor
}
int main(int argc, char **argv) {
    MPI_Init(&argc, &argv);
    int bad = 0;
    {
        amgcl::mpi::communicator comm(MPI_COMM_WORLD);
        std::vector<double> b1 = coarse_B(comm, 0xAB), b2 = coarse_B(comm, 0x3F);
        if (comm.rank == 0) {
            std::cout << "B_coarse (run 1):"; for (double v : b1) std::cout << " " << v; std::cout << std::endl;
            std::cout << "B_coarse (run 2):"; for (double v : b2) std::cout << " " << v; std::cout << std::endl;
            if (b1.size() != 9 || b2.size() != 9) ++bad;
            for (size_t k = 0; k < b1.size() && k < b2.size(); ++k)
                if (std::memcmp(&b1[k], &b2[k], sizeof(double)) != 0 || !std::isfinite(b1[k])) { std::cout << "B_coarse[" << k / 3 << "][" << k % 3 << "] depends on heap contents: " << b1[k] << " vs " << b2[k] << std::endl; ++bad; }
            // R of a 2 x 3 matrix has 2 rows: the third row of the 3 x 3 block can only be zero
            for (size_t k = 6; k < b1.size(); ++k) if (b1[k] != 0.0) { std::cout << "B_coarse[2][" << k % 3 << "] = " << b1[k] << " (row 2 of R does not exist: expected 0)" << std::endl; ++bad; }
        }
    }
    MPI_Bcast(&bad, 1, MPI_INT, 0, MPI_COMM_WORLD);
    MPI_Finalize();
    if (bad) { std::cout << "VIOLATED: B_coarse of an aggregate smaller than nullspace.cols is read from behind the QR buffer" << std::endl; return 1; }
    std::cout << "ok" << std::endl; return 0;
}
