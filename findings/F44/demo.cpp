// g++ -std=c++17 -O1 -fopenmp -I. demo.cpp -o demo
// C09 (thread-count independence: "for a fixed input, setup and solution give the same answer for every OpenMP thread
// count ... every interleaving of the threads yields the serial sweep's result"):
// relaxation::gauss_seidel::parallel_sweep (amgcl/relaxation/gauss_seidel.hpp) and
// relaxation::detail::ilu_solve<builtin>::sptr_solve (amgcl/relaxation/detail/ilu_solve.hpp) split the rows of every level
// over nthreads = omp_get_max_threads() (value at construction) thread-specific task lists, and the constructor (steps 3, 4)
// as well as sweep()/solve() run `#pragma omp parallel { int tid = omp_get_thread_num(); ... tasks[tid] ... }`, i.e. they
// ASSUME that every parallel region is executed by exactly nthreads threads.  OpenMP does not promise that:
//   (a) object built and used inside an application `#pragma omp parallel num_threads(2)` region (nested parallelism off,
//       the default): omp_get_max_threads() is 8, every inner team has ONE thread -> only the rows of tasks[0] are copied
//       and swept, 7/8 of the unknowns are silently never relaxed;
//   (b) built with 8 threads, applied after omp_set_num_threads(4) (also OMP_DYNAMIC, OMP_THREAD_LIMIT, a loaded
//       machine): the rows owned by threads 4..7 are never updated;
//   (c) built with 4 threads, applied after omp_set_num_threads(8): threads 4..7 index tasks[tid], ptr[tid], ... past
//       the end of the vectors (heap-buffer-overflow under -fsanitize=address; garbage task lists, mismatched barrier
//       counts -> crash or dead-lock otherwise).  (c) is undefined behaviour, so it runs in a forked child with a
//       10 s alarm, BEFORE the parent creates any OpenMP team; skip it with `./demo --no-oob`.
// No error is reported in any of these cases.  gauss_seidel is compared bit for bit with the serial sweep (the level
// schedule performs exactly the row updates of the serial sweep, no rounding difference); ilu0 with the serial
// triangular solves up to 1e-12 (summation order inside a row differs).
// Fix: repo_patches/fix_level_schedule_team_size.patch — every thread of the ACTUAL team serves the thread-specific
// storage tid, tid + team, tid + 2 team, ... (team = omp_get_num_threads()); surplus threads only join the barriers.
// Exit 0 iff the property holds in (a), (b), (c) for both relaxations.
#include <vector>
#include <iostream>
#include <cmath>
#include <cstring>
#include <tuple>
#include <memory>
#include <omp.h>
#include <unistd.h>
#include <sys/wait.h>
#include <amgcl/backend/builtin.hpp>
#include <amgcl/adapter/crs_tuple.hpp>
#include <amgcl/relaxation/gauss_seidel.hpp>
#include <amgcl/relaxation/ilu0.hpp>

typedef amgcl::backend::builtin<double> Backend;
typedef amgcl::backend::crs<double> Crs;
typedef amgcl::backend::numa_vector<double> Vec;
typedef amgcl::relaxation::gauss_seidel<Backend> GS;
typedef amgcl::relaxation::ilu0<Backend> ILU;

static const int m = 12, n = m * m;                       // 5-point Laplacian on a 12 x 12 grid (levels = anti-diagonals)

static std::shared_ptr<Crs> laplace() {
    std::vector<ptrdiff_t> ptr(1, 0), col; std::vector<double> val;
    for (int j = 0; j < m; ++j) for (int i = 0; i < m; ++i) {
        int k = j * m + i;
        if (j > 0)     { col.push_back(k - m); val.push_back(-1); }
        if (i > 0)     { col.push_back(k - 1); val.push_back(-1); }
        col.push_back(k); val.push_back(4.5);
        if (i + 1 < m) { col.push_back(k + 1); val.push_back(-1); }
        if (j + 1 < m) { col.push_back(k + m); val.push_back(-1); }
        ptr.push_back(col.size());
    }
    return std::make_shared<Crs>(std::make_tuple((size_t)n, ptr, col, val));
}
static std::vector<double> rhs_data() { std::vector<double> f(n); for (int i = 0; i < n; ++i) f[i] = 1 + (i * 7) % 5; return f; }
static std::vector<double> x0_data()  { std::vector<double> x(n); for (int i = 0; i < n; ++i) x[i] = (i * 3) % 4 - 1; return x; }

// the serial forward sweep, written out (the definition of the property's right-hand side)
static std::vector<double> gs_reference(const Crs &A) {
    std::vector<double> f = rhs_data(), x = x0_data();
    for (int i = 0; i < n; ++i) {
        double D = 1, X = f[i];
        for (ptrdiff_t j = A.ptr[i]; j < A.ptr[i + 1]; ++j) { if (A.col[j] == i) D = A.val[j]; else X -= A.val[j] * x[A.col[j]]; }
        x[i] = (1 / D) * X;
    }
    return x;
}
// ilu0 with the serial triangular solves (prm.solve.serial = true): no OpenMP region involved in the solves
static std::vector<double> ilu_reference(const Crs &A) {
    ILU::params p; p.solve.serial = true;
    ILU R(A, p, Backend::params());
    Vec f(rhs_data()), x(n);
    R.apply(A, f, x);
    return std::vector<double>(x.data(), x.data() + n);
}

// build with nb threads requested, apply with na threads requested; returns the result of one apply
static std::vector<double> gs_run(const Crs &A, int nb, int na) {
    omp_set_num_threads(nb);
    GS gs(A, GS::params(), Backend::params());
    omp_set_num_threads(na);
    Vec f(rhs_data()), x(x0_data()), t(n);
    gs.apply_pre(A, f, x, t);
    return std::vector<double>(x.data(), x.data() + n);
}
static std::vector<double> ilu_run(const Crs &A, int nb, int na) {
    omp_set_num_threads(nb);
    ILU R(A, ILU::params(), Backend::params());               // params(): solve.serial = (omp_get_max_threads() < 4) = false
    omp_set_num_threads(na);
    Vec f(rhs_data()), x(n);
    R.apply(A, f, x);
    return std::vector<double>(x.data(), x.data() + n);
}
static int count_diff(const std::vector<double> &a, const std::vector<double> &b, double tol) {
    int d = 0;
    for (int i = 0; i < n; ++i) if (!(std::fabs(a[i] - b[i]) <= tol * (1 + std::fabs(b[i])))) ++d;
    return d;
}

// (c) in a child process: 0 = same as the reference, 1 = differs, 2 = killed by a signal / timed out
static int oob_child(bool ilu) {
    fflush(stdout);
    pid_t pid = fork();
    if (pid == 0) {
        alarm(10);
        auto A = laplace();
        int d = ilu ? count_diff(ilu_run(*A, 4, 8), ilu_reference(*A), 1e-12) : count_diff(gs_run(*A, 4, 8), gs_reference(*A), 0.0);
        _exit(d ? 1 : 0);
    }
    int st = 0; waitpid(pid, &st, 0);
    if (WIFSIGNALED(st)) { std::cout << "      child killed by signal " << WTERMSIG(st) << (WTERMSIG(st) == SIGALRM ? " (dead-lock, 10 s alarm)" : "") << std::endl; return 2; }
    return WEXITSTATUS(st);
}

int main(int argc, char **argv) {
    bool oob = !(argc > 1 && !strcmp(argv[1], "--no-oob"));
    int bad = 0;
    omp_set_dynamic(0);
    omp_set_max_active_levels(1);                            // the default: no nested parallelism

    // ---- (c) first: the parent must not have created an OpenMP team before fork()
    if (oob) for (int ilu = 0; ilu < 2; ++ilu) {
        int r = oob_child(ilu);
        std::cout << "(c) " << (ilu ? "ilu0        " : "gauss_seidel") << " built with 4 threads, applied with 8: "
                  << (r == 0 ? "same as serial" : r == 1 ? "DIFFERS from serial (tasks[4..7] read out of bounds)" : "CRASH / DEAD-LOCK (tasks[4..7] read out of bounds)") << std::endl;
        if (r) ++bad;
    }

    auto A = laplace();
    const std::vector<double> gref = gs_reference(*A), iref = ilu_reference(*A);

    // ---- sanity: the team the library asked for (8 of 8): must hold before and after the fix
    {
        int d1 = count_diff(gs_run(*A, 8, 8), gref, 0.0), d2 = count_diff(ilu_run(*A, 8, 8), iref, 1e-12);
        std::cout << "(0) built with 8, applied with 8 threads: gauss_seidel " << d1 << ", ilu0 " << d2 << " of " << n << " entries differ" << std::endl;
        if (d1 || d2) ++bad;
    }
    // ---- (b) fewer threads at apply time than at construction
    {
        int d1 = count_diff(gs_run(*A, 8, 4), gref, 0.0), d2 = count_diff(ilu_run(*A, 8, 4), iref, 1e-12);
        std::cout << "(b) built with 8, applied with 4 threads: gauss_seidel " << d1 << ", ilu0 " << d2 << " of " << n << " entries differ from the serial result" << std::endl;
        if (d1 || d2) ++bad;
    }
    // ---- (a) built and applied by each thread of an application-level parallel region, on private data
    {
        int d1[2] = {0, 0}, d2[2] = {0, 0};
        omp_set_num_threads(8);
#pragma omp parallel num_threads(2)
        {
            int me = omp_get_thread_num();
            auto B = laplace();                              // private matrix, private vectors, private relaxation objects
            d1[me] = count_diff(gs_run(*B, 8, 8), gref, 0.0);
            d2[me] = count_diff(ilu_run(*B, 8, 8), iref, 1e-12);
        }
        std::cout << "(a) built and applied inside `#pragma omp parallel num_threads(2)`, omp_get_max_threads() = 8: gauss_seidel "
                  << d1[0] << "/" << d1[1] << ", ilu0 " << d2[0] << "/" << d2[1] << " of " << n << " entries differ from the serial result" << std::endl;
        if (d1[0] || d1[1] || d2[0] || d2[1]) ++bad;
    }
    std::cout << (bad ? "PROPERTY VIOLATED" : "property holds") << std::endl;
    return bad ? 1 : 0;
}
