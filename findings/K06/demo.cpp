// C06 / F2: SPAI-0 with block values is not the least-squares minimiser of ||I - M A||_F on the
// (block-)diagonal pattern: M_i = A_ii / sum_j ||A_ij||_F^2 instead of A_ii^H (sum_j A_ij A_ij^H)^-1.
// Already for A = I (2x2 identity blocks) the library returns M = I/2.
// Build: g++ -std=c++17 -O1 -I<amgcl root> demo.cpp
#include <iostream>
#include <vector>
#include <cmath>
#include <amgcl/backend/builtin.hpp>
#include <amgcl/value_type/static_matrix.hpp>
#include <amgcl/relaxation/spai0.hpp>

typedef amgcl::static_matrix<double,2,2> Blk;
typedef amgcl::static_matrix<double,2,1> Rhs;
typedef amgcl::backend::builtin<Blk> Backend;
namespace math = amgcl::math;

static Blk blk(double a, double b, double c, double d) { Blk m; m(0,0)=a; m(0,1)=b; m(1,0)=c; m(1,1)=d; return m; }
static double fro2(const Blk &m) { double s=0; for(int i=0;i<4;++i) s+=m(i)*m(i); return s; }

static int check(const char *name, int n,
        const std::vector<ptrdiff_t> &ptr, const std::vector<ptrdiff_t> &col, const std::vector<Blk> &val)
{
    int bad = 0;
    Backend::matrix A(n, n, ptr, col, val);
    amgcl::relaxation::spai0<Backend> S(A, amgcl::relaxation::spai0<Backend>::params(), Backend::params());

    // Recover the blocks of M through the public interface (apply returns x = M rhs).
    std::vector<Blk> M(n);
    for(int i = 0; i < n; ++i) for(int c = 0; c < 2; ++c) {
        amgcl::backend::numa_vector<Rhs> e(n), x(n);
        e[i](c) = 1.0;
        S.apply(A, e, x);
        M[i](0,c) = x[i](0); M[i](1,c) = x[i](1);
    }

    for(int i = 0; i < n; ++i) {
        // block row i of (I - M A): E_ij - M_i A_ij. Minimiser over the 2x2 block M_i (normal equations):
        //   M_i = A_ii^T (sum_j A_ij A_ij^T)^-1
        Blk G = math::zero<Blk>(), Aii = math::zero<Blk>();
        double den = 0;
        for(ptrdiff_t j = ptr[i]; j < ptr[i+1]; ++j) {
            G += val[j] * math::adjoint(val[j]);
            den += fro2(val[j]);
            if (col[j] == i) Aii = val[j];
        }
        Blk opt = math::adjoint(Aii) * math::inverse(G);
        // minimiser when M_i is restricted to a multiple of the identity (M diagonal in the scalar sense)
        Blk sopt = ((Aii(0,0) + Aii(1,1)) / den) * math::identity<Blk>();

        auto res2 = [&](const Blk &m) {
            double r = 0;
            for(ptrdiff_t j = ptr[i]; j < ptr[i+1]; ++j) {
                Blk e = (col[j] == i ? math::identity<Blk>() : math::zero<Blk>()) - m * val[j];
                r += fro2(e);
            }
            return r;
        };
        double r_lib = res2(M[i]), r_opt = res2(opt), r_sopt = res2(sopt);
        if (r_lib > r_opt + 1e-10) {
            ++bad;
            std::cout << name << ": block row " << i << ": ||E_i - M_i A_i||_F^2 = " << r_lib
                      << " (library), " << r_opt << " (2x2-block minimiser), " << r_sopt
                      << " (best multiple of the identity)\n  library M_i = [" << M[i](0,0) << " " << M[i](0,1) << "; " << M[i](1,0) << " " << M[i](1,1)
                      << "], minimiser = [" << opt(0,0) << " " << opt(0,1) << "; " << opt(1,0) << " " << opt(1,1) << "]" << std::endl;
        }
    }
    return bad;
}

int main() {
    int bad = 0;
    Blk I2 = blk(1,0,0,1);

    // (a) A = identity (3 block rows of 2x2 identity blocks). M = I is on the pattern and has zero residual.
    bad += check("A = I", 3, {0,1,2,3}, {0,1,2}, {I2, I2, I2});
    {
        Backend::matrix A(3, 3, std::vector<ptrdiff_t>{0,1,2,3}, std::vector<ptrdiff_t>{0,1,2}, std::vector<Blk>{I2,I2,I2});
        amgcl::relaxation::spai0<Backend> S(A, amgcl::relaxation::spai0<Backend>::params(), Backend::params());
        amgcl::backend::numa_vector<Rhs> f(3), x(3), t(3);
        for(int i = 0; i < 3; ++i) { f[i](0) = 1 + i; f[i](1) = -2.0 * i + 1; x[i] = math::zero<Rhs>(); }
        S.apply_pre(A, f, x, t);
        for(int i = 0; i < 3; ++i) for(int c = 0; c < 2; ++c)
            if (std::abs(x[i](c) - f[i](c)) > 1e-12) {
                ++bad;
                std::cout << "A = I: one sweep from x = 0 gives x[" << i << "](" << c << ") = " << x[i](c)
                          << ", exact solution " << f[i](c) << std::endl;
            }
    }

    // (b) block tridiagonal, non-symmetric non-commuting blocks
    bad += check("block tridiagonal", 3, {0,2,5,7}, {0,1, 0,1,2, 1,2},
            { blk(4,1,0,4), blk(-1,0,2,-1),
              blk(-1,1,0,-1), blk(4,-2,1,5), blk(0,-1,-1,0),
              blk(-1,0,0,-2), blk(3,1,-1,3) });

    if (bad) {
        std::cout << "VIOLATED: block-valued SPAI-0 is not the least-squares minimiser (" << bad << " mismatches)" << std::endl;
        return 1;
    }
    std::cout << "OK" << std::endl;
    return 0;
}
