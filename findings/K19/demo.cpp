// C15 / F2: a rebuild() that throws leaves the amg object half-rebuilt.
//
// Sequence (all inside the quantified domain: apply, rebuild, failing call, apply):
//   P(A); y0 = P.apply(f); P.rebuild(A2) -> throws; y1 = P.apply(f)
// Expected (property): the failed call leaves no trace, y1 == y0 bitwise
// (== what a freshly constructed amg(A) gives), and system_matrix() is still A.
// Observed: the finer levels were already switched to A2 when the coarsest
// level threw, so y1 != y0 and system_matrix() is A2.
#include <iostream>
#include <vector>
#include <cstring>
#include <cmath>
#include <amgcl/backend/builtin.hpp>
#include <amgcl/adapter/crs_tuple.hpp>
#include <amgcl/amg.hpp>
#include <amgcl/coarsening/aggregation.hpp>
#include <amgcl/relaxation/spai0.hpp>

typedef amgcl::backend::builtin<double> Backend;
typedef amgcl::amg<Backend, amgcl::coarsening::aggregation, amgcl::relaxation::spai0> AMG;

struct CRS { int n; std::vector<ptrdiff_t> ptr, col; std::vector<double> val; };

// 1D Laplacian; neumann=true gives the singular pure-Neumann matrix.
static CRS lap1d(int n, bool neumann) {
    CRS A; A.n = n; A.ptr.push_back(0);
    for(int i = 0; i < n; ++i) {
        if (i > 0)     { A.col.push_back(i-1); A.val.push_back(-1); }
        double d = 2; if (neumann && (i == 0 || i == n-1)) d = 1;
        A.col.push_back(i); A.val.push_back(d);
        if (i < n - 1) { A.col.push_back(i+1); A.val.push_back(-1); }
        A.ptr.push_back(A.col.size());
    }
    return A;
}

static bool biteq(const std::vector<double> &a, const std::vector<double> &b) {
    return a.size() == b.size() && std::memcmp(a.data(), b.data(), a.size() * sizeof(double)) == 0;
}

int main() {
    const int n = 27;   // 27 -> 9 -> 3 -> 1 unknowns with plain aggregation
    CRS A  = lap1d(n, false);
    CRS A2 = lap1d(n, true);   // singular, zero row sums: the 1x1 coarsest operator is exactly 0, its LU throws

    AMG::params prm;
    prm.allow_rebuild = true;
    prm.coarse_enough = 2;

    std::vector<double> f(n);
    for(int i = 0; i < n; ++i) f[i] = 1 + (i % 5);

    AMG P(std::tie(A.n, A.ptr, A.col, A.val), prm);
    AMG Fresh(std::tie(A.n, A.ptr, A.col, A.val), prm);

    std::vector<double> y0(n), y1(n), yf(n);
    P.apply(f, y0);
    Fresh.apply(f, yf);
    if (!biteq(y0, yf)) { std::cout << "setup is not deterministic?!" << std::endl; return 3; }

    bool thrown = false;
    try {
        P.rebuild(std::tie(A2.n, A2.ptr, A2.col, A2.val));
    } catch (const std::exception &e) {
        thrown = true;
        std::cout << "rebuild(A2) threw: " << e.what() << std::endl;
    }
    if (!thrown) {
        std::cout << "rebuild did not throw; demo not applicable" << std::endl;
        return 0;
    }

    P.apply(f, y1);

    int bad = 0;
    if (!biteq(y0, y1)) {
        double md = 0;
        for(int i = 0; i < n; ++i) md = std::max(md, std::fabs(y0[i] - y1[i]));
        std::cout << "VIOLATION: apply() after the failed rebuild differs from a fresh amg(A): max |diff| = "
                  << md << std::endl;
        bad = 1;
    }

    const auto &M = P.system_matrix();
    bool same_matrix = true;
    for(size_t j = 0; j < A.val.size(); ++j)
        if (M.val[j] != A.val[j]) same_matrix = false;
    if (!same_matrix) {
        std::cout << "VIOLATION: system_matrix() after the failed rebuild is no longer A "
                     "(M(0,0) = " << M.val[0] << ", A(0,0) = " << A.val[0] << ")" << std::endl;
        bad = 1;
    }

    if (!bad) std::cout << "OK: failed rebuild left the object untouched" << std::endl;
    return bad;
}
