// g++ -std=c++17 -O1 -I. demo.cpp -o demo
// C16 / F42 (found after the repair of F41): solver::skyline_lu on an EMPTY (0 x 0) matrix: factorize()
// (skyline_lu.hpp:248) evaluates `precondition(!math::is_zero(D[0]))` and `D[0] = math::inverse(D[0])` on the empty vector D:
// segmentation fault in a plain build (before a9ce099 the crash in cuthill_mckee::get came first and masked it).
// Fix: `if (n == 0) return;` at the top of factorize() (repo_patches/fix_skyline_empty.patch).
// Lean: Model/SkylineLU.lean factorize has the same early return (C16.skyline_factorize_empty, C16c.skyline_cmk_empty).
//   mode 2: solver::skyline_lu<double>(A) + operator() on empty vectors   (default ordering; perm(n) is empty)
//   mode 3: amg<builtin<double>, smoothed_aggregation, spai0>(A)           (an empty system is its own coarsest level -> skyline_lu)
// Property (C16): the skyline LU coarse solver ... whatever its sparsity pattern (the skyline theorems are stated for n >= 1;
// for n = 0 there is nothing to solve, and C10: no memory errors).  Each mode runs in a forked child; exit 0 iff both survive.
#include <vector>
#include <iostream>
#include <cstdlib>
#include <unistd.h>
#include <sys/wait.h>
#include <amgcl/backend/builtin.hpp>
#include <amgcl/reorder/cuthill_mckee.hpp>
#include <amgcl/solver/skyline_lu.hpp>
#include <amgcl/amg.hpp>
#include <amgcl/coarsening/smoothed_aggregation.hpp>
#include <amgcl/relaxation/spai0.hpp>

static int run_mode(int mode) {
    std::vector<ptrdiff_t> ptr(1, 0), col; std::vector<double> val;
    amgcl::backend::crs<double, ptrdiff_t, ptrdiff_t> A(0, 0, ptr, col, val);
    if (mode == 2) {
        amgcl::solver::skyline_lu<double> S(A);
        std::vector<double> f, x; S(f, x);
    } else {
        typedef amgcl::backend::builtin<double> B;
        amgcl::amg<B, amgcl::coarsening::smoothed_aggregation, amgcl::relaxation::spai0> P(A);
    }
    return 0;
}

int main() {
    int bad = 0;
    const char *names[] = {"cuthill_mckee<false>::get", "cuthill_mckee<true>::get", "skyline_lu", "amg"};
    for (int mode = 2; mode < 4; ++mode) {
        std::cout.flush();
        pid_t pid = fork();
        if (pid < 0) { std::cout << "fork failed" << std::endl; return 2; }
        if (pid == 0) { int rc = 3; try { rc = run_mode(mode); } catch (...) { rc = 4; } _exit(rc); }
        int st = 0; waitpid(pid, &st, 0);
        bool ok = WIFEXITED(st) && WEXITSTATUS(st) == 0;
        std::cout << names[mode] << " on a 0 x 0 matrix: ";
        if (ok) std::cout << "ok";
        else if (WIFSIGNALED(st)) std::cout << "killed by signal " << WTERMSIG(st);
        else std::cout << "failed (exit " << WEXITSTATUS(st) << ")";
        std::cout << std::endl;
        if (!ok) ++bad;
    }
    std::cout << (bad ? "VIOLATED" : "holds") << ": " << bad << " of 2 entry points fail on the empty system" << std::endl;
    return bad ? 1 : 0;
}
