// C05 / F4: complex IDR(s): the "minimum residual" omega (and the smoothing gamma) is the complex
// conjugate of the minimal-residual value, so the iterate after the omega step is not the IDR(s) iterate.
#include <vector>
#include <complex>
#include <iostream>
#include <cmath>
#include <tuple>
#include <amgcl/backend/builtin.hpp>
#include <amgcl/value_type/complex.hpp>
#include <amgcl/adapter/crs_tuple.hpp>
#include <amgcl/solver/idrs.hpp>

typedef std::complex<double> C;
typedef std::vector<C> V;
typedef std::vector<V> Dense;
typedef amgcl::backend::builtin<C> B;

struct Identity {
    template <class V1, class V2> void apply(const V1 &r, V2 &&x) const {
        for(size_t i = 0; i < r.size(); ++i) x[i] = r[i];
    }
};
static V matvec(const Dense &D, const V &x) {
    int n = D.size(); V y(n, C());
    for(int i = 0; i < n; ++i) for(int j = 0; j < n; ++j) y[i] += D[i][j] * x[j];
    return y;
}
static V resid(const Dense &D, const V &f, const V &x) {
    V y = matvec(D, x); for(size_t i = 0; i < y.size(); ++i) y[i] = f[i] - y[i]; return y;
}
static double nrm(const V &x) { double s = 0; for(auto &v : x) s += std::norm(v); return std::sqrt(s); }
static C dot(const V &a, const V &b) { C s = 0; for(size_t i = 0; i < a.size(); ++i) s += std::conj(a[i]) * b[i]; return s; } // a^H b

int main() {
    const int n = 6;
    Dense D(n, V(n));
    for(int i = 0; i < n; ++i)
        for(int j = 0; j < n; ++j)
            D[i][j] = (i == j) ? C(4, 2 + i)
                               : C(((i*3 + j*5) % 4 - 1.5) * 0.4, ((i*7 + j) % 3 - 1) * 0.4);
    std::vector<ptrdiff_t> ptr(1, 0), col; V val;
    for(int i = 0; i < n; ++i) {
        for(int j = 0; j < n; ++j) { col.push_back(j); val.push_back(D[i][j]); }
        ptr.push_back(col.size());
    }
    B::matrix A(std::tie(n, ptr, col, val));
    V f(n); for(int i = 0; i < n; ++i) f[i] = C(1 + i, 2 - i);
    const V x0(n, C(0.5, -0.25));
    Identity P;

    int bad = 0;
    for(unsigned s = 1; s <= 4; ++s) {
        for(int smoothing = 0; smoothing < 2; ++smoothing) {
            auto solve = [&](unsigned k, double &ret) {
                amgcl::solver::idrs<B>::params prm;
                prm.s = s; prm.omega = 0; // "If omega = 0: a standard minimum residual step is performed"
                prm.smoothing = smoothing; prm.maxiter = k; prm.tol = 1e-14;
                amgcl::solver::idrs<B> S(n, prm);
                V x = x0; size_t it; std::tie(it, ret) = S(A, P, f, x); return x;
            };
            double res_s, res_s1;
            V xs  = solve(s,     res_s);   // after the s inner steps of the first cycle
            V xs1 = solve(s + 1, res_s1);  // ... plus the omega (dimension reduction) step

            if (!smoothing) {
                // x_{s+1} = x_s + om * r_s, r_{s+1} = r_s - om * A r_s; minimal residual <=> om = t^H r / t^H t
                V r = resid(D, f, xs), t = matvec(D, r);
                V d(n); for(int i = 0; i < n; ++i) d[i] = xs1[i] - xs[i];
                C om_lib = dot(r, d) / dot(r, r);
                C om_mr  = dot(t, r) / dot(t, t);
                double r_lib = nrm(resid(D, f, xs1));
                V xm = xs; for(int i = 0; i < n; ++i) xm[i] += om_mr * r[i];
                double r_mr = nrm(resid(D, f, xm));
                std::cout << "s=" << s << ": omega used by library = " << om_lib << ", minimal-residual omega = " << om_mr
                          << "; |r_{s+1}| library = " << r_lib << ", with MR omega = " << r_mr << ", |r_s| = " << nrm(r) << std::endl;
                if (std::abs(om_lib - om_mr) > 1e-6 * std::abs(om_mr)) {
                    std::cout << "  VIOLATION: omega step is not the minimum residual step (library omega == conj(MR omega): "
                              << (std::abs(om_lib - std::conj(om_mr)) < 1e-10 ? "yes" : "no") << ")" << std::endl;
                    ++bad;
                }
            } else {
                // residual smoothing: returned residual norm must never increase
                std::cout << "s=" << s << " smoothing: returned residual k=s: " << res_s << ", k=s+1: " << res_s1 << std::endl;
                double prev = 1e300;
                for(unsigned k = 0; k <= s + 1; ++k) {
                    double rk; V xk = solve(k, rk);
                    double tr = nrm(resid(D, f, xk)) / nrm(f);
                    if (tr > prev * (1 + 1e-8)) {
                        std::cout << "  VIOLATION: smoothed residual increases from " << prev << " to " << tr << " at k=" << k << std::endl;
                        ++bad;
                    }
                    prev = tr;
                }
            }
        }
    }
    return bad ? 1 : 0;
}
