// C04 / F2: smoothed-aggregation interpolation row does NOT sum to one on a zero-row-sum row
// with strong neighbours of a symmetric matrix, when the filtered diagonal a_ii + sum_weak a_ij is 0.
// (smoothed_aggregation.hpp silently replaces D^-1 by 0 in that row.)
#include <iostream>
#include <vector>
#include <memory>
#include <cmath>
#include <tuple>
#include <amgcl/backend/builtin.hpp>
#include <amgcl/coarsening/smoothed_aggregation.hpp>

typedef amgcl::backend::builtin<double> Backend;
typedef amgcl::backend::crs<double, ptrdiff_t, ptrdiff_t> CRS;

int main() {
    const int n = 4;
    // symmetric, positive diagonal, dyadic entries; row 0 has zero row sum
    const double a[n*n] = {
         1,  -1,   1,  -1,
        -1, 256,   0,   0,
         1,   0,   1,   0,
        -1,   0,   0,   1 };
    auto A = std::make_shared<CRS>();
    A->set_size(n, n, true);
    for (int i = 0; i < n; ++i) for (int j = 0; j < n; ++j) if (a[i*n+j] != 0) ++A->ptr[i+1];
    A->set_nonzeros(A->scan_row_sizes());
    for (int i = 0; i < n; ++i) { ptrdiff_t h = A->ptr[i];
        for (int j = 0; j < n; ++j) if (a[i*n+j] != 0) { A->col[h] = j; A->val[h] = a[i*n+j]; ++h; } }

    amgcl::coarsening::smoothed_aggregation<Backend>::params prm;   // all defaults: eps_strong=0.08, relax=1
    // show which connections of row 0 the library regards as strong
    amgcl::coarsening::pointwise_aggregates ag(*A, prm.aggr, 0);
    bool strong0 = false; double rs0 = 0;
    for (ptrdiff_t j = A->ptr[0]; j < A->ptr[1]; ++j) {
        rs0 += A->val[j];
        std::cout << "a(0," << A->col[j] << ")=" << A->val[j] << (ag.strong_connection[j] ? " strong" : (A->col[j]==0 ? " diag" : " weak")) << "\n";
        if (ag.strong_connection[j]) strong0 = true;
    }
    std::cout << "row 0: row sum of A = " << rs0 << ", has strong neighbour = " << strong0 << ", aggregate id = " << ag.id[0] << "\n";

    amgcl::coarsening::smoothed_aggregation<Backend> C(prm);
    std::shared_ptr<CRS> P, R;
    std::tie(P, R) = C.transfer_operators(*A);

    int bad = 0;
    for (int i = 0; i < n; ++i) {
        double rs = 0, ps = 0; bool strong = false;
        for (ptrdiff_t j = A->ptr[i]; j < A->ptr[i+1]; ++j) { rs += A->val[j]; if (ag.strong_connection[j]) strong = true; }
        for (ptrdiff_t j = P->ptr[i]; j < P->ptr[i+1]; ++j) ps += P->val[j];
        std::cout << "row " << i << ": sum_j A_ij = " << rs << ", strong nb = " << strong << ", sum_j P_ij = " << ps << "\n";
        if (rs == 0 && strong && std::abs(ps - 1.0) > 1e-6) ++bad;
    }
    if (bad) { std::cout << "VIOLATION: zero-row-sum row with strong neighbour whose SA interpolation row does not sum to 1\n"; return 1; }
    std::cout << "ok\n";
    return 0;
}
