// C02 / F2: "Multiplying the matrix by a power of two multiplies B by the inverse factor
// exactly" fails for ruge_stuben coarsening: the C/F splitting and the interpolation
// formula compare matrix entries with an ABSOLUTE threshold eps = 2*DBL_EPSILON ~ 4.4e-16,
// so the hierarchy (and hence B) changes when A is scaled down by a power of two.
//
// Matrix: 5-point Poisson on an 8x8 grid (integer entries 4 / -1), an SPD M-matrix.
// A' = 2^k A is exactly representable, and so is every intermediate of a scale-covariant
// algorithm, so 2^k * B(2^k A) f must be bitwise equal to B(A) f. It is for k = +52 and
// k = -40, but not for k = -50 (one level fewer) and k = -52 (no coarse level at all).
//
// build: g++ -std=c++17 -O1 -I<amgcl root> demo.cpp
#include <vector>
#include <cmath>
#include <cstdio>
#include <tuple>
#include <sstream>
#include <string>

#include <amgcl/backend/builtin.hpp>
#include <amgcl/adapter/crs_tuple.hpp>
#include <amgcl/amg.hpp>
#include <amgcl/coarsening/ruge_stuben.hpp>
#include <amgcl/relaxation/spai0.hpp>

typedef amgcl::amg<amgcl::backend::builtin<double>,
        amgcl::coarsening::ruge_stuben, amgcl::relaxation::spai0> AMG;

static const int m = 8, n = m * m;

static void poisson(double s, std::vector<ptrdiff_t> &ptr, std::vector<ptrdiff_t> &col, std::vector<double> &val) {
    ptr.assign(1, 0); col.clear(); val.clear();
    for (int j = 0; j < m; ++j) for (int i = 0; i < m; ++i) {
        int k = j * m + i;
        if (j > 0)     { col.push_back(k - m); val.push_back(-s); }
        if (i > 0)     { col.push_back(k - 1); val.push_back(-s); }
                         col.push_back(k);     val.push_back(4 * s);
        if (i + 1 < m) { col.push_back(k + 1); val.push_back(-s); }
        if (j + 1 < m) { col.push_back(k + m); val.push_back(-s); }
        ptr.push_back(col.size());
    }
}

// returns 2^k * B(2^k A) f  and the number of levels
static std::vector<double> scaled_apply(int k, const std::vector<double> &f, int &levels) {
    std::vector<ptrdiff_t> ptr, col; std::vector<double> val;
    poisson(std::ldexp(1.0, k), ptr, col, val);
    AMG::params prm;
    prm.coarse_enough = 5;
    int nn = n;
    AMG amg(std::tie(nn, ptr, col, val), prm);
    std::ostringstream os; os << amg;
    sscanf(os.str().c_str(), "Number of levels: %d", &levels);
    std::vector<double> x(n);
    amg.apply(f, x);
    for (auto &v : x) v = std::ldexp(v, k);
    return x;
}

int main() {
    std::vector<double> f(n);
    for (int i = 0; i < n; ++i) f[i] = (i * 37 % 17) - 8;   // small integers

    int lev0;
    std::vector<double> ref = scaled_apply(0, f, lev0);
    printf("k=%4d: levels=%d  (2^k B(2^k A) f)[0] = %.17g\n", 0, lev0, ref[0]);

    int bad = 0;
    for (int k : {52, -40, -50, -52, -60}) {
        int lev;
        std::vector<double> x = scaled_apply(k, f, lev);
        int ndiff = 0; double maxrel = 0;
        for (int i = 0; i < n; ++i) if (x[i] != ref[i]) { ++ndiff; maxrel = std::max(maxrel, std::abs(x[i] - ref[i]) / std::abs(ref[i])); }
        printf("k=%4d: levels=%d  (2^k B(2^k A) f)[0] = %.17g   differing components: %d, max rel. diff %.3g\n",
                k, lev, x[0], ndiff, maxrel);
        if (ndiff) ++bad;
    }
    if (bad) {
        printf("VIOLATION: B(2^k A) != 2^-k B(A) for ruge_stuben (absolute eps threshold in connect()/transfer_operators())\n");
        return 1;
    }
    printf("OK\n");
    return 0;
}
