// C02 / F5: with block value types (static_matrix<double,2,2>) smoothed_aggr_emin builds a
// restriction operator R that is NOT the transpose of the prolongation P (the block
// factors are multiplied in the wrong order), so the Galerkin operators R A P and the
// preconditioner B are non-symmetric although A is an SPD M-matrix.
//
// Matrix: 5-point Poisson on a 12x12 grid (n=144), viewed as a 72x72 matrix of 2x2 blocks
// through amgcl::adapter::block_matrix. Smoother spai0, V-cycle, npre=npost=1,
// coarse_enough=5. B is extracted column by column; |B - B^T|/|B| must be ~1e-16
// (it is for smoothed_aggregation, the control), observed ~0.16.
//
// build: g++ -std=c++17 -O1 -I<amgcl root> demo.cpp
#include <vector>
#include <cmath>
#include <cstdio>
#include <tuple>

#include <amgcl/backend/builtin.hpp>
#include <amgcl/value_type/static_matrix.hpp>
#include <amgcl/adapter/crs_tuple.hpp>
#include <amgcl/adapter/block_matrix.hpp>
#include <amgcl/amg.hpp>
#include <amgcl/coarsening/smoothed_aggr_emin.hpp>
#include <amgcl/coarsening/smoothed_aggregation.hpp>
#include <amgcl/relaxation/spai0.hpp>

typedef amgcl::static_matrix<double, 2, 2> val_t;
typedef amgcl::static_matrix<double, 2, 1> rhs_t;
typedef amgcl::backend::builtin<val_t> Backend;

static const int m = 12, n = m * m;
static std::vector<ptrdiff_t> ptr, col;
static std::vector<double> val;

static void poisson() {
    ptr.assign(1, 0);
    for (int j = 0; j < m; ++j) for (int i = 0; i < m; ++i) {
        int k = j * m + i;
        if (j > 0)     { col.push_back(k - m); val.push_back(-1); }
        if (i > 0)     { col.push_back(k - 1); val.push_back(-1); }
                         col.push_back(k);     val.push_back(4);
        if (i + 1 < m) { col.push_back(k + 1); val.push_back(-1); }
        if (j + 1 < m) { col.push_back(k + m); val.push_back(-1); }
        ptr.push_back(col.size());
    }
}

template <template <class> class Coarsening>
static double asymmetry(const char *name) {
    typedef amgcl::amg<Backend, Coarsening, amgcl::relaxation::spai0> AMG;
    int nn = n;
    auto At = std::tie(nn, ptr, col, val);
    auto Ab = amgcl::adapter::block_matrix<val_t>(At);
    typename AMG::params prm; prm.coarse_enough = 5;
    AMG amg(Ab, prm);

    int nb = n / 2;
    std::vector<double> B(n * n);
    amgcl::backend::numa_vector<rhs_t> f(nb), x(nb);
    for (int j = 0; j < n; ++j) {
        for (int i = 0; i < nb; ++i) f[i] = amgcl::math::zero<rhs_t>();
        f[j / 2](j % 2) = 1.0;
        amg.apply(f, x);
        for (int i = 0; i < n; ++i) B[i * n + j] = x[i / 2](i % 2);
    }
    double mx = 0, as = 0; int nonfinite = 0;
    for (int i = 0; i < n; ++i) for (int j = 0; j < n; ++j) {
        if (!std::isfinite(B[i*n+j])) ++nonfinite;
        mx = std::max(mx, std::abs(B[i*n+j]));
        as = std::max(as, std::abs(B[i*n+j] - B[j*n+i]));
    }
    printf("%-32s max|B - B^T| / max|B| = %.3g   (B(0,1)=%.6g, B(1,0)=%.6g, non-finite: %d)\n", name, as / mx, B[1], B[n], nonfinite);
    return nonfinite ? 1.0 : as / mx;
}

int main() {
    poisson();
    double ctl = asymmetry<amgcl::coarsening::smoothed_aggregation>("smoothed_aggregation (control)");
    double bad = asymmetry<amgcl::coarsening::smoothed_aggr_emin>("smoothed_aggr_emin");
    if (ctl > 1e-12) { printf("control failed?!\n"); return 2; }
    if (bad > 1e-8) {
        printf("VIOLATION: B is not symmetric for smoothed_aggr_emin with 2x2 block values (R != P^T)\n");
        return 1;
    }
    printf("OK\n");
    return 0;
}
