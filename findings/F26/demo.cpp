// C03 / F2: with near-nullspace vectors the coarsening can return a prolongation
// with ZERO columns instead of signalling error::empty_level.  amg then builds a
// 0x0 "coarse level" and hands it to the direct solver (skyline_lu), whose
// constructor writes perm[0] of an empty vector -> crash.  All amg parameters are
// defaults; only 4 near-nullspace vectors are supplied.
//
// build: g++ -std=c++17 -O1 -I<amgcl root> demo.cpp
#define AMGCL_VERIF
#include <vector>
#include <iostream>
#include <cmath>
#include <csignal>
#include <unistd.h>
#include <sys/wait.h>
#include <amgcl/backend/builtin.hpp>
#include <amgcl/amg.hpp>
#include <amgcl/coarsening/aggregation.hpp>
#include <amgcl/relaxation/spai0.hpp>
#include <amgcl/adapter/crs_tuple.hpp>

namespace amgcl_verif { struct access {
    template <class AMG> static auto& levels(AMG &a) { return a.levels; }
}; }

typedef amgcl::backend::builtin<double> Backend;
typedef amgcl::amg<Backend, amgcl::coarsening::aggregation, amgcl::relaxation::spai0> AMG;

int main() {
    // 1D Poisson, n = 3001 (just above the default coarse_enough = 3000)
    const int n = 3001, nv = 4;
    std::vector<ptrdiff_t> ptr(1, 0), col; std::vector<double> val;
    for (int i = 0; i < n; ++i) {
        if (i)         { col.push_back(i-1); val.push_back(-1); }
                         col.push_back(i);   val.push_back( 2);
        if (i + 1 < n) { col.push_back(i+1); val.push_back(-1); }
        ptr.push_back(col.size());
    }

    AMG::params prm;                       // all defaults ...
    prm.coarsening.nullspace.cols = nv;    // ... plus 4 near-nullspace vectors 1, x, x^2, x^3
    prm.coarsening.nullspace.B.resize(n * nv);
    for (int i = 0; i < n; ++i)
        for (int c = 0; c < nv; ++c)
            prm.coarsening.nullspace.B[nv*i + c] = std::pow((double)i / n, c);

    // Step 1: build the real hierarchy in a child process (it is expected to crash).
    // (forked before any OpenMP region is entered in the parent)
    int bad = 0;
    std::cout.flush();
    pid_t pid = fork();
    if (pid == 0) {
        AMG amg(std::tie(n, ptr, col, val), prm);
        auto &L = amgcl_verif::access::levels(amg);
        size_t li = 0, nl = L.size(); int rc = 0;
        for (auto &l : L) {
            std::cout << "level " << li << ": " << l.rows() << " unknowns, "
                      << (l.solve ? "direct" : "smoother") << std::endl;
            if (l.rows() == 0) rc = 3;                          // zero-sized level
            if (li + 1 == nl && l.rows() > prm.coarse_enough && l.solve) rc = 4;
            ++li;
        }
        std::cout.flush();
        _exit(rc);
    }
    int st = 0; waitpid(pid, &st, 0);
    if (WIFSIGNALED(st)) {
        std::cout << "VIOLATION: amg constructor killed by signal " << WTERMSIG(st)
                  << " while creating the direct solver for the 0x0 coarse matrix" << std::endl;
        ++bad;
    } else if (WEXITSTATUS(st) != 0) {
        std::cout << "VIOLATION: amg construction failed / produced a zero-sized level (child exit code "
                  << WEXITSTATUS(st) << ")" << std::endl;
        ++bad;
    }

    // Step 2: what does the coarsening itself return for this level?
    {
        amgcl::backend::crs<double> A(std::tie(n, ptr, col, val));
        amgcl::coarsening::aggregation<Backend> C(prm.coarsening);
        try {
            auto PR = C.transfer_operators(A);
            auto P = std::get<0>(PR);
            std::cout << "transfer_operators returned P " << P->nrows << "x" << P->ncols << std::endl;
            if (P->ncols == 0) {
                std::cout << "VIOLATION: empty coarse level is not reported through error::empty_level; "
                             "amg will create a level with 0 unknowns" << std::endl;
                ++bad;
            }
        } catch (amgcl::error::empty_level&) {
            std::cout << "transfer_operators signalled empty_level (fine)" << std::endl;
        }
    }

    if (bad) return 1;
    std::cout << "OK" << std::endl;
    return 0;
}
