// MPI: 1
// C12 (near-null space reproduced by the distributed aggregation, block value/pointwise coarsening included):
// amgcl::mpi::coarsening::pmis::tentative_prolongation computes the column of a prolongation entry as
//     null_cols * s / block_size + j                    (pmis.hpp:947, and :952 for the remote part)
// where s = (pointwise aggregate) * block_size + k is the state of unknown k of a block.  The product is formed
// BEFORE the division, so for k > 0 the column is shifted by floor(null_cols * k / block_size): with block_size >= 2
// and nullspace.cols >= 2 the last unknowns of every block are interpolated from the columns of the NEXT aggregate
// and the last aggregate gets columns >= ncols (heap overflow in transpose() / comm_pattern under ASan).  The serial
// code (coarsening/tentative_prolongation.hpp:181) uses  i * nullspace.cols + jj  with i the block aggregate.
// One rank suffices.   mpicxx -std=c++17 -O1 -I<amgcl root> demo.cpp && mpirun -np 1 ./a.out
#include <iostream>
#include <vector>
#include <cmath>
#include <amgcl/backend/builtin.hpp>
#include <amgcl/adapter/crs_tuple.hpp>
#include <amgcl/mpi/distributed_matrix.hpp>
#include <amgcl/mpi/coarsening/pmis.hpp>

int main(int argc, char **argv) {
    MPI_Init(&argc, &argv);
    int bad = 0;
    {
        amgcl::mpi::communicator comm(MPI_COMM_WORLD);
        typedef amgcl::backend::builtin<double> BD;
        const int bs = 2, nc = 2, npts = 6, n = npts * bs;
        // 1-D Laplacian on 6 points (x) I_2, the whole matrix on rank 0 (other ranks, if any, are empty)
        std::vector<ptrdiff_t> ptr(1, 0), col; std::vector<double> val;
        if (comm.rank == 0) for (int p = 0; p < npts; ++p) for (int k = 0; k < bs; ++k) {
            for (int q = p - 1; q <= p + 1; ++q) if (q >= 0 && q < npts) { col.push_back(q * bs + k); val.push_back(q == p ? 2.0 : -1.0); }
            ptr.push_back(col.size());
        }
        size_t nloc = comm.rank == 0 ? n : 0;
        amgcl::mpi::distributed_matrix<BD> A(comm, std::make_tuple(nloc, ptr, col, val), nloc);
        amgcl::mpi::coarsening::pmis<BD>::params prm; prm.block_size = bs; prm.nullspace.cols = nc;
        // near-null space: the two "rigid translations" e_0, e_1 of the 2 unknowns per point
        std::vector<double> B(nloc * nc, 0.0); for (size_t i = 0; i < nloc; ++i) B[i * nc + i % bs] = 1.0;
        prm.nullspace.B = B;
        amgcl::mpi::coarsening::pmis<BD> aggr(A, prm);
        const auto &P = *aggr.p_tent->local(); const std::vector<double> &Bc = prm.nullspace.B;   // B of the coarse level
        if (comm.rank == 0) {
            std::cout << "P_tent: " << P.nrows << " x " << P.ncols << std::endl;
            for (size_t i = 0; i < P.nrows; ++i) {
                // every stored column must exist
                for (auto j = P.ptr[i]; j < P.ptr[i+1]; ++j) if (P.col[j] < 0 || (size_t)P.col[j] >= P.ncols) { std::cout << "row " << i << ": column " << P.col[j] << " >= ncols = " << P.ncols << std::endl; ++bad; }
                // P_tent * B_coarse == B on aggregated rows
                for (int k = 0; k < nc && P.ptr[i+1] > P.ptr[i]; ++k) {
                    double s = 0; for (auto j = P.ptr[i]; j < P.ptr[i+1]; ++j) { size_t bi = (size_t)P.col[j] * nc + k; s += P.val[j] * (bi < Bc.size() ? Bc[bi] : 0.0); }
                    if (std::fabs(s - B[i * nc + k]) > 1e-12) { std::cout << "row " << i << ": (P_tent B_c)[" << k << "] = " << s << ", B = " << B[i * nc + k] << std::endl; ++bad; }
                }
            }
        }
    }
    MPI_Bcast(&bad, 1, MPI_INT, 0, MPI_COMM_WORLD);
    MPI_Finalize();
    if (bad) { std::cout << "VIOLATED: " << bad << " entries of the distributed tentative prolongation are wrong (block_size 2, nullspace.cols 2)" << std::endl; return 1; }
    std::cout << "ok" << std::endl; return 0;
}
