// C04 / F4: Ruge-Stuben interpolation rows do not sum to one on zero-row-sum rows with strong neighbours
// when the negative couplings of the row are below the ABSOLUTE threshold 2*machine_eps
// (4.4e-16 for double, 2.4e-7 for float): connect() declares such rows to have no strong connections.
#include <iostream>
#include <vector>
#include <memory>
#include <cmath>
#include <tuple>
#include <amgcl/backend/builtin.hpp>
#include <amgcl/coarsening/ruge_stuben.hpp>

template <class T>
int run(T scale, const char *name) {
    typedef amgcl::backend::builtin<T> Backend;
    typedef amgcl::backend::crs<T, ptrdiff_t, ptrdiff_t> CRS;
    // block diagonal: [ L 0 ; 0 scale*L ],  L = 3x3 graph Laplacian of a path (symmetric, zero row sums)
    const int n = 6;
    const double L[9] = { 1,-1,0,  -1,2,-1,  0,-1,1 };
    std::vector<T> a(n*n, 0);
    for (int i = 0; i < 3; ++i) for (int j = 0; j < 3; ++j) {
        a[i*n+j] = (T)L[i*3+j];
        a[(i+3)*n+(j+3)] = (T)(L[i*3+j]) * scale;     // exact: scale is a power of two
    }
    auto A = std::make_shared<CRS>();
    A->set_size(n, n, true);
    for (int i = 0; i < n; ++i) for (int j = 0; j < n; ++j) if (a[i*n+j] != 0) ++A->ptr[i+1];
    A->set_nonzeros(A->scan_row_sizes());
    for (int i = 0; i < n; ++i) { ptrdiff_t h = A->ptr[i];
        for (int j = 0; j < n; ++j) if (a[i*n+j] != 0) { A->col[h] = j; A->val[h] = a[i*n+j]; ++h; } }

    typename amgcl::coarsening::ruge_stuben<Backend>::params prm;   // defaults
    amgcl::coarsening::ruge_stuben<Backend> C(prm);
    std::shared_ptr<CRS> P, R;
    std::tie(P, R) = C.transfer_operators(*A);

    int bad = 0;
    std::cout << name << ", second block scaled by " << (double)scale << ":\n";
    for (int i = 0; i < n; ++i) {
        T rs = 0, amin = 0, amax_neg = 0;
        for (ptrdiff_t j = A->ptr[i]; j < A->ptr[i+1]; ++j) {
            rs += A->val[j];
            if (A->col[j] != i && A->val[j] < 0) { amin = std::min(amin, A->val[j]); }
        }
        (void)amax_neg;
        // documented definition: j strong iff -a_ij >= eps_str * max_{a_ik<0} |a_ik|  -> exists iff some a_ij < 0
        bool strong = amin < 0;
        double ps = 0;
        for (ptrdiff_t j = P->ptr[i]; j < P->ptr[i+1]; ++j) ps += P->val[j];
        std::cout << "  row " << i << ": row sum A = " << (double)rs << ", strong nb = " << strong
                  << ", nnz(P_i) = " << (P->ptr[i+1]-P->ptr[i]) << ", sum_j P_ij = " << ps << "\n";
        if (rs == 0 && strong && std::abs(ps - 1.0) > 1e-3) ++bad;
    }
    return bad;
}

int main() {
    int bad = 0;
    bad += run<double>(std::ldexp(1.0, -60), "double");
    bad += run<float >(std::ldexp(1.0f, -24), "float");     // 6e-8: quite ordinary magnitude for a float matrix
    if (bad) { std::cout << "VIOLATION: " << bad << " zero-row-sum rows with strong neighbours have RS interpolation row sum != 1\n"; return 1; }
    std::cout << "ok\n";
    return 0;
}
