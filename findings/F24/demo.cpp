// g++ -std=c++17 -O1 -I/tmp/mut/C18 demo.cpp -o demo
//
// C18: "a partial update of CPR with an unchanged matrix leaves its action unchanged".
//
// cpr_drs (the dynamic-row-sum variant of CPR, amgcl/preconditioner/cpr_drs.hpp)
// with SCALAR input: partial_update(A, /*update_transfer_ops=*/true) - the
// default - dereferences a null shared_ptr and crashes, for every matrix.
#include <vector>
#include <cmath>
#include <cstdio>
#include <csignal>
#include <unistd.h>
#include <memory>
#include <algorithm>

#include <amgcl/backend/builtin.hpp>
#include <amgcl/adapter/crs_tuple.hpp>
#include <amgcl/preconditioner/dummy.hpp>
#include <amgcl/preconditioner/cpr_drs.hpp>

typedef amgcl::backend::builtin<double> SBackend;
typedef amgcl::preconditioner::cpr_drs<
    amgcl::preconditioner::dummy<SBackend>,     // pressure preconditioner
    amgcl::preconditioner::dummy<SBackend>      // global preconditioner
    > CPR;

static void on_segv(int) {
    const char m[] =
        "VIOLATION: cpr_drs::partial_update(A, true) crashed with SIGSEGV "
        "(null App dereferenced in first_scalar_pass(K, get_app=false), cpr_drs.hpp:335)\n";
    ssize_t w = write(1, m, sizeof(m) - 1); (void)w;
    _exit(1);
}

int main() {
    const int B = 2, nb = 4, n = nb * B;

    // Diagonally dominant block-tridiagonal two-phase style system (dyadic data).
    std::vector<ptrdiff_t> ptr(1, 0), col; std::vector<double> val;
    for(int i = 0; i < n; ++i) {
        for(int j = 0; j < n; ++j)
            if (std::abs(i/B - j/B) <= 1) { col.push_back(j); val.push_back(i == j ? 4.0 : -0.25); }
        ptr.push_back(col.size());
    }
    auto A = std::tie(n, ptr, col, val);

    CPR::params prm; prm.block_size = B;
    CPR P(A, prm);

    std::vector<double> f(n), x(n, 0.0), y(n, 0.0);
    for(int i = 0; i < n; ++i) f[i] = 1 + i % 3;

    P.apply(f, x);
    std::printf("apply() before the update: ok\n"); std::fflush(stdout);

    std::signal(SIGSEGV, on_segv);
    P.partial_update(A);            // same matrix, update_transfer_ops = true (default)
    P.apply(f, y);

    double e = 0;
    for(int i = 0; i < n; ++i) e = std::max(e, std::fabs(x[i] - y[i]));
    std::printf("max |x_before - x_after| = %.3e\n", e);
    if (e > 1e-12) { std::printf("VIOLATION: action changed\n"); return 1; }
    std::printf("OK\n");
    return 0;
}
