// C01 / F5: bicgstab with check_after = true ("always do at least one iteration") and an initial guess
// that is already the exact solution (residual exactly 0): the forced iteration divides 0 by 0, the
// exact solution in x is overwritten with NaN and (1, NaN) is returned.
//
// build: g++ -std=c++17 -O1 -I<amgcl root> demo.cpp
#include <iostream>
#include <vector>
#include <tuple>
#include <cmath>

#include <amgcl/backend/builtin.hpp>
#include <amgcl/make_solver.hpp>
#include <amgcl/amg.hpp>
#include <amgcl/coarsening/smoothed_aggregation.hpp>
#include <amgcl/relaxation/spai0.hpp>
#include <amgcl/solver/bicgstab.hpp>
#include <amgcl/adapter/crs_tuple.hpp>

int main() {
    typedef amgcl::backend::builtin<double> B;
    typedef amgcl::make_solver<
        amgcl::amg<B, amgcl::coarsening::smoothed_aggregation, amgcl::relaxation::spai0>,
        amgcl::solver::bicgstab<B> > Solver;

    // 2D Poisson 30 x 30, integer entries; xs = (1,...,1), f = A * xs exactly (small integers).
    const int n = 30;
    std::vector<ptrdiff_t> ptr, col; std::vector<double> val; ptr.push_back(0);
    for(int j = 0; j < n; ++j) for(int i = 0; i < n; ++i) {
        int id = j * n + i;
        if (j > 0)   { col.push_back(id - n); val.push_back(-1); }
        if (i > 0)   { col.push_back(id - 1); val.push_back(-1); }
        col.push_back(id); val.push_back(4);
        if (i < n-1) { col.push_back(id + 1); val.push_back(-1); }
        if (j < n-1) { col.push_back(id + n); val.push_back(-1); }
        ptr.push_back(col.size());
    }
    size_t N = size_t(n) * n;
    std::vector<double> xs(N, 1.0), f(N, 0.0);
    for(size_t i = 0; i < N; ++i)
        for(ptrdiff_t k = ptr[i]; k < ptr[i+1]; ++k) f[i] += val[k] * xs[col[k]];

    int bad = 0;
    for (int check_after = 0; check_after < 2; ++check_after)
    for (int left = 0; left < 2; ++left) {
        Solver::params prm;
        prm.solver.check_after = check_after;
        prm.solver.pside = left ? amgcl::preconditioner::side::left : amgcl::preconditioner::side::right;
        Solver solve(std::tie(N, ptr, col, val), prm);

        std::vector<double> x = xs;               // exact solution as the initial guess
        size_t it; double res;
        std::tie(it, res) = solve(f, x);

        double err = 0; bool finite = true;
        for(size_t i = 0; i < N; ++i) { if (!std::isfinite(x[i])) finite = false; err = std::max(err, std::abs(x[i] - xs[i])); }

        bool ok = finite && (res < 1e-8) && err < 1e-6;
        std::cout << "check_after=" << check_after << " pside=" << (left ? "left " : "right")
                  << " iters=" << it << " returned=" << res << " x[0]=" << x[0]
                  << (ok ? "" : "   <-- VIOLATION: exact initial guess turned into NaN, no convergence") << std::endl;
        if (!ok) ++bad;
    }
    return bad ? 1 : 0;
}
