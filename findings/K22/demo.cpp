// C02 / F3: smoothed_aggr_emin can produce prolongation columns that are exactly zero
// (omega_j = 1/lambda when the tentative column is an eigenvector of D^-1 Af), so the
// Galerkin coarse operator has zero rows/columns (is singular). Depending on the
// parameters the setup then throws ("Zero diagonal/sum in skyline_lu") or - silently -
// the preconditioner returns NaN for every right-hand side.
//
// Case A: 1D layered reaction-diffusion, n=8: pairs {0,1},{2,3},.. coupled by 1, pairs
//         coupled to each other by 1/16, reaction term +1 on every diagonal. Strictly
//         diagonally dominant SPD M-matrix with dyadic entries; here omega_j = 2 exactly
//         and P == 0 exactly.
// Case B: 5-point anisotropic Poisson on a 10x14 grid, a_x = 1, a_y = 1/512, Dirichlet
//         boundary (the standard anisotropic model problem).
//
// build: g++ -std=c++17 -O1 -I<amgcl root> demo.cpp
#include <vector>
#include <map>
#include <cmath>
#include <cstdio>
#include <tuple>
#include <stdexcept>

#include <amgcl/backend/builtin.hpp>
#include <amgcl/adapter/crs_tuple.hpp>
#include <amgcl/amg.hpp>
#include <amgcl/coarsening/smoothed_aggr_emin.hpp>
#include <amgcl/coarsening/smoothed_aggregation.hpp>
#include <amgcl/relaxation/spai0.hpp>

struct CRS { int n; std::vector<ptrdiff_t> ptr, col; std::vector<double> val; };

static CRS assemble(int n, const std::vector<std::map<int,double>> &rows) {
    CRS A; A.n = n; A.ptr.push_back(0);
    for (int i = 0; i < n; ++i) {
        for (auto &kv : rows[i]) { A.col.push_back(kv.first); A.val.push_back(kv.second); }
        A.ptr.push_back(A.col.size());
    }
    return A;
}
static void edge(std::vector<std::map<int,double>> &r, int i, int j, double w) {
    r[i][j] -= w; r[j][i] -= w; r[i][i] += w; r[j][j] += w;
}
static CRS caseA() {
    int n = 8; std::vector<std::map<int,double>> r(n);
    for (int i = 0; i + 1 < n; ++i) edge(r, i, i + 1, (i % 2 == 1) ? 1.0 / 16 : 1.0);
    for (int i = 0; i < n; ++i) r[i][i] += 1.0;
    return assemble(n, r);
}
static CRS caseB() {
    int nx = 10, ny = 14, n = nx * ny; double ax = 1, ay = 1.0 / 512;
    std::vector<std::map<int,double>> r(n);
    for (int j = 0; j < ny; ++j) for (int i = 0; i < nx; ++i) {
        int k = j * nx + i;
        if (i + 1 < nx) edge(r, k, k + 1, ax);
        if (j + 1 < ny) edge(r, k, k + nx, ay);
        if (i == 0) r[k][k] += ax; if (i == nx - 1) r[k][k] += ax;   // Dirichlet neighbours
        if (j == 0) r[k][k] += ay; if (j == ny - 1) r[k][k] += ay;
    }
    return assemble(n, r);
}

// returns 0 if B is finite for all unit vectors, 1 otherwise
template <template <class> class Coarsening>
static int probe(const char *what, const CRS &A, unsigned coarse_enough) {
    typedef amgcl::amg<amgcl::backend::builtin<double>, Coarsening, amgcl::relaxation::spai0> AMG;
    typename AMG::params prm; prm.coarse_enough = coarse_enough;
    try {
        AMG amg(std::tie(A.n, A.ptr, A.col, A.val), prm);
        std::vector<double> f(A.n), x(A.n);
        int nonfinite = 0;
        for (int j = 0; j < A.n; ++j) {
            std::fill(f.begin(), f.end(), 0.0); f[j] = 1;
            amg.apply(f, x);
            for (double v : x) if (!std::isfinite(v)) ++nonfinite;
        }
        printf("  %-34s coarse_enough=%-3u: %d of %d entries of B are NaN/Inf\n", what, coarse_enough, nonfinite, A.n * A.n);
        return nonfinite != 0;
    } catch (const std::exception &e) {
        printf("  %-34s coarse_enough=%-3u: setup threw \"%s\"\n", what, coarse_enough, e.what());
        return 1;
    }
}

int main() {
    int bad = 0, ctl = 0;
    CRS A = caseA(), B = caseB();
    printf("Case A (1D layered reaction-diffusion, n=8):\n");
    ctl += probe<amgcl::coarsening::smoothed_aggregation>("smoothed_aggregation (control)", A, 2);
    bad += probe<amgcl::coarsening::smoothed_aggr_emin>("smoothed_aggr_emin", A, 2);
    bad += probe<amgcl::coarsening::smoothed_aggr_emin>("smoothed_aggr_emin", A, 5);
    printf("Case B (anisotropic Poisson 10x14, ay=1/512):\n");
    ctl += probe<amgcl::coarsening::smoothed_aggregation>("smoothed_aggregation (control)", B, 10);
    bad += probe<amgcl::coarsening::smoothed_aggr_emin>("smoothed_aggr_emin", B, 10);
    bad += probe<amgcl::coarsening::smoothed_aggr_emin>("smoothed_aggr_emin", B, 20);
    if (ctl) { printf("control failed?!\n"); return 2; }
    if (bad) {
        printf("VIOLATION: smoothed_aggr_emin yields a singular coarse operator (zero prolongation columns): "
               "B is NaN or the setup throws for an SPD M-matrix\n");
        return 1;
    }
    printf("OK\n");
    return 0;
}
