// C05 / F1: complex BiCGStab does not produce the BiCGStab iterates (wrong conjugation in alpha and omega),
// it diverges on a 4x4 system with condition number 1.6 instead of terminating within n iterations.
#include <vector>
#include <complex>
#include <iostream>
#include <cmath>
#include <tuple>
#include <amgcl/backend/builtin.hpp>
#include <amgcl/value_type/complex.hpp>
#include <amgcl/adapter/crs_tuple.hpp>
#include <amgcl/solver/bicgstab.hpp>

typedef std::complex<double> C;
typedef std::vector<C> V;
typedef std::vector<V> Dense;
typedef amgcl::backend::builtin<C> B;

struct Identity {
    template <class V1, class V2> void apply(const V1 &r, V2 &&x) const {
        for(size_t i = 0; i < r.size(); ++i) x[i] = r[i];
    }
};

static V matvec(const Dense &D, const V &x) {
    int n = D.size(); V y(n, C());
    for(int i = 0; i < n; ++i) for(int j = 0; j < n; ++j) y[i] += D[i][j] * x[j];
    return y;
}
static V resid(const Dense &D, const V &f, const V &x) {
    V y = matvec(D, x); for(size_t i = 0; i < y.size(); ++i) y[i] = f[i] - y[i]; return y;
}
static double nrm(const V &x) { double s = 0; for(auto &v : x) s += std::norm(v); return std::sqrt(s); }
static C dot(const V &a, const V &b) { C s = 0; for(size_t i = 0; i < a.size(); ++i) s += std::conj(a[i]) * b[i]; return s; } // a^H b

// Textbook unpreconditioned BiCGStab (van der Vorst 1992 / Saad Alg. 7.7) with the Hermitian inner product.
static V ref_bicgstab(const Dense &D, const V &f, V x, int k) {
    int n = f.size(); V r = resid(D, f, x), rh = r, p = r;
    for(int it = 0; it < k; ++it) {
        C rho = dot(rh, r);
        V v = matvec(D, p);
        C alpha = rho / dot(rh, v);
        V s(n); for(int i = 0; i < n; ++i) s[i] = r[i] - alpha * v[i];
        V t = matvec(D, s);
        C omega = dot(t, s) / dot(t, t);
        for(int i = 0; i < n; ++i) x[i] += alpha * p[i] + omega * s[i];
        for(int i = 0; i < n; ++i) r[i] = s[i] - omega * t[i];
        C beta = (dot(rh, r) / rho) * (alpha / omega);
        for(int i = 0; i < n; ++i) p[i] = r[i] + beta * (p[i] - omega * v[i]);
    }
    return x;
}

int main() {
    const int n = 4;
    // Strongly diagonally dominant complex matrix, 2-norm condition number 1.6
    Dense D(n, V(n));
    for(int i = 0; i < n; ++i)
        for(int j = 0; j < n; ++j)
            D[i][j] = (i == j) ? C(4, 1 + i)
                               : C(((i*3 + j*5) % 4 - 1.5) * 0.5, ((i*7 + j) % 3 - 1) * 0.5);

    std::vector<ptrdiff_t> ptr(1, 0), col; V val;
    for(int i = 0; i < n; ++i) {
        for(int j = 0; j < n; ++j) { col.push_back(j); val.push_back(D[i][j]); }
        ptr.push_back(col.size());
    }
    B::matrix A(std::tie(n, ptr, col, val));

    V f(n); for(int i = 0; i < n; ++i) f[i] = C(1 + i, 2 - i);
    const V x0(n, C(0.5, -0.25));
    Identity P;

    int bad = 0;
    for(int side = 0; side < 2; ++side) {
        for(int k = 1; k <= n; ++k) {
            amgcl::solver::bicgstab<B>::params prm;
            prm.maxiter = k; prm.tol = 1e-14;
            prm.pside = side ? amgcl::preconditioner::side::left : amgcl::preconditioner::side::right;
            amgcl::solver::bicgstab<B> S(n, prm);

            V x = x0;
            size_t it; double res;
            std::tie(it, res) = S(A, P, f, x);

            V xr = ref_bicgstab(D, f, x0, k);
            V d(n); for(int i = 0; i < n; ++i) d[i] = x[i] - xr[i];
            double rl = nrm(resid(D, f, x)) / nrm(f), rr = nrm(resid(D, f, xr)) / nrm(f);

            std::cout << (side ? "left " : "right") << " k=" << k << " iters=" << it
                      << "  lib rel.res=" << rl << "  reference rel.res=" << rr
                      << "  |x_lib - x_ref|=" << nrm(d) << std::endl;

            if (nrm(d) > 1e-6 * (1 + nrm(xr))) {
                std::cout << "  VIOLATION: iterate " << k << " differs from the reference BiCGStab iterate" << std::endl;
                ++bad;
            }
            if (k == n && rl > 1e-8) {
                std::cout << "  VIOLATION: no termination with the solution within n=" << n << " iterations" << std::endl;
                ++bad;
            }
        }
    }
    return bad ? 1 : 0;
}
