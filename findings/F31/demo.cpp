// C01 / F6: smoothed_aggr_emin produces NaN transfer operators (and therefore NaN from every solver)
// on an SPD, diagonally dominant M-matrix as soon as one aggregate is "isolated" in the filtered matrix:
// a 2D Poisson matrix in which ONE interior edge carries the weight 64 instead of 1 (coefficient
// contrast 64). The two end points of that edge are strongly coupled to each other only, they form an
// aggregate c with A_f * P_tent(:,c) = 0 (zero row sums), and omega_c = 0/0.
//
// build: g++ -std=c++17 -O1 -I<amgcl root> demo.cpp
#include <iostream>
#include <vector>
#include <map>
#include <tuple>
#include <cmath>

#include <amgcl/backend/builtin.hpp>
#include <amgcl/make_solver.hpp>
#include <amgcl/amg.hpp>
#include <amgcl/coarsening/smoothed_aggr_emin.hpp>
#include <amgcl/coarsening/smoothed_aggregation.hpp>
#include <amgcl/relaxation/spai0.hpp>
#include <amgcl/relaxation/gauss_seidel.hpp>
#include <amgcl/solver/cg.hpp>
#include <amgcl/solver/gmres.hpp>
#include <amgcl/solver/richardson.hpp>
#include <amgcl/adapter/crs_tuple.hpp>

struct Problem {
    size_t N;
    std::vector<ptrdiff_t> ptr, col;
    std::vector<double> val, f;
};

// Weighted graph Laplacian of the n x n grid (all weights 1, except one interior edge with weight W)
// plus the usual Dirichlet boundary contribution (the stencil diagonal is 4 everywhere for W = 1, so
// boundary rows are strictly and interior rows weakly diagonally dominant): exactly the 5-point
// Poisson matrix for W = 1.
Problem make(int n, double W) {
    Problem p; p.N = size_t(n) * n;
    std::vector<std::map<ptrdiff_t, double>> rows(p.N);
    auto edge = [&](size_t a, size_t b, double c) { rows[a][b] -= c; rows[b][a] -= c; rows[a][a] += c; rows[b][b] += c; };
    size_t special = size_t(n / 2) * n + n / 2;           // edge (special, special + 1), in the interior
    for(int j = 0; j < n; ++j) for(int i = 0; i < n; ++i) {
        size_t id = size_t(j) * n + i;
        if (i < n-1) edge(id, id + 1, id == special ? W : 1.0);
        if (j < n-1) edge(id, id + n, 1.0);
        // Dirichlet boundary: eliminated neighbours leave their weight on the diagonal
        rows[id][id] += (i == 0) + (i == n-1) + (j == 0) + (j == n-1);
    }
    p.ptr.push_back(0);
    for(auto &r : rows) { for(auto &e : r) { p.col.push_back(e.first); p.val.push_back(e.second); } p.ptr.push_back(p.col.size()); }
    p.f.assign(p.N, 1.0);
    return p;
}

template <template <class> class Coarsening, template <class> class Relax, template <class, class> class IterSolver>
bool run(const char *tag, const Problem &p) {
    typedef amgcl::backend::builtin<double> B;
    typedef amgcl::make_solver<
        amgcl::amg<B, Coarsening, Relax>,
        IterSolver<B, amgcl::solver::detail::default_inner_product> > Solver;

    Solver solve(std::tie(p.N, p.ptr, p.col, p.val));    // all parameters default
    std::vector<double> x(p.N, 0.0);
    size_t it; double res;
    std::tie(it, res) = solve(p.f, x);

    double nr = 0, nf = 0;
    for(size_t i = 0; i < p.N; ++i) {
        double s = p.f[i];
        for(ptrdiff_t k = p.ptr[i]; k < p.ptr[i+1]; ++k) s -= p.val[k] * x[p.col[k]];
        nr += s * s; nf += p.f[i] * p.f[i];
    }
    double tr = std::sqrt(nr / nf);
    bool ok = (res < 1e-8) && (tr < 1e-7) && it <= 100;
    std::cout << "  " << tag << ": iters=" << it << " returned=" << res << " true=" << tr
              << (ok ? "" : "   <-- VIOLATION") << std::endl;
    return ok;
}

int main() {
    using namespace amgcl;
    int bad = 0;
    for (double W : {1.0, 64.0}) {
        std::cout << "Poisson 64x64, one interior edge with weight " << W << ":" << std::endl;
        Problem p = make(64, W);
        run<coarsening::smoothed_aggregation, relaxation::spai0, solver::cg>("control smoothed_aggregation + spai0 + cg  ", p);
        bad += !run<coarsening::smoothed_aggr_emin, relaxation::spai0,        solver::cg        >("smoothed_aggr_emin + spai0 + cg            ", p);
        bad += !run<coarsening::smoothed_aggr_emin, relaxation::gauss_seidel, solver::gmres     >("smoothed_aggr_emin + gauss_seidel + gmres   ", p);
        bad += !run<coarsening::smoothed_aggr_emin, relaxation::spai0,        solver::richardson>("smoothed_aggr_emin + spai0 + richardson    ", p);
    }
    return bad ? 1 : 0;
}
