// C01 / F4: smoothed_aggr_emin builds wrong transfer operators for block value types whose blocks do
// not commute (missing transposes / wrong multiplication order in the block formulas for omega and R).
// On an SPD, strictly diagonally dominant block M-matrix (2x2 blocks) the coupled solver
// amg<smoothed_aggr_emin, spai0> + cg with ALL DEFAULT parameters does not converge in 100 iterations
// (and the Richardson iteration with the same cycle diverges), while amg<smoothed_aggregation, spai0> + cg
// needs 19 iterations on the same system.
//
// build: g++ -std=c++17 -O1 -I<amgcl root> demo.cpp
#include <iostream>
#include <vector>
#include <random>
#include <tuple>
#include <cmath>

#include <amgcl/backend/builtin.hpp>
#include <amgcl/value_type/static_matrix.hpp>
#include <amgcl/make_solver.hpp>
#include <amgcl/amg.hpp>
#include <amgcl/coarsening/smoothed_aggr_emin.hpp>
#include <amgcl/coarsening/smoothed_aggregation.hpp>
#include <amgcl/relaxation/spai0.hpp>
#include <amgcl/solver/cg.hpp>
#include <amgcl/solver/richardson.hpp>
#include <amgcl/adapter/crs_tuple.hpp>

typedef amgcl::static_matrix<double,2,2> V;
typedef amgcl::static_matrix<double,2,1> R;

// 5-point stencil on an n x n grid with 2x2 blocks:
//   diagonal block D, "forward" neighbours (i+1, j+1) get block B, "backward" neighbours get B^T,
// so the matrix is symmetric as a 2N x 2N scalar matrix. Seen as a scalar matrix it is a strictly
// diagonally dominant M-matrix (positive diagonal, non-positive off-diagonal, row sums = 0.1 > 0),
// hence SPD.
//   sym == true : D = [5 -.3; -.3 3], B = B^T = [-1 -.15; -.15 -.5]   (symmetric blocks, D*B != B*D)
//   sym == false: D = [5 -.3; -.3 3], B       = [-1 -.2 ; -.1  -.5]   (non-symmetric off-diagonal blocks)
template <template <class> class Coarsening, template <class, class> class IterSolver>
std::tuple<size_t, double, double> run(int n, bool sym) {
    typedef amgcl::backend::builtin<V> B;
    typedef amgcl::make_solver<
        amgcl::amg<B, Coarsening, amgcl::relaxation::spai0>,
        IterSolver<B, amgcl::solver::detail::default_inner_product> > Solver;

    V D, Bf, Bb;
    D(0,0) = 5; D(0,1) = -0.3; D(1,0) = -0.3; D(1,1) = 3;
    if (sym) { Bf(0,0) = -1; Bf(0,1) = -0.15; Bf(1,0) = -0.15; Bf(1,1) = -0.5; }
    else     { Bf(0,0) = -1; Bf(0,1) = -0.2;  Bf(1,0) = -0.1;  Bf(1,1) = -0.5; }
    Bb(0,0) = Bf(0,0); Bb(0,1) = Bf(1,0); Bb(1,0) = Bf(0,1); Bb(1,1) = Bf(1,1); // transpose

    std::vector<ptrdiff_t> ptr, col; std::vector<V> val;
    ptr.push_back(0);
    for(int j = 0; j < n; ++j) for(int i = 0; i < n; ++i) {
        int id = j * n + i;
        if (j > 0)   { col.push_back(id - n); val.push_back(Bb); }
        if (i > 0)   { col.push_back(id - 1); val.push_back(Bb); }
        col.push_back(id); val.push_back(D);
        if (i < n-1) { col.push_back(id + 1); val.push_back(Bf); }
        if (j < n-1) { col.push_back(id + n); val.push_back(Bf); }
        ptr.push_back(col.size());
    }
    size_t N = size_t(n) * n;

    std::mt19937 g(3); std::uniform_real_distribution<double> d(-1, 1);
    std::vector<R> f(N), x(N);
    for(size_t i = 0; i < N; ++i) { f[i](0) = d(g); f[i](1) = d(g); x[i](0) = 0; x[i](1) = 0; }

    Solver solve(std::tie(N, ptr, col, val));   // all parameters default
    size_t it; double res;
    std::tie(it, res) = solve(f, x);

    double nr = 0, nf = 0;
    for(size_t i = 0; i < N; ++i) {
        R s = f[i];
        for(ptrdiff_t k = ptr[i]; k < ptr[i+1]; ++k) s -= val[k] * x[col[k]];
        nr += s(0)*s(0) + s(1)*s(1); nf += f[i](0)*f[i](0) + f[i](1)*f[i](1);
    }
    return std::make_tuple(it, res, std::sqrt(nr / nf));
}

int main() {
    using namespace amgcl;
    const int n = 100;
    int bad = 0;
    size_t it; double res, tr;

    for (int sym = 1; sym >= 0; --sym) {
        std::cout << (sym ? "symmetric non-commuting blocks:" : "non-symmetric off-diagonal blocks:") << std::endl;

        std::tie(it, res, tr) = run<coarsening::smoothed_aggregation, solver::cg>(n, sym);
        std::cout << "  control smoothed_aggregation + spai0 + cg: iters=" << it << " res=" << res << " true=" << tr << std::endl;
        size_t it_ref = it;

        std::tie(it, res, tr) = run<coarsening::smoothed_aggr_emin, solver::cg>(n, sym);
        std::cout << "  smoothed_aggr_emin + spai0 + cg:           iters=" << it << " res=" << res << " true=" << tr << std::endl;
        if (!(res < 1e-8) || it > 3 * it_ref + 5) {
            std::cout << "  VIOLATION: default tolerance not reached well inside 100 iterations" << std::endl; ++bad;
        }

        std::tie(it, res, tr) = run<coarsening::smoothed_aggr_emin, solver::richardson>(n, sym);
        std::cout << "  smoothed_aggr_emin + spai0 + richardson:   iters=" << it << " res=" << res << " true=" << tr << std::endl;
        if (!(tr < 1.0)) {
            std::cout << "  VIOLATION: Richardson iteration diverges (relative residual started at 1)" << std::endl; ++bad;
        }
    }
    return bad ? 1 : 0;
}
