// C06 / F3: ILUT counts the diagonal against the fill quota of the U part: only p*u_i - 1 (instead of the
// documented p*u_i "in addition to the diagonal element") off-diagonal entries survive in a row of U.
// Consequently ILUT(p = 1, tau = 0) on a tridiagonal (or arrow) matrix throws away the whole strict upper
// triangle and is not the exact inverse although the exact factors have exactly l_i / u_i entries per row.
// Build: g++ -std=c++17 -O1 -I<amgcl root> demo.cpp
#include <iostream>
#include <vector>
#include <cmath>
#include <amgcl/backend/builtin.hpp>
#include <amgcl/relaxation/ilut.hpp>
#include <amgcl/relaxation/ilu0.hpp>

typedef amgcl::backend::builtin<double> Backend;

// Dense LU without pivoting; returns max number of strict-lower / strict-upper nonzeros per row relative
// to the quota p*l_i, p*u_i (to prove that the exact factors fit into the documented pattern).
static bool exact_factors_fit(int n, std::vector<double> a, double p) {
    std::vector<int> l(n, 0), u(n, 0);
    for(int i = 0; i < n; ++i) for(int j = 0; j < n; ++j) if (a[i*n+j] != 0) { if (j < i) ++l[i]; if (j > i) ++u[i]; }
    for(int k = 0; k < n; ++k) for(int i = k+1; i < n; ++i) if (a[i*n+k] != 0) {
        a[i*n+k] /= a[k*n+k];
        for(int j = k+1; j < n; ++j) a[i*n+j] -= a[i*n+k] * a[k*n+j];
    }
    for(int i = 0; i < n; ++i) {
        int ll = 0, uu = 0;
        for(int j = 0; j < n; ++j) if (a[i*n+j] != 0) { if (j < i) ++ll; if (j > i) ++uu; }
        if (ll > static_cast<int>(l[i] * p) || uu > static_cast<int>(u[i] * p)) return false;
    }
    return true;
}

template <class Relax>
static double solve_error(const char *name, int n, const std::vector<double> &dense, const typename Relax::params &prm) {
    std::vector<ptrdiff_t> ptr(1, 0), col; std::vector<double> val;
    for(int i = 0; i < n; ++i) {
        for(int j = 0; j < n; ++j) if (dense[i*n+j] != 0) { col.push_back(j); val.push_back(dense[i*n+j]); }
        ptr.push_back(col.size());
    }
    Backend::matrix A(n, n, ptr, col, val);
    Relax R(A, prm, Backend::params());

    amgcl::backend::numa_vector<double> f(n), x(n);
    std::vector<double> xs(n);
    for(int i = 0; i < n; ++i) xs[i] = 1 + (i % 3);
    for(int i = 0; i < n; ++i) { double s = 0; for(int j = 0; j < n; ++j) s += dense[i*n+j] * xs[j]; f[i] = s; }

    R.apply(A, f, x);     // x = (LU)^-1 f
    double err = 0;
    for(int i = 0; i < n; ++i) err = std::max(err, std::abs(x[i] - xs[i]));
    std::cout << name << ": max |(LU)^-1 A x* - x*| = " << err << std::endl;
    return err;
}

int main() {
    typedef amgcl::relaxation::ilut<Backend> ILUT;
    typedef amgcl::relaxation::ilu0<Backend> ILU0;
    int bad = 0;

    // (a) tridiagonal 5x5, p = 1, tau = 0
    {
        const int n = 5;
        std::vector<double> T(n*n, 0.0);
        for(int i = 0; i < n; ++i) { T[i*n+i] = 4; if (i) T[i*n+i-1] = -1; if (i+1 < n) T[i*n+i+1] = -2; }

        ILUT::params prm; prm.p = 1; prm.tau = 0; prm.solve.serial = true;
        if (!exact_factors_fit(n, T, prm.p)) { std::cout << "demo broken (a)" << std::endl; return 2; }

        ILU0::params p0; p0.solve.serial = true;
        if (solve_error<ILU0>("control: ILU0 on tridiagonal", n, T, p0) > 1e-12) { std::cout << "control failed" << std::endl; return 2; }

        if (solve_error<ILUT>("ILUT(p=1,tau=0) on tridiagonal", n, T, prm) > 1e-10) ++bad;
    }

    // (b) arrow matrix 5x5 (last row / last column full), p = 1, tau = 0
    {
        const int n = 5;
        std::vector<double> T(n*n, 0.0);
        for(int i = 0; i < n; ++i) { T[i*n+i] = 8; T[i*n+n-1] = (i == n-1 ? 8 : 1); T[(n-1)*n+i] = (i == n-1 ? 8 : -1); }

        ILUT::params prm; prm.p = 1; prm.tau = 0; prm.solve.serial = true;
        if (!exact_factors_fit(n, T, prm.p)) { std::cout << "demo broken (b)" << std::endl; return 2; }
        if (solve_error<ILUT>("ILUT(p=1,tau=0) on arrow matrix", n, T, prm) > 1e-10) ++bad;
    }

    // (c) default fill factor p = 2, tau = 0: row 1 has u_1 = 1 entry above the diagonal and receives one
    //     fill-in, i.e. needs exactly p*u_1 = 2 entries in U. The library keeps only one of them.
    {
        const int n = 4;
        std::vector<double> T = {
            4, 0, 1, 0,
            1, 4, 0, 1,
            0, 0, 4, 1,
            0, 0, 1, 4 };
        ILUT::params prm; prm.tau = 0; prm.solve.serial = true; // prm.p == 2 (default)
        if (!exact_factors_fit(n, T, prm.p)) { std::cout << "demo broken (c)" << std::endl; return 2; }
        if (solve_error<ILUT>("ILUT(p=2,tau=0) on 4x4 with one fill-in", n, T, prm) > 1e-10) ++bad;
    }

    if (bad) {
        std::cout << "VIOLATED: ILUT is not the exact inverse although the exact factors fit into the p*l_i / p*u_i quota ("
                  << bad << " cases)" << std::endl;
        return 1;
    }
    std::cout << "OK" << std::endl;
    return 0;
}
