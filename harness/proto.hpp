// Shared harness plumbing: PRNG, line protocol (parse/print), case loop.  DESIGN.md §2.3.
//
// A harness translation unit defines
//     void generate(vh::Rng &rng, const vh::Opts &o, std::vector<std::string> &lines);
//     vh::Result execute(const vh::Toks &t);          // runs the REAL amgcl code on one op line
// and ends with  VH_MAIN(generate, execute)
//
// Files written into --out DIR:
//   ops.txt     one operation per line (input of the Lean model driver as well)
//   impl.txt    one canonical result line per operation (what the real code returned)
//   oracle.txt  per operation: "ok" or "FAIL <reason>"  (property oracle evaluated on the implementation,
//               in exact arithmetic, independent of the model)
//   meta.txt    per operation: "<nontrivial 0|1> <tag>*"  (input distribution for the evidence file)
// Lines are flushed one by one; if the process dies (sanitizer abort, signal) the driver script sees which
// case was running and restarts with --from.
#pragma once
#include "qtype.hpp"
#include <vector>
#include <string>
#include <fstream>
#include <sstream>
#include <cstdint>
#include <cstdlib>
#include <cstring>
#include <stdexcept>
#include <algorithm>
#include <memory>
#include <set>
#include <map>
#include <amgcl/backend/builtin.hpp>
#include <amgcl/util.hpp>

namespace vh {

typedef std::vector<std::string> Toks;
typedef amgcl::backend::crs<Q, ptrdiff_t, ptrdiff_t> Crs;
typedef amgcl::backend::numa_vector<Q> NVec;

// ---------------------------------------------------------------- PRNG
struct Rng {
    uint64_t s;
    explicit Rng(uint64_t seed) : s(seed) {}
    uint64_t next() {
        uint64_t z = (s += 0x9e3779b97f4a7c15ULL);
        z = (z ^ (z >> 30)) * 0xbf58476d1ce4e5b9ULL;
        z = (z ^ (z >> 27)) * 0x94d049bb133111ebULL;
        return z ^ (z >> 31);
    }
    // uniform in [lo, hi]
    long range(long lo, long hi) { return lo + (long)(next() % (uint64_t)(hi - lo + 1)); }
    bool coin(int num = 1, int den = 2) { return (long)(next() % (uint64_t)den) < num; }
    template <class T> const T& pick(const std::vector<T> &v) { return v[next() % v.size()]; }
    // small rational p/q, p in [-pm, pm], q in {1,2,3,4}
    Q rat(long pm = 6) { return Q::frac(range(-pm, pm), range(1, 4)); }
    Q rat_nz(long pm = 6) { for(;;) { Q r = rat(pm); if (r != 0) return r; } }
    Q integer(long pm = 6) { return Q(range(-pm, pm)); }
};
inline uint64_t mix(uint64_t a, uint64_t b) { Rng r(a * 0x9e3779b97f4a7c15ULL + b); r.next(); return r.next(); }

// ---------------------------------------------------------------- options
struct Opts {
    uint64_t seed = 1;
    std::string tier = "quick";
    std::string out = ".";
    std::string replay;        // ops file to execute instead of generating
    long from = 0;             // skip cases < from (after a crash)
    long cases = -1;           // override number of generated cases
    bool thorough() const { return tier == "thorough"; }
};

// ---------------------------------------------------------------- printing
inline std::string str(const Q &q) { return q.str(); }
inline std::string str(long v) { return std::to_string(v); }

struct Line {
    std::ostringstream s; bool first = true;
    Line& tok(const std::string &t) { if (!first) s << ' '; first = false; s << t; return *this; }
    Line& operator<<(const std::string &t) { return tok(t); }
    Line& operator<<(const char *t) { return tok(t); }
    Line& operator<<(const Q &q) { return tok(q.str()); }
    Line& operator<<(long v) { return tok(std::to_string(v)); }
    Line& operator<<(int v) { return tok(std::to_string(v)); }
    Line& operator<<(unsigned v) { return tok(std::to_string(v)); }
    Line& operator<<(size_t v) { return tok(std::to_string(v)); }
    Line& operator<<(bool v) { return tok(v ? "1" : "0"); }
    template <class T> Line& vec(const T &v, size_t n) { *this << n; for (size_t i = 0; i < n; ++i) *this << v[i]; return *this; }
    template <class T> Line& operator<<(const std::vector<T> &v) { return vec(v, v.size()); }
    Line& operator<<(const NVec &v) { return vec(v, v.size()); }
    template <class V, class C, class P>
    Line& operator<<(const amgcl::backend::crs<V,C,P> &A) {
        *this << A.nrows << A.ncols;
        for (size_t i = 0; i < A.nrows; ++i) {
            *this << (long)(A.ptr[i+1] - A.ptr[i]);
            for (auto j = A.ptr[i]; j < A.ptr[i+1]; ++j) { *this << (long)A.col[j]; *this << A.val[j]; }
        }
        return *this;
    }
    std::string get() const { return s.str(); }
};

// ---------------------------------------------------------------- parsing
struct bad_input : std::runtime_error { bad_input(const std::string &m) : std::runtime_error(m) {} };

struct Cur {
    const Toks &t; size_t i;
    explicit Cur(const Toks &t, size_t i = 1) : t(t), i(i) {}
    const std::string& tok() { if (i >= t.size()) throw bad_input("eol"); return t[i++]; }
    long nat() { const std::string &s = tok(); char *e; long v = strtol(s.c_str(), &e, 10); if (*e || s.empty()) throw bad_input("int"); return v; }
    Q rat() { const std::string &s = tok(); if (s == "POISON") return Q::poisoned(); try { return Q::parse(s); } catch (...) { throw bad_input("rat"); } }
    std::vector<Q> vec() { long n = nat(); if (n < 0) throw bad_input("n"); std::vector<Q> v(n); for (auto &x : v) x = rat(); return v; }
    std::vector<long> natvec() { long n = nat(); if (n < 0) throw bad_input("n"); std::vector<long> v(n); for (auto &x : v) x = nat(); return v; }
    // CRS in protocol form -> (n, m, ptr, col, val)
    struct Mat { long n, m; std::vector<ptrdiff_t> ptr, col; std::vector<Q> val;
        std::shared_ptr<Crs> crs() const { return std::make_shared<Crs>((size_t)n, (size_t)m, ptr, col, val); } };
    Mat mat() {
        Mat M; M.n = nat(); M.m = nat(); M.ptr.push_back(0);
        for (long r = 0; r < M.n; ++r) { long k = nat(); for (long j = 0; j < k; ++j) { M.col.push_back(nat()); M.val.push_back(rat()); } M.ptr.push_back((ptrdiff_t)M.col.size()); }
        return M;
    }
    bool end() const { return i >= t.size(); }
    void expect_end() { if (!end()) throw bad_input("trailing"); }
};

inline Toks split(const std::string &line) {
    Toks t; std::istringstream is(line); std::string w; while (is >> w) t.push_back(w); return t;
}
inline NVec nvec(const std::vector<Q> &v) { NVec r(v.size()); for (size_t i = 0; i < v.size(); ++i) r[i] = v[i]; return r; }

// ---------------------------------------------------------------- dense helpers for oracles
typedef std::vector<std::vector<Q>> Dense;
template <class M> Dense dense(const M &A) {
    Dense D(A.nrows, std::vector<Q>(A.ncols));
    for (size_t i = 0; i < A.nrows; ++i) for (auto j = A.ptr[i]; j < A.ptr[i+1]; ++j) D[i][A.col[j]] += A.val[j];
    return D;
}
inline Dense dense(const Cur::Mat &A) {
    Dense D(A.n, std::vector<Q>(A.m));
    for (long i = 0; i < A.n; ++i) for (auto j = A.ptr[i]; j < A.ptr[i+1]; ++j) D[i][A.col[j]] += A.val[j];
    return D;
}
inline Dense dmul(const Dense &A, const Dense &B, long mcols = -1) {
    size_t n = A.size(), k = B.size(), m = mcols >= 0 ? (size_t)mcols : (k ? B[0].size() : 0); Dense C(n, std::vector<Q>(m));
    for (size_t i = 0; i < n; ++i) for (size_t l = 0; l < k; ++l) if (A[i][l] != 0) for (size_t j = 0; j < m; ++j) C[i][j] += A[i][l] * B[l][j];
    return C;
}
inline std::vector<Q> dmv(const Dense &A, const std::vector<Q> &x) {
    std::vector<Q> y(A.size()); for (size_t i = 0; i < A.size(); ++i) for (size_t j = 0; j < x.size(); ++j) y[i] += A[i][j] * x[j]; return y;
}
template <class M> bool crs_wf(const M &A, std::string &why) {
    if (A.nrows && A.ptr[0] != 0) { why = "ptr[0]!=0"; return false; }
    for (size_t i = 0; i < A.nrows; ++i) {
        if (A.ptr[i+1] < A.ptr[i]) { why = "ptr not monotone"; return false; }
        for (auto j = A.ptr[i]; j < A.ptr[i+1]; ++j) if (A.col[j] < 0 || (size_t)A.col[j] >= A.ncols) { why = "column out of range"; return false; }
    }
    return true;
}
template <class M> bool crs_sorted_nodup(const M &A) {
    for (size_t i = 0; i < A.nrows; ++i) for (auto j = A.ptr[i]; j + 1 < A.ptr[i+1]; ++j) if (!(A.col[j] < A.col[j+1])) return false;
    return true;
}
template <class M> bool crs_nodup(const M &A) {
    for (size_t i = 0; i < A.nrows; ++i) { std::set<long> s; for (auto j = A.ptr[i]; j < A.ptr[i+1]; ++j) if (!s.insert(A.col[j]).second) return false; }
    return true;
}

// ---------------------------------------------------------------- result of one executed case
struct Result {
    std::string out;            // canonical result line (compared with the model)
    bool ok = true;             // property oracle verdict on the implementation
    std::string why;            // reason when !ok
    bool nontrivial = false;    // by the per-op rule
    std::vector<std::string> tags;
    Result() {}
    Result(const std::string &o) : out(o) {}
    Result& fail(const std::string &w) { if (ok) { ok = false; why = w; } return *this; }
    Result& tag(const std::string &t) { tags.push_back(t); return *this; }
};

template <class Gen, class Exec>
int harness_main(int argc, char **argv, Gen generate, Exec execute) {
    Opts o;
    if (const char *e = getenv("VERIF_SEED")) o.seed = strtoull(e, 0, 10);
    if (const char *e = getenv("VERIF_TIER")) o.tier = e;
    for (int i = 1; i < argc; ++i) {
        std::string a = argv[i];
        auto val = [&]() -> std::string { if (i + 1 >= argc) { std::cerr << "missing value for " << a << "\n"; exit(2); } return argv[++i]; };
        if (a == "--seed") o.seed = strtoull(val().c_str(), 0, 10);
        else if (a == "--tier") o.tier = val();
        else if (a == "--out") o.out = val();
        else if (a == "--replay") o.replay = val();
        else if (a == "--from") o.from = atol(val().c_str());
        else if (a == "--cases") o.cases = atol(val().c_str());
        else { std::cerr << "unknown option " << a << "\n"; return 2; }
    }
    std::vector<std::string> lines;
    if (!o.replay.empty()) {
        std::ifstream f(o.replay); std::string l;
        if (!f) { std::cerr << "cannot read " << o.replay << "\n"; return 2; }
        while (std::getline(f, l)) if (!l.empty() && l[0] != '#') lines.push_back(l);
    } else {
        Rng rng(mix(o.seed, 0));
        generate(rng, o, lines);
    }
    const bool app = o.from > 0;
    if (!app) { std::ofstream ops(o.out + "/ops.txt"); for (auto &l : lines) ops << l << "\n"; }
    auto mode = app ? std::ios::app : std::ios::trunc;
    std::ofstream impl(o.out + "/impl.txt", mode), orc(o.out + "/oracle.txt", mode), meta(o.out + "/meta.txt", mode);
    for (long c = o.from; c < (long)lines.size(); ++c) {
        { std::ofstream cur(o.out + "/current_case.txt"); cur << c << "\n"; }
        Result r;
        Toks t = split(lines[c]);
#ifdef VH_POISON_TRACK          // C10: poisoned re-run of this harness (-include poison.hpp): record the allocation sites of the case
        vh_poison::track = true;
#endif
        try {
            if (t.empty()) throw bad_input("empty");
            r = execute(t);
        } catch (const bad_input &e) {
            r = Result("bad-input");
        }
#ifdef VH_POISON_TRACK
        vh_poison::track = false;
        for (auto &key : vh_poison::sites_since_mark()) r.tags.push_back("site:" + key);
#endif
        impl << r.out << "\n" << std::flush;
        if (r.ok) orc << "ok\n"; else orc << "FAIL " << r.why << "\n";
        orc << std::flush;
        meta << (r.nontrivial ? 1 : 0); for (auto &g : r.tags) meta << ' ' << g; meta << "\n" << std::flush;
    }
    return 0;
}

} // namespace vh

#define VH_MAIN(gen, exec) int main(int argc, char **argv) { return vh::harness_main(argc, argv, gen, exec); }
