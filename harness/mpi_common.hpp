// Shared plumbing of the MPI harnesses (h_mpi.cpp: C11, h_mpi_solve.cpp: C12).
//
// Launched as `mpirun -np W ./h ...`.  Rank 0 does the protocol I/O (ops.txt / impl.txt / oracle.txt / meta.txt, see
// proto.hpp) and broadcasts the op stream once; an op line carries its partition, hence the rank count np <= W of
// the case: the case runs on the sub-communicator of the first np world ranks, the other ranks sit it out.
#pragma once
#include "gen.hpp"
#include <unistd.h>
#include <amgcl/backend/builtin.hpp>
#include <amgcl/adapter/crs_tuple.hpp>
#include <amgcl/mpi/util.hpp>
#include <amgcl/mpi/distributed_matrix.hpp>
#include <amgcl/mpi/inner_product.hpp>
// Open MPI's runtime (progress threads, dlopen'ed components) leaks by design; leak checking is switched off for
// this binary, ASan/UBSan error detection stays on.
extern "C" int __lsan_is_turned_off() { return 1; }
using namespace vh;

typedef amgcl::backend::builtin<double> BD;
typedef amgcl::backend::builtin<float>  BF;
typedef amgcl::mpi::distributed_matrix<BD> DM;
typedef amgcl::backend::crs<double> DCrs;

static const int MAXNP = 8;
static int g_wrank = 0, g_wsize = 1;
static MPI_Comm g_sub[MAXNP + 1];

// ---------------------------------------------------------------- exactness
static const double TWO53 = 9007199254740992.0;
// model side (Driver/Dist.lean: exactB64): denominator a power of two <= 2^20, |numerator| < 2^53
static double exact(const Q &q) {
    if (q.poison) throw bad_input("poison");
    mpz_class den = q.v.get_den(), num = abs(q.v.get_num());
    if (mpz_popcount(den.get_mpz_t()) != 1 || den > (1L << 20) || num >= mpz_class(TWO53)) throw bad_input("inexact");
    return q.v.get_d();
}
static bool dyadic_ok(double v) { return std::fabs(v) < TWO53 && std::floor(v * 1048576.0) == v * 1048576.0; }
static Q qd(double v) { return Q(v); }

// ---------------------------------------------------------------- partitions
struct Part { std::vector<long> p, off; long sum; int np() const { return (int)p.size(); } };
static Part part(Cur &c) {
    Part P; P.p = c.natvec();
    if (P.p.empty() || (int)P.p.size() > MAXNP) throw bad_input("np");
    P.off.push_back(0); for (long s : P.p) { if (s < 0) throw bad_input("part"); P.off.push_back(P.off.back() + s); }
    P.sum = P.off.back(); return P;
}
static Mat checked(Cur &c) {
    Mat A = c.mat(); std::string why; if (!crs_wf(*A.crs(), why)) throw bad_input(why);
    for (auto &v : A.val) exact(v);
    return A;
}
static std::vector<double> dvec(const std::vector<Q> &v) { std::vector<double> d(v.size()); for (size_t i = 0; i < v.size(); ++i) d[i] = exact(v[i]); return d; }
static void need(bool b) { if (!b) throw bad_input("shape"); }
static void need_mat(const Mat &A, const Part &rp, const Part &cp) { need(rp.np() == cp.np() && rp.sum == A.n && cp.sum == A.m); }

struct Ctx { int np, rank; bool active; amgcl::mpi::communicator comm; };
static Ctx ctx_for(int np) {
    if (np > g_wsize) { if (g_wrank == 0) std::cerr << "case needs " << np << " ranks, world has " << g_wsize << std::endl; MPI_Abort(MPI_COMM_WORLD, 3); }
    Ctx x; x.np = np; x.rank = g_wrank; x.active = g_wrank < np;
    if (x.active) {
        x.comm = amgcl::mpi::communicator(g_sub[np]);
        // sleeping barrier: a rank that reaches the case early (it sat the previous cases out) must not busy-poll
        // inside the first collective of the case while the others still work on earlier cases
        MPI_Request req; int done = 0; MPI_Ibarrier(x.comm, &req);
        for (;;) { MPI_Test(&req, &done, MPI_STATUS_IGNORE); if (done) break; usleep(50); }
    }
    return x;
}

// ---------------------------------------------------------------- building the distributed / serial matrices
static std::shared_ptr<DM> make_dm(const Ctx &x, const Mat &A, const Part &rp, const Part &cp) {
    long rb = rp.off[x.rank], re = rp.off[x.rank + 1];
    std::vector<ptrdiff_t> ptr(1, 0), col; std::vector<double> val;
    for (long i = rb; i < re; ++i) { for (auto j = A.ptr[i]; j < A.ptr[i+1]; ++j) { col.push_back(A.col[j]); val.push_back(exact(A.val[j])); } ptr.push_back((ptrdiff_t)col.size()); }
    // the constructor under test: splits the strip into a_loc / a_rem and builds the communication pattern
    return std::make_shared<DM>(x.comm, std::make_tuple((size_t)(re - rb), ptr, col, val), (ptrdiff_t)cp.p[x.rank]);
}
static std::shared_ptr<DCrs> serial(const Mat &A) {
    std::vector<double> v(A.val.size()); for (size_t i = 0; i < v.size(); ++i) v[i] = exact(A.val[i]);
    return std::make_shared<DCrs>((size_t)A.n, (size_t)A.m, A.ptr, A.col, v);
}

// ---------------------------------------------------------------- printing / gathering
static void put_crs(Line &l, const DCrs &A) {
    l << A.nrows << A.ncols;
    for (size_t i = 0; i < A.nrows; ++i) { l << (long)(A.ptr[i+1] - A.ptr[i]); for (auto j = A.ptr[i]; j < A.ptr[i+1]; ++j) { l << (long)A.col[j]; l << qd(A.val[j]); } }
}
static std::string dm_str(const DM &A) { Line l; put_crs(l, *A.local()); put_crs(l, *A.remote()); return l.get(); }
template <class V> static void put_vec(Line &l, const V &v) { l << v.size(); for (auto &e : v) l << (long)e; }

static std::vector<std::string> gather_str(const Ctx &x, const std::string &s) {
    int len = (int)s.size(); std::vector<int> lens(x.np), disp(x.np, 0);
    MPI_Gather(&len, 1, MPI_INT, lens.data(), 1, MPI_INT, 0, x.comm);
    std::vector<char> buf; if (x.rank == 0) { int tot = 0; for (int r = 0; r < x.np; ++r) { disp[r] = tot; tot += lens[r]; } buf.resize(tot + 1); }
    MPI_Gatherv(const_cast<char*>(s.data()), len, MPI_CHAR, buf.data(), lens.data(), disp.data(), MPI_CHAR, 0, x.comm);
    std::vector<std::string> out; if (x.rank == 0) for (int r = 0; r < x.np; ++r) out.push_back(std::string(buf.data() + disp[r], lens[r]));
    return out;
}
static std::vector<double> gather_vec(const Ctx &x, const std::vector<double> &v, const Part &P) {
    std::vector<int> cnt(x.np), disp(x.np); for (int r = 0; r < x.np; ++r) { cnt[r] = (int)P.p[r]; disp[r] = (int)P.off[r]; }
    std::vector<double> g(P.sum + 1);
    MPI_Gatherv(const_cast<double*>(v.data()), (int)v.size(), MPI_DOUBLE, g.data(), cnt.data(), disp.data(), MPI_DOUBLE, 0, x.comm);
    g.resize(P.sum); return g;
}
// a collective scalar: bitwise identical on all ranks?
static bool same_on_all(const Ctx &x, double v, std::vector<double> &all) {
    all.assign(x.np, 0); MPI_Gather(&v, 1, MPI_DOUBLE, all.data(), 1, MPI_DOUBLE, 0, x.comm);
    bool ok = true; if (x.rank == 0) for (int r = 1; r < x.np; ++r) if (std::memcmp(&all[r], &all[0], sizeof(double))) ok = false;
    return ok;
}
static bool all_true(const Ctx &x, bool b) { int l = b ? 1 : 0, g = 0; MPI_Allreduce(&l, &g, 1, MPI_INT, MPI_MIN, x.comm); return g != 0; }
static std::string join(const std::vector<std::string> &v) { std::string s; for (size_t i = 0; i < v.size(); ++i) { if (i) s += ' '; s += v[i]; } return s; }

static bool dense_eq(const Dense &a, const Dense &b) {
    if (a.size() != b.size()) return false;
    for (size_t i = 0; i < a.size(); ++i) { if (a[i].size() != b[i].size()) return false; for (size_t j = 0; j < a[i].size(); ++j) if (a[i][j].v != b[i][j].v) return false; }
    return true;
}
// rank 0: parse the gathered per-rank `loc rem` strings, check the structure of every part and assemble the dense
// global matrix (rows distributed by rp, columns by cp)
static bool assemble(const std::vector<std::string> &parts, const Part &rp, const Part &cp, Dense &G, std::string &why, bool &exactv) {
    G.assign(rp.sum, std::vector<Q>(cp.sum)); exactv = true;
    for (int r = 0; r < rp.np(); ++r) {
        Toks t = split(parts[r]); Cur c(t, 0); Mat L = c.mat(), R = c.mat();
        if (L.n != rp.p[r] || R.n != rp.p[r]) { why = "part has wrong row count"; return false; }
        if (L.m != cp.p[r]) { why = "a_loc has wrong column count"; return false; }
        std::set<long> rc;
        for (long i = 0; i < L.n; ++i) {
            for (auto j = L.ptr[i]; j < L.ptr[i+1]; ++j) { if (L.col[j] < 0 || L.col[j] >= cp.p[r]) { why = "local column out of range"; return false; } G[rp.off[r] + i][cp.off[r] + L.col[j]] += L.val[j]; }
            for (auto j = R.ptr[i]; j < R.ptr[i+1]; ++j) {
                long gc = R.col[j]; if (gc < 0 || gc >= cp.sum || (gc >= cp.off[r] && gc < cp.off[r+1])) { why = "remote column not remote"; return false; }
                rc.insert(gc); G[rp.off[r] + i][gc] += R.val[j];
            }
        }
        if ((long)rc.size() != R.m) { why = "a_rem->ncols != number of distinct remote columns"; return false; }
        for (auto &v : L.val) if (!dyadic_ok(v.v.get_d())) exactv = false;
        for (auto &v : R.val) if (!dyadic_ok(v.v.get_d())) exactv = false;
    }
    return true;
}
static bool has_remote(const Mat &A, const Part &rp, const Part &cp) {
    for (int r = 0; r < rp.np(); ++r) for (long i = rp.off[r]; i < rp.off[r+1]; ++i) for (auto j = A.ptr[i]; j < A.ptr[i+1]; ++j) if (A.col[j] < cp.off[r] || A.col[j] >= cp.off[r+1]) return true;
    return false;
}
static void tags(Result &r, const char *op, const Part &rp, const Part &cp, bool rect) {
    r.tag(op); r.tag("np" + std::to_string(rp.np()));
    bool e = false; for (long s : rp.p) if (!s) e = true; for (long s : cp.p) if (!s) e = true; if (e) r.tag("emptyrank");
    if (rect) r.tag("rect");
}

// ---------------------------------------------------------------- generator helpers
static void compositions(long n, int k, std::vector<long> &cur, std::vector<std::vector<long>> &out) {
    if (k == 1) { cur.push_back(n); out.push_back(cur); cur.pop_back(); return; }
    for (long a = 0; a <= n; ++a) { cur.push_back(a); compositions(n - a, k - 1, cur, out); cur.pop_back(); }
}
static std::vector<long> rand_part(Rng &rng, long n, int np) {
    std::vector<long> cuts; for (int i = 0; i + 1 < np; ++i) cuts.push_back(rng.coin(1, 5) ? (rng.coin() ? 0 : n) : rng.range(0, n));
    std::sort(cuts.begin(), cuts.end()); std::vector<long> p; long prev = 0; for (long cpt : cuts) { p.push_back(cpt - prev); prev = cpt; } p.push_back(n - prev); return p;
}
static void lp(Line &l, const std::vector<long> &p) { l << p.size(); for (long s : p) l << s; }

// ---------------------------------------------------------------- main loop
template <class Gen, class Exec>
static int mpi_harness_main(int argc, char **argv, Gen generate, Exec execute) {
    MPI_Init(&argc, &argv);
    MPI_Comm_rank(MPI_COMM_WORLD, &g_wrank); MPI_Comm_size(MPI_COMM_WORLD, &g_wsize);
    for (int k = 1; k <= MAXNP; ++k) { g_sub[k] = MPI_COMM_NULL; if (k <= g_wsize) MPI_Comm_split(MPI_COMM_WORLD, g_wrank < k ? 0 : MPI_UNDEFINED, g_wrank, &g_sub[k]); }
    Opts o;
    if (const char *e = getenv("VERIF_SEED")) o.seed = strtoull(e, 0, 10);
    if (const char *e = getenv("VERIF_TIER")) o.tier = e;
    for (int i = 1; i < argc; ++i) {
        std::string a = argv[i];
        auto val = [&]() -> std::string { if (i + 1 >= argc) { std::cerr << "missing value for " << a << "\n"; MPI_Abort(MPI_COMM_WORLD, 2); } return argv[++i]; };
        if (a == "--seed") o.seed = strtoull(val().c_str(), 0, 10);
        else if (a == "--tier") o.tier = val();
        else if (a == "--out") o.out = val();
        else if (a == "--replay") o.replay = val();
        else if (a == "--from") o.from = atol(val().c_str());
        else if (a == "--cases") o.cases = atol(val().c_str());
        else { std::cerr << "unknown option " << a << "\n"; MPI_Abort(MPI_COMM_WORLD, 2); }
    }
    std::vector<std::string> lines;
    std::ofstream impl, orc, meta;
    if (g_wrank == 0) {
        if (!o.replay.empty()) {
            std::ifstream f(o.replay); std::string l;
            if (!f) { std::cerr << "cannot read " << o.replay << "\n"; MPI_Abort(MPI_COMM_WORLD, 2); }
            while (std::getline(f, l)) if (!l.empty() && l[0] != '#') lines.push_back(l);
        } else { Rng rng(mix(o.seed, 0)); generate(rng, o, lines); }
        const bool app = o.from > 0;
        if (!app) { std::ofstream ops(o.out + "/ops.txt"); for (auto &l : lines) ops << l << "\n"; }
        auto mode = app ? std::ios::app : std::ios::trunc;
        impl.open(o.out + "/impl.txt", mode); orc.open(o.out + "/oracle.txt", mode); meta.open(o.out + "/meta.txt", mode);
    }
    // one broadcast of the whole op stream: afterwards a rank takes part in a case only through the collectives of
    // that case's sub-communicator, so ranks that sit a case out do not synchronise with it
    {
        std::string all; if (g_wrank == 0) for (auto &l : lines) { all += l; all += '\n'; }
        long len = (long)all.size(); MPI_Bcast(&len, 1, MPI_LONG, 0, MPI_COMM_WORLD); all.resize(len);
        for (long off = 0; off < len; off += (1L << 28)) MPI_Bcast(&all[off], (int)std::min(len - off, 1L << 28), MPI_CHAR, 0, MPI_COMM_WORLD);
        if (g_wrank != 0) { std::istringstream is(all); std::string l; while (std::getline(is, l)) lines.push_back(l); }
    }
    long nlines = (long)lines.size();
    for (long cs = o.from; cs < nlines; ++cs) {
        const std::string &line = lines[cs];
        if (g_wrank == 0) { std::ofstream cur(o.out + "/current_case.txt"); cur << cs << "\n"; }
        Result r; Toks t = split(line);
#ifdef VH_POISON_TRACK          // C10: poisoned re-run of this harness (-include poison.hpp): record the allocation sites of the case
        vh_poison::track = true;
#endif
        try { if (t.empty()) throw bad_input("empty"); r = execute(t); }
        catch (const bad_input &) { r = Result("bad-input"); }     // thrown while parsing, identically on every rank, before any communication
#ifdef VH_POISON_TRACK
        vh_poison::track = false;
        for (auto &key : vh_poison::sites_since_mark()) r.tags.push_back("site:" + key);
#endif
        if (g_wrank == 0) {
            impl << r.out << "\n" << std::flush;
            if (r.ok) orc << "ok\n"; else orc << "FAIL " << r.why << "\n"; orc << std::flush;
            meta << (r.nontrivial ? 1 : 0); for (auto &g : r.tags) meta << ' ' << g; meta << "\n" << std::flush;
        }
    }
    MPI_Finalize();
    return 0;
}

#define VH_MPI_MAIN(gen, exec) int main(int argc, char **argv) { return mpi_harness_main(argc, argv, gen, exec); }
