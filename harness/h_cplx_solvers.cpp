// C05 harness, COMPLEX systems (labelled floating-point TESTS, implementation-only: "no_model": true).
//
// The REAL amgcl::solver::{cg,bicgstab,bicgstabl,gmres,fgmres,lgmres,idrs,richardson}<builtin<std::complex<double>>>
// are called through operator()(A, P, rhs, x) on small well-conditioned complex systems (non-Hermitian, complex
// symmetric / shifted-Laplacian, Hermitian, Hermitian positive definite, real data stored as complex) with the
// harness-owned preconditioner class (identity / complex diagonal / explicit complex matrix, among them the rounded
// exact inverse), left and right preconditioning, non-zero initial guesses, restart lengths 1,2,4,n.
//
// Ops (numbers are decimal doubles that round-trip exactly; a complex number is two tokens "re im"):
//   cplx_iter <solver> <side> <p1> <p2> <p3> <p4> K   A PREC f x0
//       for k = 1..K a FRESH solver object is run with maxiter = k, tol = 0 and the k-th iterate is checked
//   cplx_term <solver> <side> <p1> <p2> <p3> <p4>     A PREC f x0
//       one run with tol = 1e-12 and maxiter = the termination bound of the method (see term_bound)
//   <solver> = cg | bicgstab | bicgstabl | gmres | fgmres | lgmres | idrs | richardson ;  <side> = left | right
//   p1..p4:  gmres/fgmres: M - - - ;  lgmres: M K - - ;  bicgstabl: L convex delta - ;  idrs: s smoothing replacement omega ;
//            richardson: - - - damping ;  cg/bicgstab: - - - -      (unused parameters are written as 0)
//   A     = n n then per row: k (col re im)^k
//   PREC  = id | diag n (re im)^n | mat <matrix as A>
//   f, x0 = n (re im)^n
// Result line: "ok it_1 .. it_K" (iteration counts returned by the solver; no floating-point numbers are printed),
//   "precondition ..." when the solver threw, "skip-illconditioned" when cond(A), cond(P) or cond(T) exceed the limit
//   for which the tolerances below are justified, "bad-input" for malformed / ill-shaped input (M = 0, s > n,
//   non-Hermitian input for CG, wrong sizes, non-finite numbers ...).
//
// Implementation-side oracles.  All references are computed independently of the library in complex LONG DOUBLE
// (Eigen dense algebra); amgcl's inner product convention is inner_product(x, y) = sum_i x_i conj(y_i) = y^H x.
// Tolerances: inputs have n <= 12 and cond(A), cond(P), cond(T) <= 1e3 (T = A P resp. P A; the generator keeps them below
// 200, other op lines are answered skip-illconditioned); iterates are compared with 1e-9 * max(||x*||, ||x0||)
// (observed distances on the repaired library over 30 seeds: <= 6e-12).  Every reference recurrence is run in long double
// AND in double; an iterate is compared only while the two runs agree to 1e-11 (otherwise rounding alone moves the
// textbook iterate by more than 1 % of the tolerance on this input: tag unstable_recurrence, no verdict), and
// comparisons stop at the first k where the true residual is below 1e-7 ||r0|| (converged: the recurrences divide tiny
// by tiny afterwards).  The solver runs with tol = 1e-12 so that it stops itself once converged.
//   (a) all solvers, every k: the reported residual equals ||R(x_k)|| / ||f|| with R(x) = f - A x (right, cg, idrs,
//       fgmres, richardson) resp. P(f - A x) (left), recomputed from the returned x; iterations reported == k
//   (b) gmres / fgmres / lgmres (every restart cycle; for lgmres the space is augmented by the previous normalised
//       corrections exactly as the method defines it): x_k equals the minimiser of ||R(x)|| over x_{cycle start} +
//       Xl span(W), obtained by a DENSE least-squares solve (Householder QR with column pivoting) over the Krylov basis;
//       the true residual norms are non-increasing in k
//   (c) cg, bicgstab (both sides), gmres (both sides), fgmres, richardson: x_k equals the textbook recurrence
//       (PCG with Hermitian inner products; van der Vorst's BiCGStab with rho = rh^H r, alpha = rho / rh^H v,
//       omega = t^H s / t^H t; Arnoldi-MGS + unitary Givens rotations [conj c, conj s; -s, c], c = a/d, s = b/d,
//       d = sqrt(|a|^2+|b|^2)); bicgstabl with convex = true: x after every sweep equals L BiCG steps followed by the
//       degree-L minimal-residual polynomial step (Sleijpen & Fokkema) with the Hermitian Gram matrix R^H R
//   (e) idrs: every (s+1)-th iteration is the dimension-reduction step x += om P r, r -= om t, t = A P r with the
//       minimal-residual om = (t^H r) / (t^H t) ("omega = 0: a standard minimum residual step", scaled by omega / rho when
//       the cosine rho = |t^H r| / (|t| |r|) is below the parameter omega): x_k - x_{k-1} is recomputed from x_{k-1}
//   (f) idrs with smoothing: the returned iterate equals the minimal-residual smoothing x_s -= gamma (x_s - x_k),
//       gamma = (t^H r_s) / (t^H t), t = r_s - r_k, of the unsmoothed iterates x_k (obtained from the same configuration
//       with smoothing off); the true residual of the returned iterate is non-increasing in k
//   (d) cplx_term: with the identity preconditioner the solver stops within n iterations (gmres-family with M = n,
//       bicgstabl: the next multiple of L, idrs: ceil(n/s) (s+1) = n + n/s when s divides n), with the exact inverse
//       as preconditioner within 1 iteration (bicgstabl: 1, richardson with damping 1: 1), and the TRUE relative
//       residual of the returned x is <= 1e-9 (cg, gmres family, richardson, exact preconditioner), <= 1e-6 (bicgstab,
//       bicgstabl with the identity; used only on inputs with cond <= 100 on which the textbook recurrence run in DOUBLE
//       by the harness reaches 1e-8: finite termination of BiCG-type methods is an exact-arithmetic statement), <= 1e-4
//       (idrs with the identity; observed <= 1.3e-6 on the unchanged library)
//   a breakdown exception of the library is a failure only where the reference recurrence runs through stably
// When an iterate check of (b)/(c) fails, the harness additionally runs the same reference WITH THE DEVIATION OF THE
// LIBRARY TEXT that is suspected as the cause (Givens: cs/sn from 1 + tmp*tmp instead of 1 + |tmp|^2; BiCGStab:
// alpha = rho / conj(rh^H v), omega = conj(t^H s) / t^H t, i.e. the argument order of inner_product; BiCGStab(L): the
// Gram matrix symmetrised as Z(i,j) = Z(j,i) = adjoint(Z(j,i)); IDR(s): om and gamma with conj(t^H r) in the numerator).  If the implementation agrees with that variant to
// the same tolerance, the failure message starts with "complex-givens:" / "complex-bicgstab:" / "complex-bicgstabl:" / "complex-idrs:"
// and names the cause; every other failure is an ordinary FAIL.  Nothing is excused inside the harness.
#include "proto.hpp"
#include <complex>
#include <deque>
#include <cmath>
#include <cstdio>
#include <tuple>
#include <amgcl/value_type/complex.hpp>
#include <amgcl/backend/builtin.hpp>
#include <amgcl/solver/cg.hpp>
#include <amgcl/solver/bicgstab.hpp>
#include <amgcl/solver/bicgstabl.hpp>
#include <amgcl/solver/gmres.hpp>
#include <amgcl/solver/fgmres.hpp>
#include <amgcl/solver/lgmres.hpp>
#include <amgcl/solver/idrs.hpp>
#include <amgcl/solver/richardson.hpp>
#include <Eigen/Dense>
using namespace vh;

typedef std::complex<double> C;
typedef long double LD;
typedef std::complex<LD> CL;
typedef Eigen::Matrix<CL, Eigen::Dynamic, Eigen::Dynamic> EM;
typedef Eigen::Matrix<CL, Eigen::Dynamic, 1> EV;
typedef amgcl::backend::builtin<C> Backend;
typedef Backend::matrix CMat;

static const LD TOL_X = 1e-9L, TOL_RES = 1e-9L, COND_MAX = 1e3L, CONV_STOP = 1e-7L, STAB_LIM = 1e-11L, TERM_TOL = 1e-9L, TERM_TOL_BICG = 1e-6L, TERM_TOL_IDRS = 1e-4L;

enum { S_CG, S_BICGSTAB, S_BICGSTABL, S_GMRES, S_FGMRES, S_LGMRES, S_IDRS, S_RICHARDSON, S_COUNT };
static const char *SNAME[] = { "cg", "bicgstab", "bicgstabl", "gmres", "fgmres", "lgmres", "idrs", "richardson" };
static bool has_side(int s) { return s == S_BICGSTAB || s == S_BICGSTABL || s == S_GMRES || s == S_LGMRES; }

// ------------------------------------------------------------------ numbers on the op line
static std::string dstr(double v) {
    char b[64];
    for (int p = 1; p <= 17; ++p) { snprintf(b, sizeof b, "%.*g", p, v); if (strtod(b, 0) == v) break; }
    return b;
}
static double pdbl(Cur &c) {
    const std::string &s = c.tok(); if (s.empty()) throw bad_input("dbl");
    for (char ch : s) if (!(isdigit((unsigned char)ch) || ch == '-' || ch == '+' || ch == '.' || ch == 'e' || ch == 'E')) throw bad_input("dbl");
    char *e; double v = strtod(s.c_str(), &e); if (*e || !std::isfinite(v) || std::fabs(v) > 1e100) throw bad_input("dbl");
    return v;
}
static C pcplx(Cur &c) { double re = pdbl(c); double im = pdbl(c); return C(re, im); }
static long pnat(Cur &c) { const std::string &s = c.tok(); if (s.empty() || s.size() > 6) throw bad_input("nat"); for (char ch : s) if (ch < '0' || ch > '9') throw bad_input("nat"); return atol(s.c_str()); }
static std::vector<C> pvec(Cur &c) { long n = pnat(c); if (n > 64) throw bad_input("n"); std::vector<C> v(n); for (auto &x : v) x = pcplx(c); return v; }
struct CM { long n = 0, m = 0; std::vector<ptrdiff_t> ptr, col; std::vector<C> val;
    std::shared_ptr<CMat> crs() const { return std::make_shared<CMat>((size_t)n, (size_t)m, ptr, col, val); }
    EM dense() const { EM D = EM::Zero(n, m); for (long i = 0; i < n; ++i) for (auto j = ptr[i]; j < ptr[i+1]; ++j) D(i, col[j]) += CL(val[j].real(), val[j].imag()); return D; } };
static CM pmat(Cur &c) {
    CM M; M.n = pnat(c); M.m = pnat(c); if (M.n > 64 || M.m > 64) throw bad_input("n"); M.ptr.push_back(0);
    for (long r = 0; r < M.n; ++r) { long k = pnat(c); if (k > 4096) throw bad_input("k"); for (long j = 0; j < k; ++j) { long cc = pnat(c); if (cc >= M.m) throw bad_input("col"); M.col.push_back(cc); M.val.push_back(pcplx(c)); } M.ptr.push_back((ptrdiff_t)M.col.size()); }
    return M;
}
static void put(Line &l, C v) { l << dstr(v.real()) << dstr(v.imag()); }
static void put(Line &l, const std::vector<C> &v) { l << v.size(); for (auto &x : v) put(l, x); }
static void put(Line &l, const CM &A) { l << A.n << A.m; for (long i = 0; i < A.n; ++i) { l << (long)(A.ptr[i+1] - A.ptr[i]); for (auto j = A.ptr[i]; j < A.ptr[i+1]; ++j) { l << (long)A.col[j]; put(l, A.val[j]); } } }
static CM from_dense(const std::vector<std::vector<C>> &D) {
    CM M; M.n = (long)D.size(); M.m = M.n; M.ptr.push_back(0);
    for (auto &row : D) { for (size_t j = 0; j < row.size(); ++j) if (row[j] != C(0)) { M.col.push_back((ptrdiff_t)j); M.val.push_back(row[j]); } M.ptr.push_back((ptrdiff_t)M.col.size()); }
    return M;
}
static EV ev(const std::vector<C> &v) { EV r(v.size()); for (size_t i = 0; i < v.size(); ++i) r[i] = CL(v[i].real(), v[i].imag()); return r; }

// ------------------------------------------------------------------ the harness' own preconditioner class
struct CPrec {
    typedef Backend backend_type;
    int kind = 0; std::vector<C> d; std::shared_ptr<CMat> M;
    template <class V1, class V2> void apply(const V1 &rhs, V2 &&x) const {
        const size_t n = rhs.size();
        if (kind == 0) for (size_t i = 0; i < n; ++i) x[i] = rhs[i];
        else if (kind == 1) for (size_t i = 0; i < n; ++i) x[i] = d[i] * rhs[i];
        else amgcl::backend::spmv(1.0, *M, rhs, 0.0, x);
    }
};

struct Cfg { int solver = 0; bool left = false; long p1 = 0, p2 = 0, p3 = 0; double p3d = 0, p4 = 0; };
struct Sys { CM A; int pk = 0; std::vector<C> pd; CM PM; std::vector<C> f, x0;
    EM Ad, Pd; EV fl, x0l; long n = 0; };

static Cfg parse_cfg(Cur &c) {
    Cfg g; const std::string &s = c.tok(); g.solver = -1;
    for (int i = 0; i < S_COUNT; ++i) if (s == SNAME[i]) g.solver = i;
    if (g.solver < 0) throw bad_input("solver");
    const std::string &sd = c.tok(); if (sd == "left") g.left = true; else if (sd == "right") g.left = false; else throw bad_input("side");
    if (g.left && !has_side(g.solver)) throw bad_input("side");
    g.p1 = pnat(c); g.p2 = pnat(c); g.p3d = pdbl(c); g.p3 = (long)g.p3d; g.p4 = pdbl(c);
    switch (g.solver) {
        case S_GMRES: case S_FGMRES: if (g.p1 < 1 || g.p1 > 64) throw bad_input("M"); break;
        case S_LGMRES: if (g.p1 < 1 || g.p1 > 64 || g.p2 > 8) throw bad_input("M/K"); break;
        case S_BICGSTABL: if (g.p1 < 1 || g.p1 > 16 || g.p2 > 1 || g.p3d < 0 || g.p3d > 10) throw bad_input("L"); break;
        case S_IDRS: if (g.p1 < 1 || g.p1 > 16 || g.p2 > 1 || (g.p3d != 0 && g.p3d != 1) || g.p4 < 0 || g.p4 > 4) throw bad_input("s"); break;
        case S_RICHARDSON: if (!(g.p4 > 0 && g.p4 <= 2)) throw bad_input("damping"); break;
        default: break;
    }
    return g;
}
static bool mat_hermitian(const EM &D) { for (long i = 0; i < D.rows(); ++i) for (long j = 0; j <= i; ++j) if (D(i, j) != std::conj(D(j, i))) return false; return true; }
static bool mat_hpd(const EM &D) {
    if (D.rows() == 0) return true; if (!mat_hermitian(D)) return false;
    Eigen::SelfAdjointEigenSolver<EM> es(D, Eigen::EigenvaluesOnly); return es.eigenvalues()(0) > 0;
}
static LD cond_of(const EM &D) {
    if (D.rows() == 0) return 1; Eigen::JacobiSVD<EM> svd(D); LD s0 = svd.singularValues()(0), s1 = svd.singularValues()(D.rows() - 1);
    return s1 > 0 ? s0 / s1 : HUGE_VALL;
}
static Sys parse_sys(Cur &c, const Cfg &g) {
    Sys s; s.A = pmat(c);
    const std::string &k = c.tok();
    if (k == "id") s.pk = 0; else if (k == "diag") { s.pk = 1; s.pd = pvec(c); } else if (k == "mat") { s.pk = 2; s.PM = pmat(c); } else throw bad_input("prec");
    s.f = pvec(c); s.x0 = pvec(c); c.expect_end();
    long n = s.A.n; s.n = n;
    if (n < 1 || s.A.m != n || (long)s.f.size() != n || (long)s.x0.size() != n) throw bad_input("shape");
    if (s.pk == 1 && (long)s.pd.size() != n) throw bad_input("diag");
    if (s.pk == 2 && (s.PM.n != n || s.PM.m != n)) throw bad_input("M");
    if (g.solver == S_IDRS && g.p1 > n) throw bad_input("s>n");
    s.Ad = s.A.dense(); s.fl = ev(s.f); s.x0l = ev(s.x0);
    if (s.pk == 0) s.Pd = EM::Identity(n, n); else if (s.pk == 1) { s.Pd = EM::Zero(n, n); for (long i = 0; i < n; ++i) s.Pd(i, i) = CL(s.pd[i].real(), s.pd[i].imag()); } else s.Pd = s.PM.dense();
    if (s.fl.norm() == 0) throw bad_input("zero rhs");
    if (g.solver == S_CG && (!mat_hpd(s.Ad) || !mat_hpd(s.Pd))) throw bad_input("cg needs HPD");
    return s;
}

// ------------------------------------------------------------------ one call of the REAL solver
struct Run { bool thrown = false; long it = 0; double res = 0; std::vector<C> x; };
template <class S> static Run run_solver(const S &slv, const Sys &s) {
    auto A = s.A.crs(); CPrec P; P.kind = s.pk; P.d = s.pd; if (s.pk == 2) P.M = s.PM.crs();
    std::vector<C> F = s.f, X = s.x0; Run r;
    try { size_t it; double res; std::tie(it, res) = slv(*A, P, F, X); r.it = (long)it; r.res = res; }
    catch (const std::runtime_error &) { r.thrown = true; }
    r.x = X; return r;
}
static Run run_cfg(const Cfg &g, const Sys &s, long maxiter, double tol) {
    namespace sv = amgcl::solver; auto side = g.left ? amgcl::preconditioner::side::left : amgcl::preconditioner::side::right;
    size_t n = (size_t)s.n;
    switch (g.solver) {
        case S_CG: { sv::cg<Backend>::params p; p.maxiter = maxiter; p.tol = tol; return run_solver(sv::cg<Backend>(n, p), s); }
        case S_BICGSTAB: { sv::bicgstab<Backend>::params p; p.maxiter = maxiter; p.tol = tol; p.pside = side; return run_solver(sv::bicgstab<Backend>(n, p), s); }
        case S_BICGSTABL: { sv::bicgstabl<Backend>::params p; p.maxiter = maxiter; p.tol = tol; p.pside = side; p.L = (int)g.p1; p.convex = g.p2 != 0; p.delta = g.p3d; return run_solver(sv::bicgstabl<Backend>(n, p), s); }
        case S_GMRES: { sv::gmres<Backend>::params p; p.maxiter = maxiter; p.tol = tol; p.pside = side; p.M = (unsigned)g.p1; return run_solver(sv::gmres<Backend>(n, p), s); }
        case S_FGMRES: { sv::fgmres<Backend>::params p; p.maxiter = maxiter; p.tol = tol; p.M = (unsigned)g.p1; return run_solver(sv::fgmres<Backend>(n, p), s); }
        case S_LGMRES: { sv::lgmres<Backend>::params p; p.maxiter = maxiter; p.tol = tol; p.pside = side; p.M = (unsigned)g.p1; p.K = (unsigned)g.p2; return run_solver(sv::lgmres<Backend>(n, p), s); }
        case S_IDRS: { sv::idrs<Backend>::params p; p.maxiter = maxiter; p.tol = tol; p.s = (unsigned)g.p1; p.smoothing = g.p2 != 0; p.replacement = g.p3 != 0; p.omega = g.p4; return run_solver(sv::idrs<Backend>(n, p), s); }
        default: { sv::richardson<Backend>::params p; p.maxiter = maxiter; p.tol = tol; p.damping = g.p4; return run_solver(sv::richardson<Backend>(n, p), s); }
    }
}

// ------------------------------------------------------------------ references (dense, templated on the real type)
// Every reference is run twice, in complex LONG DOUBLE (the value the implementation is compared with) and in complex
// DOUBLE (the same textbook recurrence, rounding as the library rounds): the distance of the two runs measures how far
// rounding alone moves the k-th iterate of the recurrence on this input.  Iterates are compared only while that distance
// is <= STAB_LIM = 1e-11 (two orders below the comparison tolerance); afterwards the input is tagged unstable_recurrence.
template <class R> struct Dn {
    typedef std::complex<R> Cx; typedef Eigen::Matrix<Cx, Eigen::Dynamic, Eigen::Dynamic> M; typedef Eigen::Matrix<Cx, Eigen::Dynamic, 1> V;
    M A, P; V f, x0; long n = 0;
    V T(bool left, const V &u) const { return left ? V(P * (A * u)) : V(A * (P * u)); }
    V Rm(bool left, const V &x) const { return left ? V(P * (f - A * x)) : V(f - A * x); }     // the residual the method measures
    V Xl(bool left, const V &u) const { return left ? u : V(P * u); }
};
template <class R> static Dn<R> dn(const Sys &s) { Dn<R> d; d.n = s.n; d.A = s.Ad.template cast<std::complex<R>>(); d.P = s.Pd.template cast<std::complex<R>>(); d.f = s.fl.template cast<std::complex<R>>(); d.x0 = s.x0l.template cast<std::complex<R>>(); return d; }
// a^H b
template <class V> static typename V::Scalar hdot(const V &a, const V &b) { return a.dot(b); }

// textbook preconditioned CG, Hermitian inner products
template <class R> static typename Dn<R>::V ref_cg(const Dn<R> &s, long k) {
    typedef typename Dn<R>::V V; typedef typename Dn<R>::Cx Cx;
    V x = s.x0, r = s.f - s.A * x, p, z, q; Cx rho = 0, rho_old = 0;
    for (long it = 0; it < k; ++it) {
        z = s.P * r; rho_old = rho; rho = hdot(r, z);
        if (it) p = z + (rho / rho_old) * p; else p = z;
        q = s.A * p; Cx alpha = rho / hdot(p, q); x += alpha * p; r -= alpha * q;
    }
    return x;
}
// van der Vorst's BiCGStab on T u = b (left: T = P A, right: T = A P, x = P u); as_coded: the two coefficients with the
// argument order of bicgstab.hpp (alpha = rho / inner_product(rh, v) = rho / conj(rh^H v), omega = inner_product(t, s) / ..)
template <class R> static typename Dn<R>::V ref_bicgstab(const Dn<R> &s, bool left, long k, bool as_coded) {
    typedef typename Dn<R>::V V; typedef typename Dn<R>::Cx Cx;
    V x = s.x0, r = s.Rm(left, x), rh = r, p, v, sv, t; Cx rho = 0, rho_old = 0, alpha = 0, omega = 0;
    for (long it = 0; it < k; ++it) {
        rho_old = rho; rho = hdot(rh, r);
        if (it == 0) p = r; else { Cx beta = (rho * alpha) / (rho_old * omega); p = r + beta * (p - omega * v); }
        v = s.T(left, p); Cx rv = hdot(rh, v);
        alpha = rho / (as_coded ? std::conj(rv) : rv);
        x += s.Xl(left, V(alpha * p)); sv = r - alpha * v;
        t = s.T(left, sv); Cx ts = hdot(t, sv);
        omega = (as_coded ? std::conj(ts) : ts) / hdot(t, t);
        x += s.Xl(left, V(omega * sv)); r = sv - omega * t;
    }
    return x;
}
template <class R> static typename Dn<R>::V ref_richardson(const Dn<R> &s, R w, long k) { typename Dn<R>::V x = s.x0; for (long it = 0; it < k; ++it) x += w * (s.P * (s.f - s.A * x)); return x; }

// generate_plane_rotation: mode 1 = unitary textbook rotation, mode 2 = the statements of givens_rotations.hpp as coded
template <class Cx> static void gen_rot(int mode, Cx a, Cx b, Cx &cs, Cx &sn) {
    typedef typename Cx::value_type R;
    if (mode == 1) { R d = std::sqrt(std::norm(a) + std::norm(b)); if (d == 0) { cs = 1; sn = 0; } else { cs = a / d; sn = b / d; } return; }
    if (b == Cx(0)) { cs = 1; sn = 0; }
    else if (std::abs(b) > std::abs(a)) { Cx tmp = a / b; sn = Cx(1) / std::sqrt(Cx(1) + tmp * tmp); cs = tmp * sn; }
    else { Cx tmp = b / a; cs = Cx(1) / std::sqrt(Cx(1) + tmp * tmp); sn = tmp * cs; }
}
template <class Cx> static void app_rot(Cx &dx, Cx &dy, Cx cs, Cx sn) { Cx tmp = std::conj(cs) * dx + std::conj(sn) * dy; dy = -sn * dx + cs * dy; dx = tmp; }

// GMRES family by restart cycles.  kind: S_GMRES / S_FGMRES / S_LGMRES.  mode 0: the coefficients of every cycle come from
// a DENSE least-squares solve min || r - T W y || (Householder QR with column pivoting); mode 1 / 2: Arnoldi (modified
// Gram-Schmidt, h = v_k^H w) + Givens + back substitution.  LGMRES: the last columns of W are the normalised corrections
// of the previous cycles (at most Kaug, oldest first), restart length Mtot = M + Kaug.
template <class R> static typename Dn<R>::V ref_gmres(const Dn<R> &s, int kind, bool left, long M, long Kaug, long k, int mode) {
    typedef typename Dn<R>::V V; typedef typename Dn<R>::M Mx; typedef typename Dn<R>::Cx Cx;
    const long n = s.n; long Mtot = M + (kind == S_LGMRES ? Kaug : 0);
    V x = s.x0; std::deque<V> outer; long it = 0;
    while (it < k) {
        V r = s.Rm(left, x); R nr = r.norm(); if (nr == 0) break;
        long nouter = (long)outer.size(), jmax = std::min(Mtot, k - it);
        Mx Vb = Mx::Zero(n, jmax + 1), W = Mx::Zero(n, jmax), H = Mx::Zero(jmax + 1, jmax); Vb.col(0) = r / nr;
        for (long j = 0; j < jmax; ++j) {
            V z = (j >= Mtot - nouter) ? outer[j - (Mtot - nouter)] : V(Vb.col(j)); W.col(j) = z;
            V w = s.T(left, z);
            for (long kk = 0; kk <= j; ++kk) { Cx h = hdot(V(Vb.col(kk)), w); H(kk, j) = h; w -= h * Vb.col(kk); }
            R hn = w.norm(); H(j + 1, j) = hn;
            Vb.col(j + 1) = hn > 0 ? V(w / hn) : V(V::Zero(n));
        }
        V y(jmax);
        if (mode == 0) { Mx TW(n, jmax); for (long j = 0; j < jmax; ++j) TW.col(j) = s.T(left, V(W.col(j))); y = TW.colPivHouseholderQr().solve(r); }
        else {
            std::vector<Cx> sv(jmax + 1, Cx(0)), cs(jmax + 1), sn(jmax + 1); sv[0] = nr;
            for (long j = 0; j < jmax; ++j) {
                for (long kk = 0; kk < j; ++kk) app_rot(H(kk, j), H(kk + 1, j), cs[kk], sn[kk]);
                gen_rot(mode, Cx(H(j, j)), Cx(H(j + 1, j)), cs[j], sn[j]);
                app_rot(H(j, j), H(j + 1, j), cs[j], sn[j]); app_rot(sv[j], sv[j + 1], cs[j], sn[j]);
            }
            for (long i = jmax; i-- > 0; ) { sv[i] /= H(i, i); for (long kk = 0; kk < i; ++kk) sv[kk] -= H(kk, i) * sv[i]; }
            for (long j = 0; j < jmax; ++j) y[j] = sv[j];
        }
        V dx = W * y; x += s.Xl(left, dx); it += jmax;
        if (kind == S_LGMRES && Kaug > 0 && dx.norm() > 0) { if ((long)outer.size() == Kaug) outer.pop_front(); outer.push_back(dx / dx.norm()); }
    }
    return x;
}
// BiCGStab(L) of Sleijpen & Fokkema, minimal-residual polynomial part (convex = true); gram_as_coded: the normal equations
// with the matrix Z(i,j) = G(max(i,j), min(i,j)), G = R^H R, which bicgstabl.hpp:285-289 builds
template <class R> static typename Dn<R>::V ref_bicgstabl(const Dn<R> &s, bool left, long L, long sweeps, bool gram_as_coded) {
    typedef typename Dn<R>::V V; typedef typename Dn<R>::M Mx; typedef typename Dn<R>::Cx Cx;
    const long n = s.n;
    V b = s.Rm(left, s.x0), rt = b, X = V::Zero(n);
    std::vector<V> Rv(L + 1, V::Zero(n)), U(L + 1, V::Zero(n)); Rv[0] = b;
    Cx rho0 = 1, alpha = 0, omega = 1;
    for (long sw = 0; sw < sweeps; ++sw) {
        rho0 = -omega * rho0;
        for (long j = 0; j < L; ++j) {
            Cx rho1 = hdot(rt, Rv[j]);
            Cx beta = alpha * (rho1 / rho0); rho0 = rho1;
            for (long i = 0; i <= j; ++i) U[i] = Rv[i] - beta * U[i];
            U[j + 1] = s.T(left, U[j]);
            Cx sigma = hdot(rt, U[j + 1]);
            alpha = rho1 / sigma; X += alpha * U[0];
            for (long i = 0; i <= j; ++i) Rv[i] -= alpha * U[i + 1];
            Rv[j + 1] = s.T(left, Rv[j]);
        }
        Mx G(L + 1, L + 1); for (long a = 0; a <= L; ++a) for (long c = 0; c <= L; ++c) G(a, c) = hdot(Rv[a], Rv[c]);
        Mx Z(L, L); V g0(L);
        for (long a = 1; a <= L; ++a) { g0[a - 1] = G(a, 0); for (long c = 1; c <= L; ++c) Z(a - 1, c - 1) = gram_as_coded ? G(std::max(a, c), std::min(a, c)) : G(a, c); }
        V gam = Z.colPivHouseholderQr().solve(g0);
        for (long i = 1; i <= L; ++i) X += gam[i - 1] * Rv[i - 1];
        V r0 = Rv[0], u0 = U[0]; for (long i = 1; i <= L; ++i) { r0 -= gam[i - 1] * Rv[i]; u0 -= gam[i - 1] * U[i]; }
        Rv[0] = r0; U[0] = u0; omega = gam[L - 1];
    }
    return s.x0 + s.Xl(left, X);
}

// ------------------------------------------------------------------ oracles
static std::string num(LD v) { char b[64]; snprintf(b, sizeof b, "%.3Lg", v); return b; }
static LD dist(const EV &a, const EV &b, LD scale) { LD d = (a - b).norm() / scale; return std::isfinite((double)d) ? d : HUGE_VALL; }
static EV measured(const Sys &s, const Cfg &g, const EV &x) { EV r = s.fl - s.Ad * x; return (g.left ? EV(s.Pd * r) : r); }
static EV up(const Dn<double>::V &v) { return v.cast<CL>(); }

struct Conds { LD cA, cP, cT; };
static Conds conds(const Sys &s, const Cfg &g) { Conds c; c.cA = cond_of(s.Ad); c.cP = cond_of(s.Pd); c.cT = cond_of(g.left ? EM(s.Pd * s.Ad) : EM(s.Ad * s.Pd)); return c; }

static bool data_is_real(const Sys &s) {
    for (auto &v : s.A.val) if (v.imag() != 0) return false; for (auto &v : s.pd) if (v.imag() != 0) return false; for (auto &v : s.PM.val) if (v.imag() != 0) return false;
    for (auto &v : s.f) if (v.imag() != 0) return false; for (auto &v : s.x0) if (v.imag() != 0) return false; return true;
}
static void common_tags(Result &r, const Cfg &g, const Sys &s) {
    r.tag(SNAME[g.solver]); if (has_side(g.solver)) r.tag(g.left ? "left" : "right");
    r.tag(s.pk == 0 ? "prec_id" : s.pk == 1 ? "prec_diag" : "prec_mat");
    if (data_is_real(s)) r.tag("real_data"); else r.tag("complex_data");
    if (mat_hermitian(s.Ad)) r.tag("A_hermitian"); else if ((s.Ad - s.Ad.transpose()).norm() == 0) r.tag("A_complex_symmetric"); else r.tag("A_general");
    if (s.x0l.norm() != 0) r.tag("x0_nonzero");
    if (s.pk == 2 && (s.Pd * s.Ad - EM::Identity(s.n, s.n)).norm() < 1e-10L) r.tag("prec_exact");
}
// the reference iterate of configuration g after k iterations; variant 0 = the defining (textbook) algorithm, for the GMRES
// family through the dense least-squares solve; 1 = GMRES family through Arnoldi + unitary Givens; 2 = with the suspected
// deviation of the library text.  false when there is no reference for this configuration.
template <class R> static bool reference(const Cfg &g, const Dn<R> &d, long k, int variant, typename Dn<R>::V &x) {
    switch (g.solver) {
        case S_CG: if (variant) return false; x = ref_cg<R>(d, k); return true;
        case S_BICGSTAB: if (variant == 1) return false; x = ref_bicgstab<R>(d, g.left, k, variant == 2); return true;
        case S_RICHARDSON: if (variant) return false; x = ref_richardson<R>(d, (R)g.p4, k); return true;
        case S_GMRES: case S_FGMRES: case S_LGMRES: x = ref_gmres<R>(d, g.solver, g.left, g.p1, g.p2, k, variant); return true;
        case S_BICGSTABL: if (variant == 1 || !(g.p2 != 0 || g.p1 == 1)) return false; x = ref_bicgstabl<R>(d, g.left, g.p1, (k + g.p1 - 1) / g.p1, variant == 2); return true;
        default: return false;
    }
}
static const char *ref_name(int solver) {
    switch (solver) {
        case S_CG: return "textbook PCG"; case S_BICGSTAB: return "textbook BiCGStab"; case S_RICHARDSON: return "x + w P(f - A x) repeated";
        case S_BICGSTABL: return "L BiCG steps + minimal-residual polynomial of degree L";
        default: return "dense least-squares minimiser of ||R(x)|| over x_c + Xl span(W)";
    }
}
static std::string head_of(const Cfg &g) {
    std::string h = SNAME[g.solver]; if (has_side(g.solver)) h += g.left ? " left" : " right";
    if (g.solver == S_GMRES || g.solver == S_FGMRES) h += " M=" + str(g.p1); if (g.solver == S_LGMRES) h += " M=" + str(g.p1) + " K=" + str(g.p2);
    if (g.solver == S_BICGSTABL) h += " L=" + str(g.p1) + (g.p2 ? " convex" : " non-convex"); if (g.solver == S_IDRS) h += " s=" + str(g.p1);
    return h;
}
// message for an iterate that equals the reference with the deviation of the library text
static std::string cause_text(int solver) {
    if (solver == S_BICGSTAB) return "complex-bicgstab: %H: the iterate differs from textbook BiCGStab (distance %D), but equals (distance %E) the recurrence with alpha = rho / conj(rh^H v) and omega = conj(t^H s) / t^H t, "
                                     "the argument order of inner_product in bicgstab.hpp: bi-orthogonality and the minimal-residual step are lost for complex data";
    if (solver == S_BICGSTABL) return "complex-bicgstabl: %H: the iterate differs from BiCG(L) + minimal-residual polynomial (distance %D), but equals (distance %E) the recurrence whose Gram matrix is symmetrised as in bicgstabl.hpp, "
                                      "Z(i,j) = Z(j,i) = adjoint(Z(j,i)), instead of Hermitian: the polynomial step does not minimise the residual for complex data";
    return "complex-givens: %H: the iterate is not the residual minimiser (distance %D to the dense least-squares solution = Arnoldi + unitary Givens reference), but equals (distance %E) the reference that generates the rotations as "
           "givens_rotations.hpp does, cs/sn from 1 + tmp*tmp instead of 1 + |tmp|^2: not unitary for complex tmp";
}
static std::string subst(std::string t, const std::string &h, LD d, LD e) {
    auto rep = [&](const std::string &k, const std::string &v) { size_t p = t.find(k); if (p != std::string::npos) t.replace(p, k.size(), v); };
    rep("%H", h); rep("%D", num(d)); rep("%E", num(e)); return t;
}

static const double RUN_TOL = 1e-12;
static Result exec_iter(Cur &c) {
    Cfg g = parse_cfg(c); long K = pnat(c); if (K < 1 || K > 40) throw bad_input("K");
    Sys s = parse_sys(c, g);
    Result r; common_tags(r, g, s); r.tag("iter");
    Conds cd = conds(s, g);
    if (!(cd.cA <= COND_MAX && cd.cP <= COND_MAX && cd.cT <= COND_MAX)) { r.out = "skip-illconditioned"; r.tag("illconditioned"); return r; }
    const Dn<LD> dl = dn<LD>(s); const Dn<double> dd = dn<double>(s);
    const EV xstar = s.Ad.colPivHouseholderQr().solve(s.fl);
    const LD nf = s.fl.norm(), nr0 = measured(s, g, s.x0l).norm();
    const LD scale = std::max(std::max(xstar.norm(), s.x0l.norm()), (LD)1e-300L);
    const bool gm = g.solver == S_GMRES || g.solver == S_FGMRES || g.solver == S_LGMRES;
    Line out; out << "ok";
    LD prev_res = nr0; long compared = 0; bool stop_ref = false;
    // IDR(s): the unsmoothed iterate of the previous k and the two smoothing recurrences (textbook / coefficient as coded)
    EV xu_prev = s.x0l, xs_t = s.x0l, rs_t = s.fl - s.Ad * s.x0l, xs_a = xs_t, rs_a = rs_t;
    for (long k = 1; k <= K && !stop_ref; ++k) {
        Run rn = run_cfg(g, s, k, RUN_TOL);
        const std::string head = head_of(g) + " k=" + str(k);
        if (rn.thrown) {
            // a breakdown (zero rho / sigma / omega) is a legitimate outcome where the textbook recurrence itself divides 0 by 0
            // (structured zeros in the data, Krylov space exhausted inside a sweep); it is a failure only where the reference
            // recurrence (bicgstabl non-convex: the minimal-residual variant as a proxy) runs through stably
            out << "precondition";
            Cfg gc = g; if (g.solver == S_BICGSTABL) gc.p2 = 1;
            Dn<LD>::V xr; Dn<double>::V xrd; bool have = reference<LD>(gc, dl, k, 0, xr) && reference<double>(gc, dd, k, 0, xrd);
            if (have && !(dist(up(xrd), xr, scale) <= STAB_LIM)) { r.tag("breakdown"); break; }
            r.fail(head + ": breakdown exception on a well-conditioned system before convergence" + (have ? "; the reference recurrence runs through" : ""));
            break;
        }
        out << rn.it;
        EV x = ev(rn.x); bool finite = std::isfinite(rn.res); for (auto &v : rn.x) if (!std::isfinite(v.real()) || !std::isfinite(v.imag())) finite = false;
        if (!finite) { r.fail(head + ": non-finite result"); break; }
        // (a) reported residual / iteration count
        LD tr = measured(s, g, x).norm();
        if (std::fabs((LD)rn.res * nf - tr) > TOL_RES * std::max(nr0, nf))
            r.fail(head + ": reported residual " + num((LD)rn.res) + " != ||R(x)||/||f|| = " + num(tr / nf) + " recomputed from the returned x");
        const bool converged = tr <= CONV_STOP * nr0;
        long expect_it = g.solver == S_BICGSTABL ? ((k + g.p1 - 1) / g.p1) * g.p1 : k;
        if (rn.it > expect_it || (rn.it != expect_it && !converged)) r.fail(head + ": " + str(rn.it) + " iterations reported (residual " + num(tr / nf) + " far from the threshold)");
        if (converged) { stop_ref = true; }
        // (b), (c): the k-th iterate
        Dn<LD>::V xr; Dn<double>::V xrd;
        if (!converged && reference<LD>(g, dl, k, 0, xr) && reference<double>(g, dd, k, 0, xrd)) {
            LD instab = dist(up(xrd), xr, scale);
            if (!(instab <= STAB_LIM)) { r.tag("unstable_recurrence"); stop_ref = true; }
            else {
                LD d = dist(x, xr, scale); ++compared;
                if (getenv("VH_CPLX_DEBUG")) std::cerr << "iter " << SNAME[g.solver] << " k=" << k << " d " << num(d) << " instab " << num(instab) << "\n";
                if (!(d <= TOL_X)) {
                    Dn<LD>::V xa; bool explained = false;
                    if (reference<LD>(g, dl, k, 2, xa) && dist(x, xa, scale) <= TOL_X) {
                        Dn<LD>::V xt; bool refs_agree = !gm || (reference<LD>(g, dl, k, 1, xt) && dist(xt, xr, scale) <= TOL_X);
                        if (refs_agree) { explained = true; r.fail(subst(cause_text(g.solver), head, d, dist(x, xa, scale))); }
                    }
                    if (!explained) r.fail(head + ": the iterate differs from the reference (" + ref_name(g.solver) + "): relative distance " + num(d) + " > " + num(TOL_X));
                }
                if (g.solver == S_GMRES || g.solver == S_FGMRES) {      // (c) Arnoldi + unitary Givens as a second, independent route to the same iterate
                    Dn<LD>::V xt; reference<LD>(g, dl, k, 1, xt);
                    if (!(dist(xt, xr, scale) <= TOL_X)) r.fail("harness self-check: least-squares and Arnoldi-Givens references disagree at k=" + str(k) + " by " + num(dist(xt, xr, scale)));
                }
                if (measured(s, g, xr).norm() < CONV_STOP * nr0) stop_ref = true;
            }
        }
        // (e), (f) IDR(s): dimension-reduction step and residual smoothing
        if (g.solver == S_IDRS && !converged) {
            EV xu = x;                                      // the unsmoothed iterate k (smoothing does not influence the iteration)
            if (g.p2 != 0) { Cfg gu = g; gu.p2 = 0; Run ru = run_cfg(gu, s, k, RUN_TOL); if (ru.thrown || ru.it != k) { stop_ref = true; continue; } xu = ev(ru.x); }
            const long sp = g.p1;
            if (k % (sp + 1) == 0) {                        // iteration k is the step r -= om t, x += om v with v = P r, t = A v
                EV rr = s.fl - s.Ad * xu_prev, v = s.Pd * rr, t = s.Ad * v; CL ts = hdot(t, rr); LD nt = t.norm(), ns = rr.norm();
                LD rho = std::abs(ts) / (nt * ns), lim = (LD)g.p4;
                if (nt > 0 && ns > 0 && std::fabs(rho - lim) > 1e-6L) {
                    LD fac = rho < lim ? lim / rho : 1;
                    EV xt = xu_prev + (ts / (nt * nt) * fac) * v, xa = xu_prev + (std::conj(ts) / (nt * nt) * fac) * v;
                    LD d = dist(xu, xt, scale); ++compared;
                    if (!(d <= TOL_X)) {
                        if (dist(xu, xa, scale) <= TOL_X) r.fail("complex-idrs: " + head + ": the dimension-reduction step x_k - x_{k-1} = om P r is not the minimal-residual step om = (t^H r) / (t^H t)" + (lim > 0 ? " (scaled by omega/rho when rho < omega)" : "") +
                            ", t = A P r (distance " + num(d) + "), but equals (distance " + num(dist(xu, xa, scale)) + ") the step with om = conj(t^H r) / (t^H t), the argument order of inner_product(t, s) in idrs.hpp omega()");
                        else r.fail(head + ": the dimension-reduction step x_k - x_{k-1} differs from om P r with the minimal-residual om = (t^H r) / (t^H t): relative distance " + num(d) + " > " + num(TOL_X));
                    }
                }
            }
            if (g.p2 != 0) {                                // minimal-residual smoothing of the sequence of unsmoothed iterates
                EV rk = s.fl - s.Ad * xu;
                { EV t = rs_t - rk; LD tt = t.squaredNorm(); if (tt > 0) { CL gam = hdot(t, rs_t) / tt; rs_t -= gam * t; xs_t = xs_t - gam * (xs_t - xu); } }
                { EV t = rs_a - rk; LD tt = t.squaredNorm(); if (tt > 0) { CL gam = std::conj(hdot(t, rs_a)) / tt; rs_a -= gam * t; xs_a = xs_a - gam * (xs_a - xu); } }
                LD d = dist(x, xs_t, scale); ++compared;
                if (!(d <= TOL_X)) {
                    if (dist(x, xs_a, scale) <= TOL_X) r.fail("complex-idrs: " + head + " smoothing: the returned iterate is not the minimal-residual smoothing x_s -= gamma (x_s - x_k), gamma = (t^H r_s) / (t^H t), t = r_s - r_k, of the unsmoothed iterates (distance " + num(d) +
                        "), but equals (distance " + num(dist(x, xs_a, scale)) + ") the smoothing with gamma = conj(t^H r_s) / (t^H t), the argument order of inner_product(t, r_s) in idrs.hpp");
                    else r.fail(head + " smoothing: the returned iterate differs from the minimal-residual smoothing of the unsmoothed iterates: relative distance " + num(d) + " > " + num(TOL_X));
                }
                if (tr > prev_res * (1 + 1e-9L) + 1e-13L * nf && d <= TOL_X) r.fail(head + " smoothing: true residual norm increased from " + num(prev_res) + " to " + num(tr));
                prev_res = tr;
            }
            xu_prev = xu;
        }
        // residual non-increasing in k (GMRES family: defining property)
        if (gm) {
            if (tr > prev_res * (1 + 1e-9L) + 1e-13L * nf) r.fail(head + ": true residual norm increased from " + num(prev_res) + " to " + num(tr));
            prev_res = tr;
        }
    }
    r.out = out.get();
    r.nontrivial = !data_is_real(s) && K >= 2 && compared >= (g.solver == S_IDRS ? 1 : (g.solver == S_BICGSTABL && g.p2 == 0 && g.p1 > 1) ? 0 : 2);
    if (gm) { r.tag("ls_min_cplx_test"); if (K > g.p1 + (g.solver == S_LGMRES ? g.p2 : 0)) r.tag("restarted"); }
    if (compared) r.tag("reference_iterates_cplx_test");
    return r;
}

static long term_bound(const Cfg &g, long n, bool exact) {
    if (exact) return 1;
    switch (g.solver) {
        case S_BICGSTABL: return ((n + g.p1 - 1) / g.p1) * g.p1;
        case S_IDRS: return ((n + g.p1 - 1) / g.p1) * (g.p1 + 1);
        default: return n;
    }
}
static Result exec_term(Cur &c) {
    Cfg g = parse_cfg(c); Sys s = parse_sys(c, g);
    Result r; common_tags(r, g, s); r.tag("term");
    const long n = s.n;
    bool exact = s.pk != 0 && (s.Pd * s.Ad - EM::Identity(n, n)).norm() < 1e-10L;
    if (s.pk != 0 && !exact) throw bad_input("cplx_term needs the identity or the exact inverse as preconditioner");
    if (g.solver == S_RICHARDSON && !(exact && g.p4 == 1)) throw bad_input("richardson terminates only with the exact preconditioner and damping 1");
    if ((g.solver == S_GMRES || g.solver == S_FGMRES) && !exact && g.p1 < n) throw bad_input("restart length below n");
    if (g.solver == S_LGMRES && !exact && g.p1 + g.p2 < n) throw bad_input("restart length below n");
    Conds cd = conds(s, g);
    if (!(cd.cA <= 100 && cd.cT <= 100)) { r.out = "skip-illconditioned"; r.tag("illconditioned"); return r; }
    const Dn<LD> dl = dn<LD>(s); const Dn<double> dd = dn<double>(s);
    long bound = term_bound(g, n, exact);
    const bool bicg = (g.solver == S_BICGSTAB || g.solver == S_BICGSTABL || g.solver == S_IDRS) && !exact;
    const LD term_tol = !bicg ? TERM_TOL : g.solver == S_IDRS ? TERM_TOL_IDRS : TERM_TOL_BICG;
    const LD nf = s.fl.norm();
    // BiCG-type recurrences: finite termination is a statement about exact arithmetic; the input is used only when the
    // textbook recurrence, run in DOUBLE by the harness, terminates on it with two orders of margin
    if (bicg && g.solver != S_IDRS) {
        Dn<double>::V xd; Cfg gc = g; if (g.solver == S_BICGSTABL) gc.p2 = 1;
        if (reference<double>(gc, dd, bound, 0, xd)) { LD rd = (s.fl - s.Ad * up(xd)).norm() / nf; if (!(rd <= term_tol * 1e-2L)) { r.out = "skip-unstable"; r.tag("unstable_recurrence"); return r; } }
    }
    Run rn = run_cfg(g, s, bound, RUN_TOL);
    Line out;
    std::string head = head_of(g) + (exact ? " exact preconditioner" : " identity preconditioner") + " n=" + str(n);
    if (rn.thrown) { out << "precondition"; r.fail(head + ": breakdown exception before termination"); r.out = out.get(); return r; }
    out << "ok" << rn.it; r.out = out.get();
    EV x = ev(rn.x); LD tr = (s.fl - s.Ad * x).norm() / nf;
    bool finite = std::isfinite((double)tr);
    if (getenv("VH_CPLX_DEBUG")) std::cerr << "term " << head << " res " << num(tr) << "\n";
    if (rn.it > bound) r.fail(head + ": " + str(rn.it) + " iterations reported with maxiter = " + str(bound));
    if (!finite || !(tr <= term_tol)) {
        std::string msg = head + ": not terminated with the solution within " + str(bound) + " iterations: true relative residual " + num(tr) + " > " + num(term_tol);
        bool explained = false;
        const LD scale = std::max(std::max((LD)s.Ad.colPivHouseholderQr().solve(s.fl).norm(), s.x0l.norm()), (LD)1e-300L);
        if ((g.solver == S_BICGSTAB || (g.solver == S_BICGSTABL && g.p1 >= 2)) && !data_is_real(s)) {
            // the first iterates equal the recurrence with the deviation of the library text, and that deviation matters on this input
            Cfg gc = g; if (g.solver == S_BICGSTABL) gc.p2 = 1;
            long k1 = g.solver == S_BICGSTABL ? g.p1 : std::min<long>(bound, 2);
            Dn<LD>::V xp, xa; reference<LD>(gc, dl, k1, 0, xp); reference<LD>(gc, dl, k1, 2, xa);
            Run r1 = run_cfg(g, s, k1, 0.0);
            bool differs = dist(xp, xa, scale) > TOL_X, impl_as_coded = !r1.thrown && dist(ev(r1.x), xa, scale) <= TOL_X;
            if (g.solver == S_BICGSTAB && differs && impl_as_coded) { explained = true; r.fail("complex-bicgstab: " + msg + "; the textbook recurrence terminates in double precision, the first iterates equal the recurrence with the argument order of inner_product in bicgstab.hpp (alpha = rho / conj(rh^H v))"); }
            if (g.solver == S_BICGSTABL && differs && (impl_as_coded || g.p2 == 0)) { explained = true; r.fail("complex-bicgstabl: " + msg + "; the minimal-residual recurrence terminates in double precision, " + (g.p2 ? "the first sweep equals the recurrence whose Gram matrix is symmetrised as in bicgstabl.hpp instead of Hermitian" : "non-convex variant: the symmetrised (not Hermitian) Gram matrix of bicgstabl.hpp changes the polynomial coefficients on this input")); }
        }
        if (!explained) r.fail(msg);
    }
    r.nontrivial = !data_is_real(s) && n >= 3;
    return r;
}

static Result execute(const Toks &t) {
    Cur c(t);
    if (t[0] == "cplx_iter") return exec_iter(c);
    if (t[0] == "cplx_term") return exec_term(c);
    throw bad_input("op");
}

// ------------------------------------------------------------------ generators
static double dy(Rng &rng, long lo, long hi, long den) { return (double)rng.range(lo, hi) / (double)den; }
static C rc(Rng &rng, long m, long den) { return C(dy(rng, -m, m, den), dy(rng, -m, m, den)); }
typedef std::vector<std::vector<C>> DM;
static EM to_em(const DM &D) { long n = (long)D.size(); EM E(n, n); for (long i = 0; i < n; ++i) for (long j = 0; j < n; ++j) E(i, j) = CL(D[i][j].real(), D[i][j].imag()); return E; }
// families: 0 general non-Hermitian, 1 Hermitian positive definite, 2 real data (non-symmetric), 3 complex symmetric
// (shifted 1-D Laplacian with complex shift and random positive weights), 4 Hermitian (diagonally dominant, HPD), 5 convection-diffusion chain + complex diagonal
static DM gen_A(Rng &rng, long n, int fam) {
    DM D(n, std::vector<C>(n, C(0)));
    int dens = (int)rng.range(30, 100);
    auto off = [&](bool real) { C v = rc(rng, 6, 8); return real ? C(v.real(), 0) : v; };
    if (fam == 0 || fam == 2) {
        for (long i = 0; i < n; ++i) for (long j = 0; j < n; ++j) if (i != j && rng.range(0, 99) < dens) D[i][j] = off(fam == 2);
        for (long i = 0; i < n; ++i) { double rs = 0; for (long j = 0; j < n; ++j) rs += std::abs(D[i][j]); double m = std::ceil(rs * (rng.coin() ? 0.75 : 1.25) * 8) / 8 + 1; double ph = fam == 2 ? 0 : dy(rng, -8, 8, 8);
            D[i][i] = C(m, fam == 2 ? 0.0 : std::round(m * ph * 8) / 8); if (fam == 2 && rng.coin(1, 4)) D[i][i] = -D[i][i]; }
    } else if (fam == 1 || fam == 4) {
        for (long i = 0; i < n; ++i) for (long j = 0; j < i; ++j) if (rng.range(0, 99) < dens) { D[i][j] = off(false); D[j][i] = std::conj(D[i][j]); }
        for (long i = 0; i < n; ++i) { double rs = 0; for (long j = 0; j < n; ++j) rs += std::abs(D[i][j]); D[i][i] = C(std::ceil(rs * 8) / 8 + dy(rng, 1, 16, 8), 0); }
    } else if (fam == 3) {
        C shift(dy(rng, 0, 8, 8), dy(rng, 2, 16, 8)); if (rng.coin()) shift = C(-shift.real(), shift.imag());
        std::vector<double> w(n + 1); for (auto &x : w) x = dy(rng, 4, 16, 8);
        for (long i = 0; i < n; ++i) { D[i][i] = C(w[i] + w[i + 1], 0) + shift; if (i + 1 < n) { D[i][i + 1] = C(-w[i + 1], 0); D[i + 1][i] = C(-w[i + 1], 0); } }
    } else {
        for (long i = 0; i < n; ++i) { double a = dy(rng, 4, 16, 8), b = dy(rng, 0, 12, 8); D[i][i] = C(2 * a + b, dy(rng, -16, 16, 8)); if (i + 1 < n) D[i][i + 1] = C(-a, dy(rng, -4, 4, 8)); if (i > 0) D[i][i - 1] = C(-a - b, dy(rng, -4, 4, 8)); }
    }
    return D;
}
static C rnd_c(CL v) { return C((double)v.real(), (double)v.imag()); }
struct GenSys { DM A; int pk = 0; std::vector<C> pd; DM PM; std::vector<C> f, x0; int fam = 0; };
// preconditioner kinds: 0 id, 1 Jacobi, 2 random diagonal, 3 exact inverse (rounded), 4 inverse of a perturbed matrix, 5 I + small
static void gen_P(Rng &rng, GenSys &g, int kind, bool hpd) {
    long n = (long)g.A.size(); g.pk = 0; g.pd.clear(); g.PM.clear();
    if (kind == 1) { g.pk = 1; for (long i = 0; i < n; ++i) g.pd.push_back(hpd ? C(1.0 / g.A[i][i].real(), 0) : C(1) / g.A[i][i]); }
    else if (kind == 2) { g.pk = 1; for (long i = 0; i < n; ++i) g.pd.push_back(hpd ? C(dy(rng, 2, 16, 8), 0) : C(dy(rng, 4, 12, 8), dy(rng, -6, 6, 8))); }
    else if (kind >= 3) {
        g.pk = 2; EM E = to_em(g.A);
        if (kind == 4) { for (long i = 0; i < n; ++i) for (long j = 0; j <= i; ++j) if (rng.coin(1, 3)) { C p = rc(rng, 2, 8); if (hpd) { if (i == j) p = C(std::fabs(p.real()), 0); E(i, j) += CL(p.real(), p.imag()); if (i != j) E(j, i) += CL(p.real(), -p.imag()); } else E(i, j) += CL(p.real(), p.imag()); } }
        EM I = kind == 5 ? EM(EM::Identity(n, n)) : EM(E.inverse());
        g.PM.assign(n, std::vector<C>(n));
        for (long i = 0; i < n; ++i) for (long j = 0; j < n; ++j) g.PM[i][j] = rnd_c(I(i, j));
        if (kind == 5) for (long i = 0; i < n; ++i) for (long j = 0; j <= i; ++j) if (rng.coin(1, 2)) { C p = rc(rng, 2, 16); if (hpd) { if (i == j) p = C(std::fabs(p.real()), 0); g.PM[i][j] += p; if (i != j) g.PM[j][i] += std::conj(p); } else g.PM[i][j] += p; }
        if (hpd) for (long i = 0; i < n; ++i) { g.PM[i][i] = C(g.PM[i][i].real(), 0); for (long j = 0; j < i; ++j) g.PM[j][i] = std::conj(g.PM[i][j]); }
    }
}
static EM pdense(const GenSys &g) { long n = (long)g.A.size(); if (g.pk == 0) return EM::Identity(n, n); if (g.pk == 1) { EM P = EM::Zero(n, n); for (long i = 0; i < n; ++i) P(i, i) = CL(g.pd[i].real(), g.pd[i].imag()); return P; } return to_em(g.PM); }
static GenSys gen_sys(Rng &rng, long n, bool hpd, int pkind, LD climit, bool allow_real) {
    GenSys g;
    for (int attempt = 0; attempt < 200; ++attempt) {
        g.fam = hpd ? (rng.coin() ? 1 : 4) : (int)rng.pick(std::vector<int>{0, 0, 0, 3, 3, 5, 5, 4, 2});
        if (!allow_real && g.fam == 2) g.fam = 0;
        g.A = gen_A(rng, n, g.fam); gen_P(rng, g, pkind, hpd);
        EM A = to_em(g.A), P = pdense(g);
        if (hpd && (!mat_hpd(A) || !mat_hpd(P))) continue;
        if (cond_of(A) <= climit && cond_of(P) <= climit && cond_of(A * P) <= climit && cond_of(P * A) <= climit) break;
        if (attempt == 199) { for (long i = 0; i < n; ++i) g.A[i][i] *= 4.0; gen_P(rng, g, pkind <= 2 ? pkind : 0, hpd); }
    }
    bool real = g.fam == 2;
    g.f.resize(n); g.x0.resize(n);
    for (auto &v : g.f) { v = rc(rng, 8, 4); if (real) v = C(v.real(), 0); } if (std::abs(g.f[0]) == 0) g.f[0] = C(1, real ? 0 : -0.5);
    int xk = (int)rng.range(0, 3);
    for (auto &v : g.x0) { v = xk == 0 ? C(0) : rc(rng, 8, 8); if (real) v = C(v.real(), 0); }
    return g;
}
static std::string op_line(const char *op, int solver, bool left, long p1, long p2, double p3, double p4, long K, const GenSys &g) {
    Line l; l << op << SNAME[solver] << (left ? "left" : "right") << p1 << p2 << dstr(p3) << dstr(p4); if (K >= 0) l << K;
    put(l, from_dense(g.A));
    if (g.pk == 0) l << "id"; else if (g.pk == 1) { l << "diag"; put(l, g.pd); } else { l << "mat"; put(l, from_dense(g.PM)); }
    put(l, g.f); put(l, g.x0); return l.get();
}
static void gen_case(Rng &rng, const Opts &o, std::vector<std::string> &lines, int solver, bool term) {
    long nmax = o.thorough() ? 12 : 10;
    long n = rng.coin(1, 10) ? rng.range(1, 2) : rng.range(3, nmax);
    bool hpd = solver == S_CG, left = has_side(solver) && rng.coin();
    long p1 = 0, p2 = 0; double p3 = 0, p4 = 0;
    if (solver == S_GMRES || solver == S_FGMRES) p1 = rng.pick(std::vector<long>{1, 2, 4, n});
    if (solver == S_LGMRES) { p1 = rng.pick(std::vector<long>{1, 2, 4, n}); p2 = rng.range(0, 2); }
    if (solver == S_BICGSTABL) { p1 = rng.pick(std::vector<long>{1, 2, 2, 4, 4, 3}); p2 = rng.coin(3, 4); p3 = rng.coin(1, 4) ? 0.01 : 0.0; }
    if (solver == S_IDRS) { p1 = std::min<long>(n, rng.pick(std::vector<long>{1, 2, 3, 4, 8})); p2 = rng.coin(1, 3); p3 = rng.coin(1, 4); p4 = rng.pick(std::vector<double>{0.0, 0.0, 0.7, 0.7, 0.9}); }
    if (solver == S_RICHARDSON) p4 = rng.pick(std::vector<double>{1.0, 0.5, 0.75, 1.25});
    if (!term) {
        int pkind = (int)rng.pick(std::vector<int>{0, 0, 1, 1, 2, 3, 4, 4, 5, 5});
        GenSys g = gen_sys(rng, n, hpd, pkind, 200, true);
        long K = std::min<long>(n, rng.range(2, 8)); if (solver == S_BICGSTABL) K = std::min<long>(std::max<long>(K, 2 * p1), 12);
        if (solver == S_RICHARDSON) K = rng.range(1, 6);
        if (solver == S_IDRS) K = std::min<long>(std::max<long>(K, (p1 + 1) * rng.range(1, 2)), 12);
        lines.push_back(op_line("cplx_iter", solver, left, p1, p2, p3, p4, K, g));
    } else {
        bool exact = rng.coin(1, 3); if (solver == S_RICHARDSON) { exact = true; p4 = 1.0; }
        if (solver == S_GMRES || solver == S_FGMRES) p1 = exact ? p1 : n;
        if (solver == S_LGMRES) { if (!exact) { p2 = std::min<long>(p2, n - 1); p1 = n - p2; } }
        if (solver == S_BICGSTABL) p3 = 0;
        GenSys g = gen_sys(rng, n, hpd, exact ? 3 : 0, 30, true);
        lines.push_back(op_line("cplx_term", solver, left, p1, p2, p3, p4, -1, g));
    }
}
static void generate(Rng &rng, const Opts &o, std::vector<std::string> &lines) {
    long cases = o.cases >= 0 ? o.cases : (o.thorough() ? 2400 : 480);
    // a malformed stream: every line must be answered with bad-input
    {
        GenSys g1; g1.A = {{C(1, 0)}}; g1.f = {C(1, 0)}; g1.x0 = {C(0, 0)};
        GenSys g2; g2.A = {{C(2, 0), C(1, 1)}, {C(0, 0), C(3, 0)}}; g2.f = {C(1, 0), C(0, 1)}; g2.x0 = {C(0, 0), C(0, 0)};
        lines.push_back(op_line("cplx_iter", S_GMRES, false, 0, 0, 0, 0, 2, g1));               // M = 0
        lines.push_back(op_line("cplx_iter", S_IDRS, false, 2, 0, 0, 0.7, 2, g1));             // s > n
        lines.push_back(op_line("cplx_iter", S_CG, false, 0, 0, 0, 0, 2, g2));                 // non-Hermitian A for CG
        lines.push_back(op_line("cplx_iter", S_FGMRES, true, 2, 0, 0, 0, 2, g1));              // fgmres has no side
        lines.push_back(op_line("cplx_iter", S_BICGSTABL, false, 0, 1, 0, 0, 2, g2));          // L = 0
        lines.push_back(op_line("cplx_iter", S_GMRES, false, 2, 0, 0, 0, 0, g2));              // K = 0
        { GenSys g = g2; g.f.push_back(C(1, 0)); lines.push_back(op_line("cplx_iter", S_GMRES, false, 2, 0, 0, 0, 2, g)); }   // rhs of wrong size
        { std::string l = op_line("cplx_iter", S_GMRES, false, 2, 0, 0, 0, 2, g2); lines.push_back(l + " 1"); size_t p = l.rfind(" 0"); l.replace(p, 2, " nan"); lines.push_back(l); }   // trailing token / not a number
        { GenSys g = g2; g.f = {C(0, 0), C(0, 0)}; lines.push_back(op_line("cplx_iter", S_GMRES, false, 2, 0, 0, 0, 2, g)); }     // zero rhs is not a test input here
        lines.push_back(op_line("cplx_term", S_GMRES, false, 1, 0, 0, 0, -1, g2));             // restart length below n
        lines.push_back(op_line("cplx_term", S_RICHARDSON, false, 0, 0, 0, 1, -1, g2));        // no finite termination with the identity
        lines.push_back("cplx_solve gmres");
    }
    for (long c = 0; c < cases; ++c) {
        int solver = (int)(c % S_COUNT);
        bool term = (c / S_COUNT) % 3 == 2;
        if (term && solver == S_RICHARDSON && rng.coin(2, 3)) { solver = (int)rng.pick(std::vector<int>{S_BICGSTAB, S_BICGSTABL, S_IDRS}); }
        gen_case(rng, o, lines, solver, term);
    }
}

VH_MAIN(generate, execute)
