// C01 harness, CONVERGENCE GRID (labelled floating-point TEST, implementation-only: "no_model": true).
//
// Clause of C01 that is an empirical statement about floating-point runs and therefore NOT a theorem: "On diffusion-type
// model problems (symmetric positive definite, diagonally dominant M-matrices with bounded coefficient contrast) every
// documented coarsening x relaxation x Krylov-method combination reaches the default tolerance well inside the default
// budget of 100 iterations, and the stationary Richardson iteration converges".  This harness runs the REAL
//     make_solver< amg<builtin<double>, runtime coarsening, runtime relaxation>, runtime solver >
// with DEFAULT parameters of every component (tol = 1e-8, maxiter = 100, default damping / fill / degree / eps_strong ...)
// except precond.coarse_enough, which is lowered so that the hierarchy really has several levels on problems this small
// (with the default 3000 every problem here would be handed to the direct solver and the grid would test nothing).
//
// Op:  conv <coarsening 0..3> <relaxation 0..8> <solver 0..7> <problem> <m> <contrast> <pseed> <coarse_enough>
//   problem 0: 2-D 5-point diffusion on an m x m grid, edge conductances in [1, contrast] drawn from pseed, homogeneous
//              Dirichlet boundary (eliminated: boundary edges only add to the diagonal)          -> irreducibly diag. dominant
//           1: 3-D 7-point diffusion on an m x m x m grid, same construction
//           2: 2-D anisotropic 5-point stencil, conductance 1 along x and 1/contrast along y, Dirichlet boundary
//           3: random connected graph with m*m nodes (ring + random chords), conductances in [1, contrast], a positive
//              diagonal shift on every 7th node
//   right-hand side: A * (smooth + rough reference solution), so ||f|| is of order 1 and x* is known; x0 = 0.
// Result line (no floating-point numbers): "ok <it-bin>" | "exception" ; verdicts are in the oracle column.
//
// Oracles (double precision; references recomputed in long double from the returned x):
//   (a) converged: reported residual < tol = 1e-8 and iterations <= 100                                 [convergence clause]
//   (b) really solved: ||f - A x|| / ||f|| (long double) <= 2 tol                                        [truthful below tol]
//   (c) reported vs true residual agree to 1e-3 relative + 1e-12 absolute whenever the default side is right
//       preconditioning (all solvers here run with their default pside = right; cg / idrs / fgmres / richardson have no side)
//   (d) iterations never exceed maxiter (+ L - 1 for bicgstabl, L = 2 default)
// Conditioning: n <= 1000, contrast <= 10: cond(A) <= ~5e3, so rounding in the recursively updated residual is
// <= ~1e-12 relative to ||f|| -- three orders below the slack of (b), (c).
// Combinations that do NOT converge on the unchanged library are genuine findings about the property (listed in
// known_findings.json with the exact component combination) -- never removed silently from the grid.
#include "gen.hpp"
#include <cmath>
#include <amgcl/amg.hpp>
#include <amgcl/make_solver.hpp>
#include <amgcl/solver/runtime.hpp>
#include <amgcl/coarsening/runtime.hpp>
#include <amgcl/relaxation/runtime.hpp>
#include <amgcl/adapter/crs_tuple.hpp>
#include <boost/property_tree/ptree.hpp>
using namespace vh;

typedef amgcl::backend::builtin<double> Backend;
typedef amgcl::make_solver<
    amgcl::amg<Backend, amgcl::runtime::coarsening::wrapper, amgcl::runtime::relaxation::wrapper>,
    amgcl::runtime::solver::wrapper<Backend> > Solver;

static const char *coarsenings[] = { "ruge_stuben", "aggregation", "smoothed_aggregation", "smoothed_aggr_emin" };
static const char *relaxations[] = { "gauss_seidel", "ilu0", "iluk", "ilup", "ilut", "damped_jacobi", "spai0", "spai1", "chebyshev" };
static const char *solvers[]     = { "cg", "bicgstab", "bicgstabl", "gmres", "lgmres", "fgmres", "idrs", "richardson" };
enum { NC = 4, NR = 9, NS = 8, NP = 4 };

struct Sys { long n; std::vector<ptrdiff_t> ptr, col; std::vector<double> val, f, xs; };

// symmetric weighted graph -> A = Laplacian + diagonal extra
static Sys assemble(long n, const std::vector<std::tuple<long,long,double>> &edges, const std::vector<double> &extra) {
    std::vector<std::map<long,double>> rows(n);
    for (long i = 0; i < n; ++i) rows[i][i] = extra[i];
    for (auto &e : edges) { long i, j; double w; std::tie(i, j, w) = e; if (i == j) continue; rows[i][j] -= w; rows[j][i] -= w; rows[i][i] += w; rows[j][j] += w; }
    Sys s; s.n = n; s.ptr.push_back(0);
    for (long i = 0; i < n; ++i) { for (auto &kv : rows[i]) { s.col.push_back(kv.first); s.val.push_back(kv.second); } s.ptr.push_back((ptrdiff_t)s.col.size()); }
    s.xs.resize(n); s.f.assign(n, 0.0);
    for (long i = 0; i < n; ++i) s.xs[i] = std::sin(0.37 * (double)i) + ((i * 2654435761UL) % 17) / 17.0 - 0.5;
    for (long i = 0; i < n; ++i) { long double a = 0; for (auto j = s.ptr[i]; j < s.ptr[i+1]; ++j) a += (long double)s.val[j] * s.xs[s.col[j]]; s.f[i] = (double)a; }
    return s;
}
static double cond_of(Rng &r, double contrast) { return 1.0 + (contrast - 1.0) * (double)(r.next() % 1024) / 1023.0; }

static Sys problem(long kind, long m, double contrast, uint64_t pseed) {
    Rng r(mix(pseed, 77));
    std::vector<std::tuple<long,long,double>> E; std::vector<double> extra;
    if (kind == 0 || kind == 2) {
        long n = m * m; extra.assign(n, 0.0);
        auto id = [&](long i, long j) { return i * m + j; };
        for (long i = 0; i < m; ++i) for (long j = 0; j < m; ++j) {
            double wx = kind == 0 ? cond_of(r, contrast) : 1.0, wy = kind == 0 ? cond_of(r, contrast) : 1.0 / contrast;
            if (j + 1 < m) E.emplace_back(id(i,j), id(i,j+1), wx); else extra[id(i,j)] += wx;
            if (i + 1 < m) E.emplace_back(id(i,j), id(i+1,j), wy); else extra[id(i,j)] += wy;
            if (j == 0) extra[id(i,j)] += kind == 0 ? cond_of(r, contrast) : 1.0;
            if (i == 0) extra[id(i,j)] += kind == 0 ? cond_of(r, contrast) : 1.0 / contrast;
        }
        return assemble(n, E, extra);
    }
    if (kind == 1) {
        long n = m * m * m; extra.assign(n, 0.0);
        auto id = [&](long i, long j, long k) { return (i * m + j) * m + k; };
        for (long i = 0; i < m; ++i) for (long j = 0; j < m; ++j) for (long k = 0; k < m; ++k) {
            double w[3] = { cond_of(r, contrast), cond_of(r, contrast), cond_of(r, contrast) };
            if (k + 1 < m) E.emplace_back(id(i,j,k), id(i,j,k+1), w[0]); else extra[id(i,j,k)] += w[0];
            if (j + 1 < m) E.emplace_back(id(i,j,k), id(i,j+1,k), w[1]); else extra[id(i,j,k)] += w[1];
            if (i + 1 < m) E.emplace_back(id(i,j,k), id(i+1,j,k), w[2]); else extra[id(i,j,k)] += w[2];
            if (k == 0) extra[id(i,j,k)] += cond_of(r, contrast);
            if (j == 0) extra[id(i,j,k)] += cond_of(r, contrast);
            if (i == 0) extra[id(i,j,k)] += cond_of(r, contrast);
        }
        return assemble(n, E, extra);
    }
    long n = m * m; extra.assign(n, 0.0);
    for (long i = 0; i < n; ++i) { E.emplace_back(i, (i + 1) % n, cond_of(r, contrast)); if (i % 7 == 0) extra[i] = cond_of(r, contrast); }
    for (long c = 0; c < 2 * n; ++c) { long i = r.range(0, n - 1), j = r.range(0, n - 1); if (i != j) E.emplace_back(i, j, cond_of(r, contrast)); }
    return assemble(n, E, extra);
}

static void generate(Rng &rng, const Opts &o, std::vector<std::string> &lines) {
    auto emit = [&](long c, long r, long s, long p, long m, long contrast, long pseed, long ce) {
        lines.push_back((Line() << "conv" << c << r << s << p << m << contrast << pseed << ce).get());
    };
    auto size_for = [&](long p) -> long { return p == 1 ? rng.range(6, 9) : rng.range(16, 28); };
    // the full component grid once, the problem class rotating with the combination index so that every class meets
    // every component; thorough: every problem class for every combination, several seeds
    const long reps = o.cases > 0 ? 1 : (o.thorough() ? NP : 1);
    long idx = (long)(rng.next() % NP);
    for (long rep = 0; rep < reps; ++rep)
        for (long c = 0; c < NC; ++c) for (long r = 0; r < NR; ++r) for (long s = 0; s < NS; ++s, ++idx) {
            long p = (idx + rep) % NP;
            emit(c, r, s, p, size_for(p), rng.range(1, 10), (long)(rng.next() % 1000000), rng.pick(std::vector<long>{20, 40, 80}));
        }
    if (o.cases > 0 && (long)lines.size() > o.cases) lines.resize(o.cases);
    // malformed stream
    lines.push_back("conv 4 0 0 0 10 1 1 20"); lines.push_back("conv 0 9 0 0 10 1 1 20"); lines.push_back("conv 0 0 8 0 10 1 1 20");
    lines.push_back("conv 0 0 0 4 10 1 1 20"); lines.push_back("conv 0 0 0 0 1 1 1 20"); lines.push_back("conv 0 0 0 0 10 0 1 20"); lines.push_back("conv 0 0 0");
}

static Result execute(const Toks &t) {
    if (t[0] != "conv") throw bad_input("op");
    Cur c(t);
    long ci = c.nat(), ri = c.nat(), si = c.nat(), p = c.nat(), m = c.nat(), contrast = c.nat(), pseed = c.nat(), ce = c.nat(); c.expect_end();
    if (ci < 0 || ci >= NC || ri < 0 || ri >= NR || si < 0 || si >= NS || p < 0 || p >= NP) throw bad_input("range");
    if (m < 2 || m > 40 || (p == 1 && m > 12) || contrast < 1 || contrast > 10 || pseed < 0 || ce < 1 || ce > 3000) throw bad_input("range");
    Sys S = problem(p, m, (double)contrast, (uint64_t)pseed);
    boost::property_tree::ptree prm;
    prm.put("precond.coarsening.type", coarsenings[ci]); prm.put("precond.relax.type", relaxations[ri]); prm.put("solver.type", solvers[si]);
    prm.put("precond.coarse_enough", ce);
    Result R;
    R.tag(std::string("c:") + coarsenings[ci]).tag(std::string("r:") + relaxations[ri]).tag(std::string("s:") + solvers[si]).tag("p:" + std::to_string(p));
    const double tol = 1e-8; const size_t maxiter = 100;
    size_t it = 0; double res = 0; std::vector<double> x(S.n, 0.0);
    try {
        Solver solve(std::tie(S.n, S.ptr, S.col, S.val), prm);
        std::tie(it, res) = solve(S.f, x);
    } catch (const std::exception &e) {
        R.out = "exception"; R.fail(std::string("exception on a diffusion model problem: ") + e.what()); return R;
    }
    long double nf = 0, nr = 0;
    for (long i = 0; i < S.n; ++i) { long double a = S.f[i]; for (auto j = S.ptr[i]; j < S.ptr[i+1]; ++j) a -= (long double)S.val[j] * x[S.col[j]]; nr += a * a; nf += (long double)S.f[i] * S.f[i]; }
    const double truer = (double)(std::sqrt(nr) / std::sqrt(nf));
    const size_t bound = maxiter + (si == 2 ? 1 : 0);
    const char *bin = it <= 10 ? "it<=10" : it <= 25 ? "it<=25" : it <= 50 ? "it<=50" : it <= 100 ? "it<=100" : "it>100";
    R.out = std::string("ok ") + bin; R.tag(bin); R.nontrivial = it >= 2;
    char buf[256];
    if (it > bound) { snprintf(buf, sizeof buf, "iterations %zu exceed maxiter %zu", it, bound); R.fail(buf); }
    if (!(res < tol)) { snprintf(buf, sizeof buf, "not converged within the default budget: it=%zu reported=%.3e true=%.3e", it, res, truer); R.fail(buf); }
    else if (!(truer <= 2 * tol)) { snprintf(buf, sizeof buf, "reported %.3e < tol but true relative residual %.3e > 2 tol", res, truer); R.fail(buf); }
    if (std::isfinite(res) && !(std::fabs(res - truer) <= 1e-3 * std::max(res, truer) + 1e-12)) { snprintf(buf, sizeof buf, "reported residual %.6e differs from true residual %.6e (it=%zu)", res, truer, it); R.fail(buf); }
    return R;
}
VH_MAIN(generate, execute)
