// C19 harness: MatrixMarket and binary file I/O of amgcl (amgcl/io/mm.hpp, amgcl/io/binary.hpp) on real files.
//
// Files travel on the op line as lowercase hex ("-" = empty); every op carries a label as first argument:
//   io_mm_read_sparse L kind hex b e       -> ok n m <ptr> <col> <val> | error
//   io_mm_read_dense  L kind hex b e       -> ok n m <val> | error
//   io_mm_rt_sparse   L kind b e <CRS>     -> <hex written by mm_write> <result of reading it back>
//   io_mm_rt_dense    L kind b e n m <val> -> likewise for the dense writer / reader
//   io_bin_crs_size   L hex                -> ok n | error
//   io_bin_read_crs   L T hex b e          -> ok n <ptr> <col> <val> | error
//   io_bin_read_dense L T hex b e          -> ok n m <val> | error
//   io_bin_rt_crs     L T b e <CRS>        -> <hex written by the io::write sequence of mm2bin> <read result>
//   io_bin_rt_dense   L T b e n m <val>    -> likewise
// T = instantiation of the binary reader: 1 = double (one 8-byte word per value), 2 = std::complex<double> (two 8-byte
// words), f = float (one 4-byte word), each with Col = ptrdiff_t; the sparse ops also take i1 / i2 / if = the same
// value types with Col = int (4-byte column indices), so that sizeof(Col) and sizeof(Val) vary independently
// (8/8, 8/16, 8/4, 4/8, 4/16, 4/4).  SizeT = size_t and Ptr = ptrdiff_t throughout.
//   io_libc_roundtrip L count seed         -> tested     (labelled TEST of libc's "%.20e"/strtod round trip through
//                                                          write_value/read_value; no model content)
// kind = real | complex | integer.  MatrixMarket values are exact rationals of binary64 numbers (complex: two of
// them, integer: int); binary values are bit patterns.  An exception of the real code is the outcome `error`;
// a sanitizer abort kills the process (tools/vcheck.py records it and restarts behind the case).
//
// Implementation-side oracles (independent of the Lean model):
//   * whatever a reader returns without throwing is structurally valid (ptr monotone from 0, ptr.back = col.size =
//     val.size, columns inside [0, ncols) for MatrixMarket, rows sorted),
//   * a row-range read equals the slice of the full read; a valid row range of a file whose full read succeeds does
//     not throw (binary readers),
//   * a symmetric-storage file yields a symmetric matrix,
//   * read(write(A)) is bitwise A (rows sorted by column), for every kind.
// Allocation requests above MEM_LIMIT throw std::bad_alloc (the model has the same parameter), so that a damaged
// size field is an exception and not an out-of-memory kill.
#include "gen.hpp"
#include <amgcl/value_type/complex.hpp>
#include <amgcl/adapter/crs_tuple.hpp>
#include <amgcl/io/mm.hpp>
#include <amgcl/io/binary.hpp>
#include <complex>
#include <cstdio>
#include <cfloat>
#include <new>
using namespace vh;

// ---------------------------------------------------------------- bounded allocator
static const size_t MEM_LIMIT = 64u << 20;
static void* lim_alloc(size_t n) { if (n > MEM_LIMIT) return nullptr; return malloc(n ? n : 1); }
void* operator new(size_t n) { void *p = lim_alloc(n); if (!p) throw std::bad_alloc(); return p; }
void* operator new[](size_t n) { void *p = lim_alloc(n); if (!p) throw std::bad_alloc(); return p; }
void* operator new(size_t n, const std::nothrow_t&) noexcept { return lim_alloc(n); }
void* operator new[](size_t n, const std::nothrow_t&) noexcept { return lim_alloc(n); }
void operator delete(void *p) noexcept { free(p); }
void operator delete[](void *p) noexcept { free(p); }
void operator delete(void *p, size_t) noexcept { free(p); }
void operator delete[](void *p, size_t) noexcept { free(p); }
void operator delete(void *p, const std::nothrow_t&) noexcept { free(p); }
void operator delete[](void *p, const std::nothrow_t&) noexcept { free(p); }

typedef std::string Bytes;
typedef std::complex<double> cplx;
static std::string g_out = ".";

// ---------------------------------------------------------------- helpers
static std::string hex(const Bytes &b) {
    if (b.empty()) return "-";
    static const char *d = "0123456789abcdef"; std::string s; s.reserve(2 * b.size());
    for (unsigned char c : b) { s += d[c >> 4]; s += d[c & 15]; }
    return s;
}
static Bytes unhex(const std::string &s) {
    if (s == "-") return Bytes();
    if (s.size() % 2) throw bad_input("hex");
    auto nib = [](char c) -> int { if (c >= '0' && c <= '9') return c - '0'; if (c >= 'a' && c <= 'f') return c - 'a' + 10; throw bad_input("hex"); };
    Bytes b; b.reserve(s.size() / 2);
    for (size_t i = 0; i < s.size(); i += 2) b += (char)(nib(s[i]) * 16 + nib(s[i + 1]));
    return b;
}
static std::string case_path() { return g_out + "/io_case.dat"; }
static void put_file(const Bytes &b) { std::ofstream f(case_path(), std::ios::binary | std::ios::trunc); f.write(b.data(), (std::streamsize)b.size()); }
static Bytes get_file() { std::ifstream f(case_path(), std::ios::binary); std::ostringstream s; s << f.rdbuf(); return s.str(); }

static double exact_double(const std::string &tok) {
    mpq_class r; try { r = mpq_class(tok); } catch (...) { throw bad_input("rat"); }
    if (r.get_den() == 0) throw bad_input("rat");
    r.canonicalize(); double d = r.get_d();
    if (!std::isfinite(d) || mpq_class(d) != r) throw bad_input("not a binary64 value");
    return d;
}
static std::string rat(double d) { if (!std::isfinite(d)) return "nonfinite"; return mpq_class(d).get_str(); }
template <class T> static uint64_t bits(const T &x) { static_assert(sizeof(T) == 8, ""); uint64_t u; memcpy(&u, &x, 8); return u; }
static bool long_tok(const std::string &s, long &v) { if (s.empty()) return false; char *e; errno = 0; v = strtol(s.c_str(), &e, 10); return !*e && !errno; }
static long cur_long(Cur &c) { long v; if (!long_tok(c.tok(), v)) throw bad_input("int"); return v; }

// value kinds of the MatrixMarket reader/writer
template <class V> struct K;
template <> struct K<double> {
    static const char* name() { return "real"; }
    static double parse(Cur &c) { return exact_double(c.tok()); }
    static void print(Line &l, double v) { l << rat(v); }
    static bool same(double a, double b) { return bits(a) == bits(b); }
};
template <> struct K<cplx> {
    static const char* name() { return "complex"; }
    static cplx parse(Cur &c) { double x = exact_double(c.tok()); double y = exact_double(c.tok()); return cplx(x, y); }
    static void print(Line &l, cplx v) { l << rat(v.real()); l << rat(v.imag()); }
    static bool same(cplx a, cplx b) { return bits(a.real()) == bits(b.real()) && bits(a.imag()) == bits(b.imag()); }
};
template <> struct K<int> {
    static const char* name() { return "integer"; }
    static int parse(Cur &c) { long v = cur_long(c); if (v < INT_MIN || v > INT_MAX) throw bad_input("int range"); return (int)v; }
    static void print(Line &l, int v) { l << (long)v; }
    static bool same(int a, int b) { return a == b; }
};
// binary value kinds: w 64-bit words
template <class V> struct W;
template <> struct W<double> {
    static const int w = 1;
    static const char* name() { return "real"; }
    static double parse(Cur &c) { const std::string &s = c.tok(); char *e; errno = 0; unsigned long long u = strtoull(s.c_str(), &e, 10); if (*e || s.empty() || errno || s[0] == '-') throw bad_input("u64"); uint64_t x = u; double d; memcpy(&d, &x, 8); return d; }
    static void print(Line &l, double v) { l << std::to_string((unsigned long long)bits(v)); }
    static bool same(double a, double b) { return bits(a) == bits(b); }
};
template <> struct W<cplx> {
    static const int w = 2;
    static const char* name() { return "complex"; }
    static cplx parse(Cur &c) { double x = W<double>::parse(c); double y = W<double>::parse(c); return cplx(x, y); }
    static void print(Line &l, cplx v) { W<double>::print(l, v.real()); W<double>::print(l, v.imag()); }
    static bool same(cplx a, cplx b) { return K<cplx>::same(a, b); }
};

template <> struct W<float> {
    static const int w = 1;
    static const char* name() { return "float"; }
    static uint32_t bits32(float x) { uint32_t u; memcpy(&u, &x, 4); return u; }
    static float parse(Cur &c) { const std::string &s = c.tok(); char *e; errno = 0; unsigned long long u = strtoull(s.c_str(), &e, 10); if (*e || s.empty() || errno || s[0] == '-' || u > 0xffffffffULL) throw bad_input("u32"); uint32_t x = (uint32_t)u; float d; memcpy(&d, &x, 4); return d; }
    static void print(Line &l, float v) { l << std::to_string((unsigned long long)bits32(v)); }
    static bool same(float a, float b) { return bits32(a) == bits32(b); }
};
// tag of a binary instantiation: value kind, prefixed by the column type when it is not ptrdiff_t
template <class V, class C> static std::string bin_tag() { return std::string(sizeof(C) == 4 ? "i32_" : "") + W<V>::name(); }

template <class V, class C = ptrdiff_t> struct Sparse { size_t n = 0, m = 0; std::vector<ptrdiff_t> ptr; std::vector<C> col; std::vector<V> val; };
template <class V> struct Dense_ { size_t n = 0, m = 0; std::vector<V> val; };

// structural validity of what a reader returned (have_cols: MatrixMarket knows the column count)
template <class V, class C> static bool wf(const Sparse<V, C> &A, bool have_cols, std::string &why) {
    if (A.ptr.size() != A.n + 1) { why = "ptr.size != nrows+1"; return false; }
    if (A.ptr[0] != 0) { why = "ptr[0] != 0"; return false; }
    for (size_t i = 0; i < A.n; ++i) if (A.ptr[i + 1] < A.ptr[i]) { why = "ptr not monotone"; return false; }
    if ((size_t)A.ptr.back() != A.col.size() || A.col.size() != A.val.size()) { why = "ptr.back != col.size or col.size != val.size"; return false; }
    if (have_cols) for (auto c : A.col) if (c < 0 || (size_t)c >= A.m) { why = "column index out of range"; return false; }
    for (size_t i = 0; i < A.n; ++i) for (auto j = A.ptr[i]; j + 1 < A.ptr[i + 1]; ++j) if (A.col[j] > A.col[j + 1]) { why = "row not sorted"; return false; }
    return true;
}
template <class V, class KK, class C> static std::string show(const Sparse<V, C> &A, bool have_cols) {
    Line l; l << "ok" << A.n; if (have_cols) l << A.m;
    l << A.ptr.size(); for (auto p : A.ptr) l << (long)p;
    l << A.col.size(); for (auto c : A.col) l << (long)c;
    l << A.val.size(); for (auto &v : A.val) KK::print(l, v);
    return l.get();
}
template <class V, class KK> static std::string show(const Dense_<V> &D) {
    Line l; l << "ok" << D.n << D.m << D.val.size(); for (auto &v : D.val) KK::print(l, v);
    return l.get();
}
template <class V, class KK, class C> static bool same_slice(const Sparse<V, C> &P, const Sparse<V, C> &F, size_t b, size_t e) {
    if (P.n != e - b || P.ptr.size() != P.n + 1) return false;
    for (size_t i = 0; i < P.n; ++i) {
        ptrdiff_t pl = P.ptr[i + 1] - P.ptr[i], fl = F.ptr[b + i + 1] - F.ptr[b + i];
        if (pl != fl) return false;
        for (ptrdiff_t k = 0; k < pl; ++k) if (P.col[P.ptr[i] + k] != F.col[F.ptr[b + i] + k] || !KK::same(P.val[P.ptr[i] + k], F.val[F.ptr[b + i] + k])) return false;
    }
    return true;
}

// ---------------------------------------------------------------- the real readers
// The readers take their OUTPUT containers by reference; callers load chunk after chunk into the same vectors, so the
// containers may hold earlier content (any size) on entry.  Every call below therefore starts from stale, non-zero content
// of a rotating size (empty / shorter / much longer than the result); the results must not depend on it.
static unsigned g_stale = 0;
template <class T> static void stale(std::vector<T> &v) { static const size_t sz[] = { 0, 5, 257, 2 }; v.assign(sz[g_stale++ % 4], T(3)); }
template <class V> static bool real_mm_sparse(Sparse<V> &A, long b, long e, bool *sym = nullptr) {
    stale(A.ptr); stale(A.col); stale(A.val);
    try { amgcl::io::mm_reader rd(case_path()); if (sym) *sym = rd.is_symmetric(); std::tie(A.n, A.m) = rd(A.ptr, A.col, A.val, b, e); return true; }
    catch (const std::exception &) { return false; }
}
template <class V> static bool real_mm_dense(Dense_<V> &D, long b, long e) {
    stale(D.val);
    try { amgcl::io::mm_reader rd(case_path()); std::tie(D.n, D.m) = rd(D.val, b, e); return true; }
    catch (const std::exception &) { return false; }
}
template <class V, class C> static bool real_bin_crs(Sparse<V, C> &A, long b, long e) {
    stale(A.ptr); stale(A.col); stale(A.val);
    try { amgcl::io::read_crs(case_path(), A.n, A.ptr, A.col, A.val, b, e); return true; }
    catch (const std::exception &) { return false; }
}
template <class V> static bool real_bin_dense(Dense_<V> &D, long b, long e) {
    stale(D.val);
    try { amgcl::io::read_dense(case_path(), D.n, D.m, D.val, b, e); return true; }
    catch (const std::exception &) { return false; }
}

static void classify(Result &r, const std::string &label, bool ok, bool nonempty_file, bool has_values) {
    r.tag(label); r.tag(ok ? "ok" : "error");
    r.nontrivial = nonempty_file && (has_values || label != "valid");
}

// read ops -----------------------------------------------------------------------------------------------
template <class V> static Result op_mm_read_sparse(const std::string &label, const Bytes &file, long b, long e) {
    typedef K<V> KK; Result r; put_file(file);
    Sparse<V> A; bool sym = false; bool ok = real_mm_sparse(A, b, e, &sym);
    if (!ok) { r.out = "error"; classify(r, label, false, !file.empty(), false); return r; }
    std::string why;
    if (!wf(A, true, why)) r.fail("mm_reader returned a structurally invalid matrix: " + why);
    r.out = show<V, KK>(A, true);
    if (r.ok && (b >= 0 || e >= 0)) {                // explicit range: must be the slice of the full read
        Sparse<V> F;
        if (real_mm_sparse(F, -1, -1) && wf(F, true, why)) {
            long bb = b < 0 ? 0 : b, ee = e < 0 ? (long)F.n : e;
            if (bb <= ee && ee <= (long)F.n && !same_slice<V, KK>(A, F, bb, ee)) r.fail("row-range read differs from the slice of the full read");
        }
        r.tag("range");
    }
    if (r.ok && sym && b < 0 && e < 0 && A.n == A.m) {  // symmetric storage: result equals its transpose
        std::vector<std::tuple<long, long, std::string>> x, y;
        for (size_t i = 0; i < A.n; ++i) for (auto j = A.ptr[i]; j < A.ptr[i + 1]; ++j) { Line l; KK::print(l, A.val[j]); x.push_back({(long)i, (long)A.col[j], l.get()}); y.push_back({(long)A.col[j], (long)i, l.get()}); }
        std::sort(x.begin(), x.end()); std::sort(y.begin(), y.end());
        if (x != y) r.fail("symmetric file was not expanded to a symmetric matrix");
        r.tag("sym");
    }
    classify(r, label, true, !file.empty(), !A.val.empty()); r.tag(std::string("mm_sparse_") + KK::name());
    return r;
}
template <class V> static Result op_mm_read_dense(const std::string &label, const Bytes &file, long b, long e) {
    typedef K<V> KK; Result r; put_file(file);
    Dense_<V> D; bool ok = real_mm_dense(D, b, e);
    if (!ok) { r.out = "error"; classify(r, label, false, !file.empty(), false); return r; }
    if (D.m != 0 && D.val.size() / D.m != D.n) r.fail("dense mm_reader returned val.size != rows*cols");
    if (D.val.size() != D.n * D.m) r.fail("dense mm_reader returned val.size != rows*cols");
    r.out = show<V, KK>(D);
    if (r.ok && (b >= 0 || e >= 0)) {
        Dense_<V> F;
        if (real_mm_dense(F, -1, -1) && F.val.size() == F.n * F.m) {
            long bb = b < 0 ? 0 : b, ee = e < 0 ? (long)F.n : e;
            if (bb <= ee && ee <= (long)F.n) {
                bool same = D.n == (size_t)(ee - bb) && D.m == F.m;
                for (size_t k = 0; same && k < D.val.size(); ++k) same = KK::same(D.val[k], F.val[bb * F.m + k]);
                if (!same) r.fail("dense row-range read differs from the slice of the full read");
            }
        }
        r.tag("range");
    }
    classify(r, label, true, !file.empty(), !D.val.empty()); r.tag(std::string("mm_dense_") + KK::name());
    return r;
}
template <class V, class C> static Result op_bin_read_crs(const std::string &label, const Bytes &file, long b, long e) {
    typedef W<V> KK; Result r; put_file(file);
    Sparse<V, C> A; bool ok = real_bin_crs(A, b, e);
    std::string why;
    if (!ok) {
        r.out = "error";
        if (b >= 0 || e >= 0) {                          // a valid range of a file whose full read succeeds must not throw
            Sparse<V, C> F;
            if (real_bin_crs(F, -1, -1) && wf(F, false, why)) {
                long bb = b < 0 ? 0 : b, ee = e < 0 ? (long)F.n : e;
                if (bb <= ee && ee <= (long)F.n) r.fail("row-range read_crs throws although the full read of the file succeeds");
            }
            r.tag("range");
        }
        classify(r, label, false, !file.empty(), false); return r;
    }
    { long bb = b < 0 ? 0 : b, ee = e < 0 ? (long)A.n : e; A.n = (size_t)(ee - bb); }   // read_crs reports the FILE's row count in n
    if (!wf(A, false, why)) r.fail("read_crs returned a structurally invalid matrix: " + why);
    r.out = show<V, KK>(A, false);
    if (r.ok && (b >= 0 || e >= 0)) {
        Sparse<V, C> F;
        if (real_bin_crs(F, -1, -1) && wf(F, false, why)) {
            long bb = b < 0 ? 0 : b, ee = e < 0 ? (long)F.n : e;
            if (bb <= ee && ee <= (long)F.n && !same_slice<V, KK>(A, F, bb, ee)) r.fail("row-range read_crs differs from the slice of the full read");
            if (bb > 0 && bb <= ee && ee <= (long)F.n && F.ptr[bb] > 0 && F.ptr[ee] > F.ptr[bb]) r.tag("range_offset");   // stored entries in front of a non-empty range
        }
        r.tag("range");
    }
    classify(r, label, true, !file.empty(), !A.val.empty()); r.tag("bin_crs_" + bin_tag<V, C>());
    return r;
}
template <class V> static Result op_bin_read_dense(const std::string &label, const Bytes &file, long b, long e) {
    typedef W<V> KK; Result r; put_file(file);
    Dense_<V> D; bool ok = real_bin_dense(D, b, e);
    if (!ok) {
        r.out = "error";
        if (b >= 0 || e >= 0) {
            Dense_<V> F;
            if (real_bin_dense(F, -1, -1) && F.val.size() == F.n * F.m) {
                long bb = b < 0 ? 0 : b, ee = e < 0 ? (long)F.n : e;
                if (bb <= ee && ee <= (long)F.n) r.fail("row-range read_dense throws although the full read of the file succeeds");
            }
            r.tag("range");
        }
        classify(r, label, false, !file.empty(), false); return r;
    }
    size_t rows = D.n;                                   // read_dense reports the FILE's row count in n
    long bb = b < 0 ? 0 : b, ee = e < 0 ? (long)D.n : e;
    rows = (size_t)(ee - bb);
    unsigned __int128 want = (unsigned __int128)rows * D.m;
    if (want != D.val.size()) r.fail("read_dense returned v.size != rows*cols");
    Dense_<V> P = D; P.n = rows;
    r.out = show<V, KK>(P);
    if (r.ok && (b >= 0 || e >= 0)) {
        Dense_<V> F;
        if (real_bin_dense(F, -1, -1) && F.val.size() == F.n * F.m && ee <= (long)F.n) {
            bool same = D.m == F.m;
            for (size_t k = 0; same && k < D.val.size(); ++k) same = KK::same(D.val[k], F.val[bb * F.m + k]);
            if (!same) r.fail("row-range read_dense differs from the slice of the full read");
        }
        r.tag("range");
    }
    classify(r, label, true, !file.empty(), !D.val.empty()); r.tag(std::string("bin_dense_") + KK::name());
    return r;
}

// round-trip ops -----------------------------------------------------------------------------------------
template <class V, class KK, class C = ptrdiff_t> static Sparse<V, C> parse_crs(Cur &c) {
    Sparse<V, C> A; long n = c.nat(), m = c.nat(); if (n < 0 || m < 0) throw bad_input("shape");
    A.n = n; A.m = m; A.ptr.push_back(0);
    for (long i = 0; i < n; ++i) { long k = c.nat(); if (k < 0) throw bad_input("k"); for (long j = 0; j < k; ++j) { long cc = c.nat(); if (cc < 0 || cc >= m) throw bad_input("col"); A.col.push_back((C)cc); A.val.push_back(KK::parse(c)); } A.ptr.push_back((ptrdiff_t)A.col.size()); }
    return A;
}
template <class V, class KK> static Dense_<V> parse_dense(Cur &c) {
    Dense_<V> D; long n = c.nat(), m = c.nat(), k = c.nat(); if (n < 0 || m < 0 || k != n * m) throw bad_input("shape");
    D.n = n; D.m = m; for (long i = 0; i < k; ++i) D.val.push_back(KK::parse(c));
    return D;
}
// expected result of reading rows [b,e) of A back: rows stably sorted by column
template <class V, class C> static Sparse<V, C> expected_read(const Sparse<V, C> &A, long b, long e) {
    Sparse<V, C> X; X.m = A.m; long bb = b < 0 ? 0 : b, ee = e < 0 ? (long)A.n : e; X.n = ee - bb; X.ptr.push_back(0);
    for (long i = bb; i < ee; ++i) {
        std::vector<std::pair<C, V>> row; for (auto j = A.ptr[i]; j < A.ptr[i + 1]; ++j) row.push_back({A.col[j], A.val[j]});
        std::stable_sort(row.begin(), row.end(), [](const std::pair<C, V> &x, const std::pair<C, V> &y) { return x.first < y.first; });
        for (auto &cv : row) { X.col.push_back(cv.first); X.val.push_back(cv.second); } X.ptr.push_back((ptrdiff_t)X.col.size());
    }
    return X;
}
template <class V, class KK, class C> static bool same_matrix(const Sparse<V, C> &A, const Sparse<V, C> &B, bool cols) {
    if (A.n != B.n || (cols && A.m != B.m) || A.ptr != B.ptr || A.col != B.col || A.val.size() != B.val.size()) return false;
    for (size_t k = 0; k < A.val.size(); ++k) if (!KK::same(A.val[k], B.val[k])) return false;
    return true;
}
static bool range_ok(long b, long e, size_t n) { long bb = b < 0 ? 0 : b, ee = e < 0 ? (long)n : e; return bb <= ee && ee <= (long)n; }

template <class V> static Result op_mm_rt_sparse(const std::string &label, Cur &c) {
    typedef K<V> KK; long b = cur_long(c), e = cur_long(c); Sparse<V> A = parse_crs<V, KK>(c); c.expect_end();
    Result r; std::remove(case_path().c_str());
    amgcl::backend::crs<V, ptrdiff_t, ptrdiff_t> M(A.n, A.m, A.ptr, A.col, A.val);   // (a crs_tuple would be square by construction)
    amgcl::io::mm_write(case_path(), M);
    Bytes file = get_file();
    Sparse<V> R; bool ok = real_mm_sparse(R, b, e);
    std::string why;
    if (ok && !wf(R, true, why)) r.fail("mm_reader returned a structurally invalid matrix: " + why);
    if (range_ok(b, e, A.n)) {
        if (!ok) r.fail("mm_reader rejected a file written by mm_write");
        else if (!same_matrix<V, KK>(R, expected_read(A, b, e), true)) r.fail("mm read(write(A)) != A");
    } else if (ok) r.fail("invalid row range accepted");
    r.out = hex(file) + " " + (ok ? show<V, KK>(R, true) : std::string("error"));
    classify(r, label, ok, true, !A.val.empty()); r.tag(std::string("mm_rt_sparse_") + KK::name()); if (b >= 0 || e >= 0) r.tag("range");
    return r;
}
template <class V> static Result op_mm_rt_dense(const std::string &label, Cur &c) {
    typedef K<V> KK; long b = cur_long(c), e = cur_long(c); Dense_<V> D = parse_dense<V, KK>(c); c.expect_end();
    Result r; std::remove(case_path().c_str());
    V dummy = V(); amgcl::io::mm_write(case_path(), D.val.empty() ? &dummy : D.val.data(), D.n, D.m);
    Bytes file = get_file();
    Dense_<V> R; bool ok = real_mm_dense(R, b, e);
    if (range_ok(b, e, D.n)) {
        long bb = b < 0 ? 0 : b, ee = e < 0 ? (long)D.n : e;
        bool same = ok && R.n == (size_t)(ee - bb) && R.m == D.m && R.val.size() == R.n * R.m;
        for (size_t k = 0; same && k < R.val.size(); ++k) same = KK::same(R.val[k], D.val[bb * D.m + k]);
        if (!same) r.fail("dense mm read(write(D)) != D");
    } else if (ok) r.fail("invalid row range accepted");
    r.out = hex(file) + " " + (ok ? show<V, KK>(R) : std::string("error"));
    classify(r, label, ok, true, !D.val.empty()); r.tag(std::string("mm_rt_dense_") + KK::name()); if (b >= 0 || e >= 0) r.tag("range");
    return r;
}
template <class V, class C> static Result op_bin_rt_crs(const std::string &label, Cur &c) {
    typedef W<V> KK; long b = cur_long(c), e = cur_long(c); Sparse<V, C> A = parse_crs<V, KK, C>(c); c.expect_end();
    Result r; std::remove(case_path().c_str());
    { std::ofstream f(case_path(), std::ios::binary);      // the write sequence of examples/mm2bin.cpp
      bool w = amgcl::io::write(f, A.n) && amgcl::io::write(f, A.ptr) && amgcl::io::write(f, A.col) && amgcl::io::write(f, A.val);
      if (!w) r.fail("io::write failed"); }
    Bytes file = get_file();
    Sparse<V, C> R; bool ok = real_bin_crs(R, b, e);
    if (ok) { long bb = b < 0 ? 0 : b, ee = e < 0 ? (long)R.n : e; R.n = (size_t)(ee - bb); }
    std::string why;
    if (ok && !wf(R, false, why)) r.fail("read_crs returned a structurally invalid matrix: " + why);
    if (range_ok(b, e, A.n)) {
        if (!ok) r.fail("read_crs rejected a file written by io::write");
        else if (!same_matrix<V, KK>(R, expected_read(A, b, e), false)) r.fail("binary read(write(A)) != A");
    } else if (ok) r.fail("invalid row range accepted");
    r.out = hex(file) + " " + (ok ? show<V, KK>(R, false) : std::string("error"));
    classify(r, label, ok, true, !A.val.empty()); r.tag("bin_rt_crs_" + bin_tag<V, C>()); if (b >= 0 || e >= 0) r.tag("range");
    { long bb = b < 0 ? 0 : b, ee = e < 0 ? (long)A.n : e; if (bb > 0 && bb <= ee && ee <= (long)A.n && A.ptr[bb] > 0 && A.ptr[ee] > A.ptr[bb]) r.tag("range_offset"); }
    return r;
}
template <class V> static Result op_bin_rt_dense(const std::string &label, Cur &c) {
    typedef W<V> KK; long b = cur_long(c), e = cur_long(c); Dense_<V> D = parse_dense<V, KK>(c); c.expect_end();
    Result r; std::remove(case_path().c_str());
    { std::ofstream f(case_path(), std::ios::binary);
      bool w = amgcl::io::write(f, D.n) && amgcl::io::write(f, D.m) && amgcl::io::write(f, D.val);
      if (!w) r.fail("io::write failed"); }
    Bytes file = get_file();
    Dense_<V> R; bool ok = real_bin_dense(R, b, e);
    if (range_ok(b, e, D.n)) {
        long bb = b < 0 ? 0 : b, ee = e < 0 ? (long)D.n : e;
        bool same = ok && R.n == D.n && R.m == D.m && R.val.size() == (size_t)(ee - bb) * D.m;
        for (size_t k = 0; same && k < R.val.size(); ++k) same = KK::same(R.val[k], D.val[bb * D.m + k]);
        if (!same) r.fail("binary dense read(write(D)) != D");
        if (ok) R.n = (size_t)(ee - bb);
    } else if (ok) r.fail("invalid row range accepted");
    r.out = hex(file) + " " + (ok ? show<V, KK>(R) : std::string("error"));
    classify(r, label, ok, true, !D.val.empty()); r.tag(std::string("bin_rt_dense_") + KK::name()); if (b >= 0 || e >= 0) r.tag("range");
    return r;
}

// labelled TEST: libc "%.20e" / strtod round trip through the real write_value / read_value ---------------
static Result op_libc_roundtrip(const std::string &label, long count, uint64_t seed) {
    Result r; Rng rng(mix(seed, 77));
    std::vector<double> v = { 0.0, -0.0, DBL_MAX, -DBL_MAX, DBL_MIN, -DBL_MIN, DBL_TRUE_MIN, -DBL_TRUE_MIN, DBL_EPSILON, 1.0 / 3, 0.1, 1e308, 1e-308, 4.9e-324,
                              2.2250738585072011e-308 /* largest subnormal */, 1.7976931348623157e308, 5e-324, 9007199254740993.0, 1e23, 8.41e21 };
    for (long k = 0; k < count; ++k) { uint64_t u = rng.next(); if (((u >> 52) & 0x7ff) == 0x7ff) u &= ~(1ULL << 62); if (k % 16 == 0) u &= 0x800fffffffffffffULL; /* subnormals */ double d; memcpy(&d, &u, 8); v.push_back(d); }
    std::remove(case_path().c_str());
    amgcl::io::mm_write(case_path(), v.data(), v.size(), 1);
    Dense_<double> D; bool ok = real_mm_dense(D, -1, -1);
    if (!ok || D.val.size() != v.size()) r.fail("libc test: file of finite doubles written by mm_write was rejected");
    else for (size_t k = 0; k < v.size(); ++k) if (bits(v[k]) != bits(D.val[k])) { r.fail("libc test: %.20e/strtod did not round-trip bit pattern " + std::to_string((unsigned long long)bits(v[k]))); break; }
    // complex values through the same path
    std::vector<cplx> cv; for (size_t k = 0; k + 1 < v.size(); k += 2) cv.push_back(cplx(v[k], v[k + 1]));
    std::remove(case_path().c_str());
    amgcl::io::mm_write(case_path(), cv.data(), cv.size(), 1);
    Dense_<cplx> C; ok = real_mm_dense(C, -1, -1);
    if (!ok || C.val.size() != cv.size()) r.fail("libc test: complex file rejected");
    else for (size_t k = 0; k < cv.size(); ++k) if (!K<cplx>::same(cv[k], C.val[k])) { r.fail("libc test: complex value did not round-trip"); break; }
    r.out = "tested"; r.tag(label); r.tag("libc-test"); r.nontrivial = count > 0;
    return r;
}

// ---------------------------------------------------------------- dispatch
static Result execute(const Toks &t) {
    const std::string &op = t[0];
    if (op.compare(0, 3, "io_") != 0) return Result("bad-op");
    Cur c(t); std::string label = c.tok();
    auto kind3 = [&](auto f) -> Result {               // MatrixMarket ops: kind token
        std::string kind = c.tok();
        if (kind == "real") return f((double*)nullptr);
        if (kind == "complex") return f((cplx*)nullptr);
        if (kind == "integer") return f((int*)nullptr);
        throw bad_input("kind");
    };
    auto types = [&](bool sparse, auto f) -> Result {  // binary ops: instantiation token ("i" prefix = Col int, sparse only)
        std::string t = c.tok(); bool ic = false;
        if (sparse && !t.empty() && t[0] == 'i') { ic = true; t = t.substr(1); }
        if (t == "1") return ic ? f((double*)nullptr, (int*)nullptr) : f((double*)nullptr, (ptrdiff_t*)nullptr);
        if (t == "2") return ic ? f((cplx*)nullptr, (int*)nullptr) : f((cplx*)nullptr, (ptrdiff_t*)nullptr);
        if (t == "f") return ic ? f((float*)nullptr, (int*)nullptr) : f((float*)nullptr, (ptrdiff_t*)nullptr);
        throw bad_input("type");
    };
    auto file_b_e = [&](Bytes &file, long &b, long &e) { file = unhex(c.tok()); b = cur_long(c); e = cur_long(c); c.expect_end(); };
    Bytes file; long b, e;
    if (op == "io_mm_read_sparse") return kind3([&](auto *p) { typedef typename std::remove_pointer<decltype(p)>::type V; file_b_e(file, b, e); return op_mm_read_sparse<V>(label, file, b, e); });
    if (op == "io_mm_read_dense") return kind3([&](auto *p) { typedef typename std::remove_pointer<decltype(p)>::type V; file_b_e(file, b, e); return op_mm_read_dense<V>(label, file, b, e); });
    if (op == "io_mm_rt_sparse") return kind3([&](auto *p) { typedef typename std::remove_pointer<decltype(p)>::type V; return op_mm_rt_sparse<V>(label, c); });
    if (op == "io_mm_rt_dense") return kind3([&](auto *p) { typedef typename std::remove_pointer<decltype(p)>::type V; return op_mm_rt_dense<V>(label, c); });
    if (op == "io_bin_read_crs") return types(true, [&](auto *p, auto *q) { typedef typename std::remove_pointer<decltype(p)>::type V; typedef typename std::remove_pointer<decltype(q)>::type C; file_b_e(file, b, e); return op_bin_read_crs<V, C>(label, file, b, e); });
    if (op == "io_bin_read_dense") return types(false, [&](auto *p, auto *) { typedef typename std::remove_pointer<decltype(p)>::type V; file_b_e(file, b, e); return op_bin_read_dense<V>(label, file, b, e); });
    if (op == "io_bin_rt_crs") return types(true, [&](auto *p, auto *q) { typedef typename std::remove_pointer<decltype(p)>::type V; typedef typename std::remove_pointer<decltype(q)>::type C; return op_bin_rt_crs<V, C>(label, c); });
    if (op == "io_bin_rt_dense") return types(false, [&](auto *p, auto *) { typedef typename std::remove_pointer<decltype(p)>::type V; return op_bin_rt_dense<V>(label, c); });
    if (op == "io_bin_crs_size") {
        file = unhex(c.tok()); c.expect_end(); put_file(file); Result r;
        try { size_t n = amgcl::io::crs_size<size_t>(case_path()); r.out = "ok " + std::to_string(n); } catch (const std::exception &) { r.out = "error"; }
        if ((file.size() >= 8) != (r.out != "error")) r.fail("crs_size outcome does not match the file length");
        classify(r, label, r.out != "error", !file.empty(), file.size() >= 8); r.tag("bin_crs_size");
        return r;
    }
    if (op == "io_libc_roundtrip") { long n = c.nat(); long s = c.nat(); c.expect_end(); if (n < 0 || s < 0) throw bad_input("n"); return op_libc_roundtrip(label, n, (uint64_t)s); }
    return Result("bad-op");
}

#include "gen_io.hpp"

int main(int argc, char **argv) {
    for (int i = 1; i + 1 < argc; ++i) if (std::string(argv[i]) == "--out") g_out = argv[i + 1];
    return vh::harness_main(argc, argv, generate, execute);
}
