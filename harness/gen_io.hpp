// Case generator of the C19 harness (included by h_io.cpp).  The base files that get damaged are formatted HERE,
// independently of amgcl's writers (those are exercised by the io_*_rt_* ops).
#pragma once

namespace gio {

struct Ent { long i, j; double re, im; long iv; };
struct TextOpt { bool longfmt = true, comments = false, crlf = false, tabs = false, lead = false, nonl = false; };

static std::string fmt_double(double v, bool longfmt) { char buf[64]; snprintf(buf, sizeof buf, longfmt ? "%.20e" : "%.17g", v); return buf; }
static double nice(Rng &rng) { return (double)rng.range(-64, 64) / (double)(1L << rng.range(0, 10)); }
static double any_finite(Rng &rng) {
    for (;;) { uint64_t u = rng.next(); if (rng.coin(1, 8)) u &= 0x800fffffffffffffULL; if (((u >> 52) & 0x7ff) == 0x7ff) continue; double d; memcpy(&d, &u, 8); if (d == 0 && std::signbit(d)) continue; return d; }
}
static double value(Rng &rng, int arbitrary_pct) { return rng.range(0, 99) < arbitrary_pct ? any_finite(rng) : nice(rng); }
static long intvalue(Rng &rng) { int k = (int)rng.range(0, 19); if (k == 0) return INT_MAX; if (k == 1) return INT_MIN; if (k == 2) return 0; return rng.range(-1000, 1000); }

static std::string val_text(const std::string &kind, const Ent &x, bool longfmt) {
    if (kind == "real") return fmt_double(x.re, longfmt);
    if (kind == "complex") return fmt_double(x.re, longfmt) + " " + fmt_double(x.im, longfmt);
    return std::to_string(x.iv);
}
// a MatrixMarket file; entries carry 0-based indices
static Bytes mm_text(const std::string &kind, bool sparse, bool sym, long n, long m, const std::vector<Ent> &ents, const TextOpt &o) {
    const std::string nl = o.crlf ? "\r\n" : "\n", sp = o.tabs ? "\t" : " ";
    std::string s = "%%MatrixMarket" + sp + "matrix" + sp + (sparse ? "coordinate" : "array") + sp + kind + sp + (sym ? "symmetric" : "general") + nl;
    if (o.comments) s += "% c" + nl + "%" + nl;
    s += (o.lead ? " " : "") + std::to_string(n) + sp + std::to_string(m); if (sparse) s += sp + std::to_string(ents.size()); s += nl;
    for (size_t k = 0; k < ents.size(); ++k) {
        if (sparse) s += (o.lead ? " " : "") + std::to_string(ents[k].i + 1) + sp + std::to_string(ents[k].j + 1) + sp;
        s += val_text(kind, ents[k], o.longfmt);
        if (!(o.nonl && k + 1 == ents.size())) s += nl;
    }
    return s;
}
static std::vector<Ent> sparse_entries(Rng &rng, long n, long m, long nnz, bool sym, int arb) {
    std::vector<Ent> e;
    for (long k = 0; k < nnz && n > 0 && m > 0; ++k) { Ent x; x.i = rng.range(0, n - 1); x.j = rng.range(0, m - 1); if (sym && x.j > x.i) std::swap(x.i, x.j); x.re = value(rng, arb); x.im = value(rng, arb); x.iv = intvalue(rng); e.push_back(x); }
    return e;
}
static std::vector<Ent> dense_entries(Rng &rng, long n, long m, int arb) {      // column-major order of the file
    std::vector<Ent> e; for (long k = 0; k < n * m; ++k) { Ent x; x.i = x.j = 0; x.re = value(rng, arb); x.im = value(rng, arb); x.iv = intvalue(rng); e.push_back(x); } return e;
}
static void putle(Bytes &b, uint64_t x, int bytes) { for (int k = 0; k < bytes; ++k) b += (char)((x >> (8 * k)) & 0xff); }
static void put64(Bytes &b, uint64_t x) { putle(b, x, 8); }
// the instantiations of the binary readers (type token of the io_bin_* ops): bytes per column index, a value = wn words of ws bytes
struct BinT { const char *tok; int csz, ws, wn; int vsz() const { return ws * wn; } };
static const BinT BIN_SPARSE[] = { { "1", 8, 8, 1 }, { "2", 8, 8, 2 }, { "f", 8, 4, 1 }, { "i1", 4, 8, 1 }, { "i2", 4, 8, 2 }, { "if", 4, 4, 1 } };
static const BinT BIN_DENSE[] = { { "1", 0, 8, 1 }, { "2", 0, 8, 2 }, { "f", 0, 4, 1 } };
static const BinT& bin_t(const std::string &tok) { for (const BinT &t : BIN_SPARSE) if (tok == t.tok) return t; throw bad_input("type"); }
static uint64_t nice_word(Rng &rng, int ws) { double d = nice(rng); if (ws == 8) return bits(d); float f = (float)d; uint32_t u; memcpy(&u, &f, 4); return u; }
static uint64_t any_word(Rng &rng, int ws) { uint64_t u = rng.next(); return ws == 8 ? u : (u & 0xffffffffULL); }
// binary CRS file of the instantiation T (hand-formatted: column indices of T.csz bytes, values of T.vsz() bytes)
static Bytes bin_crs(Rng &rng, long n, long m, const BinT &T, int dens) {
    std::vector<uint64_t> ptr(1, 0), col; for (long i = 0; i < n; ++i) { for (long j = 0; j < m; ++j) if (rng.range(0, 99) < dens) col.push_back((uint64_t)j); ptr.push_back(col.size()); }
    if (rng.coin()) for (long i = 0; i < n; ++i) for (uint64_t k = ptr[i + 1]; k > ptr[i] + 1; --k) std::swap(col[k - 1], col[ptr[i] + rng.next() % (k - ptr[i])]);   // unsorted rows
    Bytes b; put64(b, (uint64_t)n); for (auto p : ptr) put64(b, p); for (auto c : col) putle(b, c, T.csz);
    for (size_t k = 0; k < col.size() * (size_t)T.wn; ++k) putle(b, nice_word(rng, T.ws), T.ws);
    return b;
}
static Bytes bin_dense(Rng &rng, long n, long m, const BinT &T) { Bytes b; put64(b, (uint64_t)n); put64(b, (uint64_t)m); for (long k = 0; k < n * m * T.wn; ++k) putle(b, nice_word(rng, T.ws), T.ws); return b; }

struct Base { std::string op, kind; Bytes file; long b, e; };
static std::string read_line(const Base &B, const std::string &label, const Bytes &file) {
    return (Line() << B.op << label << B.kind << hex(file) << B.b << B.e).get();
}

// the files that get truncated / corrupted: at most 200 bytes, at least two stored values
static std::vector<Base> base_files(Rng &rng) {
    std::vector<Base> v;
    auto range = [&](long n, long &b, long &e) { if (rng.coin(1, 3) && n > 0) { b = rng.range(0, n - 1); e = rng.range(b, n); } else { b = e = -1; } };
    const char *kinds[] = { "real", "complex", "integer" };
    for (int sym = 0; sym < 2; ++sym) for (int k = 0; k < 3; ++k) {
        for (int tries = 0; tries < 200; ++tries) {
            long n = rng.range(2, sym ? 4 : 12), m = sym ? n : rng.range(2, 12), nnz = rng.range(2, 5);
            TextOpt o; o.longfmt = rng.coin(); o.comments = rng.coin(1, 3); o.nonl = rng.coin(1, 4);
            Base B; B.op = "io_mm_read_sparse"; B.kind = kinds[k]; B.file = mm_text(kinds[k], true, sym, n, m, sparse_entries(rng, n, m, nnz, sym, 0), o); range(n, B.b, B.e);
            if (B.file.size() <= 200) { v.push_back(B); break; }
        }
    }
    for (int k = 0; k < 3; ++k) for (int tries = 0; tries < 200; ++tries) {
        long n = rng.range(1, 3), m = rng.range(1, 3); if (n * m < 2) continue;
        TextOpt o; o.longfmt = rng.coin(); o.comments = rng.coin(1, 3);
        Base B; B.op = "io_mm_read_dense"; B.kind = kinds[k]; B.file = mm_text(kinds[k], false, false, n, m, dense_entries(rng, n, m, 0), o); range(n, B.b, B.e);
        if (B.file.size() <= 200) { v.push_back(B); break; }
    }
    // binary CRS: every combination of sizeof(Col) / sizeof(Val) except 4/4; half of the bases are read with a row
    // range, most of those with stored entries in front of the range
    auto crs_range = [&](long n, long &b, long &e) { if (rng.coin() && n > 1) { b = rng.coin(2, 3) ? rng.range(1, n - 1) : 0; e = rng.coin() ? -1 : rng.range(b, n); } else { b = e = -1; } };
    for (const char *tok : { "1", "2", "i1", "f", "i2" }) for (int tries = 0; tries < 200; ++tries) {
        const BinT &T = bin_t(tok); long n = rng.range(2, 4), m = rng.range(2, 4);
        Base B; B.op = "io_bin_read_crs"; B.kind = tok; B.file = bin_crs(rng, n, m, T, 50); crs_range(n, B.b, B.e);
        if (B.file.size() <= 200 && B.file.size() >= 8 + 8 * (size_t)(n + 1) + 2 * (size_t)(T.csz + T.vsz())) { v.push_back(B); break; }
    }
    for (const BinT &T : BIN_DENSE) for (int tries = 0; tries < 200; ++tries) {
        long n = rng.range(1, 4), m = rng.range(1, 4); if (n * m < 2) continue;
        Base B; B.op = "io_bin_read_dense"; B.kind = T.tok; B.file = bin_dense(rng, n, m, T); range(n, B.b, B.e);
        if (B.file.size() <= 200) { v.push_back(B); break; }
    }
    return v;
}

template <class F> static void crs_tokens(Line &l, Rng &rng, long n, long m, int dens, F val) {
    l << n << m;
    for (long i = 0; i < n; ++i) {
        std::vector<long> cols; for (long j = 0; j < m; ++j) if (rng.range(0, 99) < dens) { cols.push_back(j); if (rng.coin(1, 8)) cols.push_back(j); }
        if (rng.coin(1, 2)) for (size_t k = cols.size(); k > 1; --k) std::swap(cols[k - 1], cols[rng.next() % k]);
        l << (long)cols.size(); for (long c : cols) { l << c; val(l); }
    }
}
static void pick_range(Rng &rng, long n, long &b, long &e) {
    int k = (int)rng.range(0, 9);
    if (k < 5) { b = e = -1; }
    else if (k < 8) { b = rng.range(0, n); e = rng.range(b, n); }
    else if (k == 8) { b = rng.range(0, n); e = -1; }
    else { b = rng.range(0, n); e = n + rng.range(1, 3); }         // invalid: beyond the last row
}

static void directed(std::vector<std::string> &lines);

} // namespace gio

static void generate(Rng &rng, const Opts &o, std::vector<std::string> &lines) {
    using namespace gio;
    const bool T = o.thorough();
    long scale = o.cases > 0 ? o.cases : (T ? 10 : 1);

    // 1. the libc "%.20e"/strtod test (labelled test, not a theorem)
    lines.push_back((Line() << "io_libc_roundtrip" << "test" << (T ? 200000L : 5000L) << (long)(rng.next() % 1000000)).get());

    // 2. round trips through the real writers, every kind, with row ranges
    const char *kinds[] = { "real", "complex", "integer" };
    for (long it = 0; it < 40 * scale; ++it) {
        for (int k = 0; k < 3; ++k) {
            const std::string kind = kinds[k]; int arb = rng.coin(1, 3) ? 40 : 0;
            auto val = [&](Line &l) { if (kind == "real") l << rat(value(rng, arb)); else if (kind == "complex") { l << rat(value(rng, arb)); l << rat(value(rng, arb)); } else l << intvalue(rng); };
            long n = rng.range(0, 6), m = rng.range(0, 6), b, e; pick_range(rng, n, b, e);
            { Line l; l << "io_mm_rt_sparse" << "valid" << kind << b << e; crs_tokens(l, rng, n, m, (int)rng.range(0, 70), val); lines.push_back(l.get()); }
            n = rng.range(0, 5); m = rng.range(0, 4); pick_range(rng, n, b, e);
            { Line l; l << "io_mm_rt_dense" << "valid" << kind << b << e << n << m << n * m; for (long q = 0; q < n * m; ++q) val(l); lines.push_back(l.get()); }
        }
        for (const BinT &T : BIN_SPARSE) {
            if (it % 2 && T.csz == 4 && T.ws == 4) continue;     // int/float (4/4): every other round
            auto val = [&](Line &l) { for (long q = 0; q < T.wn; ++q) l << std::to_string((unsigned long long)(rng.coin(1, 4) ? any_word(rng, T.ws) : nice_word(rng, T.ws))); };
            long n = rng.range(0, 6), m = rng.range(0, 6), b, e; pick_range(rng, n, b, e);
            { Line l; l << "io_bin_rt_crs" << "valid" << T.tok << b << e; crs_tokens(l, rng, n, m, (int)rng.range(0, 70), val); lines.push_back(l.get()); }
        }
        for (const BinT &T : BIN_DENSE) {
            auto val = [&](Line &l) { for (long q = 0; q < T.wn; ++q) l << std::to_string((unsigned long long)(rng.coin(1, 4) ? any_word(rng, T.ws) : nice_word(rng, T.ws))); };
            long n = rng.range(0, 5), m = rng.range(0, 4), b, e; pick_range(rng, n, b, e);
            { Line l; l << "io_bin_rt_dense" << "valid" << T.tok << b << e << n << m << n * m; for (long q = 0; q < n * m; ++q) val(l); lines.push_back(l.get()); }
        }
    }

    // 2b. row-range reads of binary CRS files that start behind stored entries (row_beg > 0 and ptr[row_beg] > 0: the
    //     column block is entered at ptr[row_beg]*sizeof(Col), the value block at ptr[row_beg]*sizeof(Val)), for every
    //     combination of sizeof(Col) in {4, 8} and sizeof(Val) in {4, 8, 16}: through the real writer (io_bin_rt_crs) and
    //     on hand-formatted files (io_bin_read_crs); a few ranges per matrix incl. the last rows (values at the end of
    //     the file) and open ends
    for (long it = 0; it < 6 * scale; ++it) for (const BinT &T : BIN_SPARSE) {
        auto val = [&](Line &l) { for (long q = 0; q < T.wn; ++q) l << std::to_string((unsigned long long)(rng.coin(1, 4) ? any_word(rng, T.ws) : nice_word(rng, T.ws))); };
        long n = rng.range(2, 8), m = rng.range(1, 6); int dens = (int)rng.range(35, 90);
        Line body; crs_tokens(body, rng, n, m, dens, val);          // one matrix, several ranges
        std::vector<std::pair<long, long>> ranges = { { n - 1, n }, { n - 1, -1 }, { 1, n } };
        for (int q = 0; q < 3; ++q) { long b = rng.range(1, n - 1), e = rng.range(b + 1, n); ranges.push_back({ b, e }); }
        for (auto &be : ranges) lines.push_back((Line() << "io_bin_rt_crs" << "valid" << T.tok << be.first << be.second).get() + " " + body.get());
        n = rng.range(2, 8); m = rng.range(1, 6);
        Base B; B.op = "io_bin_read_crs"; B.kind = T.tok; B.file = bin_crs(rng, n, m, T, (int)rng.range(35, 90));
        for (int q = 0; q < 4; ++q) { B.b = rng.range(1, n - 1); B.e = q == 0 ? -1 : q == 1 ? n : rng.range(B.b + 1, n); lines.push_back(read_line(B, "valid", B.file)); }
    }
    // … and of binary dense files (rows in front of the range: the value block is entered at row_beg*m*sizeof(Val))
    for (long it = 0; it < 4 * scale; ++it) for (const BinT &T : BIN_DENSE) {
        auto val = [&](Line &l) { for (long q = 0; q < T.wn; ++q) l << std::to_string((unsigned long long)(rng.coin(1, 4) ? any_word(rng, T.ws) : nice_word(rng, T.ws))); };
        long n = rng.range(2, 6), m = rng.range(1, 4);
        Line body; body << n << m << n * m; for (long q = 0; q < n * m; ++q) val(body);
        long b = rng.range(1, n - 1);
        for (auto &be : std::vector<std::pair<long, long>>{ { n - 1, n }, { 1, -1 }, { b, rng.range(b + 1, n) } })
            lines.push_back((Line() << "io_bin_rt_dense" << "valid" << T.tok << be.first << be.second).get() + " " + body.get());
        Base B; B.op = "io_bin_read_dense"; B.kind = T.tok; B.file = bin_dense(rng, n, m, T); B.b = rng.range(1, n - 1); B.e = rng.coin() ? -1 : rng.range(B.b + 1, n);
        lines.push_back(read_line(B, "valid", B.file));
    }

    // 3. hand-formatted valid files with format variations (comments, CRLF, tabs, short numbers, symmetric storage)
    for (long it = 0; it < 30 * scale; ++it) for (int k = 0; k < 3; ++k) {
        TextOpt t; t.longfmt = rng.coin(); t.comments = rng.coin(); t.crlf = rng.coin(1, 4); t.tabs = rng.coin(1, 4); t.lead = rng.coin(1, 4); t.nonl = rng.coin(1, 4);
        bool sym = rng.coin(); long n = rng.range(0, 6), m = sym ? n : rng.range(0, 6), b, e; pick_range(rng, n, b, e);
        Base B; B.op = "io_mm_read_sparse"; B.kind = kinds[k]; B.b = b; B.e = e;
        B.file = mm_text(kinds[k], true, sym, n, m, sparse_entries(rng, n, m, rng.range(0, 8), sym, 30), t);
        lines.push_back(read_line(B, "valid", B.file));
        n = rng.range(0, 4); m = rng.range(0, 3); pick_range(rng, n, b, e);
        B.op = "io_mm_read_dense"; B.b = b; B.e = e; B.file = mm_text(kinds[k], false, false, n, m, dense_entries(rng, n, m, 30), t);
        lines.push_back(read_line(B, "valid", B.file));
        // the same file read with another value kind: wrong kind must be rejected
        B.kind = kinds[(k + 1 + (int)rng.range(0, 1)) % 3]; lines.push_back(read_line(B, "wrongkind", B.file));
    }

    // 4. damaged files: every truncation point; single-byte corruptions (all 256 values x every offset in the
    //    thorough tier, sampled in quick); multi-byte mutations; arbitrary byte strings
    std::vector<Base> bases = base_files(rng);
    for (const Base &B : bases) {
        lines.push_back(read_line(B, "valid", B.file));
        for (size_t len = 0; len < B.file.size(); ++len) lines.push_back(read_line(B, "trunc", B.file.substr(0, len)));
        if (B.op.find("bin") != std::string::npos) lines.push_back((Line() << "io_bin_crs_size" << "valid" << hex(B.file)).get());
        if (T) {
            for (size_t off = 0; off < B.file.size(); ++off) for (int x = 0; x < 256; ++x) if ((unsigned char)B.file[off] != x) { Bytes f = B.file; f[off] = (char)x; lines.push_back(read_line(B, "corrupt", f)); }
        } else {
            for (long q = 0; q < 260 * scale; ++q) {
                size_t off = rng.next() % B.file.size(); int x;
                if (rng.coin(1, 3)) { static const char interesting[] = "0123456789-+. \n\t%eE\r,x"; x = (unsigned char)interesting[rng.next() % (sizeof interesting - 1)]; }
                else if (rng.coin(1, 4)) x = (unsigned char)B.file[off] ^ (1 << rng.range(0, 7));
                else x = (int)(rng.next() % 256);
                if (x == (unsigned char)B.file[off]) continue;
                Bytes f = B.file; f[off] = (char)x; lines.push_back(read_line(B, "corrupt", f));
            }
        }
        for (long q = 0; q < (T ? 2000 : 60 * scale); ++q) {
            Bytes f = B.file; int nmut = (int)rng.range(2, 4);
            for (int u = 0; u < nmut && !f.empty(); ++u) {
                size_t off = rng.next() % f.size(); int kind = (int)rng.range(0, 3);
                if (kind == 0) f[off] = (char)(rng.next() % 256); else if (kind == 1) f.erase(off, 1); else if (kind == 2) f.insert(off, 1, (char)(rng.next() % 256)); else f[off] = "0123456789-+. \n"[rng.next() % 15];
            }
            lines.push_back(read_line(B, "mutate", f));
        }
        for (long q = 0; q < (T ? 300 : 15 * scale); ++q) {
            Bytes f; size_t len = rng.next() % 64; for (size_t u = 0; u < len; ++u) f += (char)(rng.next() % 256);
            if (rng.coin() && B.op.find("mm") != std::string::npos) f = B.file.substr(0, B.file.find('\n') + 1) + f;     // keep a valid banner
            lines.push_back(read_line(B, "random", f));
        }
    }

    // 5. directed malformed and boundary files
    directed(lines);

    // 6. malformed op lines: both sides must answer bad-input
    lines.push_back("io_mm_read_sparse directed real 0g -1 -1");
    lines.push_back("io_mm_read_sparse directed float 00 -1 -1");
    lines.push_back("io_bin_read_crs directed 3 00 -1 -1");
    lines.push_back("io_mm_rt_sparse directed real -1 -1 1 1 1 5 1");
    lines.push_back("io_mm_rt_dense directed real -1 -1 2 2 3 1 1 1");
}

namespace gio {
static void directed(std::vector<std::string> &lines) {
    auto mm = [&](const char *op, const char *kind, const std::string &text, long b = -1, long e = -1) {
        lines.push_back((Line() << op << "directed" << kind << hex(text) << b << e).get()); };
    const std::string H = "%%MatrixMarket matrix coordinate real general\n", HS = "%%MatrixMarket matrix coordinate real symmetric\n",
                      HA = "%%MatrixMarket matrix array real general\n";
    const char *S = "io_mm_read_sparse", *D = "io_mm_read_dense";
    // index range (DESIGN §4 #3)
    mm(S, "real", H + "3 3 2\n1 1 1.5\n2 9 2.5\n");          // column 9 in a 3x3 matrix
    mm(S, "real", H + "3 3 2\n1 1 1.5\n2 0 2.5\n");          // column 0
    mm(S, "real", H + "3 3 2\n1 1 1.5\n9 2 2.5\n");          // row 9
    mm(S, "real", H + "3 3 2\n1 1 1.5\n0 2 2.5\n");          // row 0
    mm(S, "real", H + "3 3 2\n1 1 1.5\n2 -2 2.5\n");         // negative column
    mm(S, "real", H + "3 3 2\n1 1 1.5\n2 4 2.5\n");          // column = ncols + 1
    mm(S, "real", H + "3 3 2\n1 1 1.5\n3 3 2.5\n");          // last valid
    mm(S, "real", HS + "3 3 2\n1 1 1.5\n3 9 2.5\n");         // symmetric, column 9: mirror row 9
    mm(S, "real", HS + "3 3 2\n1 1 1.5\n9 3 2.5\n");         // symmetric, row 9: mirror column 9
    mm(S, "real", HS + "2 3 2\n1 1 1.5\n2 3 2.5\n");         // symmetric but not square
    mm(S, "real", HS + "3 2 2\n1 1 1.5\n3 2 2.5\n");
    mm(S, "real", HS + "3 3 3\n1 1 1.5\n3 1 2.5\n2 2 4\n");  // valid symmetric
    mm(S, "real", HS + "3 3 3\n1 1 1.5\n3 1 2.5\n2 2 4\n", 1, 3);
    mm(S, "real", HS + "3 3 2\n1 3 2.5\n3 1 2.5\n");         // both triangles given: duplicates
    // sizes
    mm(S, "real", H + "11 11 1\n1 1 1\n");
    mm(S, "real", H + "-1 11 1\n1 1 1\n");                   // n = -1
    mm(S, "real", H + "-2 3 0\n");
    mm(S, "real", H + "3 -1 0\n");
    mm(S, "real", H + "0 0 0\n");
    mm(S, "real", H + "3 3 0\n");
    mm(S, "real", H + "3 0 0\n");
    mm(S, "real", H + "0 3 0\n");
    mm(S, "real", H + "3 3 0");
    mm(S, "real", H + "99999999999 3 0\n");                  // allocation failure
    mm(S, "real", H + "99999999999 3 0\n", 2, 4);
    mm(S, "real", H + "3 3 99999999999\n1 1 1\n");           // more entries announced than present
    mm(S, "real", H + "3 3 18446744073709551615\n1 1 1\n");
    mm(S, "real", H + "3 3 18446744073709551616\n1 1 1\n");  // nnz overflows size_t
    mm(S, "real", H + "9223372036854775807 3 0\n");
    mm(S, "real", H + "9223372036854775808 3 0\n");          // n overflows ptrdiff_t (but not size_t)
    mm(S, "real", H + "3 3 -1\n1 1 1\n");                    // nnz = 2^64-1
    mm(S, "real", H + "3 3 2\n1 1 1\n");                     // truncated before the last data line
    mm(S, "real", H + "3 3 1\n1 1 1\n2 2 2\n");              // extra lines are ignored
    mm(S, "real", H + "3 3\n1 1 1\n");                       // nnz missing
    mm(S, "real", H + "3\n");
    mm(S, "real", H + "\n3 3 0\n");                          // empty line is taken as the size line
    mm(S, "real", H + "%\n%%\n% x\n3 3 1\n2 2 5e-1\n");
    mm(S, "real", H + "3 3 1\n%c\n2 2 5e-1\n");             // comment inside the body
    mm(S, "real", H);                                        // no size line
    mm(S, "real", "");                                       // empty file
    mm(S, "real", "\n");
    // banner
    mm(S, "real", "%%MatrixMarket matrix coordinate real general extra tokens\n2 2 1\n1 2 3\n");
    mm(S, "real", "%%matrixmarket matrix coordinate real general\n2 2 1\n1 2 3\n");
    mm(S, "real", "%MatrixMarket matrix coordinate real general\n2 2 1\n1 2 3\n");
    mm(S, "real", "%%MatrixMarket vector coordinate real general\n2 2 1\n1 2 3\n");
    mm(S, "real", "%%MatrixMarket matrix coordinate real\n2 2 1\n1 2 3\n");
    mm(S, "real", "%%MatrixMarket matrix coordinate pattern general\n2 2 1\n1 2\n");
    mm(S, "real", "%%MatrixMarket matrix coordinate real skew-symmetric\n2 2 1\n2 1 3\n");
    mm(S, "real", "%%MatrixMarket matrix coordinate real hermitian\n2 2 1\n2 1 3\n");
    mm(S, "real", "%%MatrixMarket matrix coordinate Real general\n2 2 1\n1 2 3\n");
    mm(S, "real", "  %%MatrixMarket \t matrix  coordinate\treal   general  \n2 2 1\n1 2 3\n");
    mm(S, "real", "%%MatrixMarket matrix array real general\n2 2\n1\n2\n3\n4\n");        // dense file, sparse call
    mm(D, "real", H + "2 2 1\n1 2 3\n");                                                    // sparse file, dense call
    // value kinds
    mm(S, "complex", H + "2 2 1\n1 2 3\n");
    mm(S, "integer", H + "2 2 1\n1 2 3\n");
    mm(S, "real", "%%MatrixMarket matrix coordinate complex general\n2 2 1\n1 2 3 4\n");
    mm(S, "complex", "%%MatrixMarket matrix coordinate complex general\n2 2 1\n1 2 3 4\n");
    mm(S, "complex", "%%MatrixMarket matrix coordinate complex general\n2 2 1\n1 2 3\n");   // imaginary part missing
    mm(S, "complex", "%%MatrixMarket matrix coordinate complex general\n2 2 1\n1 2 1.5.25\n"); // "1.5" then ".25"
    mm(S, "integer", "%%MatrixMarket matrix coordinate integer general\n2 2 2\n1 2 2147483647\n2 1 -2147483648\n");
    mm(S, "integer", "%%MatrixMarket matrix coordinate integer general\n2 2 1\n1 2 2147483648\n");
    mm(S, "integer", "%%MatrixMarket matrix coordinate integer general\n2 2 1\n1 2 1.5\n");   // reads 1, ignores ".5"
    mm(S, "real", "%%MatrixMarket matrix coordinate integer general\n2 2 1\n1 2 3\n");
    // number syntax
    for (const char *v : { "1e400", "-1e400", "1e-400", "1e308", "1.7976931348623157e308", "1.7976931348623159e308", "2.2250738585072014e-308", "4.9e-324", "2e-324", "3e-324",
                           "1e", "1e+", "1e+5", "1E5", "1e5e5", ".5", "5.", ".", "-", "+", "+.5e-1", "-0", "0x10", "inf", "nan", "1,5", "1d5", "", "--1", "00012.5000", "1e0005", "1e-0005",
                           "9007199254740993", "0.1", "123456789012345678901234567890", "0.000000000000000000000000000001", "1e99999999999999999999", "1e-99999999999999999999",
                           "4.4501477170144023e-308", "8.5e-309", "1.00000000000000011102230246251565404236316680908203125", "1.00000000000000011102230246251565404236316680908203124",
                           "1.00000000000000011102230246251565404236316680908203126" })
        mm(S, "real", H + "2 2 1\n1 2 " + v + "\n");
    mm(S, "real", H + "2 2 1\n1 2.5\n");                     // "2" then ".5": accepted by operator>>
    mm(S, "real", H + "2 2 1\n1 2\n");                       // value missing
    mm(S, "real", H + "2 2 1\n1\n");
    mm(S, "real", H + "2 2 1\n+1 +2 +3 trailing garbage\n");
    mm(S, "real", H + "2 2 1\n1x 2 3\n");
    mm(S, "real", H + "2 2 1\n1 2x 3\n");
    mm(S, "real", H + "2 2 1\n\n1 2 3\n");                   // blank data line
    mm(S, "real", H + "2 2 1\r\n1 2 3\r\n");
    mm(S, "real", H + "2 2 1\n99999999999999999999 1 3\n");  // index overflows ptrdiff_t
    mm(S, "real", H + "2 2 1\n-9223372036854775808 1 3\n");
    // row ranges
    const std::string M4 = H + "4 3 5\n1 1 1\n2 2 2\n4 3 3\n4 1 4\n3 2 5\n";
    for (long b = 0; b <= 4; ++b) for (long e = b; e <= 5; ++e) mm(S, "real", M4, b, e);
    mm(S, "real", M4, 2, -1); mm(S, "real", M4, -1, 2); mm(S, "real", M4, -7, -7);
    // dense
    mm(D, "real", HA + "2 2\n1\n2\n3\n4\n");
    mm(D, "real", HA + "2 2\n1\n2\n3\n");                    // truncated before the last data line
    mm(D, "real", HA + "2 2\n1\n2\n3\n4");
    mm(D, "real", HA + "2 2\n1\n2\n3\n4\n", 1, 2);
    mm(D, "real", HA + "2 2\nx\n2\ny\n4\n", 1, 2);           // lines of other rows are skipped unparsed
    mm(D, "real", HA + "2 2\nx\n2\ny\n4\n");
    mm(D, "real", HA + "2 2 7\n1\n2\n3\n4\n");
    mm(D, "real", HA + "0 0\n");
    mm(D, "real", HA + "0 5\n");
    mm(D, "real", HA + "5 0\n");
    mm(D, "real", HA + "-1 0\n");                            // rows = -1, no data
    mm(D, "real", HA + "0 -3\n");
    mm(D, "real", HA + "-1 -1\n");
    mm(D, "real", HA + "4294967296 4294967296\n1\n");        // rows*cols overflows
    mm(D, "real", HA + "3037000500 3037000500\n1\n");
    mm(D, "real", HA + "99999999 99999999\n1\n");
    mm(D, "real", HA + "2\n1\n2\n");
    mm(D, "complex", "%%MatrixMarket matrix array complex general\n2 1\n1 2\n3 4\n");
    mm(D, "integer", "%%MatrixMarket matrix array integer general\n2 1\n1\n-3\n");
    mm(D, "real", "%%MatrixMarket matrix array complex general\n2 1\n1 2\n3 4\n");
    mm(D, "real", "%%MatrixMarket matrix array real symmetric\n2 2\n1\n2\n3\n4\n");

    // binary files
    auto bin = [&](const char *op, long w, const std::vector<uint64_t> &words, long b = -1, long e = -1, size_t cut = (size_t)-1) {
        Bytes f; for (auto x : words) put64(f, x); if (cut != (size_t)-1) f = f.substr(0, cut);
        lines.push_back((Line() << op << "directed" << w << hex(f) << b << e).get()); };
    const char *C = "io_bin_read_crs", *DD = "io_bin_read_dense";
    const uint64_t one = bits(1.0), two = bits(2.0), three = bits(3.0), M1 = ~0ULL;
    bin(C, 1, { 2, 0, 1, 3, 1, 1, 0, one, two, three });               // valid: rows {1} {1,0}
    bin(C, 1, { 2, 0, 3, 3, 1, 1, 0, one, two, three });               // row 0 = {1,1,0}
    bin(C, 1, { 2, 0, 4, 3, 1, 1, 0, one, two, three });               // ptr[1] > nnz (DESIGN §4 #4): sort_row reads out of bounds
    bin(C, 1, { 2, 0, 1000, 3, 1, 1, 0, one, two, three });
    bin(C, 1, { 2, 0, M1, 3, 1, 1, 0, one, two, three });              // ptr[1] = -1
    bin(C, 1, { 2, 2, 1, 3, 1, 1, 0, one, two, three });               // not monotone; front != 0
    bin(C, 1, { 2, 1, 1, 3, 1, 1, 0, one, two, three });               // ptr[0] = 1
    bin(C, 1, { 2, 0, 1, 3, 1, 1, 0, one, two, three }, 1, 2);
    bin(C, 1, { 2, 0, 1, 3, 1, 1, 0, one, two, three }, 0, 1);
    bin(C, 1, { 2, 0, 1, 3, 1, 1, 0, one, two, three }, 1, 1);
    bin(C, 1, { 2, 0, 1, 3, 1, 1, 0, one, two, three }, 2, 2);
    bin(C, 1, { 2, 0, 1, 3, 1, 1, 0, one, two, three }, 0, 3);         // beyond the last row
    bin(C, 1, { 2, 0, 1, 3, 1, 1, 0, one, two, three }, 2, -1);
    bin(C, 1, { 2, 0, 5, 3, 1, 1, 0, one, two, three }, 1, 2);         // corrupted ptr seen by a partial read
    bin(C, 1, { 2, 0, 1, M1, 1, 1, 0, one, two, three });              // nnz = -1
    bin(C, 1, { 2, 0, 1, 1ULL << 62, 1, 1, 0, one, two, three });      // huge nnz
    bin(C, 1, { 2, 0, 1, 3, 1, 1, 0, one, two });                      // last value missing
    bin(C, 1, { 0, 0 });                                               // empty matrix
    bin(C, 1, { 0 });                                                  // ptr missing
    bin(C, 1, { 3, 0, 0, 0, 0 });                                      // 3 empty rows
    bin(C, 1, { M1, 0, 0 });                                           // n = 2^64-1
    bin(C, 1, { 1ULL << 63, 0, 0 });
    bin(C, 1, { (1ULL << 63) - 1, 0, 0 });
    bin(C, 1, { 1ULL << 61, 0, 0 }, 0, 1);                             // offsets wrap modulo 2^64
    bin(C, 1, { 1ULL << 40, 0, 0 });                                   // allocation failure
    bin(C, 1, { 1ULL << 40, 0, 0 }, 0, 1);
    bin(C, 1, { 2, 0, 1, 3, 1, 1, 0, one, two, three }, -1, -1, 5);    // shorter than the size field
    bin(C, 1, {}, -1, -1);
    bin(C, 2, { 2, 0, 2, 0x0200000000000005ULL, 1, 0, one, two, three, one }, 1, 1);   // inconsistent nnz, empty row range: a zero-length read behind a seek to 2^60
    bin(C, 1, { 2, 0, 2, (1ULL << 63) - 1, 1, 0, one, two }, 1, 1);
    bin(C, 2, { 1, 0, 1, 0, one, two });                               // complex value
    bin(C, 2, { 1, 0, 2, 1, 0, one, two, three, one });
    bin(C, 2, { 1, 0, 2, 1, 0, one, two, three });                     // half a complex value missing
    bin(DD, 1, { 2, 2, one, two, three, one });
    bin(DD, 1, { 2, 2, one, two, three });
    bin(DD, 1, { 2, 2, one, two, three, one }, 1, 2);
    bin(DD, 1, { 2, 2, one, two, three, one }, 2, 2);
    bin(DD, 1, { 2, 2, one, two, three, one }, 1, 3);
    bin(DD, 1, { 0, 0 });
    bin(DD, 1, { 0, 7 });
    bin(DD, 1, { 7, 0 });
    bin(DD, 1, { 2 });
    bin(DD, 1, { 1ULL << 32, 1ULL << 32 });                            // n*m wraps to 0
    bin(DD, 1, { (1ULL << 56) + 1, 256, one, two });                   // n*m wraps to 256
    bin(DD, 1, { 1ULL << 61, 8, one }, 0, 0);
    bin(DD, 1, { 1ULL << 50, 1, one }, 1L << 50, 1L << 50);            // empty range far behind the end of the file
    bin(DD, 1, { M1, 1, one });
    bin(DD, 1, { 1ULL << 63, 0 });
    bin(DD, 1, { 1ULL << 40, 1 });
    bin(DD, 2, { 1, 2, one, two, three, one });
    bin(DD, 2, { 1, 2, one, two, three });
    // the other instantiations: a file is n | ptr (8 bytes each) | col (csz bytes each) | val (vsz bytes each)
    auto binT = [&](const char *op, const char *tok, const std::vector<uint64_t> &head, const std::vector<uint64_t> &col, const std::vector<uint64_t> &valwords,
                    long b = -1, long e = -1, long cut = 0) {
        const BinT &T = bin_t(tok); Bytes f; for (auto x : head) put64(f, x); for (auto x : col) putle(f, x, T.csz); for (auto x : valwords) putle(f, x, T.ws);
        if (cut) f = f.substr(0, f.size() - (size_t)cut);
        lines.push_back((Line() << op << "directed" << tok << hex(f) << b << e).get()); };
    const uint64_t f1 = 0x3f800000u, f2 = 0x40000000u, f3 = 0x40400000u, f4 = 0x40800000u, four = bits(4.0);
    // 3 rows {2} {0,1} {1}: every row range, for every combination of column and value sizes
    for (const BinT &T : BIN_SPARSE) {
        std::vector<uint64_t> vw; const uint64_t dv[] = { one, two, three, four }, fv[] = { f1, f2, f3, f4 };
        for (int k = 0; k < 4; ++k) for (int q = 0; q < T.wn; ++q) vw.push_back(T.ws == 8 ? (q ? bits(-(double)(k + 1)) : dv[k]) : fv[k]);
        for (long b = 0; b <= 3; ++b) for (long e = b; e <= 4; ++e) binT(C, T.tok, { 3, 0, 1, 3, 4 }, { 2, 1, 0, 1 }, vw, b, e);
        binT(C, T.tok, { 3, 0, 1, 3, 4 }, { 2, 1, 0, 1 }, vw); binT(C, T.tok, { 3, 0, 1, 3, 4 }, { 2, 1, 0, 1 }, vw, 2, -1); binT(C, T.tok, { 3, 0, 1, 3, 4 }, { 2, 1, 0, 1 }, vw, -1, 2);
        for (long cut = 1; cut <= T.vsz(); ++cut) {                 // the last value incomplete: only the rows in front of it can be read
            binT(C, T.tok, { 3, 0, 1, 3, 4 }, { 2, 1, 0, 1 }, vw, 1, 2, cut); binT(C, T.tok, { 3, 0, 1, 3, 4 }, { 2, 1, 0, 1 }, vw, 2, 3, cut); binT(C, T.tok, { 3, 0, 1, 3, 4 }, { 2, 1, 0, 1 }, vw, -1, -1, cut);
        }
        binT(C, T.tok, { 3, 0, 1, 5, 4 }, { 2, 1, 0, 1 }, vw, 1, 2);   // corrupted ptr seen by a partial read
        binT(C, T.tok, { 3, 0, 1, 3, 9 }, { 2, 1, 0, 1 }, vw, 1, 3);   // nnz larger than stored: value block displaced
        binT(C, T.tok, { 3, 0, 1, 3, 3 }, { 2, 1, 0, 1 }, vw, 1, 3);   // nnz smaller than ptr.back(): consistent for rows [1,3) only when ptr.back <= nnz
    }
    binT(C, "i1", { 1, 0, 2 }, { 0xffffffffULL, 0x80000000ULL }, { one, two });      // int columns -1, INT_MIN
    binT(C, "i1", { 1, 0, 2 }, { 0x7fffffffULL, 0 }, { one, two });
    binT(C, "f", { 1, 0, 2 }, { M1, 1ULL << 63 }, { f1, f2 });
    binT(C, "if", { 2, 0, 1, 2 }, { 7, 3 }, { 0x7fc00000u, 0xff800000u }, 1, 2);   // float NaN / -inf bit patterns
    binT(DD, "f", { 2, 2 }, {}, { f1, f2, f3, f4 });
    binT(DD, "f", { 2, 2 }, {}, { f1, f2, f3, f4 }, 1, 2);
    binT(DD, "f", { 2, 2 }, {}, { f1, f2, f3, f4 }, 1, 2, 1);
    binT(DD, "f", { 2, 2 }, {}, { f1, f2, f3, f4 }, 0, 1, 1);
    binT(DD, "f", { 3, 1 }, {}, { f1, f2, f3 }, 2, 3);
    lines.push_back((Line() << "io_bin_read_dense" << "directed" << "i1" << "00" << -1L << -1L).get());    // no column type in a dense op: bad-input
    lines.push_back((Line() << "io_bin_read_crs" << "directed" << "i3" << "00" << -1L << -1L).get());
    lines.push_back((Line() << "io_bin_read_crs" << "directed" << "i" << "00" << -1L << -1L).get());
    lines.push_back((Line() << "io_bin_rt_crs" << "directed" << "f" << -1L << -1L << 1L << 1L << 1L << 0L << "4294967296").get());   // value does not fit a 4-byte word
    lines.push_back((Line() << "io_bin_crs_size" << "directed" << "-").get());
    lines.push_back((Line() << "io_bin_crs_size" << "directed" << "01020304050607").get());
    lines.push_back((Line() << "io_bin_crs_size" << "directed" << "0102030405060708").get());
    lines.push_back((Line() << "io_bin_crs_size" << "directed" << "ffffffffffffffffaa").get());
}
} // namespace gio
