// C14 harness (distributed components): the params structs and run-time enums of amgcl/mpi/**.
//
// Compiled with mpicxx (the headers include <mpi.h>); MPI is never initialised: constructing a params struct from a
// property tree, exporting it and streaming an enum need no communicator.  Same ops and oracles as h_params.cpp
// (params_compiles / params_fields / params_roundtrip / params_export_keys / params_unknown / params_enum_print /
// params_enum_parse); the run-time-wrapper-vs-compile-time solves of the distributed wrappers are NOT executed here
// (their dispatch tables are covered by the regenerated `enum_tables_roundtrip` obligation only).
#include "params_common.hpp"

#include <amgcl/backend/builtin.hpp>
#include <amgcl/amg.hpp>
#include <amgcl/coarsening/smoothed_aggregation.hpp>
#include <amgcl/relaxation/spai0.hpp>
#include <amgcl/solver/cg.hpp>
#include <amgcl/mpi/make_solver.hpp>
#include <amgcl/mpi/amg.hpp>
#include <amgcl/mpi/coarsening/aggregation.hpp>
#include <amgcl/mpi/coarsening/smoothed_aggregation.hpp>
#include <amgcl/mpi/coarsening/pmis.hpp>
#include <amgcl/mpi/coarsening/runtime.hpp>
#include <amgcl/mpi/relaxation/spai0.hpp>
#include <amgcl/mpi/relaxation/as_preconditioner.hpp>
#include <amgcl/mpi/partition/merge.hpp>
#include <amgcl/mpi/partition/runtime.hpp>
#include <amgcl/mpi/direct_solver/runtime.hpp>
#include <amgcl/mpi/solver/cg.hpp>
#include <amgcl/mpi/cpr.hpp>
#include <amgcl/mpi/schur_pressure_correction.hpp>
#include <amgcl/mpi/subdomain_deflation.hpp>
#include <amgcl/mpi/preconditioner.hpp>

using namespace vh;
namespace ac = amgcl;
typedef ac::backend::builtin<double> B;
typedef ac::mpi::amg<B, ac::mpi::coarsening::smoothed_aggregation<B>, ac::mpi::relaxation::spai0<B>> MAMG;
typedef ac::mpi::make_solver<MAMG, ac::mpi::solver::cg<B>> MSolver;

static std::function<double(ptrdiff_t, unsigned)> the_def_vec = [](ptrdiff_t, unsigned) { return 1.0; };

static void build_registry() {
    using vp::reg;
    static bool done = false; if (done) return; done = true;
    { typedef MAMG::params P; auto &S = reg<P>("mpi::amg");
      VP_F(S, P, coarsening); VP_F(S, P, relax); VP_F(S, P, direct); VP_F(S, P, repart); VP_F(S, P, coarse_enough); VP_F(S, P, direct_coarse);
      VP_F(S, P, max_levels); VP_F(S, P, npre); VP_F(S, P, npost); VP_F(S, P, ncycle); VP_F(S, P, pre_cycles); VP_F(S, P, allow_rebuild); }
    { typedef ac::mpi::coarsening::aggregation<B>::params P; auto &S = reg<P>("mpi::coarsening::aggregation"); VP_F(S, P, aggr); VP_F(S, P, over_interp); }
    { typedef ac::mpi::coarsening::pmis<B>::params P; auto &S = reg<P>("mpi::coarsening::pmis"); VP_F(S, P, nullspace); VP_F(S, P, eps_strong); VP_F(S, P, block_size); }
    { typedef ac::mpi::coarsening::smoothed_aggregation<B>::params P; auto &S = reg<P>("mpi::coarsening::smoothed_aggregation");
      VP_F(S, P, aggr); VP_F(S, P, relax); VP_F(S, P, estimate_spectral_radius); VP_F(S, P, power_iters); }
    { typedef ac::mpi::cpr<MAMG, ac::mpi::relaxation::as_preconditioner<ac::mpi::relaxation::spai0<B>>>::params P; auto &S = reg<P>("mpi::cpr");
      VP_F(S, P, pprecond); VP_F(S, P, sprecond); VP_F(S, P, block_size);
      // whitelisted so that one configuration drives the serial and the distributed CPR (see PTree.lean, admissibleForeign)
      S.tolerated = {"active_rows"}; }
    { typedef MSolver::params P; auto &S = reg<P>("mpi::make_solver"); VP_F(S, P, precond); VP_F(S, P, solver); }
    { typedef ac::mpi::partition::merge<B>::params P; auto &S = reg<P>("mpi::partition::merge"); VP_F(S, P, enable); VP_F(S, P, min_per_proc); VP_F(S, P, shrink_ratio); }
    { typedef ac::mpi::schur_pressure_correction<MSolver, MSolver>::params P; auto &S = reg<P>("mpi::schur_pressure_correction");
      VP_F(S, P, usolver); VP_F(S, P, psolver); VP_F(S, P, pmask); VP_F(S, P, type); VP_F(S, P, approx_schur); VP_F(S, P, simplec_dia); VP_F(S, P, verbose);
      S.required = {{"pmask_size", "4"}, {"pmask_pattern", ">2"}}; S.companions = {"pmask_size", "pmask_pattern"}; }
    { typedef ac::amg<B, ac::coarsening::smoothed_aggregation, ac::relaxation::spai0> Local;
      typedef ac::mpi::subdomain_deflation<Local, ac::solver::cg<B, ac::mpi::inner_product>>::params P; auto &S = reg<P>("mpi::subdomain_deflation");
      VP_F(S, P, local); VP_F(S, P, isolver); VP_F(S, P, dsolver); VP_F(S, P, num_def_vec); VP_F(S, P, def_vec);
      std::ostringstream a; a << static_cast<void*>(&the_def_vec);      // the constructor dereferences this address
      S.required = {{"def_vec", a.str()}}; }

    namespace rt = ac::runtime::mpi;
    vp::reg_enum<rt::coarsening::type>("runtime::mpi::coarsening", {VP_E(rt::coarsening, aggregation), VP_E(rt::coarsening, smoothed_aggregation)});
    vp::reg_enum<rt::direct::type>("runtime::mpi::direct", {VP_E(rt::direct, skyline_lu)});
    vp::reg_enum<rt::partition::type>("runtime::mpi::partition", {VP_E(rt::partition, merge)});
    vp::reg_enum<rt::precond_class::type>("runtime::mpi::precond_class", {VP_E(rt::precond_class, amg), VP_E(rt::precond_class, relaxation)});
}

static Result execute(const Toks &t) {
    build_registry();
    Result r;
    if (t[0] == "params_compiles") {
        Cur c(t); const std::string s = c.tok(); c.expect_end();
        if (!vp::find_struct(s)) throw bad_input("struct");
        r.out = "yes"; r.nontrivial = true; r.tag("compiles"); return r;
    }
    if (vp::struct_op(t, r)) return r;
    if (vp::enum_text_op(t, r)) return r;
    throw bad_input("op");
}

static void generate(Rng &rng, const Opts &o, std::vector<std::string> &lines) {
    build_registry();
    vp::gen_struct_ops(rng, o.thorough(), lines);
    vp::gen_nested_ops(rng, o.thorough(), {
        "mpi::make_solver precond=mpi::amg repart=mpi::partition::merge min_per_proc",
        "mpi::make_solver precond=mpi::amg coarsening=mpi::coarsening::smoothed_aggregation aggr=mpi::coarsening::pmis eps_strong",
        "mpi::cpr pprecond=mpi::amg npost",
        "mpi::schur_pressure_correction usolver=mpi::make_solver precond=mpi::amg max_levels"}, lines);
    vp::gen_enum_text_ops(rng, o.thorough(), lines);
    vp::gen_malformed(lines);
}

VH_MAIN(generate, execute)
