// C14 harness (structured value types): run-time wrappers == compile-time composition at block and complex backends.
//
// Implementation-only (no_model): both sides are the REAL amgcl code in double; the verdicts are the oracles below.
// Compiled three times by vcheck.py (tools/checks/C14.json, "flags"):
//   -DVP_RTB=2   backend::builtin<static_matrix<double,2,2>>   (harness h_params_rtb2)
//   -DVP_RTB=3   backend::builtin<static_matrix<double,3,3>>   (harness h_params_rtb3)
//   -DVP_RTB=0   backend::builtin<std::complex<double>>        (harness h_params_rtbc)
// Block systems are assembled as scalar CRS and fed through adapter::block_matrix.
//
// THE SPECIFICATION OF THE DISPATCH (written here by hand from the documentation of the wrappers, independent of
// the wrapper code; `expected_*` below):
//   * runtime::coarsening::wrapper<Backend> with type = C builds
//       coarsening::as_scalar<C>::type<Backend>   when the value type of Backend is a static matrix with more than one row,
//                                                 C != ruge_stuben, and the tree holds nullspace.cols > 0
//       C<Backend>                                otherwise
//     and throws std::logic_error when backend::coarsening_is_supported<Backend, C> is false
//     (ruge_stuben: scalar arithmetic value types only, i.e. unsupported at all three backends of this harness)
//   * runtime::relaxation::wrapper<Backend> with type = R builds R<Backend>, std::logic_error when
//     backend::relaxation_is_supported<Backend, R> is false (spai1 at static-matrix value types)
//   * runtime::solver::wrapper<Backend> with type = S builds S<Backend>
//   * runtime::preconditioner<Backend> with class = amg | relaxation | dummy | nested builds
//     amg<Backend, rt coarsening, rt relaxation> | relaxation::as_preconditioner<Backend, rt relaxation> |
//     preconditioner::dummy<Backend> | make_solver<runtime::preconditioner, rt solver>
//   * a name that operator<< of the enumeration does not print -> std::invalid_argument
//
// Ops:
//   rtb_solve C ns abs e R S variant     make_solver<amg<BK, rt::coarsening::wrapper, rt::relaxation::wrapper>, rt::solver::wrapper<BK>>
//                                        from a property tree  vs  make_solver<amg<BK, EXPECTED coarsening class, R>, S<BK>> from params
//                                        structs filled member by member.  ns = nullspace.cols (0 | > 0: rows/B through the tree, as
//                                        the wrapper expects), abs = aggr.block_size, e = 0|1 (aggr.eps_strong default | 1/8),
//                                        variant = - (solve(rhs, x)) | same | shift:k | scale:k (set up for A, solve(A2, rhs, x))
//   rtb_class K R ns variant             make_solver<runtime::preconditioner<BK>, rt::solver::wrapper<BK>> (class K; relaxation R;
//                                        class amg with nullspace.cols = ns) vs the compile-time class, outer solver fgmres
//   rtb_relax R                          runtime::relaxation::wrapper<BK> against relaxation::R<BK> on one matrix:
//                                        apply_pre x2, apply_post, apply, bytes()
//   rtb_invalid W text                   W = solver | relaxation | coarsening | class: name rejected with std::invalid_argument
//   rtb_outofrange W v                   W = solver | relaxation, v = 9..15: an enumerator value outside the enumeration (in range of the
//                                        type) is refused by every member with std::invalid_argument, printed as "???"
//   rtb_export ns W                      W = solve | amg | nested: make_solver<...run-time...>::params(tree).get(out) holds every key of tree
//                                        with its text (nullspace.* included) and nothing else but defaults of amg::params members
//   rtb_unknown ns where                 construction from a tree with the manual keys nullspace.{cols,rows,B} (+ one key nobody
//                                        understands below `where`, or `-`): exactly the foreign key is reported through
//                                        AMGCL_PARAM_UNKNOWN
// Oracles: (iters, resid, x) bitwise; number of levels, rows per level, A / P / R of every level bitwise (AMGCL_VERIF accessor);
// text of operator<<; solve(copy of A, rhs, x) bitwise solve(rhs, x); with A2 != A the run-time composition reacts iff the
// compile-time one does; exceptions: same kind on both sides, and exactly the documented ones.
#ifndef VP_RTB
#  define VP_RTB 2
#endif
#include "params_common.hpp"

#include <complex>
#include <amgcl/backend/builtin.hpp>
#include <amgcl/value_type/static_matrix.hpp>
#include <amgcl/value_type/complex.hpp>
#include <amgcl/adapter/crs_tuple.hpp>
#include <amgcl/adapter/block_matrix.hpp>
#include <amgcl/make_solver.hpp>
#include <amgcl/amg.hpp>
#include <amgcl/coarsening/runtime.hpp>
#include <amgcl/coarsening/as_scalar.hpp>
#include <amgcl/relaxation/runtime.hpp>
#include <amgcl/relaxation/as_preconditioner.hpp>
#include <amgcl/solver/runtime.hpp>
#include <amgcl/preconditioner/runtime.hpp>
#include <amgcl/preconditioner/dummy.hpp>
#ifdef _OPENMP
#include <omp.h>
#endif

namespace amgcl_verif { struct access {
    template <class AMG> static auto& levels(AMG &a) { return a.levels; }
}; }

using namespace vh;
using vp::ptree;
namespace ac = amgcl;
namespace rt = amgcl::runtime;

#if VP_RTB == 0
typedef std::complex<double> V;
typedef std::complex<double> RHS;
typedef std::complex<double> SV;       // scalar the system is assembled in
static const int BS = 1;
static const char *BKNAME = "builtin<complex<double>>";
#else
typedef ac::static_matrix<double, VP_RTB, VP_RTB> V;
typedef ac::static_matrix<double, VP_RTB, 1> RHS;
typedef double SV;
static const int BS = VP_RTB;
static const char *BKNAME = VP_RTB == 2 ? "builtin<static_matrix<double,2,2>>" : "builtin<static_matrix<double,3,3>>";
#endif
typedef ac::backend::builtin<V> BK;
typedef ac::backend::crs<V> BCrs;
static const bool BLOCK = BS > 1;

// ------------------------------------------------------------------------------------------------ model problem
static const int GM = 8;            // 8 x 8 nodes
static const unsigned CE = 6;       // coarse_enough (in block rows): at least two levels
static const int MAXIT = 6;

struct Sys { size_t n = 0; std::vector<ptrdiff_t> ptr, col; std::vector<SV> val; std::vector<RHS> rhs; std::vector<double> x; /* node abscissa */ };

#if VP_RTB == 0
static SV entry(int d, int, int, bool sym) {    // d: 0 south, 1 west, 2 self, 3 east, 4 north
    switch (d) {
        case 0: return SV(-1.0, sym ? 0.0 : 0.125);
        case 1: return sym ? SV(-1.0, 0.25) : SV(-1.25, 0.25);
        case 2: return sym ? SV(4.5, 0.0) : SV(4.5, 0.5);
        case 3: return sym ? SV(-1.0, -0.25) : SV(-0.75, 0.25);
        default: return SV(-1.0, sym ? 0.0 : -0.125);
    }
}
#else
static SV entry(int d, int a, int c, bool sym) {
    if (d == 2) return a == c ? 6.0 + a : 0.25;
    double k = a == c ? -(1.0 + 0.25 * a) : -0.125;
    if (!sym && d == 1) k *= 1.25;
    if (!sym && d == 3) k *= 0.75;
    return k;
}
#endif
static Sys model_system(bool sym) {
    Sys s; const int m = GM; s.n = (size_t)m * m * BS; s.ptr.push_back(0);
    for (int j = 0; j < m; ++j) for (int i = 0; i < m; ++i) {
        for (int a = 0; a < BS; ++a) {
            auto add = [&](int ii, int jj, int d) {
                if (ii < 0 || ii >= m || jj < 0 || jj >= m) return;
                for (int c = 0; c < BS; ++c) { s.col.push_back(((ptrdiff_t)jj * m + ii) * BS + c); s.val.push_back(entry(d, a, c, sym)); }
            };
            add(i, j - 1, 0); add(i - 1, j, 1); add(i, j, 2); add(i + 1, j, 3); add(i, j + 1, 4);
            s.ptr.push_back((ptrdiff_t)s.col.size());
        }
        RHS f;
#if VP_RTB == 0
        f = RHS(1.0 + 0.125 * ((i * 7 + j * 3) % 5), 0.25 * ((i + 2 * j) % 3));
#else
        for (int a = 0; a < BS; ++a) f(a) = 1.0 + 0.125 * ((i * 7 + j * 3 + a) % 5);
#endif
        s.rhs.push_back(f); s.x.push_back(i);
    }
    return s;
}
static BCrs to_crs(const Sys &s) {
#if VP_RTB == 0
    return BCrs(std::tie(s.n, s.ptr, s.col, s.val));
#else
    return BCrs(ac::adapter::block_matrix<V>(std::tie(s.n, s.ptr, s.col, s.val)));
#endif
}
// near-null-space vectors in the layout the tree keys nullspace.rows / nullspace.B describe: rows x cols, row-major, one row
// per SCALAR unknown.  Column k: component (k mod BS), constant for k < BS, 1 + x/8 for the next BS columns
static std::vector<double> nullspace_vectors(const Sys &s, int cols) {
    std::vector<double> B(s.n * cols, 0.0);
    for (size_t r = 0; r < s.n; ++r) { size_t node = r / BS; int comp = (int)(r % BS);
        for (int k = 0; k < cols; ++k) if (k % BS == comp) B[r * cols + k] = k < BS ? 1.0 : 1.0 + s.x[node] / 8.0; }
    return B;
}

struct Variant { std::string kind; int k = 0; bool none() const { return kind == "-"; } bool same() const { return kind == "same"; } };
static Variant parse_variant(const std::string &v) {
    Variant r; if (v == "-" || v == "same") { r.kind = v; return r; }
    size_t c = v.find(':'); if (c == std::string::npos) throw bad_input("variant");
    r.kind = v.substr(0, c); const std::string num = v.substr(c + 1);
    if (r.kind != "shift" && r.kind != "scale") throw bad_input("variant kind");
    if (num.empty() || num.size() > 2 || num[0] == '0') throw bad_input("variant number");
    for (char ch : num) if (ch < '0' || ch > '9') throw bad_input("variant number");
    r.k = atoi(num.c_str()); if (r.k < 1 || r.k > 16) throw bad_input("variant range");
    return r;
}
static Sys replacement(const Sys &s, const Variant &v) {
    Sys a = s;
    for (size_t r = 0; r < s.n; ++r) for (ptrdiff_t q = s.ptr[r]; q < s.ptr[r + 1]; ++q) {
        if (v.kind == "shift" && (size_t)s.col[q] == r) a.val[q] += v.k / 8.0;
        if (v.kind == "scale") a.val[q] *= 1.0 + v.k / 8.0;
    }
    return a;
}

// ------------------------------------------------------------------------------------------------ observation of one composition
struct Out {
    std::vector<RHS> x; size_t iters = 0; double resid = 0;
    std::string desc;                           // operator<<
    bool has_levels = false; std::vector<std::string> lv;   // per level: rows, presence flags, A/P/R bytes
    std::string thrown;                         // "" | invalid_argument | logic_error | runtime_error | exception
    std::string what;
};
static std::string bytes_of(const std::shared_ptr<BCrs> &M) {
    if (!M) return std::string("-");
    std::string b = "M"; auto put = [&](const void *p, size_t n) { b.append((const char*)p, n); };
    size_t h[3] = { M->nrows, M->ncols, M->nnz }; put(h, sizeof h);
    put(M->ptr, (M->nrows + 1) * sizeof(ptrdiff_t)); put(M->col, M->nnz * sizeof(ptrdiff_t)); put(M->val, M->nnz * sizeof(V));
    return b;
}
template <class B, template <class> class C, template <class> class R> static void snap(const ac::amg<B, C, R> &a, Out &o, int) {
    o.has_levels = true;
    for (auto &l : amgcl_verif::access::levels(a)) {
        std::string s = std::to_string(l.m_rows) + (l.solve ? "S" : "s") + (l.relax ? "R" : "r") + "|";
        s += bytes_of(l.A); s += "|"; s += bytes_of(l.P); s += "|"; s += bytes_of(l.R);
        o.lv.push_back(s);
    }
}
template <class T> static void snap(const T&, Out&, long) {}

template <class Solver, class Prm> static Out run(const Sys &s, const Prm &prm, const Sys *a2) {
    Out o;
    try {
        BCrs A = to_crs(s);
        Solver S(A, prm);
        o.x.assign(s.rhs.size(), ac::math::zero<RHS>());
        if (a2) { BCrs A2 = to_crs(*a2); std::tie(o.iters, o.resid) = S(A2, s.rhs, o.x); }
        else std::tie(o.iters, o.resid) = S(s.rhs, o.x);
        { std::ostringstream os; os << S; o.desc = os.str(); }
        snap(S.precond(), o, 0);
    }
    catch (const std::invalid_argument &e) { o.thrown = "invalid_argument"; o.what = e.what(); }
    catch (const std::logic_error &e) { o.thrown = "logic_error"; o.what = e.what(); }
    catch (const std::runtime_error &e) { o.thrown = "runtime_error"; o.what = e.what(); }
    catch (const std::exception &e) { o.thrown = "exception"; o.what = e.what(); }
    return o;
}
static bool same_solution(const Out &a, const Out &b) {
    return a.thrown == b.thrown && a.iters == b.iters && memcmp(&a.resid, &b.resid, sizeof(double)) == 0 && a.x.size() == b.x.size() &&
           (a.x.empty() || memcmp(a.x.data(), b.x.data(), a.x.size() * sizeof(RHS)) == 0);
}
// the first difference between the two compositions, or ""
static std::string difference(const Out &r, const Out &c) {
    if (r.thrown != c.thrown) return "run-time " + (r.thrown.empty() ? std::string("returns") : "throws " + r.thrown + " (" + r.what.substr(0, 60) + ")") +
        ", compile-time " + (c.thrown.empty() ? std::string("returns") : "throws " + c.thrown + " (" + c.what.substr(0, 60) + ")");
    if (!r.thrown.empty()) return "";
    // the hierarchy behind runtime::preconditioner is not reachable (private handle): compared through operator<< only
    if (r.has_levels && c.has_levels && r.lv.size() != c.lv.size()) return "hierarchies have " + std::to_string(r.lv.size()) + " vs " + std::to_string(c.lv.size()) + " levels";
    if (r.has_levels && c.has_levels) for (size_t i = 0; i < r.lv.size(); ++i) if (r.lv[i] != c.lv[i]) {
        std::string a = r.lv[i].substr(0, r.lv[i].find('|')), b = c.lv[i].substr(0, c.lv[i].find('|'));
        return "level " + std::to_string(i) + (a != b ? " differs in size/kind (" + a + " vs " + b + ")" : " has different operators A/P/R");
    }
    if (r.iters != c.iters) return "iteration counts " + std::to_string(r.iters) + " vs " + std::to_string(c.iters);
    if (!same_solution(r, c)) { std::ostringstream w; w.precision(17); w << "residuals " << r.resid << " vs " << c.resid << " / solution vectors differ bitwise"; return w.str(); }
    if (r.desc != c.desc) return "operator<< texts differ";
    return "";
}

// ------------------------------------------------------------------------------------------------ configuration of one comparison
struct Cfg {
    std::string C = "smoothed_aggregation", R = "spai0", S = "bicgstab";
    int ns = 0, abs = 1; bool e1 = false;
    std::vector<double> B; size_t brows = 0;
};
static const std::vector<std::string> CS = {"ruge_stuben", "aggregation", "smoothed_aggregation", "smoothed_aggr_emin"};
static const std::vector<std::string> RS = {"gauss_seidel", "ilu0", "iluk", "ilup", "ilut", "damped_jacobi", "spai0", "spai1", "chebyshev"};
static const std::vector<std::string> SS = {"cg", "bicgstab", "bicgstabl", "gmres", "lgmres", "fgmres", "idrs", "richardson", "preonly"};
static const std::vector<std::string> R3 = {"spai0", "ilu0", "gauss_seidel"};
static const std::vector<std::string> S3 = {"bicgstab", "cg", "fgmres"};
static bool in(const std::vector<std::string> &v, const std::string &x) { return std::find(v.begin(), v.end(), x) != v.end(); }
// the part of the cross product for which a compile-time composition is instantiated (see `ct_solve`)
static bool instantiated(const std::string &C, const std::string &R, const std::string &S) {
    if (C == "ruge_stuben") return true;    // no compile-time class at these backends: the documented exception
    return (in(R3, R) && in(S3, S)) || (C == "smoothed_aggregation" && (S == "bicgstab" || R == "spai0"));
}
// ---- the specification (see the head of the file)
static bool expected_as_scalar(const Cfg &c) { return BLOCK && c.C != "ruge_stuben" && c.ns > 0; }
static bool expected_coarsening_supported(const std::string &C) { return C != "ruge_stuben"; }      // value types here are never arithmetic
static bool expected_relaxation_supported(const std::string &R) { return !(BLOCK && R == "spai1"); }
static bool symmetric_problem(const Cfg &c) { return c.S == "cg" || c.S == "richardson"; }

template <class P> static auto set_maxiter(P &p, int) -> decltype(p.maxiter, void()) { p.maxiter = MAXIT; }
template <class P> static void set_maxiter(P &, long) {}
static bool solver_has_maxiter(const std::string &S) { return S != "preonly"; }

static void tree_coarsening(ptree &p, const std::string &pre, const Cfg &c) {
    p.put(pre + "type", c.C);
    if (c.ns > 0) { p.put(pre + "nullspace.cols", c.ns); p.put(pre + "nullspace.rows", c.brows); p.put(pre + "nullspace.B", (double*)c.B.data()); }
    if (c.C != "ruge_stuben") { if (c.abs > 1) p.put(pre + "aggr.block_size", c.abs); if (c.e1) p.put(pre + "aggr.eps_strong", 0.125); }
}
static ptree tree_solve(const Cfg &c) {
    ptree p;
    tree_coarsening(p, "precond.coarsening.", c);
    p.put("precond.relax.type", c.R); p.put("precond.coarse_enough", CE); p.put("precond.npre", 2);
    p.put("solver.type", c.S); if (solver_has_maxiter(c.S)) p.put("solver.maxiter", MAXIT);
    return p;
}
template <class CP> static void struct_coarsening(CP &cp, const Cfg &c) {
    if (c.ns > 0) { cp.nullspace.cols = c.ns; cp.nullspace.B = c.B; }
    if (c.abs > 1) cp.aggr.block_size = c.abs;
    if (c.e1) cp.aggr.eps_strong = 0.125f;
}

typedef ac::make_solver<ac::amg<BK, rt::coarsening::wrapper, rt::relaxation::wrapper>, rt::solver::wrapper<BK>> RTSolver;

// compile-time composition for (coarsening class, relaxation, solver)
template <template <class> class C, template <class> class R, template <class...> class S>
static Out ct_one(const Sys &s, const Cfg &c, const Sys *a2) {
    if constexpr (ac::backend::relaxation_is_supported<BK, R>::value) {
        typedef ac::make_solver<ac::amg<BK, C, R>, S<BK>> CT;
        typename CT::params p; p.precond.coarse_enough = CE; p.precond.npre = 2; set_maxiter(p.solver, 0);
        struct_coarsening(p.precond.coarsening, c);
        return run<CT>(s, p, a2);
    } else { (void)s; (void)c; (void)a2; Out o; o.thrown = "no-class"; return o; }
}
template <template <class> class C> struct scalarized { template <class B> using type = typename ac::coarsening::as_scalar<C>::template type<B>; };

template <template <class> class C, bool FULL> static bool ct_rs(const Sys &s, const Cfg &c, const Sys *a2, Out &o) {
#define XRS(Rn, Sn) if (c.R == #Rn && c.S == #Sn) { o = ct_one<C, ac::relaxation::Rn, ac::solver::Sn>(s, c, a2); return true; }
    // R3 x S3 for every coarsening class
    XRS(spai0, bicgstab) XRS(spai0, cg) XRS(spai0, fgmres)
    XRS(ilu0, bicgstab) XRS(ilu0, cg) XRS(ilu0, fgmres)
    XRS(gauss_seidel, bicgstab) XRS(gauss_seidel, cg) XRS(gauss_seidel, fgmres)
    if constexpr (FULL) {
        // every other relaxation with bicgstab, every other solver with spai0
        XRS(iluk, bicgstab) XRS(ilup, bicgstab) XRS(ilut, bicgstab) XRS(damped_jacobi, bicgstab) XRS(spai1, bicgstab) XRS(chebyshev, bicgstab)
        XRS(spai0, bicgstabl) XRS(spai0, gmres) XRS(spai0, lgmres) XRS(spai0, idrs) XRS(spai0, richardson) XRS(spai0, preonly)
    }
#undef XRS
    return false;
}
// returns false when the harness has no compile-time composition for the configuration
static bool ct_solve(const Sys &s, const Cfg &c, const Sys *a2, Out &o) {
    const bool as = expected_as_scalar(c);
#define XC(Cn, FULL) if (c.C == #Cn) { \
        if (BLOCK && as) return ct_rs<scalarized<ac::coarsening::Cn>::template type, FULL>(s, c, a2, o); \
        return ct_rs<ac::coarsening::Cn, FULL>(s, c, a2, o); }
    XC(aggregation, false) XC(smoothed_aggregation, true) XC(smoothed_aggr_emin, false)
#undef XC
    return false;
}

// ---- preconditioner classes
typedef ac::make_solver<rt::preconditioner<BK>, rt::solver::wrapper<BK>> RTClass;
template <template <class> class C, template <class> class R> static Out ct_class_amg(const Sys &s, const Cfg &c, const Sys *a2) {
    typedef ac::make_solver<ac::amg<BK, C, R>, ac::solver::fgmres<BK>> CT;
    typename CT::params p; p.precond.coarse_enough = CE; p.solver.maxiter = MAXIT; struct_coarsening(p.precond.coarsening, c);
    return run<CT>(s, p, a2);
}
template <template <class> class C, template <class> class R> static Out ct_class_nested(const Sys &s, const Cfg &c, const Sys *a2) {
    typedef ac::make_solver<ac::make_solver<ac::amg<BK, C, R>, ac::solver::bicgstab<BK>>, ac::solver::fgmres<BK>> CT;
    typename CT::params p; p.precond.precond.coarse_enough = CE; p.precond.solver.maxiter = 2; p.solver.maxiter = MAXIT; struct_coarsening(p.precond.precond.coarsening, c);
    return run<CT>(s, p, a2);
}
template <template <class> class R> static Out ct_class_relax(const Sys &s, const Sys *a2) {
    typedef ac::make_solver<ac::relaxation::as_preconditioner<BK, R>, ac::solver::fgmres<BK>> CT;
    typename CT::params p; p.solver.maxiter = MAXIT;
    return run<CT>(s, p, a2);
}
static const std::vector<std::string> KS = {"amg", "relaxation", "dummy", "nested"};
static const std::vector<std::string> RK = {"spai0", "ilu0", "gauss_seidel", "damped_jacobi"};     // relaxations of the class ops
static bool ct_class(const std::string &K, const Sys &s, const Cfg &c, const Sys *a2, Out &o) {
    const bool as = expected_as_scalar(c);
    if (K == "dummy") { typedef ac::make_solver<ac::preconditioner::dummy<BK>, ac::solver::fgmres<BK>> CT; CT::params p; p.solver.maxiter = MAXIT; o = run<CT>(s, p, a2); return true; }
#define XR(Rn) if (c.R == #Rn) { \
        if (K == "relaxation") { o = ct_class_relax<ac::relaxation::Rn>(s, a2); return true; } \
        if (K == "amg") { o = (BLOCK && as) ? ct_class_amg<scalarized<ac::coarsening::smoothed_aggregation>::template type, ac::relaxation::Rn>(s, c, a2) \
                                            : ct_class_amg<ac::coarsening::smoothed_aggregation, ac::relaxation::Rn>(s, c, a2); return true; } }
    XR(spai0) XR(ilu0) XR(gauss_seidel) XR(damped_jacobi)
#undef XR
    if (K == "nested" && c.R == "spai0") {
        o = (BLOCK && as) ? ct_class_nested<scalarized<ac::coarsening::smoothed_aggregation>::template type, ac::relaxation::spai0>(s, c, a2)
                          : ct_class_nested<ac::coarsening::smoothed_aggregation, ac::relaxation::spai0>(s, c, a2);
        return true;
    }
    return false;
}
static ptree tree_class(const std::string &K, const Cfg &c) {
    ptree p; p.put("precond.class", K); p.put("solver.type", "fgmres"); p.put("solver.maxiter", MAXIT);
    if (K == "amg") { tree_coarsening(p, "precond.coarsening.", c); p.put("precond.relax.type", c.R); p.put("precond.coarse_enough", CE); }
    if (K == "relaxation") p.put("precond.type", c.R);
    if (K == "nested") { p.put("precond.precond.class", "amg"); tree_coarsening(p, "precond.precond.coarsening.", c); p.put("precond.precond.relax.type", c.R);
        p.put("precond.precond.coarse_enough", CE); p.put("precond.solver.type", "bicgstab"); p.put("precond.solver.maxiter", 2); }
    return p;
}

// ------------------------------------------------------------------------------------------------ ops
static void check_ns(int ns) { if (ns < 0 || ns > 2 * BS || ns % BS != 0) throw bad_input("ns"); }
static void fill_nullspace(Cfg &c, const Sys &s) { if (c.ns > 0) { c.B = nullspace_vectors(s, c.ns); c.brows = s.n; } }

// shared tail of rtb_solve / rtb_class: the comparison of a run-time composition (built by `rtrun`) with the compile-time one (`ctrun`)
template <class RtRun, class CtRun>
static void compare(Result &r, const std::string &who, const Sys &s, const Variant &var, RtRun rtrun, CtRun ctrun, bool expect_levels) {
    Out rtA, ctA; bool known = true;
    if (var.none()) { rtA = rtrun(nullptr); known = ctrun(nullptr, ctA); }
    else {
        const Sys a2 = replacement(s, var);
        rtA = rtrun(&a2); known = ctrun(&a2, ctA);
        if (known && rtA.thrown.empty() && ctA.thrown.empty()) {
            Out rt1 = rtrun(nullptr), ct1; ctrun(nullptr, ct1);
            const bool rt_moved = !same_solution(rtA, rt1), ct_moved = !same_solution(ctA, ct1);
            r.tag("a2_" + var.kind);
            if (var.same()) {
                if (rt_moved) r.fail(who + ": run-time solve(copy of A, rhs, x) is not bitwise solve(rhs, x)");
                if (ct_moved) r.fail(who + ": compile-time solve(copy of A, rhs, x) is not bitwise solve(rhs, x)");
            } else {
                if (ct_moved) r.tag("a2_changes_result");
                if (rt_moved != ct_moved) r.fail(who + ", solve(A2, rhs, x) with A2 = " + var.kind + ": " + (rt_moved ? "only the run-time" : "only the compile-time") + " composition reacts to the replacement matrix");
            }
        }
    }
    if (!known) { r.out = "no-compile-time-class"; r.fail(who + ": the harness has no compile-time composition for this configuration"); return; }
    std::string d = difference(rtA, ctA);
    if (!d.empty()) { r.out = "differ"; r.fail(who + ": run-time wrapper and the compile-time composition it is documented to select differ: " + d); return; }
    if (!rtA.thrown.empty()) { r.out = "both-throw " + rtA.thrown; r.nontrivial = false; r.fail(who + ": both compositions throw " + rtA.thrown + " (" + rtA.what.substr(0, 80) + ")"); return; }
    r.out = "same";
    if (rtA.has_levels) r.out += " levels=" + std::to_string(rtA.lv.size());
    if (rtA.iters >= 2) r.tag("iters_ge2");
    if (expect_levels) {
        if (rtA.lv.size() >= 2) r.tag("levels_ge2"); if (rtA.lv.size() >= 3) r.tag("levels_ge3"); if (rtA.lv.size() > 12) r.tag("deep_hierarchy");
        if (rtA.lv.size() < 2) r.fail("harness: model problem too small, single-level hierarchy (components never constructed)");
    }
}

static Result op_solve(const Toks &t) {
    Cur cu(t); Cfg c; c.C = cu.tok(); c.ns = (int)cu.nat(); c.abs = (int)cu.nat(); long e = cu.nat(); c.R = cu.tok(); c.S = cu.tok(); const Variant var = parse_variant(cu.tok()); cu.expect_end();
    if (!in(CS, c.C) || !in(RS, c.R) || !in(SS, c.S)) throw bad_input("name");
    check_ns(c.ns); if (c.abs != 1 && c.abs != BS) throw bad_input("abs"); if (e != 0 && e != 1) throw bad_input("e"); c.e1 = e == 1;
    if (!instantiated(c.C, c.R, c.S)) throw bad_input("combination outside the instantiated part of the cross product");
    Result r; r.nontrivial = true; r.tag("solve"); r.tag("C_" + c.C); r.tag(expected_as_scalar(c) ? "as_scalar" : "plain"); if (c.ns > 0) r.tag("nullspace");
    Sys s = model_system(symmetric_problem(c)); fill_nullspace(c, s);
    const std::string who = std::string(BKNAME) + " coarsening " + c.C + " nullspace.cols " + std::to_string(c.ns) + " relaxation " + c.R + " solver " + c.S;
    const ptree p = tree_solve(c);
    // documented exceptions
    if (!expected_coarsening_supported(c.C) || !expected_relaxation_supported(c.R)) {
        Out o = run<RTSolver>(s, p, nullptr);
        r.tag("unsupported"); r.out = "unsupported";
        if (o.thrown != "logic_error") r.fail(who + ": the combination is documented as not supported by the backend, expected std::logic_error, the run-time composition " + (o.thrown.empty() ? "returns a result" : "throws " + o.thrown + " (" + o.what.substr(0, 60) + ")"));
        // the traits the wrappers consult say the same thing
        if (c.C == "ruge_stuben" && ac::backend::coarsening_is_supported<BK, ac::coarsening::ruge_stuben>::value) r.fail(who + ": backend::coarsening_is_supported says supported");
        if (c.R == "spai1" && ac::backend::relaxation_is_supported<BK, ac::relaxation::spai1>::value != expected_relaxation_supported("spai1")) r.fail(who + ": backend::relaxation_is_supported disagrees with the documentation");
        return r;
    }
    compare(r, who, s, var,
        [&](const Sys *a2) { return run<RTSolver>(s, p, a2); },
        [&](const Sys *a2, Out &o) { return ct_solve(s, c, a2, o); }, true);
    return r;
}

static Result op_class(const Toks &t) {
    Cur cu(t); const std::string K = cu.tok(); Cfg c; c.R = cu.tok(); c.ns = (int)cu.nat(); const Variant var = parse_variant(cu.tok()); cu.expect_end();
    if (!in(KS, K) || !in(RK, c.R)) throw bad_input("name");
    check_ns(c.ns); if (c.ns > 0 && K != "amg" && K != "nested") throw bad_input("ns without amg");
    if (K == "nested" && c.R != "spai0") throw bad_input("nested");
    if (K == "dummy" && c.R != "spai0") throw bad_input("dummy");
    Result r; r.nontrivial = true; r.tag("class_" + K); if (c.ns > 0) r.tag("class_nullspace");
    Sys s = model_system(false); fill_nullspace(c, s);
    const std::string who = std::string(BKNAME) + " preconditioner class " + K + " relaxation " + c.R + " nullspace.cols " + std::to_string(c.ns);
    const ptree p = tree_class(K, c);
    compare(r, who, s, var,
        [&](const Sys *a2) { return run<RTClass>(s, p, a2); },
        [&](const Sys *a2, Out &o) { return ct_class(K, s, c, a2, o); }, false);
    return r;
}

// run-time relaxation wrapper against the class itself, member function by member function
template <template <class> class R> static void relax_pair(Result &r, const std::string &who, const Sys &s) {
    if constexpr (ac::backend::relaxation_is_supported<BK, R>::value) {
        BCrs A = to_crs(s);
        const size_t n = s.rhs.size();
        typedef ac::backend::numa_vector<RHS> Vec;
        auto script = [&](auto &W, std::vector<RHS> &out, size_t &bytes) {
            Vec f(s.rhs), x(n), tmp(n), y(n);
            for (size_t i = 0; i < n; ++i) { x[i] = ac::math::zero<RHS>(); tmp[i] = ac::math::zero<RHS>(); y[i] = ac::math::zero<RHS>(); }
            W.apply_pre(A, f, x, tmp); W.apply_pre(A, f, x, tmp); W.apply_post(A, f, x, tmp); W.apply(A, f, y);
            out.clear(); for (size_t i = 0; i < n; ++i) out.push_back(x[i]); for (size_t i = 0; i < n; ++i) out.push_back(y[i]);
            bytes = ac::backend::bytes(W);
        };
        std::vector<RHS> a, b; size_t ba = 0, bb = 0;
        { ptree q; q.put("type", r.out); rt::relaxation::wrapper<BK> W(A, q); script(W, a, ba); }
        { R<BK> D(A, typename R<BK>::params(), typename BK::params()); script(D, b, bb); }
        const std::string name = r.out;
        if (a.size() != b.size() || memcmp(a.data(), b.data(), a.size() * sizeof(RHS)) != 0) { r.out = "differ"; r.fail(who + ": apply_pre, apply_pre, apply_post, apply through the run-time wrapper differ from the same calls on relaxation::" + name); }
        else r.out = "same";
        if (ba != bb) r.fail(who + ": bytes() of the run-time wrapper is " + std::to_string(ba) + ", of the class " + std::to_string(bb));
        bool nz = false; for (auto &v : a) if (ac::math::norm(v) > 0) nz = true;
        r.nontrivial = nz;
    } else {
        BCrs A = to_crs(s); const std::string name = r.out; r.out = "unsupported"; r.tag("unsupported");
        if (expected_relaxation_supported(name)) r.fail(who + ": backend::relaxation_is_supported says unsupported, the documentation says supported");
        try { ptree q; q.put("type", name); rt::relaxation::wrapper<BK> W(A, q); r.fail(who + ": unsupported relaxation constructed without std::logic_error"); }
        catch (const std::invalid_argument &e) { r.fail(who + ": std::invalid_argument instead of std::logic_error"); }
        catch (const std::logic_error &) {}
    }
}
static Result op_relax(const Toks &t) {
    Cur cu(t); const std::string R = cu.tok(); cu.expect_end(); if (!in(RS, R)) throw bad_input("name");
    Result r; r.nontrivial = true; r.tag("relax_" + R); r.out = R;
    Sys s = model_system(false); const std::string who = std::string(BKNAME) + " relaxation " + R;
    try {
#define X(Rn) if (R == #Rn) relax_pair<ac::relaxation::Rn>(r, who, s);
        X(gauss_seidel) X(ilu0) X(iluk) X(ilup) X(ilut) X(damped_jacobi) X(spai0) X(spai1) X(chebyshev)
#undef X
        if (ac::backend::relaxation_is_supported<BK, ac::relaxation::spai1>::value != expected_relaxation_supported("spai1")) r.fail(who + ": backend::relaxation_is_supported<spai1> disagrees with the documentation");
    } catch (const std::exception &e) { r.out = "exception"; r.fail(who + ": exception " + std::string(e.what()).substr(0, 80)); }
    return r;
}

static Result op_invalid(const Toks &t) {
    Cur cu(t); const std::string W = cu.tok(), text = cu.tok(); cu.expect_end();
    Result r; r.nontrivial = true; r.tag("invalid_" + W);
    const std::vector<std::string> *names = W == "solver" ? &SS : W == "relaxation" ? &RS : W == "coarsening" ? &CS : W == "class" ? &KS : nullptr;
    if (!names) throw bad_input("wrapper"); if (in(*names, text)) throw bad_input("valid name");
    Sys s = model_system(false); Cfg c; Out o;
    if (W == "class") { ptree p = tree_class("amg", c); p.put("precond.class", text); o = run<RTClass>(s, p, nullptr); }
    else { ptree p = tree_solve(c); p.put(W == "solver" ? "solver.type" : W == "relaxation" ? "precond.relax.type" : "precond.coarsening.type", text); o = run<RTSolver>(s, p, nullptr); }
    r.out = o.thrown.empty() ? "accepted" : o.thrown;
    if (o.thrown != "invalid_argument") r.fail(std::string(BKNAME) + " " + W + " name '" + text + "' is not printed by operator<< of the enumeration but " + (o.thrown.empty() ? "is accepted" : "raises " + o.thrown + " instead of std::invalid_argument"));
    // also directly on the wrapper (no hierarchy in between)
    try {
        BCrs A = to_crs(s); ptree q; q.put(W == "class" ? "class" : "type", text);
        if (W == "solver") { rt::solver::wrapper<BK> w(s.rhs.size(), q); }
        else if (W == "relaxation") { rt::relaxation::wrapper<BK> w(A, q); }
        else if (W == "coarsening") { rt::coarsening::wrapper<BK> w(q); }
        else { rt::preconditioner<BK> w(A, q); }
        r.fail(std::string(BKNAME) + " " + W + " wrapper constructed with the name '" + text + "'");
    } catch (const std::invalid_argument &) {} catch (const std::exception &e) { r.fail(std::string(BKNAME) + " " + W + " name '" + text + "': " + e.what()); }
    return r;
}

// an enumerator VALUE outside the enumeration (representable: 9 enumerators, values up to 15 are in range of the type): every
// member of the relaxation / solver wrapper must refuse it with std::invalid_argument, operator<< of the enumeration prints "???"
static Result op_outofrange(const Toks &t) {
    Cur cu(t); const std::string W = cu.tok(); const long v = cu.nat(); cu.expect_end();
    if (W != "solver" && W != "relaxation") throw bad_input("wrapper"); if (v < 9 || v > 15) throw bad_input("value");
    Result r; r.nontrivial = true; r.tag("outofrange_" + W);
    Sys s = model_system(false); BCrs A = to_crs(s); const size_t n = s.rhs.size();
    const std::string who = std::string(BKNAME) + " " + W + " wrapper with the enumerator value " + std::to_string(v);
    int refused = 0, calls = 0;
    auto must_refuse = [&](const char *what, auto f) { ++calls; try { f(); r.fail(who + ": " + what + " does not throw"); } catch (const std::invalid_argument &) { ++refused; } catch (const std::exception &e) { r.fail(who + ": " + what + " throws " + e.what()); } };
    typedef ac::backend::numa_vector<RHS> Vec;
    Vec f(s.rhs), x(n), tmp(n);
    for (size_t i = 0; i < n; ++i) { x[i] = ac::math::zero<RHS>(); tmp[i] = ac::math::zero<RHS>(); }
    if (W == "relaxation") {
        { std::ostringstream os; os << (rt::relaxation::type)v; if (os.str() != "???") r.fail(who + ": operator<< prints '" + os.str() + "'"); }
        ptree q; q.put("type", "spai0"); rt::relaxation::wrapper<BK> w(A, q);
        const rt::relaxation::type keep = w.r; w.r = (rt::relaxation::type)v;
        must_refuse("apply_pre", [&] { w.apply_pre(A, f, x, tmp); }); must_refuse("apply_post", [&] { w.apply_post(A, f, x, tmp); });
        must_refuse("apply", [&] { w.apply(A, f, x); }); must_refuse("bytes", [&] { (void)w.bytes(); });
        w.r = keep;
    } else {
        { std::ostringstream os; os << (rt::solver::type)v; if (os.str() != "???") r.fail(who + ": operator<< prints '" + os.str() + "'"); }
        ptree q; q.put("type", "cg"); rt::solver::wrapper<BK> w(n, q);
        ac::preconditioner::dummy<BK> P(A);
        const rt::solver::type keep = w.s; w.s = (rt::solver::type)v;
        must_refuse("operator()(A, P, rhs, x)", [&] { w(A, P, f, x); }); must_refuse("operator()(P, rhs, x)", [&] { w(P, f, x); });
        must_refuse("operator<<", [&] { std::ostringstream os; os << w; }); must_refuse("bytes", [&] { (void)w.bytes(); });
        w.s = keep;
    }
    for (size_t i = 0; i < n; ++i) if (ac::math::norm(x[i]) != 0) { r.fail(who + ": x modified by a refused call"); break; }
    r.out = std::to_string(refused) + "/" + std::to_string(calls);
    return r;
}

static void flatten(const ptree &p, const std::string &pre, std::vector<std::string> &out) {
    if (p.empty() || !p.data().empty()) out.push_back(pre + "=" + p.data());
    for (auto &kv : p) flatten(kv.second, pre.empty() ? kv.first : pre + "." + kv.first, out);
}
static Result op_export(const Toks &t) {
    Cur cu(t); Cfg c; c.ns = (int)cu.nat(); const std::string which = cu.tok(); cu.expect_end(); check_ns(c.ns);
    if (which != "solve" && which != "amg" && which != "nested") throw bad_input("which");
    Result r; r.nontrivial = true; r.tag("export"); if (c.ns > 0) r.tag("export_nullspace");
    Sys s = model_system(false); fill_nullspace(c, s); c.abs = c.ns > 0 ? BS : 1; c.e1 = true;
    try {
        vp::unknown_log().clear();
        ptree p, out;
        if (which == "solve") { p = tree_solve(c); RTSolver::params q(p); q.get(out, ""); }
        else { p = tree_class(which, c); RTClass::params q(p); q.get(out, ""); }
        std::vector<std::string> a, b; flatten(p, "", a); flatten(out, "", b); std::sort(a.begin(), a.end()); std::sort(b.begin(), b.end());
        // every key of the input comes back with its text; the only other keys are the value members of amg::params (a real
        // params struct, exported with their defaults) -- the wrappers, whose params type is the tree itself, add nothing
        std::string miss; for (auto &k : a) if (!std::binary_search(b.begin(), b.end(), k)) { miss = k; break; }
        std::string extra;
        for (auto &k : b) if (!std::binary_search(a.begin(), a.end(), k)) {
            static const std::vector<std::string> amg_members = {"coarse_enough", "direct_coarse", "max_levels", "npre", "npost", "ncycle", "pre_cycles", "allow_rebuild"};
            const std::string key = k.substr(0, k.find('='));
            bool dflt = which == "solve" && key.compare(0, 8, "precond.") == 0 && in(amg_members, key.substr(8));
            if (!dflt) { extra = k; break; }
        }
        r.out = (miss.empty() && extra.empty()) ? "identity" : "changed";
        if (!(miss.empty() && extra.empty())) {
            r.fail(std::string(BKNAME) + " run-time params: import followed by export is not the identity (" + (miss.empty() ? "" : "dropped or changed: " + miss.substr(0, 80)) + (extra.empty() ? "" : " added: " + extra.substr(0, 80)) + ")");
        }
        for (auto &u : vp::unknown_log()) r.fail(std::string(BKNAME) + " run-time params: key " + u + " reported as unknown on import");
    } catch (const std::exception &e) { r.out = "exception"; r.fail(std::string("exception ") + e.what()); }
    return r;
}
static const std::vector<std::string> WHERE = {"-", "top", "precond", "coarsening", "nullspace", "aggr", "relax", "solver"};
static Result op_unknown(const Toks &t) {
    Cur cu(t); Cfg c; c.ns = (int)cu.nat(); const std::string where = cu.tok(); cu.expect_end(); check_ns(c.ns); if (!in(WHERE, where)) throw bad_input("where");
    Result r; r.nontrivial = true; r.tag("unknown_" + where); if (c.ns > 0) r.tag("unknown_nullspace");
    Sys s = model_system(false); fill_nullspace(c, s); c.abs = c.ns > 0 ? BS : 1;
    ptree p = tree_solve(c);
    const std::string key = "zz_" + where;
    if (where == "top") p.put(key, 1); else if (where == "precond") p.put("precond." + key, 1); else if (where == "coarsening") p.put("precond.coarsening." + key, 1);
    else if (where == "nullspace") p.put("precond.coarsening.nullspace." + key, 1); else if (where == "aggr") p.put("precond.coarsening.aggr." + key, 1);
    else if (where == "relax") p.put("precond.relax." + key, 1); else if (where == "solver") p.put("solver." + key, 1);
    vp::unknown_log().clear();
    Out o = run<RTSolver>(s, p, nullptr);
    std::vector<std::string> log = vp::unknown_log(); std::sort(log.begin(), log.end()); log.erase(std::unique(log.begin(), log.end()), log.end());
    { Line l; l << log.size(); for (auto &k : log) l << k; r.out = l.get(); }
    const std::string who = std::string(BKNAME) + " nullspace.cols " + std::to_string(c.ns);
    if (!o.thrown.empty()) r.fail(who + ": construction throws " + o.thrown + " (" + o.what.substr(0, 80) + ")");
    for (auto &k : log) if (k != key) r.fail(who + ": key `" + k + "` that the components understand (manual keys nullspace.cols/rows/B, type, ...) is reported as unknown");
    if (where != "-" && !in(log, key)) r.fail(who + ": the key " + key + " below `" + where + "` that no component understands is silently accepted");
    return r;
}

static Result execute(const Toks &t) {
#ifdef _OPENMP
    omp_set_num_threads(1);     // bitwise comparison of two solves: keep the reductions deterministic
#endif
    const std::string &op = t[0];
    if (op == "rtb_solve") return op_solve(t);
    if (op == "rtb_class") return op_class(t);
    if (op == "rtb_relax") return op_relax(t);
    if (op == "rtb_invalid") return op_invalid(t);
    if (op == "rtb_export") return op_export(t);
    if (op == "rtb_unknown") return op_unknown(t);
    if (op == "rtb_outofrange") return op_outofrange(t);
    throw bad_input("op");
}

static void generate(Rng &rng, const Opts &o, std::vector<std::string> &lines) {
    const bool th = o.thorough();
    auto variant = [&]() { return std::string(rng.coin() ? "shift:" : "scale:") + std::to_string(rng.range(1, 16)); };
    std::vector<int> nss = {0, BS, 2 * BS};
    for (auto &C : CS) for (auto &R : RS) for (auto &S : SS) {
        if (!instantiated(C, R, S)) continue;
        if (C == "ruge_stuben" && !(R == "spai0" && S == "bicgstab")) continue;
        for (int ns : nss) {
            // quick: the plain solve for every (C, ns, R, S); one replacement-matrix solve per (C, ns, R, S) with random options
            // thorough: every aggr.block_size / eps_strong option, `same` and two replacement matrices
            // aggr.block_size > 1 only on the scalarised path (there it counts scalar unknowns per node; on the plain path it would
            // count block rows, and the model grid is not a multiple of 3)
            std::vector<int> abss = {1}; if (BLOCK && ns > 0) abss.push_back(BS);
            if (th) {
                for (int abs : abss) for (int e = 0; e < 2; ++e) {
                    std::string head = "rtb_solve " + C + " " + std::to_string(ns) + " " + std::to_string(abs) + " " + std::to_string(e) + " " + R + " " + S + " ";
                    lines.push_back(head + "-");
                    if (C != "ruge_stuben") { lines.push_back(head + "same"); lines.push_back(head + variant()); }
                }
            } else {
                int abs = abss[rng.range(0, (long)abss.size() - 1)]; int e = (int)rng.range(0, 1);
                std::string head = "rtb_solve " + C + " " + std::to_string(ns) + " " + std::to_string(abs) + " " + std::to_string(e) + " " + R + " " + S + " ";
                lines.push_back(head + "-");
                if (C != "ruge_stuben" && rng.coin(1, 3)) lines.push_back(head + (rng.coin(1, 4) ? std::string("same") : variant()));
            }
        }
    }
    for (auto &K : KS) for (auto &R : RK) {
        if ((K == "nested" || K == "dummy") && R != "spai0") continue;
        for (int ns : nss) {
            if (ns > 0 && K != "amg" && K != "nested") continue;
            std::string head = "rtb_class " + K + " " + R + " " + std::to_string(ns) + " ";
            lines.push_back(head + "-"); lines.push_back(head + "same"); lines.push_back(head + variant());
            if (th) lines.push_back(head + variant());
        }
    }
    for (auto &R : RS) lines.push_back("rtb_relax " + R);
    for (const char *W : {"solver", "relaxation", "coarsening", "class"}) {
        const std::vector<std::string> &names = std::string(W) == "solver" ? SS : std::string(W) == "relaxation" ? RS : std::string(W) == "coarsening" ? CS : KS;
        std::vector<std::string> bad = {"no_such_" + std::string(W), "???", "0"};
        // near misses of real names: upper case, truncated, with a suffix
        for (int q = 0; q < (th ? 6 : 2); ++q) { std::string nm = rng.pick(names); int k = (int)rng.range(0, 2);
            if (k == 0) { nm[0] = (char)toupper(nm[0]); } else if (k == 1) nm = nm.substr(0, nm.size() - 1); else nm += "_";
            if (!in(names, nm)) bad.push_back(nm); }
        // a name of another wrapper
        bad.push_back(std::string(W) == "solver" ? "spai0" : "cg");
        for (auto &b : bad) lines.push_back("rtb_invalid " + std::string(W) + " " + b);
    }
    for (int ns : nss) for (const char *w : {"solve", "amg", "nested"}) lines.push_back("rtb_export " + std::to_string(ns) + " " + w);
    for (int ns : nss) for (auto &w : WHERE) lines.push_back("rtb_unknown " + std::to_string(ns) + " " + w);
    for (const char *W : {"solver", "relaxation"}) { lines.push_back(std::string("rtb_outofrange ") + W + " 9"); lines.push_back(std::string("rtb_outofrange ") + W + " " + std::to_string(rng.range(10, 15))); }
    // malformed
    lines.push_back("rtb_outofrange solver 3");
    lines.push_back("rtb_solve");
    lines.push_back("rtb_solve aggregation 0 1 0 spai0 bicgstab");
    lines.push_back("rtb_solve no_such 0 1 0 spai0 bicgstab -");
    lines.push_back("rtb_solve aggregation " + std::to_string(2 * BS + 1) + " 1 0 spai0 bicgstab -");
    lines.push_back("rtb_solve aggregation 0 1 0 spai0 bicgstab shift:0");
    lines.push_back("rtb_solve aggregation 0 1 0 chebyshev idrs -");
    lines.push_back("rtb_class amg spai1 0 -");
    lines.push_back("rtb_invalid solver cg");
    lines.push_back("rtb_relax");
    lines.push_back("rtb_unknown 0 nowhere");
}

VH_MAIN(generate, execute)
