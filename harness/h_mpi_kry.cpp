// C12 harness (implementation-only, "no_model"): RANK CONSISTENCY of the distributed Krylov solvers with dense work on
// replicated scalars: amgcl::mpi::solver::bicgstabl and amgcl::mpi::solver::idrs (the serial templates
// amgcl/solver/{bicgstabl,idrs}.hpp with InnerProduct = mpi::inner_product).  Real MPI, double, 1 OpenMP thread.
// The Lean side is Properties/C12e.lean (dist_bicgstabl_eq_serial, dist_idrs_eq_serial on the instruction-set programs,
// tied to the serial templates at exact rationals by h_lockstep); MPI has no exact rational type, so THIS harness stays
// implementation-vs-implementation.
//
//   mkry sv pc a b c d maxiter <part> A f x0
//        sv 0: bicgstabl   a = L (1..4), b = convex (0|1), c = delta (0 -> 0, 1 -> 0.01), d = pside (0 left, 1 right)
//        sv 1: idrs        a = s (1..4), b = smoothing (0|1), c = replacement (0|1), d = omega (0 -> 0, 1 -> 0.7)   [right-preconditioned only]
//        pc 0: amgcl::mpi::relaxation::as_preconditioner<mpi::relaxation::spai0<builtin<double>>>, 1: ...<damped_jacobi> (apply(): x = D^-1 f)
//        tol 1e-8; <part> = np p_0 .. p_{np-1}: contiguous row partition (empty ranks allowed), the case runs on the sub-communicator
//        of the first np launched ranks; A: CRS with dyadic values, sorted rows, positive diagonal; f != 0; x0 initial guess.
//        Solved through amgcl::mpi::make_solver<as_preconditioner<R>, mpi::solver::S>(comm, distributed_matrix, params).
// Oracles (all on the implementation side; the result line only summarises):
//   (a) every rank of the sub-communicator returns BITWISE the same (iters, resid): the pairs are gathered as raw 64-bit patterns
//       and compared on rank 0                                                                                         [property]
//   (b) the parts of x are gathered, and the residual of the ASSEMBLED system is recomputed in long double:
//         right preconditioning (bicgstabl pside right, idrs):  | ||f - A x|| / ||f||  - resid | <= 1e-8
//         bicgstabl pside left: the solver reports the PRECONDITIONED residual divided by the UNPRECONDITIONED norm of the right-hand
//         side (bicgstabl.hpp: norm_rhs = norm(rhs), zeta = norm(R[0]), R[0] = P (f - A x)); the harness recomputes the diagonal M
//         of the preconditioner (spai0: a_ii / sum_j a_ij^2 over the ASSEMBLED row; damped_jacobi: 1 / a_ii) and requires
//         | ||M (f - A x)|| / ||f|| - resid | <= 1e-8   (the chosen variant: the precise one, not merely "true residual small")   [test]
//       (not evaluated after an exception; evaluated also when the solver did not converge)
//   (c) converged: resid <= tol; the only excuse is a breakdown exception of the solver (std::runtime_error from
//       amgcl::precondition: zero rho / sigma / omega / M[k,k]), which must then be thrown on ALL ranks of the sub-communicator
//       (caught per rank, flags gathered, all-or-none); a rank-partial exception is a violation                          [property / test]
//   (d) np = 1: the distributed solver on the one-rank communicator returns bitwise the same (iters, resid, x) - or the same
//       exception - as the SERIAL amgcl::solver::bicgstabl / idrs (default inner product) with
//       amgcl::relaxation::as_preconditioner<builtin<double>, spai0 | damped_jacobi> on the same matrix (idrs seeds its shadow
//       space with pid * nt + tid: 0 on both sides with one OpenMP thread)                                              [property]
//   (e) watchdog: a rank that leaves the solver (result or exception) meets the other ranks of the case in an MPI_Ibarrier on a
//       DUPLICATE of the sub-communicator and polls it for at most WATCHDOG seconds (15; env VH_KRY_WATCHDOG).  If the others do not
//       arrive, the ranks have diverged (a collective was left by some ranks only, e.g. an exception thrown on one rank while the
//       others wait in MPI_Allreduce): the rank prints `h_mpi_kry: RANKS DIVERGED ...` to stderr and calls MPI_Abort(.., 97);
//       vcheck.py records `crash rc=97` for exactly this case (with the op line as replay) and restarts behind it.  Without the
//       watchdog such a case would only be caught by the time-out of the whole harness.
// non-trivial: np > 1 and at least 2 iterations.
#include "mpi_common.hpp"
#include <amgcl/make_solver.hpp>
#include <amgcl/mpi/make_solver.hpp>
#include <amgcl/mpi/relaxation/spai0.hpp>
#include <amgcl/mpi/relaxation/damped_jacobi.hpp>
#include <amgcl/mpi/relaxation/as_preconditioner.hpp>
#include <amgcl/mpi/solver/bicgstabl.hpp>
#include <amgcl/mpi/solver/idrs.hpp>
#include <amgcl/relaxation/spai0.hpp>
#include <amgcl/relaxation/damped_jacobi.hpp>
#include <amgcl/relaxation/as_preconditioner.hpp>
#include <amgcl/solver/bicgstabl.hpp>
#include <amgcl/solver/idrs.hpp>

typedef amgcl::backend::numa_vector<double> NV;
namespace mr = amgcl::mpi::relaxation;

static const double TOL = 1e-8;
static const char *SNAME[] = { "bicgstabl", "idrs" };
static const char *PNAME[] = { "spai0", "damped_jacobi" };

static std::string fmt(long double v) { char b[64]; snprintf(b, sizeof b, "%.17Lg", v); return b; }
static uint64_t bits(double v) { uint64_t u; std::memcpy(&u, &v, sizeof u); return u; }
static double unbits(uint64_t u) { double v; std::memcpy(&v, &u, sizeof v); return v; }

struct KOut { bool threw = false; std::string what; size_t iters = 0; double resid = 0; std::vector<double> x; };

// ---------------------------------------------------------------- watchdog (oracle (e))
static MPI_Comm g_wd[MAXNP + 1]; static bool g_wd_init = false;
static MPI_Comm wd_comm(const Ctx &x) {       // collective over the case's ranks; called BEFORE the solver runs
    if (!g_wd_init) { for (int k = 0; k <= MAXNP; ++k) g_wd[k] = MPI_COMM_NULL; g_wd_init = true; }
    if (g_wd[x.np] == MPI_COMM_NULL) MPI_Comm_dup(x.comm, &g_wd[x.np]);
    return g_wd[x.np];
}
static void rendezvous(const Ctx &x, MPI_Comm wd, const std::string &cfg, const KOut &o) {
    double limit = 15; if (const char *e = getenv("VH_KRY_WATCHDOG")) limit = atof(e);
    MPI_Request req; int done = 0; MPI_Ibarrier(wd, &req); const double t0 = MPI_Wtime();
    for (;;) { MPI_Test(&req, &done, MPI_STATUS_IGNORE); if (done) return; if (MPI_Wtime() - t0 > limit) break; usleep(100); }
    char b[64]; snprintf(b, sizeof b, "%.17g", o.resid);
    std::cerr << "h_mpi_kry: RANKS DIVERGED: " << cfg << ": rank " << x.rank << (o.threw ? " caught the exception '" + o.what + "'" : " returned iters=" + std::to_string(o.iters) + " resid=" + b)
              << " and waited " << limit << " s for the other ranks of the sub-communicator, which are still inside the solver (a collective was left by some ranks only)" << std::endl;
    MPI_Abort(MPI_COMM_WORLD, 97);
}

// the distributed run: the user-facing composition amgcl::mpi::make_solver (constructor: preconditioner setup, for idrs the
// collective orthonormalisation of the shadow space; then the solve); an exception is caught on the rank that throws it
// (`fill` sets the solver parameters: the params structs of the distributed and the serial instance are distinct types)
template <class DS, class DRx, class Fill> static KOut run_dist(const Ctx &x, std::shared_ptr<DM> D, Fill fill, const std::vector<double> &f, const std::vector<double> &x0) {
    typedef amgcl::mpi::make_solver<mr::as_preconditioner<DRx>, DS> MS;
    typename MS::params prm; fill(prm.solver);
    KOut o; NV rhs(f), xx(x0);
    try { MS solve(x.comm, D, prm); std::tie(o.iters, o.resid) = solve(rhs, xx); }
    catch (const std::runtime_error &e) { o.threw = true; o.what = e.what(); }
    o.x.assign(xx.data(), xx.data() + f.size()); return o;
}
// the serial counterpart: serial solver template with its default inner product, serial relaxation as preconditioner
template <class SS, template <class> class SRx, class Fill> static KOut run_serial(const Mat &A, Fill fill, const std::vector<double> &F, const std::vector<double> &X0) {
    KOut o; NV rhs(F), xx(X0); typename SS::params sp; fill(sp);
    try { amgcl::relaxation::as_preconditioner<BD, SRx> P(serial(A)); SS solve((size_t)A.n, sp); std::tie(o.iters, o.resid) = solve(P, rhs, xx); }
    catch (const std::runtime_error &e) { o.threw = true; o.what = e.what(); }
    o.x.assign(xx.data(), xx.data() + F.size()); return o;
}
template <class DS, class SS, class Fill> static void run_both(int pc, const Ctx &x, MPI_Comm wd, const std::string &cfg, const Mat &A, const Part &P, Fill sp,
        const std::vector<double> &f, const std::vector<double> &x0, const std::vector<double> &F, const std::vector<double> &X0, KOut &od, KOut &os) {
    auto D = make_dm(x, A, P, P);
    if (pc == 0) od = run_dist<DS, mr::spai0<BD>>(x, D, sp, f, x0); else od = run_dist<DS, mr::damped_jacobi<BD>>(x, D, sp, f, x0);
    rendezvous(x, wd, cfg, od);      // before any further collective on the sub-communicator
    if (x.np == 1) { if (pc == 0) os = run_serial<SS, amgcl::relaxation::spai0>(A, sp, F, X0); else os = run_serial<SS, amgcl::relaxation::damped_jacobi>(A, sp, F, X0); }
}

static void exec_mkry(Result &r, Cur &c) {
    long sv = c.nat(), pc = c.nat(), pa = c.nat(), pb = c.nat(), pcc = c.nat(), pd = c.nat(), maxit = c.nat();
    need(sv >= 0 && sv <= 1 && pc >= 0 && pc <= 1 && pa >= 1 && pa <= 4 && (pb == 0 || pb == 1) && (pcc == 0 || pcc == 1) && (pd == 0 || pd == 1) && maxit >= 1 && maxit <= 1000);
    Part P = part(c); Mat A = checked(c); auto fq = c.vec(), xq = c.vec(); c.expect_end();
    need_mat(A, P, P); need(A.n > 0 && (long)fq.size() == A.n && (long)xq.size() == A.n && crs_sorted_nodup(*A.crs()));
    for (long i = 0; i < A.n; ++i) { bool d = false; for (auto j = A.ptr[i]; j < A.ptr[i+1]; ++j) if (A.col[j] == i && A.val[j] > 0) d = true; need(d); }
    auto F = dvec(fq), X0 = dvec(xq);
    { bool nz = false; for (double v : F) if (v != 0) nz = true; need(nz); }
    Ctx x = ctx_for(P.np()); if (!x.active) return;
    const long rb = P.off[x.rank], re = P.off[x.rank + 1];
    std::vector<double> f(F.begin() + rb, F.begin() + re), x0(X0.begin() + rb, X0.begin() + re);
    const bool left = sv == 0 && pd == 0;
    const std::string cfg = std::string("amgcl::mpi::solver::") + SNAME[sv] + (sv == 0
        ? " (L=" + std::to_string(pa) + ", convex=" + std::to_string(pb) + ", delta=" + (pcc ? "0.01" : "0") + ", pside=" + (pd ? "right" : "left") + ")"
        : " (s=" + std::to_string(pa) + ", smoothing=" + std::to_string(pb) + ", replacement=" + std::to_string(pcc) + ", omega=" + (pd ? "0.7" : "0") + ")")
        + " + " + PNAME[pc] + ", np=" + std::to_string(x.np);
    MPI_Comm wd = wd_comm(x);
    KOut od, os;
    if (sv == 0) {
        typedef amgcl::mpi::solver::bicgstabl<BD> DS; typedef amgcl::solver::bicgstabl<BD> SS;
        auto sp = [&](auto &p) { p.L = (int)pa; p.convex = pb != 0; p.delta = pcc ? 0.01 : 0.0;
            p.pside = pd ? amgcl::preconditioner::side::right : amgcl::preconditioner::side::left; p.maxiter = (size_t)maxit; p.tol = TOL; };
        run_both<DS, SS>((int)pc, x, wd, cfg, A, P, sp, f, x0, F, X0, od, os);
    } else {
        typedef amgcl::mpi::solver::idrs<BD> DS; typedef amgcl::solver::idrs<BD> SS;
        auto sp = [&](auto &p) { p.s = (unsigned)pa; p.smoothing = pb != 0; p.replacement = pcc != 0; p.omega = pd ? 0.7 : 0.0; p.maxiter = (unsigned)maxit; p.tol = TOL; };
        run_both<DS, SS>((int)pc, x, wd, cfg, A, P, sp, f, x0, F, X0, od, os);
    }
    // ---- (a), (c): per rank (iters, resid as bit pattern, exception flag), raw 64-bit words
    uint64_t loc[3] = { (uint64_t)od.iters, bits(od.resid), od.threw ? 1u : 0u };
    std::vector<uint64_t> all(3 * (size_t)x.np);
    MPI_Gather(loc, 3, MPI_UINT64_T, all.data(), 3, MPI_UINT64_T, 0, x.comm);
    auto whats = gather_str(x, od.what);
    auto X = gather_vec(x, od.x, P);
    if (x.rank) return;

    auto per_rank = [&]() { std::string s; for (int q = 0; q < x.np; ++q) s += " (" + std::to_string(all[3*q]) + "," + fmt(unbits(all[3*q+1])) + ")"; return s; };

    int nthrew = 0; for (int q = 0; q < x.np; ++q) if (all[3*q+2]) ++nthrew;
    if (nthrew && nthrew < x.np) {
        std::string s = cfg + ": an exception was thrown on some ranks only:";
        for (int q = 0; q < x.np; ++q) s += " rank " + std::to_string(q) + (all[3*q+2] ? ": '" + whats[q] + "'" : ": none");
        r.fail(s);
    }
    const bool threw = nthrew > 0;
    if (!threw) {
        // ---- (a) bitwise rank consistency
        for (int q = 1; q < x.np; ++q) if (all[3*q] != all[0] || all[3*q+1] != all[1]) { r.fail(cfg + ": (iters, resid) differ between ranks:" + per_rank()); break; }
        // ---- (b) residual of the assembled system, long double
        const size_t n = (size_t)A.n; long double rr = 0, pr = 0, ff = 0;
        for (size_t i = 0; i < n; ++i) {
            long double s = F[i], dia = 0, sq = 0;
            for (auto j = A.ptr[i]; j < A.ptr[i+1]; ++j) { long double v = (long double)A.val[j].v.get_d(); s -= v * (long double)X[A.col[j]]; sq += v * v; if (A.col[j] == (ptrdiff_t)i) dia += v; }
            long double M = pc == 0 ? dia / sq : 1.0L / dia;
            rr += s * s; pr += (M * s) * (M * s); ff += (long double)F[i] * F[i];
        }
        const long double true_rel = std::sqrt(rr / ff), prec_rel = std::sqrt(pr / ff), expect = left ? prec_rel : true_rel;
        if (!(std::fabs(expect - (long double)od.resid) <= 1e-8L))
            r.fail("test: " + cfg + ": reported residual " + fmt(od.resid) + " (iters=" + std::to_string(od.iters) + ") is not the " + (left ? "preconditioned residual ||M(f - A x)|| / ||f|| = " : "true residual ||f - A x|| / ||f|| = ") +
                   fmt(expect) + " of the gathered solution" + (left ? " (unpreconditioned: " + fmt(true_rel) + ")" : ""));
        // ---- (c) convergence
        if (!(od.resid <= TOL))
            r.fail("test: " + cfg + ": not converged: iters=" + std::to_string(od.iters) + " (maxiter " + std::to_string(maxit) + ") resid=" + fmt(od.resid) + ", true residual of the gathered solution " + fmt(true_rel));
    }
    // ---- (d) one rank: distributed == serial, bitwise
    if (x.np == 1) {
        if (od.threw != os.threw) r.fail(cfg + ": the distributed solver on a one-rank communicator " + (od.threw ? "throws '" + od.what + "'" : "returns") + ", the serial solver " + (os.threw ? "throws '" + os.what + "'" : "returns"));
        else if (!od.threw) {
            if (od.iters != os.iters || bits(od.resid) != bits(os.resid))
                r.fail(cfg + ": distributed solver on a one-rank communicator returns iters=" + std::to_string(od.iters) + " resid=" + fmt(od.resid) + ", the serial amgcl::solver::" + SNAME[sv] + " returns iters=" + std::to_string(os.iters) + " resid=" + fmt(os.resid));
            else for (size_t i = 0; i < od.x.size(); ++i) if (bits(od.x[i]) != bits(os.x[i])) {
                r.fail(cfg + ": distributed solver on a one-rank communicator returns x[" + std::to_string(i) + "] = " + fmt(od.x[i]) + ", the serial amgcl::solver::" + SNAME[sv] + " returns " + fmt(os.x[i])); break; }
        }
        r.tag("serial_bitwise");
    }
    r.out = threw ? "breakdown" : (od.resid <= TOL ? "solved" : "not-converged");
    r.nontrivial = x.np > 1 && !threw && od.iters >= 2;
    r.tag("mkry"); r.tag(std::string("mkry_") + SNAME[sv]); r.tag(std::string(sv == 0 ? "L" : "s") + std::to_string(pa)); r.tag(std::string("pc_") + PNAME[pc]); r.tag("np" + std::to_string(x.np));
    if (sv == 0) { r.tag(pd ? "right" : "left"); r.tag(pb ? "convex" : "minres"); if (pcc) r.tag("delta"); }
    else { if (pb) r.tag("smoothing"); if (pcc) r.tag("replacement"); r.tag(pd ? "omega0.7" : "omega0"); }
    if (threw) r.tag("breakdown"); else r.tag(od.iters < 2 ? "it0-1" : od.iters < 10 ? "it2-9" : od.iters < 30 ? "it10-29" : od.iters < 60 ? "it30-59" : "it60+");
    { bool sym = is_symmetric(A); r.tag(sym ? "spd" : "nonsym"); }
    { bool z = true; for (double v : X0) if (v != 0) z = false; if (!z) r.tag("x0"); }
    bool e = false; for (long q : P.p) if (!q) e = true; if (e) r.tag("emptyrank");
    if (has_remote(A, P, P)) r.tag("remote");
}

static Result execute(const Toks &t) {
    Cur c(t); Result r;
    if (t[0] == "mkry") exec_mkry(r, c); else r.out = "bad-op";
    return r;
}

// ---------------------------------------------------------------- generators
// fam 0: 1-D chain, 1: 2-D grid, 2: anisotropic 2-D grid (x-couplings times 8), 3: random connected graph; dyadic weights k/2,
// Dirichlet-like shifts (row 0 always, the others with probability 1/4): irreducibly diagonally dominant SPD M-matrices.
// conv (fam 0..2): an upwind convection-like term: the couplings to the west (i-1) and south (i-nx) neighbours grow by cx, cy (k/4),
// the diagonal by the same amount: mildly non-symmetric, still a diagonally dominant M-matrix
static Mat gen_matrix(Rng &rng, long n, int fam, bool conv) {
    long nx = n, ny = 1, N = n; std::vector<Edge> e;
    if (fam == 0) e = grid_edges(rng, n, 1, 4);
    else if (fam == 1 || fam == 2) { nx = std::max<long>(2, (long)std::floor(std::sqrt((double)n))); ny = std::max<long>(1, n / nx); N = nx * ny; e = grid_edges(rng, nx, ny, 4, fam == 2 ? 8 : 1); }
    else e = random_graph_edges(rng, n, (int)n / 2, 4);
    std::vector<Q> shift(N, Q(0)); shift[0] = Q::frac(rng.range(1, 4), 2);
    for (long i = 1; i < N; ++i) if (rng.coin(1, 4)) shift[i] = Q::frac(rng.range(1, 4), 2);
    Mat A = mmatrix_from_edges(N, e, shift);
    if (!conv || fam == 3) return A;
    Q cx = Q::frac(rng.range(1, 6), 4), cy = Q::frac(rng.range(0, 6), 4);
    auto rows = to_rows(A);
    for (long i = 0; i < N; ++i) {
        Q add(0);
        for (auto &cv : rows[i]) { if (cv.first == i - 1) { cv.second -= cx; add += cx; } else if (ny > 1 && cv.first == i - nx) { cv.second -= cy; add += cy; } }
        for (auto &cv : rows[i]) if (cv.first == i) cv.second += add;
    }
    return from_rows(N, N, rows);
}
static std::vector<Q> nonzero_vec(Rng &rng, long n) { for (;;) { auto v = gen_vec(rng, n, true); for (auto &q : v) if (q != 0) return v; } }

static void generate(Rng &rng, const Opts &o, std::vector<std::string> &lines) {
    const int W = std::min(g_wsize, 4); const bool th = o.thorough();
    // 32 bicgstabl configurations (L x convex x delta x pside) and 32 idrs configurations (s x smoothing x replacement x omega),
    // cycled systematically, solvers alternating; every fifth case on ONE rank (oracle (d)), the others on 2..W ranks
    long NK = o.cases > 0 ? o.cases : (th ? 448 : 128);
    for (long k = 0; k < NK; ++k) {
        int sv = (int)(k % 2); long idx = (k / 2) % 32;
        long pa = 1 + idx % 4, pb = (idx / 4) % 2, pcc = (idx / 8) % 2, pd = (idx / 16) % 2;
        int pc = rng.coin(1, 3) ? 1 : 0;
        int np = (k % 5 == 4 || W < 2) ? 1 : (int)rng.range(2, W);
        int fam = (int)rng.range(0, 3); bool conv = rng.coin();
        long n = rng.range(6, th && k % 3 == 0 ? 80 : 40);
        Mat A = gen_matrix(rng, n, fam, conv);
        long maxit = A.n > 40 ? 200 : 100;
        std::vector<Q> x0 = rng.coin(1, 3) ? gen_vec(rng, A.n, true) : std::vector<Q>((size_t)A.n, Q(0));
        Line l; l << "mkry" << sv << pc << pa << pb << pcc << pd << maxit; lp(l, rand_part(rng, A.n, np)); l << A << nonzero_vec(rng, A.n) << x0;
        lines.push_back(l.get());
    }
    // ---- malformed (the well-formed base: mkry 0 0 2 1 0 1 100 | 1 2 | 2 2 2 0 2 1 -1 2 0 -1 1 2 | 2 1 1 | 2 0 0)
    lines.push_back("mkry 2 0 2 1 0 1 100 1 2 2 2 2 0 2 1 -1 2 0 -1 1 2 2 1 1 2 0 0");        // no such solver
    lines.push_back("mkry 0 2 2 1 0 1 100 1 2 2 2 2 0 2 1 -1 2 0 -1 1 2 2 1 1 2 0 0");        // no such preconditioner
    lines.push_back("mkry 0 0 0 1 0 1 100 1 2 2 2 2 0 2 1 -1 2 0 -1 1 2 2 1 1 2 0 0");        // L = 0
    lines.push_back("mkry 1 0 5 1 0 1 100 1 2 2 2 2 0 2 1 -1 2 0 -1 1 2 2 1 1 2 0 0");        // s = 5
    lines.push_back("mkry 0 0 2 1 2 1 100 1 2 2 2 2 0 2 1 -1 2 0 -1 1 2 2 1 1 2 0 0");        // delta code out of range
    lines.push_back("mkry 0 0 2 1 0 1 0 1 2 2 2 2 0 2 1 -1 2 0 -1 1 2 2 1 1 2 0 0");          // maxiter 0
    lines.push_back("mkry 0 0 2 1 0 1 100 2 1 2 2 2 2 0 2 1 -1 2 0 -1 1 2 2 1 1 2 0 0");      // partition does not sum to n
    lines.push_back("mkry 0 0 2 1 0 1 100 1 2 2 2 2 0 2 1 -1/3 2 0 -1 1 2 2 1 1 2 0 0");      // not exact in binary64
    lines.push_back("mkry 0 0 2 1 0 1 100 1 2 2 2 1 1 -1 2 0 -1 1 2 2 1 1 2 0 0");            // row 0 has no diagonal entry
    lines.push_back("mkry 0 0 2 1 0 1 100 1 2 2 2 2 1 -1 0 2 2 0 -1 1 2 2 1 1 2 0 0");        // row 0 not sorted
    lines.push_back("mkry 0 0 2 1 0 1 100 1 2 2 2 2 0 2 1 -1 2 0 -1 1 2 2 0 0 2 0 0");        // zero right-hand side
    lines.push_back("mkry 0 0 2 1 0 1 100 1 2 2 2 2 0 2 1 -1 2 0 -1 1 2 3 1 1 1 2 0 0");      // right-hand side of the wrong length
    lines.push_back("mkry 0 0 2 1 0 1 100 1 2 2 2 2 0 2 1 -1 2 0 -1 1 2 2 1 1 2 0 0 7");      // trailing token
}

VH_MPI_MAIN(generate, execute)
