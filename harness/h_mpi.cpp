// C11 harness: amgcl::mpi::distributed_matrix / comm_pattern / inner_product under real MPI.
//
// Launched as `mpirun -np W ./h_mpi ...` (W = 8 in tools/checks/C11.json).  Rank 0 does the protocol I/O
// (ops.txt / impl.txt / oracle.txt / meta.txt, see proto.hpp) and broadcasts every op line; the op line carries the
// partition, hence the rank count np <= W of the case: the case runs on the sub-communicator of the first np
// world ranks, the other ranks sit it out.  MPI datatypes exist only for built-in types, so the real code runs in
// `double` on EXACT-IN-BINARY64 data (DESIGN.md 2.6): small integers / dyadic rationals; every result is checked
// to be a dyadic number of magnitude < 2^53 and printed as an exact rational, so the `Rat` model compares equal.
//
// Ops (partitions are vectors `np s_1 .. s_np`, zeros allowed):
//   dist_split rp cp A            global sizes, per rank (a_loc, a_rem), per rank the communication pattern
//   dist_spmv rp cp a A x b y     gathered y            dist_copy_spmv: same through distributed_matrix<builtin<float>>(A)
//   dist_residual rp cp A f x     gathered r
//   dist_ip p x y                 mpi::inner_product
//   dist_transpose rp cp A        per rank (loc, rem) of mpi::transpose(A)
//   dist_remote_rows rp mp cp A B per rank B_nbr = remote_rows(A.cpat(), B)
//   dist_product rp mp cp A B     per rank (loc, rem) of mpi::product(A, B)
//   dist_scale rp cp A s | dist_sort rp cp A
//   dist_gersh scaled p A         spectral_radius<scaled>(A, 0)
//   dist_power scaled iters p A   spectral_radius<scaled>(A, iters): only rank-consistency is checked
//   dist_check flags              communicator::check(flag_r, ..): `precondition` iff some flag is 0
// Implementation-side oracles (independent of the Lean model): gathered result == serial amgcl kernel on the
// assembled matrix; collective scalars bitwise identical on all ranks and equal to the serial value; every
// remote column is received in the slot its renumbered index points to; structural well-formedness of the parts.
#include "mpi_common.hpp"

static Result execute(const Toks &t) {
    Cur c(t); const std::string &op = t[0]; Result r;
    if (op == "dist_split") {
        Part rp = part(c), cp = part(c); Mat A = checked(c); c.expect_end(); need_mat(A, rp, cp);
        Ctx x = ctx_for(rp.np()); if (!x.active) return r;
        auto D = make_dm(x, A, rp, cp);
        const auto &C = D->cpat(); const DCrs &rem = *D->remote();
        Line p; put_vec(p, C.recv.nbr); put_vec(p, C.recv.ptr); put_vec(p, C.send.nbr); put_vec(p, C.send.ptr); put_vec(p, C.send.col);
        std::vector<long> li, ni; for (size_t j = 0; j < rem.nnz; ++j) { li.push_back(C.local_index(rem.col[j])); ni.push_back(C.domain(rem.col[j])); }
        put_vec(p, li); put_vec(p, ni);
        // pattern oracle on the implementation: ship the global index of every owned column; each remote column
        // must arrive in the slot its renumbered index points to
        std::vector<double> sv(C.send.count()), rv(C.recv.count(), -1.0);
        for (size_t i = 0; i < sv.size(); ++i) sv[i] = (double)(cp.off[x.rank] + C.send.col[i]);
        C.exchange(sv.data(), rv.data());
        bool pat_ok = true; std::set<long> distinct;
        for (size_t j = 0; j < rem.nnz; ++j) { distinct.insert(rem.col[j]); long s = C.local_index(rem.col[j]); if (s < 0 || s >= (long)rv.size() || rv[s] != (double)rem.col[j]) pat_ok = false; }
        if (distinct.size() != C.recv.count()) pat_ok = false;
        for (size_t i = 0; i < C.send.col.size(); ++i) if (C.send.col[i] < 0 || C.send.col[i] >= cp.p[x.rank]) pat_ok = false;
        pat_ok = all_true(x, pat_ok);
        bool sizes_ok = all_true(x, D->glob_rows() == A.n && D->glob_cols() == A.m && D->glob_nonzeros() == (long)A.col.size() && D->loc_rows() == rp.p[x.rank] && D->loc_cols() == cp.p[x.rank]);
        auto parts = gather_str(x, dm_str(*D)); auto pats = gather_str(x, p.get());
        if (x.rank) return r;
        Dense G; std::string why; bool ex;
        if (!assemble(parts, rp, cp, G, why, ex)) r.fail("split: " + why); else if (!dense_eq(G, dense(A))) r.fail("assembled split != A");
        if (!pat_ok) r.fail("a remote column is not received in the slot its renumbered index points to");
        if (!sizes_ok) r.fail("global/local sizes wrong or not identical on all ranks");
        r.out = (Line() << A.n << A.m << A.col.size()).get() + " " + join(parts) + " " + join(pats);
        r.nontrivial = has_remote(A, rp, cp); tags(r, "split", rp, cp, A.n != A.m);
    } else if (op == "dist_spmv" || op == "dist_copy_spmv") {
        Part rp = part(c), cp = part(c); Q a = c.rat(); Mat A = checked(c); auto xq = c.vec(); Q b = c.rat(); auto yq = c.vec(); c.expect_end();
        need_mat(A, rp, cp); need((long)xq.size() == A.m && (long)yq.size() == A.n);
        double al = exact(a), be = exact(b); auto X = dvec(xq), Y = dvec(yq);
        Ctx x = ctx_for(rp.np()); if (!x.active) return r;
        auto D = make_dm(x, A, rp, cp);
        std::vector<double> xl(X.begin() + cp.off[x.rank], X.begin() + cp.off[x.rank + 1]), yl(Y.begin() + rp.off[x.rank], Y.begin() + rp.off[x.rank + 1]);
        if (op == "dist_spmv") {
            D->move_to_backend();
            amgcl::backend::spmv(al, *D, xl, be, yl);
        } else {    // copy between backends: distributed_matrix<builtin<float>>(const distributed_matrix<builtin<double>>&)
            amgcl::mpi::distributed_matrix<BF> F(*D);
            F.move_to_backend();
            std::vector<float> xf(xl.begin(), xl.end()), yf(yl.begin(), yl.end());
            amgcl::backend::spmv((float)al, F, xf, (float)be, yf);
            for (size_t i = 0; i < yl.size(); ++i) yl[i] = yf[i];
        }
        auto g = gather_vec(x, yl, rp);
        if (x.rank) return r;
        amgcl::backend::spmv(al, *serial(A), X, be, Y);            // serial kernel on the assembled matrix
        bool ok = true, ex = true; for (long i = 0; i < A.n; ++i) { if (g[i] != Y[i]) ok = false; if (!dyadic_ok(g[i]) || (op != "dist_spmv" && std::fabs(g[i]) >= 16777216.0)) ex = false; }
        if (!ok) r.fail("distributed spmv != serial spmv on the assembled matrix");
        if (!ex) r.fail("inexact: result is not a small dyadic number");
        Line l; l << (size_t)A.n; for (double v : g) l << qd(v); r.out = l.get();
        r.nontrivial = has_remote(A, rp, cp); tags(r, op == "dist_spmv" ? "spmv" : "copy_spmv", rp, cp, A.n != A.m); if (be == 0) r.tag("beta0");
    } else if (op == "dist_residual") {
        Part rp = part(c), cp = part(c); Mat A = checked(c); auto fq = c.vec(); auto xq = c.vec(); c.expect_end();
        need_mat(A, rp, cp); need((long)xq.size() == A.m && (long)fq.size() == A.n);
        auto X = dvec(xq), F = dvec(fq);
        Ctx x = ctx_for(rp.np()); if (!x.active) return r;
        auto D = make_dm(x, A, rp, cp); D->move_to_backend();
        std::vector<double> xl(X.begin() + cp.off[x.rank], X.begin() + cp.off[x.rank + 1]), fl(F.begin() + rp.off[x.rank], F.begin() + rp.off[x.rank + 1]), rl(rp.p[x.rank], 12345.0);
        amgcl::backend::residual(fl, *D, xl, rl);
        auto g = gather_vec(x, rl, rp);
        if (x.rank) return r;
        std::vector<double> R(A.n, 0.0); amgcl::backend::residual(F, *serial(A), X, R);
        bool ok = true, ex = true; for (long i = 0; i < A.n; ++i) { if (g[i] != R[i]) ok = false; if (!dyadic_ok(g[i])) ex = false; }
        if (!ok) r.fail("distributed residual != serial residual on the assembled matrix");
        if (!ex) r.fail("inexact");
        Line l; l << (size_t)A.n; for (double v : g) l << qd(v); r.out = l.get();
        r.nontrivial = has_remote(A, rp, cp); tags(r, "residual", rp, cp, A.n != A.m);
    } else if (op == "dist_ip") {
        Part p = part(c); auto xq = c.vec(); auto yq = c.vec(); c.expect_end(); need((long)xq.size() == p.sum && (long)yq.size() == p.sum);
        auto X = dvec(xq), Y = dvec(yq);
        Ctx x = ctx_for(p.np()); if (!x.active) return r;
        std::vector<double> xl(X.begin() + p.off[x.rank], X.begin() + p.off[x.rank + 1]), yl(Y.begin() + p.off[x.rank], Y.begin() + p.off[x.rank + 1]);
        amgcl::mpi::inner_product ip(x.comm);
        double v = ip(xl, yl); std::vector<double> all;
        bool same = same_on_all(x, v, all);
        if (x.rank) return r;
        double s = amgcl::backend::inner_product(X, Y);
        if (!same) r.fail("inner product differs between ranks");
        if (v != s) r.fail("distributed inner product != serial inner product");
        if (!dyadic_ok(v)) r.fail("inexact");
        r.out = (Line() << qd(v)).get(); r.nontrivial = p.sum > 0 && p.np() > 1; tags(r, "ip", p, p, false);
    } else if (op == "dist_transpose" || op == "dist_sort") {
        Part rp = part(c), cp = part(c); Mat A = checked(c); c.expect_end(); need_mat(A, rp, cp);
        Ctx x = ctx_for(rp.np()); if (!x.active) return r;
        auto D = make_dm(x, A, rp, cp);
        bool tr = op == "dist_transpose", loc_ok = true;
        std::shared_ptr<DM> T = D;
        if (tr) T = amgcl::mpi::transpose(*D); else amgcl::mpi::sort_rows(*D);
        if (tr) loc_ok = T->glob_rows() == A.m && T->glob_cols() == A.n && T->glob_nonzeros() == (long)A.col.size();
        else { for (const DCrs *P : { T->local().get(), T->remote().get() }) for (size_t i = 0; i < P->nrows; ++i) for (auto j = P->ptr[i]; j + 1 < P->ptr[i+1]; ++j) if (P->col[j] > P->col[j+1]) loc_ok = false; }
        loc_ok = all_true(x, loc_ok);
        auto parts = gather_str(x, dm_str(*T));
        if (x.rank) return r;
        Dense G, ref; std::string why; bool ex;
        if (tr) { auto St = amgcl::backend::transpose(*serial(A)); ref = dense(*St); } else ref = dense(A);
        if (!assemble(parts, tr ? cp : rp, tr ? rp : cp, G, why, ex)) r.fail(op + ": " + why);
        else if (!dense_eq(G, ref)) r.fail(tr ? "distributed transpose != serial transpose of the assembled matrix" : "sort_rows changed the matrix");
        if (!loc_ok) r.fail(tr ? "transpose: global sizes wrong" : "sort_rows: a part is not sorted");
        r.out = join(parts);
        r.nontrivial = has_remote(A, rp, cp); tags(r, tr ? "transpose" : "sort_rows", rp, cp, A.n != A.m);
    } else if (op == "dist_scale") {
        Part rp = part(c), cp = part(c); Mat A = checked(c); Q s = c.rat(); c.expect_end(); need_mat(A, rp, cp); double sd = exact(s);
        Ctx x = ctx_for(rp.np()); if (!x.active) return r;
        auto D = make_dm(x, A, rp, cp);
        amgcl::mpi::scale(*D, sd);
        auto parts = gather_str(x, dm_str(*D));
        if (x.rank) return r;
        auto S = serial(A); amgcl::backend::scale(*S, sd);
        Dense G; std::string why; bool ex = true;
        if (!assemble(parts, rp, cp, G, why, ex)) r.fail("scale: " + why); else if (!dense_eq(G, dense(*S))) r.fail("distributed scale != serial scale");
        if (!ex) r.fail("inexact");
        r.out = join(parts); r.nontrivial = A.col.size() > 0; tags(r, "scale", rp, cp, A.n != A.m);
    } else if (op == "dist_product" || op == "dist_remote_rows") {
        Part rp = part(c), mp = part(c), cp = part(c); Mat A = checked(c), B = checked(c); c.expect_end(); need_mat(A, rp, mp); need_mat(B, mp, cp);
        Ctx x = ctx_for(rp.np()); if (!x.active) return r;
        auto DA = make_dm(x, A, rp, mp), DB = make_dm(x, B, mp, cp);
        if (op == "dist_remote_rows") {
            auto N = amgcl::mpi::remote_rows(DA->cpat(), *DB);
            // oracle (every rank holds the global input): row i of B_nbr is the global row of B named by the i-th
            // distinct remote column of A on this rank
            std::set<long> rc; const DCrs &ar = *DA->remote(); for (size_t j = 0; j < ar.nnz; ++j) rc.insert(ar.col[j]);
            bool ok = N->nrows == rc.size(); Dense DBd = dense(B); size_t i = 0;
            for (long gc : rc) { if (!ok) break; std::vector<Q> row(B.m); for (auto j = N->ptr[i]; j < N->ptr[i+1]; ++j) { if (N->col[j] < 0 || N->col[j] >= B.m) { ok = false; break; } row[N->col[j]] += N->val[j]; } for (long k = 0; ok && k < B.m; ++k) if (row[k].v != DBd[gc][k].v) ok = false; ++i; }
            ok = all_true(x, ok);
            Line l; put_crs(l, *N); auto parts = gather_str(x, l.get());
            if (x.rank) return r;
            if (!ok) r.fail("remote_rows: a received row is not the requested global row of B");
            r.out = join(parts); r.nontrivial = has_remote(A, rp, mp); tags(r, "remote_rows", rp, cp, A.n != A.m || B.n != B.m);
        } else {
            auto P = amgcl::mpi::product(*DA, *DB);
            bool sz = all_true(x, P->glob_rows() == A.n && P->glob_cols() == B.m);
            auto parts = gather_str(x, dm_str(*P));
            if (x.rank) return r;
            auto S = amgcl::backend::product(*serial(A), *serial(B));
            Dense G; std::string why; bool ex = true;
            if (!assemble(parts, rp, cp, G, why, ex)) r.fail("product: " + why); else if (!dense_eq(G, dense(*S))) r.fail("distributed product != serial product of the assembled matrices");
            if (!sz) r.fail("product: global sizes wrong"); if (!ex) r.fail("inexact");
            r.out = join(parts); r.nontrivial = has_remote(A, rp, mp) && B.col.size() > 0; tags(r, "product", rp, cp, A.n != A.m || B.n != B.m);
        }
    } else if (op == "dist_gersh" || op == "dist_power") {
        long scf = c.nat(); need(scf == 0 || scf == 1); bool sc = scf != 0; long iters = 0; if (op == "dist_power") { iters = c.nat(); need(iters > 0); }
        Part p = part(c); Mat A = checked(c); c.expect_end(); need_mat(A, p, p);
        Ctx x = ctx_for(p.np()); if (!x.active) return r;
        auto D = make_dm(x, A, p, p);
        double g = sc ? amgcl::backend::spectral_radius<true>(*D, (int)iters) : amgcl::backend::spectral_radius<false>(*D, (int)iters);
        std::vector<double> all; bool same = same_on_all(x, g, all);
        if (x.rank) return r;
        if (!same) { std::string s = "spectral radius estimate differs between ranks:"; for (double v : all) s += " " + qd(v).str(); r.fail(s); }
        if (op == "dist_power") { r.out = same ? "rank-consistent" : "rank-inconsistent"; r.nontrivial = A.n > 1 && p.np() > 1; tags(r, "power", p, p, false); return r; }
        auto S = serial(A); double ref = sc ? amgcl::backend::spectral_radius<true>(*S, 0) : amgcl::backend::spectral_radius<false>(*S, 0);
        bool alldiag = true; for (long i = 0; i < A.n; ++i) { int nd = 0; for (auto j = A.ptr[i]; j < A.ptr[i+1]; ++j) if (A.col[j] == i) ++nd; if (nd != 1) alldiag = false; }
        if ((alldiag || !sc) && g != ref) r.fail("distributed Gershgorin estimate != serial estimate");
        if (!dyadic_ok(g)) r.fail("inexact");
        r.out = (Line() << qd(g)).get(); r.nontrivial = A.col.size() > 0 && p.np() > 1; tags(r, sc ? "gersh_scaled" : "gersh", p, p, false); if (!alldiag) r.tag("missing_diag");
    } else if (op == "dist_check") {
        auto f = c.natvec(); c.expect_end(); need(!f.empty() && (int)f.size() <= MAXNP); for (long v : f) need(v == 0 || v == 1);
        Ctx x = ctx_for((int)f.size()); if (!x.active) return r;
        bool threw = false;
        try { x.comm.check(f[x.rank] != 0, "verification harness: condition false on some rank"); } catch (const std::runtime_error&) { threw = true; }
        bool all_threw = all_true(x, threw), none_threw = all_true(x, !threw);
        if (x.rank) return r;
        bool expect = false; for (long v : f) if (!v) expect = true;
        if (expect ? !all_threw : !none_threw) r.fail("communicator::check did not throw consistently on all ranks");
        r.out = threw ? "precondition" : "ok"; r.nontrivial = expect && f.size() > 1; r.tag("check"); r.tag("np" + std::to_string(f.size()));
    } else r.out = "bad-op";
    return r;
}

// ---------------------------------------------------------------- generation (rank 0)
// integer matrix; optionally unsorted rows and integer-split duplicates
static Mat imat(Rng &rng, long n, long m, int dens, bool messy) {
    Mat A = gen_sparse(rng, n, m, dens, true);
    if (!messy) return A;
    auto rows = to_rows(A);
    if (rng.coin()) for (auto &r : rows) { size_t k = r.size(); for (size_t j = 0; j < k; ++j) if (rng.coin(1, 4)) { Q h = rng.integer(3); r[j].second -= h; r.push_back({r[j].first, h}); } }
    shuffle_rows_inplace(rng, rows);
    return from_rows(n, m, rows);
}
// square matrix with exactly one diagonal entry per row whose value is +-2^k (so that 1/dia is exact)
static Mat gmat(Rng &rng, long n, int dens, bool drop = false) {
    static const std::vector<Q> dv = { Q(1), Q(-1), Q(2), Q(4), Q(-2), Q::frac(1, 2), Q(8) };
    auto rows = to_rows(gen_sparse(rng, n, n, dens, true));
    for (long i = 0; i < n; ++i) { auto &r = rows[i]; r.erase(std::remove_if(r.begin(), r.end(), [&](const std::pair<long,Q> &e) { return e.first == i; }), r.end()); if (!(drop && rng.coin(1, 4))) r.push_back({i, rng.pick(dv)}); std::sort(r.begin(), r.end(), [](auto &a, auto &b) { return a.first < b.first; }); }
    return from_rows(n, n, rows);
}

static std::string gen_case(Rng &rng, int which, const std::vector<long> &rp, const std::vector<long> &mp, const std::vector<long> &cp, bool messy) {
    long n = 0, k = 0, m = 0; for (long s : rp) n += s; for (long s : mp) k += s; for (long s : cp) m += s;
    static const std::vector<Q> coef = { Q(0), Q(1), Q(-1), Q(2), Q(-3) };
    int dens = (int)rng.range(15, 70);
    Line l;
    switch (which) {
    case 0: l << "dist_split"; lp(l, rp); lp(l, cp); l << imat(rng, n, m, dens, messy); break;
    case 1: l << (rng.coin(1, 6) ? "dist_copy_spmv" : "dist_spmv"); lp(l, rp); lp(l, cp); l << rng.pick(coef) << imat(rng, n, m, dens, messy) << gen_vec(rng, m, true) << rng.pick(coef) << gen_vec(rng, n, true); break;
    case 2: l << "dist_residual"; lp(l, rp); lp(l, cp); l << imat(rng, n, m, dens, messy) << gen_vec(rng, n, true) << gen_vec(rng, m, true); break;
    case 3: l << "dist_ip"; lp(l, rp); l << gen_vec(rng, n, true) << gen_vec(rng, n, true); break;
    case 4: l << "dist_transpose"; lp(l, rp); lp(l, cp); l << imat(rng, n, m, dens, messy); break;
    case 5: l << "dist_product"; lp(l, rp); lp(l, mp); lp(l, cp); l << imat(rng, n, k, dens, messy) << imat(rng, k, m, dens, messy); break;
    case 6: l << "dist_remote_rows"; lp(l, rp); lp(l, mp); lp(l, cp); l << imat(rng, n, k, dens, messy) << imat(rng, k, m, dens, messy); break;
    case 7: { static const std::vector<Q> sv = { Q(0), Q(1), Q(-1), Q(2), Q::frac(1, 2), Q(3), Q::frac(-1, 4) }; l << "dist_scale"; lp(l, rp); lp(l, cp); l << imat(rng, n, m, dens, messy) << rng.pick(sv); break; }
    case 8: l << "dist_sort"; lp(l, rp); lp(l, cp); l << imat(rng, n, m, dens, true); break;
    case 9: { bool sc = rng.coin(); l << "dist_gersh" << sc; lp(l, rp); if (sc) l << gmat(rng, n, dens, rng.coin(1, 6)); else l << imat(rng, n, n, dens, messy); break; }
    default: l << "dist_power" << rng.coin() << rng.range(1, 4); lp(l, rp); l << gmat(rng, n, dens); break;
    }
    return l.get();
}

static void generate(Rng &rng, const Opts &o, std::vector<std::string> &lines) {
    const int W = std::min(g_wsize, MAXNP);
    // 1. every contiguous partition of n <= 5 (thorough: 6) rows over np = 1..W ranks, rows and columns partitioned
    //    alike; the op rotates (quick) / every op on every partition (thorough, n <= 5)
    int rot = 0;
    for (int np = 1; np <= W; ++np) for (long n = 0; n <= (o.thorough() ? 6 : 5); ++n) {
        std::vector<std::vector<long>> parts; std::vector<long> cur; compositions(n, np, cur, parts);
        for (auto &p : parts) {
            if (o.thorough() && n <= 4) { for (int w = 0; w <= 9; ++w) lines.push_back(gen_case(rng, w, p, p, p, false)); }
            else { int w = rot++ % 10; lines.push_back(gen_case(rng, w, p, p, p, rng.coin(1, 4))); }
        }
    }
    // 2. random sizes, independent row / inner / column partitions (rectangular matrices), empty ranks frequent
    long N = o.cases > 0 ? o.cases : (o.thorough() ? 6000 : 500);
    for (long k = 0; k < N; ++k) {
        int np = (int)rng.range(1, W); long hi = o.thorough() ? 30 : 12;
        long n = rng.range(0, hi), m = rng.coin(2, 3) ? n : rng.range(0, hi), kk = rng.coin(2, 3) ? n : rng.range(0, hi);
        int w = (int)rng.range(0, 10);
        auto rp = rand_part(rng, n, np);
        if (w == 3 || w >= 9) lines.push_back(gen_case(rng, w, rp, rp, rp, rng.coin(1, 3)));
        else lines.push_back(gen_case(rng, w, rp, rand_part(rng, kk, np), (m == n && rng.coin()) ? rp : rand_part(rng, m, np), rng.coin(1, 3)));
    }
    // 3. communicator::check
    for (int np = 1; np <= W; ++np) for (int k = 0; k < 3; ++k) { Line l; l << "dist_check" << np; for (int i = 0; i < np; ++i) l << (k == 0 ? 1L : (long)rng.coin()); lines.push_back(l.get()); }
    // 4. malformed stream: both sides must answer bad-input
    lines.push_back("dist_spmv 2 1 1 2 1 1 1 2 2 1 0 1 1 1 1 2 1 1 0 2 0 0 0");          // trailing token
    lines.push_back("dist_spmv 2 1 2 2 1 1 1 2 2 1 0 1 1 1 1 2 1 1 0 2 0 0");            // row partition sums to 3, matrix has 2 rows
    lines.push_back("dist_spmv 2 1 1 3 1 1 0 1 2 2 1 0 1 1 1 1 2 1 1 0 2 0 0");          // rank counts of the two partitions differ
    lines.push_back("dist_split 0 0 0 0");                                               // no ranks
    lines.push_back("dist_split 9 0 0 0 0 0 0 0 0 0 9 0 0 0 0 0 0 0 0 0 0 0");           // more than 8 ranks
    lines.push_back("dist_split 2 1 1 2 1 1 2 2 1 2 1 1 1 1");                           // column 2 in a 2-column matrix
    lines.push_back("dist_transpose 2 1 1 2 1 1 2 2 1 0 1/3 1 1 1");                     // value not exact in binary64
    lines.push_back("dist_ip 2 1 1 2 1 1 3 1 1 1");                                      // vector sizes differ
    lines.push_back("dist_gersh 2 1 1 1 1 0");                                           // bad flag
    lines.push_back("dist_check 2 1 2");                                                 // flag not 0/1
}

VH_MPI_MAIN(generate, execute)
