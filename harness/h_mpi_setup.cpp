// C12 harness (with model, certificate style): the SETUP phase of the distributed hierarchy under real MPI, in double.
//
//   dsetup kind vb bs cols eps over relax esr <part> A B [ | gexact <cpart> T P R Ac Bc ]
//
// kind 0: amgcl::mpi::coarsening::aggregation           (transfer_operators + coarse_operator, over_interp = over)
//      1: amgcl::mpi::coarsening::smoothed_aggregation  (relax, estimate_spectral_radius = esr, power_iters = 0)
// both on top of amgcl::mpi::coarsening::pmis (distributed PMIS aggregation + tentative prolongation), which is also
// run alone on a copy of the parameters (T, B_coarse).  vb = block size of the VALUE type (1: double, 2:
// static_matrix<double,2,2>); bs = aggr.block_size (pointwise aggregation, scalar values only); cols =
// aggr.nullspace.cols with the near-null-space vectors B (row-major, one row per (block) row of the matrix, each rank
// is handed its rows); eps = aggr.eps_strong.  A is the assembled SCALAR matrix (exact-in-binary64 data, rows
// sorted), <part> = `np s_1 .. s_np` its row distribution in scalar rows (multiples of vb*bs; empty and single-point
// ranks wanted).
//
// Certificate style (DESIGN.md 2.2, grade V): the generator emits the input part only; the harness runs the real code
// under MPI, gathers the outputs into GLOBAL matrices and appends them to the op line after `|`:
//   gexact   1 when s*R*A*P is exactly representable whatever the order of summation (small dyadic data)
//   cpart    coarse partition (scalar columns of P per rank)
//   T        gathered tentative prolongation of the stand-alone pmis run (for vb = 2: per block row, the scalar q of
//            every block q*I), P, R, Ac gathered and expanded to scalars, Bc = coarse near-null space (row-major)
// ops.txt holds the completed lines: the Lean driver (Driver/DistSetup.lean) evaluates the verified predicates of
// Model/DistSetupChecks.lean on them; a completed line given as input (replay, corpus) is re-executed and its
// certificate replaced by the current implementation's output.  Result line (both sides):
//   shape nonempty isolated ortho repro rt galerkin sa n nc            (1 / 0, `-` = not applicable)
// Implementation-side oracles (exact rationals on the gathered doubles, independent of the Lean model):
//   * the result line is all 1                                                                  [property]
//   * every rank's parts are well formed (local columns in range, remote columns really remote), the coarse
//     partition is the per-rank number of aggregates * width, the certificate contains finite numbers only
//   * aggregation: P == T entry by entry; R == P^T exactly; Ac == s R A P (exactly for gexact, else 2^-30 relative)
//     and == the SERIAL kernels coarsening::detail::scaled_galerkin on the gathered matrices
//   * B_coarse of the coarsening object == B_coarse of the stand-alone pmis run (bitwise)
//   * smoothed aggregation: eps_strong halved after the call
//   * np = 1: T and B_coarse are bitwise what the SERIAL pointwise_aggregates + tentative_prolongation kernels give
//     on the same matrix and threshold (the distributed algorithm on one rank IS plain aggregation; with >= 2 ranks
//     the aggregates legitimately depend on the rank boundaries and are not compared).  The serial `aggregation`
//     policy additionally removes aggregates smaller than nullspace.cols, the distributed one does not.
//   * block values (vb = 2): every block of T is q*I; isolation with the trace criterion of static_matrix::operator<
#include "mpi_common.hpp"
#include <amgcl/value_type/static_matrix.hpp>
#include <amgcl/mpi/coarsening/aggregation.hpp>
#include <amgcl/mpi/coarsening/smoothed_aggregation.hpp>
#include <amgcl/mpi/coarsening/pmis.hpp>
#include <amgcl/coarsening/pointwise_aggregates.hpp>
#include <amgcl/coarsening/tentative_prolongation.hpp>
#include <amgcl/coarsening/detail/galerkin.hpp>
#include <amgcl/coarsening/detail/scaled_galerkin.hpp>

typedef amgcl::static_matrix<double, 2, 2> B2;
typedef amgcl::backend::builtin<B2> BB2;
template <class V> struct VB { static const int N = 1; static double at(const V &v, int, int) { return v; } static V make(const double *b) { return b[0]; } };
template <> struct VB<B2> { static const int N = 2; static double at(const B2 &v, int a, int b) { return v(a, b); }
    static B2 make(const double *b) { B2 m; m(0,0) = b[0]; m(0,1) = b[1]; m(1,0) = b[2]; m(1,1) = b[3]; return m; } };

// ---------------------------------------------------------------- the case
struct In {
    long kind, vb, bs, cols, esr; Q eps, over, relax; Part P; Mat A; std::vector<Q> B;
    long n() const { return A.n; }
};
static bool pow2q(const Q &q) { if (!(q > 0)) return false; mpz_class a = q.v.get_num(), b = q.v.get_den(); return mpz_popcount(a.get_mpz_t()) == 1 && mpz_popcount(b.get_mpz_t()) == 1; }
static bool rows_sorted(const Mat &A) { for (long i = 0; i < A.n; ++i) for (auto j = A.ptr[i]; j + 1 < A.ptr[i+1]; ++j) if (!(A.col[j] < A.col[j+1])) return false; return true; }
static In parse_in(Cur &c) {
    In k; k.kind = c.nat(); k.vb = c.nat(); k.bs = c.nat(); k.cols = c.nat();
    k.eps = c.rat(); k.over = c.rat(); k.relax = c.rat(); exact(k.eps); exact(k.over); exact(k.relax); k.esr = c.nat();
    k.P = part(c); k.A = checked(c); k.B = c.vec(); for (auto &v : k.B) exact(v);
    need(k.kind == 0 || k.kind == 1); need(k.vb == 1 || k.vb == 2); need(k.bs >= 1 && k.bs <= 4 && k.cols >= 0 && k.cols <= 4); need(k.vb == 1 || k.bs == 1);
    need(k.esr == 0 || k.esr == 1); need(k.A.n == k.A.m && k.P.sum == k.A.n); for (long s : k.P.p) need(s % (k.vb * k.bs) == 0);
    need((long)k.B.size() == (k.A.n / k.vb) * k.cols); need(k.eps > 0 && k.over > 0 && k.relax > 0); need(k.kind == 1 || !k.esr); need(k.vb == 1 || !k.esr);
    return k;
}
// conditions the real code needs beyond well-formedness (the model side does not look at them: such a line never gets a certificate)
static void need_runnable(const In &k) {
    need(rows_sorted(k.A)); need(pow2q(k.eps) && pow2q(k.over));
    for (long i = 0; i < k.A.n; ++i) { bool d = false; for (auto j = k.A.ptr[i]; j < k.A.ptr[i+1]; ++j) if (k.A.col[j] == i && k.A.val[j] > 0) d = true; need(d); }
}
static std::string in_str(const In &k) {
    Line l; l << "dsetup" << k.kind << k.vb << k.bs << k.cols << k.eps << k.over << k.relax << k.esr; lp(l, k.P.p); l << k.A << k.B; return l.get();
}

// ---------------------------------------------------------------- gathered, scalar-expanded matrix
struct GMat { long n = 0, m = 0; std::vector<std::vector<std::pair<long,double>>> rows; };
static bool g_finite(const GMat &G) { for (auto &r : G.rows) for (auto &cv : r) if (!std::isfinite(cv.second)) return false; return true; }
static void put_gmat(Line &l, const GMat &G) { l << G.n << G.m; for (auto &r : G.rows) { l << (long)r.size(); for (auto &cv : r) { l << cv.first; l << qd(cv.second); } } }
static Dense g_dense(const GMat &G) { Dense D(G.n, std::vector<Q>(G.m)); for (long i = 0; i < G.n; ++i) for (auto &cv : G.rows[i]) if (cv.first >= 0 && cv.first < G.m) D[i][cv.first] += qd(cv.second); return D; }
static bool g_wf(const GMat &G) { if ((long)G.rows.size() != G.n) return false; for (auto &r : G.rows) for (auto &cv : r) if (cv.first < 0 || cv.first >= G.m) return false; return true; }

template <class Bk> static GMat gather(const amgcl::mpi::distributed_matrix<Bk> &M, bool &struct_ok) {
    typedef typename Bk::value_type V; const int N = VB<V>::N;
    amgcl::mpi::communicator comm = M.comm();
    const auto &L = *M.local(); const auto &R = *M.remote();
    std::vector<ptrdiff_t> rdom = comm.exclusive_sum((ptrdiff_t)M.loc_rows()), cdom = comm.exclusive_sum((ptrdiff_t)M.loc_cols());
    ptrdiff_t rb = rdom[comm.rank], cb = cdom[comm.rank], ce = cdom[comm.rank + 1], gc = cdom[comm.size];
    int ok = 1;
    if ((ptrdiff_t)L.ncols != M.loc_cols() || (ptrdiff_t)L.nrows != M.loc_rows() || (ptrdiff_t)R.nrows != M.loc_rows() || cb != M.loc_col_shift() || gc != M.glob_cols() || rdom[comm.size] != M.glob_rows()) ok = 0;
    std::vector<double> trip;
    for (size_t i = 0; i < L.nrows; ++i) for (int a = 0; a < N; ++a) {
        for (auto j = L.ptr[i]; j < L.ptr[i+1]; ++j) { if (L.col[j] < 0 || L.col[j] >= (ptrdiff_t)L.ncols) ok = 0; for (int b = 0; b < N; ++b) { trip.push_back((double)((rb + i) * N + a)); trip.push_back((double)((cb + L.col[j]) * N + b)); trip.push_back(VB<V>::at(L.val[j], a, b)); } }
        for (auto j = R.ptr[i]; j < R.ptr[i+1]; ++j) { if (R.col[j] < 0 || R.col[j] >= gc || (R.col[j] >= cb && R.col[j] < ce)) ok = 0; for (int b = 0; b < N; ++b) { trip.push_back((double)((rb + i) * N + a)); trip.push_back((double)(R.col[j] * N + b)); trip.push_back(VB<V>::at(R.val[j], a, b)); } }
    }
    int gok = 0; MPI_Allreduce(&ok, &gok, 1, MPI_INT, MPI_MIN, comm); if (!gok) struct_ok = false;
    int len = (int)trip.size(); std::vector<int> lens(comm.size), disp(comm.size, 0);
    MPI_Gather(&len, 1, MPI_INT, lens.data(), 1, MPI_INT, 0, comm);
    std::vector<double> all; int tot = 0; if (comm.rank == 0) { for (int r = 0; r < comm.size; ++r) { disp[r] = tot; tot += lens[r]; } } all.resize(tot + 1);
    MPI_Gatherv(trip.data(), len, MPI_DOUBLE, all.data(), lens.data(), disp.data(), MPI_DOUBLE, 0, comm);
    GMat G;
    if (comm.rank == 0) {
        G.n = (long)M.glob_rows() * N; G.m = (long)M.glob_cols() * N; G.rows.assign(G.n, {});
        for (int k = 0; k + 2 < tot; k += 3) { long i = (long)all[k]; if (i >= 0 && i < G.n) G.rows[i].push_back({(long)all[k+1], all[k+2]}); else struct_ok = false; }
    }
    return G;
}
static std::vector<double> gather_dv(amgcl::mpi::communicator comm, const std::vector<double> &v) {
    int len = (int)v.size(); std::vector<int> lens(comm.size), disp(comm.size, 0);
    MPI_Gather(&len, 1, MPI_INT, lens.data(), 1, MPI_INT, 0, comm);
    int tot = 0; if (comm.rank == 0) for (int r = 0; r < comm.size; ++r) { disp[r] = tot; tot += lens[r]; }
    std::vector<double> all(tot + 1);
    MPI_Gatherv(const_cast<double*>(v.data()), len, MPI_DOUBLE, all.data(), lens.data(), disp.data(), MPI_DOUBLE, 0, comm);
    all.resize(tot); return all;
}

// ---------------------------------------------------------------- running the real code
struct Out {
    bool struct_ok = true, same_B = true, halved = true, threw = false;
    std::vector<long> cpart; GMat T, P, R, Ac; std::vector<double> Bc;
};
template <class Bk> static std::shared_ptr<amgcl::mpi::distributed_matrix<Bk>> make_dmv(const Ctx &x, const In &k) {
    typedef typename Bk::value_type V; const int N = VB<V>::N;
    long rb = k.P.off[x.rank] / N, re = k.P.off[x.rank + 1] / N;
    std::vector<ptrdiff_t> ptr(1, 0), col; std::vector<V> val;
    for (long I = rb; I < re; ++I) {
        std::map<long, std::vector<double>> blk;
        for (int a = 0; a < N; ++a) { long i = I * N + a; for (auto j = k.A.ptr[i]; j < k.A.ptr[i+1]; ++j) { auto &b = blk[k.A.col[j] / N]; if (b.empty()) b.assign(N * N, 0.0); b[a * N + k.A.col[j] % N] += exact(k.A.val[j]); } }
        for (auto &cb : blk) { col.push_back(cb.first); val.push_back(VB<V>::make(cb.second.data())); }
        ptr.push_back((ptrdiff_t)col.size());
    }
    return std::make_shared<amgcl::mpi::distributed_matrix<Bk>>(x.comm, std::make_tuple((size_t)(re - rb), ptr, col, val), (ptrdiff_t)(re - rb));
}
template <class Bk> static Out run(const Ctx &x, const In &k) {
    typedef amgcl::mpi::distributed_matrix<Bk> DMv; const int N = VB<typename Bk::value_type>::N;
    Out o; int threw = 0;
    try {
        auto D = make_dmv<Bk>(x, k);
        long rb = k.P.off[x.rank] / N, re = k.P.off[x.rank + 1] / N;
        std::vector<double> Bl; for (long i = rb * k.cols; i < re * k.cols; ++i) Bl.push_back(exact(k.B[i]));
        typename amgcl::mpi::coarsening::pmis<Bk>::params ap; ap.eps_strong = exact(k.eps); ap.block_size = (unsigned)k.bs; ap.nullspace.cols = (int)k.cols; ap.nullspace.B = Bl;
        // the stand-alone aggregation: T and B_coarse
        std::vector<double> Bc1;
        { auto a1 = ap; amgcl::mpi::coarsening::pmis<Bk> ag(*D, a1); o.T = gather<Bk>(*ag.p_tent, o.struct_ok); Bc1 = a1.nullspace.B; if (!k.cols) Bc1.clear(); }
        std::shared_ptr<DMv> Pd, Rd, Acd; std::vector<double> Bc2;
        if (k.kind == 0) {
            typedef amgcl::mpi::coarsening::aggregation<Bk> C; typename C::params cp; cp.aggr = ap; cp.over_interp = (float)exact(k.over);
            C c(cp); std::tie(Pd, Rd) = c.transfer_operators(*D); Acd = c.coarse_operator(*D, *Pd, *Rd); Bc2 = c.prm.aggr.nullspace.B;
        } else {
            typedef amgcl::mpi::coarsening::smoothed_aggregation<Bk> C; typename C::params cp; cp.aggr = ap; cp.relax = exact(k.relax); cp.estimate_spectral_radius = k.esr != 0; cp.power_iters = 0;
            C c(cp); std::tie(Pd, Rd) = c.transfer_operators(*D); Acd = c.coarse_operator(*D, *Pd, *Rd); Bc2 = c.prm.aggr.nullspace.B;
            if (!(c.prm.aggr.eps_strong == 0.5 * exact(k.eps))) o.halved = false;
        }
        if (!k.cols) Bc2.clear();
        int same = Bc1.size() == Bc2.size() && (Bc1.empty() || !std::memcmp(Bc1.data(), Bc2.data(), Bc1.size() * sizeof(double))) ? 1 : 0, gs = 0;
        MPI_Allreduce(&same, &gs, 1, MPI_INT, MPI_MIN, x.comm); o.same_B = gs != 0;
        o.P = gather<Bk>(*Pd, o.struct_ok); o.R = gather<Bk>(*Rd, o.struct_ok); o.Ac = gather<Bk>(*Acd, o.struct_ok);
        o.Bc = gather_dv(x.comm, Bc1);
        std::vector<double> lc(1, (double)Pd->loc_cols() * N), all = gather_dv(x.comm, lc); for (double v : all) o.cpart.push_back((long)v);
    } catch (const std::exception &e) { threw = 1; if (getenv("VERIF_DEBUG")) std::cerr << "rank " << x.rank << ": " << e.what() << std::endl; }
    int gt = 0; MPI_Allreduce(&threw, &gt, 1, MPI_INT, MPI_MAX, x.comm); o.threw = gt != 0;
    return o;
}

// ---------------------------------------------------------------- certificate
struct Cert { long gexact = 0; std::vector<long> cpart; GMat T, P, R, Ac; std::vector<double> Bc; };
static GMat gmat_of(const Mat &M) { GMat G; G.n = M.n; G.m = M.m; G.rows.assign(M.n, {}); for (long i = 0; i < M.n; ++i) for (auto j = M.ptr[i]; j < M.ptr[i+1]; ++j) G.rows[i].push_back({(long)M.col[j], M.val[j].v.get_d()}); return G; }
static bool representable(const Q &q) { double d = q.v.get_d(); return std::isfinite(d) && mpq_class(d) == q.v; }
static GMat parse_gmat(Cur &c) { Mat M = c.mat(); for (auto &v : M.val) if (!representable(v)) throw bad_input("not binary64"); return gmat_of(M); }
static std::string cert_str(const Cert &c) {
    Line l; l << c.gexact; lp(l, c.cpart); put_gmat(l, c.T); put_gmat(l, c.P); put_gmat(l, c.R); put_gmat(l, c.Ac); l << c.Bc.size(); for (double v : c.Bc) l << qd(v); return l.get();
}
static Cert parse_cert(Cur &c) {
    Cert k; if (c.tok() != "|") throw bad_input("separator"); k.gexact = c.nat(); need(k.gexact == 0 || k.gexact == 1);
    k.cpart = c.natvec(); k.T = parse_gmat(c); k.P = parse_gmat(c); k.R = parse_gmat(c); k.Ac = parse_gmat(c);
    auto bc = c.vec(); for (auto &v : bc) { if (!representable(v)) throw bad_input("not binary64"); k.Bc.push_back(v.v.get_d()); } c.expect_end(); return k;
}
static bool small_dyadic(double v, long maxden, double maxabs) { return std::fabs(v) < maxabs && std::floor(v * (double)maxden) == v * (double)maxden; }
// T of the certificate: per block row for vb = 2 (the scalar q of the blocks q*I); blocks_ok = every block has that form
static GMat t_of(const In &k, const GMat &T, bool &blocks_ok) {
    if (k.vb == 1) return T;
    GMat G; G.n = T.n / 2; G.m = T.m / 2; G.rows.assign(G.n, {});
    for (long I = 0; I < G.n; ++I) {
        std::map<long, std::vector<double>> blk;
        for (int a = 0; a < 2; ++a) for (auto &cv : T.rows[2 * I + a]) { auto &b = blk[cv.first / 2]; if (b.empty()) b.assign(4, 0.0); b[a * 2 + cv.first % 2] += cv.second; }
        for (auto &cv : T.rows[2 * I]) if (cv.first % 2 == 0) { auto &b = blk[cv.first / 2]; G.rows[I].push_back({cv.first / 2, b[0]}); if (b[1] != 0 || b[2] != 0 || b[3] != b[0]) blocks_ok = false; }
        if (T.rows[2 * I].size() != T.rows[2 * I + 1].size()) blocks_ok = false;
    }
    return G;
}
static Cert make_cert(const In &k, const Out &o, bool &blocks_ok) {
    Cert c; c.cpart = o.cpart; c.T = t_of(k, o.T, blocks_ok); c.P = o.P; c.R = o.R; c.Ac = o.Ac; c.Bc = o.Bc;
    bool ex = k.kind == 0 && k.vb == 1;
    for (auto &v : k.A.val) if (!small_dyadic(v.v.get_d(), 16, 256.0)) ex = false;
    for (auto &r : o.P.rows) for (auto &cv : r) if (!small_dyadic(cv.second, 256, 2.0)) ex = false;
    c.gexact = ex ? 1 : 0; return c;
}

// ---------------------------------------------------------------- verdicts (exact rationals, mirrors Model/DistSetupChecks.lean)
static const Q RELTOL = Q::frac(1, 1L << 30);
static Q qabs(const Q &a) { return a < 0 ? -a : a; }
static bool within(const Q &tol, const Q &x) { return !(tol < x) && !(tol < -x); }
struct V8 { std::string tok[8]; std::string why, small_why; long small = 0; void fail(const std::string &w) { if (why.empty()) why = w; } };
static std::string b01(bool b) { return b ? "1" : "0"; }

static V8 verdicts(const In &k, const Cert &c, const std::shared_ptr<DCrs> &Aser) {
    V8 v; const long cols = k.cols, bs = k.bs, w = cols == 0 ? bs : cols; const GMat &T = c.T;
    const long nT = T.n;
    // ---- shape: every unknown in at most one aggregate, the unknowns of a point travel together
    auto row_agg = [&](long i) -> long { return T.rows[i].empty() ? -1 : T.rows[i][0].first / w; };
    bool shape = g_wf(T) && bs > 0 && nT % bs == 0 && T.m % w == 0;
    for (long i = 0; shape && i < nT; ++i) {
        auto &r = T.rows[i]; if (r.empty()) continue;
        if (cols == 0) shape = r.size() == 1 && r[0].second == 1.0 && r[0].first % bs == i % bs;
        else { shape = (long)r.size() == cols; long c0 = r[0].first; for (long j = 0; shape && j < cols; ++j) shape = r[j].first == (c0 / cols) * cols + j; }
        if (!shape) v.fail("aggregates are not a partition: row " + std::to_string(i) + " of the tentative prolongation is not " + (cols ? "the column block of one aggregate" : "a single unit entry in the column of its aggregate"));
    }
    for (long p = 0; shape && p < nT / bs; ++p) for (long q = 0; q < bs; ++q) if (row_agg(p * bs + q) != row_agg(p * bs)) { shape = false; v.fail("the unknowns of point " + std::to_string(p) + " are in different aggregates"); }
    if (!shape) v.fail("tentative prolongation is malformed");
    // ---- no empty aggregate
    bool nonempty = true; { std::vector<char> used(w > 0 ? T.m / w + 1 : 1, 0); for (long i = 0; i < nT; ++i) { long a = row_agg(i); if (a >= 0 && a < (long)used.size()) used[a] = 1; }
        for (long a = 0; w > 0 && a < T.m / w; ++a) if (!used[a]) { nonempty = false; v.fail("empty aggregate: column block " + std::to_string(a) + " of the tentative prolongation has no row (numbering after the removal of vanished aggregates is not contiguous)"); } }
    // ---- isolation
    const Q eps2 = k.eps * k.eps; bool iso = true;
    Dense S; long np_ = 0;
    if (k.vb == 1) { if (bs == 1) S = dense(k.A); else { auto Sp = amgcl::backend::pointwise_matrix(*Aser, (unsigned)bs); S.assign(Sp->nrows, std::vector<Q>(Sp->ncols)); for (size_t i = 0; i < Sp->nrows; ++i) for (auto j = Sp->ptr[i]; j < Sp->ptr[i+1]; ++j) S[i][Sp->col[j]] += qd(Sp->val[j]); } np_ = (long)S.size(); }
    auto strong_pt = [&](long p, long q) -> bool {               // point level, p != q
        return S[p][q] != 0 && eps2 * S[p][p] * S[q][q] < S[p][q] * S[p][q]; };
    std::vector<std::vector<char>> strongB;                       // vb = 2: block trace criterion
    if (k.vb == 2) {
        Dense Ad = dense(k.A); np_ = k.A.n / 2; strongB.assign(np_, std::vector<char>(np_, 0));
        auto blk = [&](long I, long J, Q b[4]) { for (int a = 0; a < 2; ++a) for (int d = 0; d < 2; ++d) b[a * 2 + d] = Ad[2 * I + a][2 * J + d]; };
        auto trmul = [&](const Q x[4], const Q y[4]) { return x[0] * y[0] + x[1] * y[2] + x[2] * y[1] + x[3] * y[3]; };
        std::vector<char> stored((size_t)np_ * np_, 0); for (long i = 0; i < k.A.n; ++i) for (auto j = k.A.ptr[i]; j < k.A.ptr[i+1]; ++j) stored[(i / 2) * np_ + k.A.col[j] / 2] = 1;
        for (long I = 0; I < np_; ++I) for (long J = 0; J < np_; ++J) if (I != J && stored[I * np_ + J]) { Q di[4], dj[4], vv[4]; blk(I, I, di); blk(J, J, dj); blk(I, J, vv); if (eps2 * trmul(di, dj) < trmul(vv, vv)) strongB[I][J] = 1; }
    }
    auto strongP = [&](long p, long q) -> bool { return k.vb == 2 ? strongB[p][q] != 0 : strong_pt(p, q); };
    for (long p = 0; p < np_ && p * bs < nT; ++p) if (T.rows[p * bs].empty()) for (long q = 0; q < np_; ++q) if (q != p && strongP(p, q)) { iso = false; v.fail("unknown " + std::to_string(p * bs) + " has a strong connection to " + std::to_string(q * bs) + " but is in no aggregate"); break; }
    // ---- orthonormal columns, P_tent * B_c = B
    Dense Td = g_dense(T); bool ortho = true, repro = true;
    if (cols > 0) {
        // aggregates with fewer unknowns than near-null-space vectors: their trailing columns cannot be orthonormal
        std::vector<long> members(T.m / cols + 1, 0); for (long i = 0; i < nT; ++i) { long a = row_agg(i); if (a >= 0 && a < (long)members.size()) ++members[a]; }
        for (long a = 0; a < T.m && ortho; ++a) for (long b = 0; b < T.m; ++b) { Q g; for (long i = 0; i < nT; ++i) g += Td[i][a] * Td[i][b]; if (!within(RELTOL, g - Q(a == b ? 1 : 0))) {
            ortho = false; long ag = a / cols;
            if (a == b && g == 0 && members[ag] > 0 && members[ag] < cols) { ++v.small; v.small_why = "small aggregate: aggregate " + std::to_string(ag) + " has " + std::to_string(members[ag]) + " unknown(s) < nullspace.cols = " + std::to_string(cols) + ": column " + std::to_string(a) + " of the distributed tentative prolongation is zero (P_tent^T P_tent != I, the coarse operator gets a zero row and column)"; }
            else v.fail("columns " + std::to_string(a) + ", " + std::to_string(b) + " of the tentative prolongation are not orthonormal: inner product " + std::to_string(g.v.get_d()));
            break; } }
        Q mb(1); for (auto &b : k.B) if (mb < qabs(b)) mb = qabs(b); Q tolB = RELTOL * mb;
        for (long i = 0; i < nT && repro; ++i) if (!T.rows[i].empty()) for (long kk = 0; kk < cols; ++kk) {
            Q s; for (auto &cv : T.rows[i]) { size_t bi = (size_t)cv.first * cols + kk; s += qd(cv.second) * (bi < c.Bc.size() ? qd(c.Bc[bi]) : Q(0)); }
            if (!within(tolB, s - k.B[i * cols + kk])) { repro = false; v.fail("near-null space not reproduced: (P_tent B_c)(" + std::to_string(i) + "," + std::to_string(kk) + ") = " + std::to_string(s.v.get_d()) + ", B = " + std::to_string(k.B[i * cols + kk].v.get_d())); break; }
        }
    }
    // ---- R = P^T, A_c = s R A P
    Dense Pd = g_dense(c.P), Rd = g_dense(c.R), Acd = g_dense(c.Ac), Ad = dense(k.A);
    bool rt = g_wf(c.R) && g_wf(c.P) && c.R.n == c.P.m && c.R.m == c.P.n; for (long i = 0; rt && i < c.R.n; ++i) for (long j = 0; j < c.R.m; ++j) if (Rd[i][j] != Pd[j][i]) { rt = false; break; }
    if (!rt) v.fail("R != P^T");
    Q s = k.kind == 0 ? Q(1) / k.over : Q(1);
    bool gal = g_wf(c.Ac) && c.R.m == k.A.n && k.A.m == c.P.n && c.Ac.n == c.R.n && c.Ac.m == c.P.m;
    if (gal) { Dense G = dmul(Rd, dmul(Ad, Pd, c.P.m), c.P.m); Q sc(1); for (auto &r : G) for (auto &e : r) if (sc < qabs(s * e)) sc = qabs(s * e); Q tol = (c.gexact ? Q(0) : RELTOL) * sc;
        for (long i = 0; gal && i < c.Ac.n; ++i) for (long j = 0; j < c.Ac.m; ++j) if (!within(tol, Acd[i][j] - s * G[i][j])) { gal = false; v.fail("distributed coarse operator != s*R*A*P at (" + std::to_string(i) + "," + std::to_string(j) + "): " + std::to_string(Acd[i][j].v.get_d()) + " vs " + std::to_string((s * G[i][j]).v.get_d()) + (c.gexact ? " (exact)" : "")); break; } }
    else v.fail("coarse operator has the wrong shape");
    // ---- smoothed aggregation: P = (I - w Df^-1 Af) T
    bool sa = true; const bool sa_app = k.kind == 1 && k.vb == 1;
    if (sa_app) {
        const long n = k.A.n; Q omega = k.relax;
        if (k.esr) { Q rho; for (long i = 0; i < n; ++i) { Q sum; for (long j = 0; j < n; ++j) sum += qabs(Ad[i][j]); Q e = sum * qabs(Q(1) / Ad[i][i]); if (rho < e) rho = e; } omega = omega * (Q::frac(4, 3) / rho); } else omega = omega * Q::frac(2, 3);
        auto strongAt = [&](long i, long j) { return i / bs == j / bs || strong_pt(i / bs, j / bs); };
        sa = c.P.n == n && T.n == n && c.P.m == T.m;
        if (sa) {
            Dense E(n, std::vector<Q>(T.m)); Q sc(1);
            for (long i = 0; i < n; ++i) {
                Q d; for (auto j = k.A.ptr[i]; j < k.A.ptr[i+1]; ++j) if (k.A.col[j] == i || !strongAt(i, k.A.col[j])) d += k.A.val[j];
                for (long cc = 0; cc < T.m; ++cc) { Q e = (Q(1) - omega) * Td[i][cc]; for (auto j = k.A.ptr[i]; j < k.A.ptr[i+1]; ++j) if (k.A.col[j] != i && strongAt(i, k.A.col[j])) e += (-(omega / d)) * k.A.val[j] * Td[k.A.col[j]][cc]; E[i][cc] = e; if (sc < qabs(e)) sc = qabs(e); }
            }
            Q tol = RELTOL * sc;
            for (long i = 0; sa && i < n; ++i) for (long cc = 0; cc < T.m; ++cc) if (!within(tol, Pd[i][cc] - E[i][cc])) { sa = false; v.fail("P(" + std::to_string(i) + "," + std::to_string(cc) + ") = " + std::to_string(Pd[i][cc].v.get_d()) + " but ((I - w Df^-1 Af) P_tent) = " + std::to_string(E[i][cc].v.get_d())); break; }
        } else v.fail("smoothed prolongation has the wrong shape");
    }
    v.tok[0] = b01(shape); v.tok[1] = b01(nonempty); v.tok[2] = k.vb == 2 ? "-" : b01(iso); v.tok[3] = cols ? b01(ortho) : "-"; v.tok[4] = cols ? b01(repro) : "-";
    v.tok[5] = b01(rt); v.tok[6] = b01(gal); v.tok[7] = sa_app ? b01(sa) : "-";
    if (k.vb == 2 && !iso && v.why.empty()) v.fail("isolation");
    return v;
}

// ---------------------------------------------------------------- further implementation-side oracles
static std::shared_ptr<DCrs> to_crs(const GMat &G) {
    std::vector<ptrdiff_t> ptr(1, 0), col; std::vector<double> val;
    for (auto &r : G.rows) { std::map<long,double> m; for (auto &cv : r) m[cv.first] += cv.second; for (auto &cv : m) { col.push_back(cv.first); val.push_back(cv.second); } ptr.push_back((ptrdiff_t)col.size()); }
    return std::make_shared<DCrs>((size_t)G.n, (size_t)G.m, ptr, col, val);
}
static void extra_oracles(Result &r, const In &k, const Out &o, const Cert &c, const std::shared_ptr<DCrs> &Aser, int np) {
    const long w = k.cols == 0 ? k.bs : k.cols;
    if (!o.struct_ok) r.fail("a rank's local/remote parts are malformed (local column out of range, remote column not remote, sizes)");
    if (!o.same_B) r.fail("B_coarse of the coarsening object differs from B_coarse of the stand-alone pmis run");
    if (!o.halved) r.fail("smoothed_aggregation: eps_strong is not halved for the next level");
    { long sum = 0; for (long q : c.cpart) { sum += q; if (q % (w * k.vb) != 0) r.fail("coarse partition is not a multiple of the aggregate width"); } if (sum != c.P.m || c.T.m * k.vb != c.P.m) r.fail("coarse partition does not add up to the columns of P"); }
    if ((long)c.Bc.size() != c.T.m * k.cols) r.fail("B_coarse has " + std::to_string(c.Bc.size()) + " entries for " + std::to_string(c.T.m) + " coarse unknowns and " + std::to_string(k.cols) + " vectors");
    if (k.kind == 0) {   // plain aggregation: P is the tentative prolongation
        Dense a = g_dense(o.T), b = g_dense(o.P); if (!dense_eq(a, b)) r.fail("aggregation: P differs from the tentative prolongation of the stand-alone pmis run");
    }
    // serial Galerkin kernels on the gathered matrices
    if (k.vb == 1 && g_wf(c.P) && g_wf(c.R) && g_wf(c.Ac) && c.R.m == k.A.n && c.P.n == k.A.n) {
        auto Ps = to_crs(c.P), Rs = to_crs(c.R);
        std::shared_ptr<DCrs> G = k.kind == 0 ? amgcl::coarsening::detail::scaled_galerkin(*Aser, *Ps, *Rs, 1 / (float)exact(k.over)) : amgcl::coarsening::detail::galerkin(*Aser, *Ps, *Rs);
        Dense Gd(G->nrows, std::vector<Q>(G->ncols)); for (size_t i = 0; i < G->nrows; ++i) for (auto j = G->ptr[i]; j < G->ptr[i+1]; ++j) Gd[i][G->col[j]] += qd(G->val[j]);
        Dense Acd = g_dense(c.Ac); Q sc(1); for (auto &row : Gd) for (auto &e : row) if (sc < qabs(e)) sc = qabs(e); Q tol = (c.gexact ? Q(0) : RELTOL) * sc; bool ok = Gd.size() == Acd.size();
        for (size_t i = 0; ok && i < Gd.size(); ++i) for (size_t j = 0; j < Gd[i].size(); ++j) if (!within(tol, Gd[i][j] - Acd[i][j])) { ok = false; break; }
        if (!ok) r.fail("distributed coarse operator differs from the serial Galerkin kernels on the gathered matrices");
        r.tag(c.gexact ? "galerkin_exact" : "galerkin_tol");
    }
    // one rank: the distributed aggregation is the serial one
    if (np == 1 && k.vb == 1) {
        amgcl::coarsening::pointwise_aggregates::params sp; sp.eps_strong = (float)exact(k.eps); sp.block_size = (unsigned)k.bs;
        bool empty = false; std::shared_ptr<DCrs> Ps; amgcl::coarsening::nullspace_params ns; ns.cols = (int)k.cols; for (auto &b : k.B) ns.B.push_back(exact(b));
        // the serial aggregation policy drops aggregates with fewer unknowns than nullspace.cols (remove_small_aggregates),
        // the distributed one has no such step: comparable only when the distributed result has no such aggregate
        bool small = false; if (k.cols) { std::map<long,long> cnt; for (auto &row : c.T.rows) if (!row.empty()) ++cnt[row[0].first / k.cols]; for (auto &e : cnt) if (e.second < k.cols) small = true; }
        if (small) { r.tag("np1_small_aggregate"); return; }
        try { amgcl::coarsening::pointwise_aggregates ag(*Aser, sp, (unsigned)std::max<long>(k.cols, 1)); Ps = amgcl::coarsening::tentative_prolongation<DCrs>((size_t)k.A.n, ag.count, ag.id, ns, (int)k.bs); }
        catch (const amgcl::error::empty_level &) { empty = true; }
        if (empty) { if (c.T.m != 0) r.fail("np = 1: serial aggregation finds no aggregate, the distributed one finds " + std::to_string(c.T.m / w)); }
        else {
            bool same = (long)Ps->nrows == c.T.n && (long)Ps->ncols == c.T.m;
            for (long i = 0; same && i < c.T.n; ++i) { auto &row = c.T.rows[i]; same = (long)row.size() == Ps->ptr[i+1] - Ps->ptr[i]; for (size_t j = 0; same && j < row.size(); ++j) { double d = Ps->val[Ps->ptr[i] + j]; same = row[j].first == Ps->col[Ps->ptr[i] + j] && !std::memcmp(&d, &row[j].second, sizeof(double)); } }
            if (!same) r.fail("np = 1: the distributed tentative prolongation differs from serial pointwise_aggregates + tentative_prolongation on the same matrix");
            if (k.cols) { bool sb = ns.B.size() == c.Bc.size() && (ns.B.empty() || !std::memcmp(ns.B.data(), c.Bc.data(), ns.B.size() * sizeof(double))); if (!sb) r.fail("np = 1: B_coarse differs from the serial tentative_prolongation kernel"); }
            r.tag("np1_serial");
        }
    }
}

// ---------------------------------------------------------------- one op
static Result execute(const Toks &t, std::string *full) {
    Cur c(t); const std::string &op = t[0]; Result r;
    if (op != "dsetup") { r.out = "bad-op"; return r; }
    In k = parse_in(c); const bool has_cert = !c.end(); Cert given; std::string given_s;
    if (has_cert) { size_t at = c.i; given = parse_cert(c); for (size_t i = at + 1; i < t.size(); ++i) { if (i > at + 1) given_s += ' '; given_s += t[i]; } }
    if (!has_cert) { try { need_runnable(k); } catch (const bad_input &) { r.out = "needs-certificate"; r.fail("harness: generated an input the real code cannot be run on"); return r; } }
    else need_runnable(k);
    Ctx x = ctx_for(k.P.np()); if (!x.active) return r;
    Out o = k.vb == 1 ? run<BD>(x, k) : run<BB2>(x, k);
    if (x.rank) return r;
    const bool finite = g_finite(o.T) && g_finite(o.P) && g_finite(o.R) && g_finite(o.Ac) && std::all_of(o.Bc.begin(), o.Bc.end(), [](double v) { return std::isfinite(v); });
    if (o.threw || !finite) { r.out = o.threw ? "exception" : "nonfinite"; r.fail(o.threw ? "the real code threw on some rank" : "non-finite entry in T / P / R / A_c / B_coarse"); r.tag("dsetup"); return r; }
    bool blocks_ok = true; Cert mine = make_cert(k, o, blocks_ok);
    if (!blocks_ok) r.fail("block values: a block of the tentative prolongation is not a multiple of the identity");
    // a completed line given as input (replay, corpus) is re-executed: the verdicts are those of the CURRENT implementation's
    // output, which also replaces the certificate of the line in ops.txt (so that a replay recorded on a broken tree passes
    // once the tree is repaired); a differing certificate is only tagged
    if (has_cert && given_s != cert_str(mine)) r.tag("certificate_refreshed");
    const Cert &ct = mine;
    if (full) *full = in_str(k) + " | " + cert_str(mine);
    auto Aser = serial(k.A);
    V8 v = verdicts(k, ct, Aser);
    Line l; for (int i = 0; i < 8; ++i) l << v.tok[i]; l << k.A.n << ct.P.m; r.out = l.get();
    if (!v.why.empty()) r.fail(v.why);
    extra_oracles(r, k, o, ct, Aser, x.np);
    if (!v.small_why.empty()) r.fail(v.small_why);       // reported last: never hides another failure of the case
    for (int i = 0; i < 8; ++i) if (v.tok[i] == "0") r.fail("predicate " + std::to_string(i) + " is false");
    bool emptyr = false, single = false; for (long s : k.P.p) { if (!s) emptyr = true; if (s == k.vb * k.bs) single = true; }
    r.nontrivial = x.np > 1 && ct.P.m >= 1 && has_remote(k.A, k.P, k.P);
    r.tag("dsetup"); r.tag(k.kind ? "sa" : "aggr"); r.tag("np" + std::to_string(x.np)); r.tag("bs" + std::to_string(k.bs)); r.tag("cols" + std::to_string(k.cols)); if (k.vb == 2) r.tag("blockvalue");
    if (emptyr) r.tag("emptyrank"); if (single) r.tag("singlepointrank"); if (k.esr) r.tag("esr"); if (!is_symmetric(k.A)) r.tag("nonsym");
    { long na = ct.T.m / (k.cols ? k.cols : k.bs), small = 0; std::vector<long> cnt(na + 1, 0); for (auto &row : ct.T.rows) if (!row.empty()) { long a = row[0].first / (k.cols ? k.cols : k.bs); if (a >= 0 && a < na) ++cnt[a]; } for (long a = 0; a < na; ++a) if (cnt[a] * (k.vb == 2 ? 1 : 1) < std::max<long>(k.cols, 1)) ++small; if (small) r.tag("small_aggregate"); if (na == 0) r.tag("no_aggregates"); }
    return r;
}

// ---------------------------------------------------------------- generator
static Mat expand(Rng &rng, const Mat &Ap, long b, bool couple) {
    // scalar matrix with b unknowns per point: Kronecker with I_b, optional couplings between the unknowns of neighbouring
    // / the same point; rows sorted; every row keeps the dominance of the point row
    if (b == 1) return Ap;
    long n = Ap.n * b; std::vector<std::map<long,Q>> rows(n);
    for (long p = 0; p < Ap.n; ++p) for (long kx = 0; kx < b; ++kx) {
        long i = p * b + kx; Q off(0), dia(0);
        for (auto j = Ap.ptr[p]; j < Ap.ptr[p+1]; ++j) { long q = Ap.col[j]; Q v = Ap.val[j]; if (q == p) { dia = v; continue; }
            rows[i][q * b + kx] += v; off += v < 0 ? -v : v;
            if (couple && rng.coin(1, 3)) { long k2 = (kx + 1) % b; Q h = v * Q::frac(1, 4); rows[i][q * b + k2] += h; off += h < 0 ? -h : h; } }
        Q point_off(0); for (auto j = Ap.ptr[p]; j < Ap.ptr[p+1]; ++j) if (Ap.col[j] != p) point_off += Ap.val[j] < 0 ? -Ap.val[j] : Ap.val[j];
        if (couple && rng.coin(1, 3)) { long k2 = (kx + 1) % b; rows[i][p * b + k2] += Q::frac(-1, 2); off += Q::frac(1, 2); }
        rows[i][i] += dia + (off - point_off);
    }
    std::vector<std::vector<std::pair<long,Q>>> rr(n); for (long i = 0; i < n; ++i) for (auto &cv : rows[i]) if (cv.first == i || cv.second != 0) rr[i].push_back({cv.first, cv.second});
    return from_rows(n, n, rr);
}
static Mat drop_directions(Rng &rng, const Mat &A, int num, int den) {
    // structurally / numerically non-symmetric: one direction of some couplings removed or weakened (rows stay dominant)
    auto rows = to_rows(A);
    for (long i = 0; i < A.n; ++i) { std::vector<std::pair<long,Q>> keep; for (auto &cv : rows[i]) { if (cv.first != i && rng.coin(num, den)) { if (rng.coin()) continue; keep.push_back({cv.first, cv.second * Q::frac(1, 64)}); } else keep.push_back(cv); } rows[i] = keep; }
    return from_rows(A.n, A.m, rows);
}
static std::vector<long> part_points(Rng &rng, long npts, int np, int fam) {
    std::vector<long> p;
    if (fam == 2 && np >= 3 && npts >= np) {            // single-point ranks between larger ones
        p.assign(np, 1); long rest = npts - np; p[0] += rest / 2; p[np - 1] += rest - rest / 2; if (np >= 5 && rng.coin()) { p[np / 2] += p[0] - 1; p[0] = 1; }
        return p;
    }
    return rand_part(rng, npts, np);
}
static In gen_case(Rng &rng, long k, bool th, int W) {
    In c; int fam = (int)(k % 6);
    int np = (k % 5 == 4) ? 1 : (int)rng.range(2, W); if (np > W) np = W;
    c.vb = (k % 7 == 3) ? 2 : 1; c.bs = c.vb == 2 ? 1 : (long)std::vector<long>{1, 1, 2, 1, 3, 2}[rng.range(0, 5)];
    c.cols = (long)std::vector<long>{0, 1, 2, 3, 1, 2, 0, 3}[rng.range(0, 7)]; c.kind = rng.coin(1, 3) ? 1 : 0;
    static const long EPSD[] = { 4, 8, 16, 2, 32, 4, 8 }; c.eps = Q::frac(1, EPSD[rng.range(0, 6)]);
    static const Q OVER[] = { Q(1), Q(2), Q::frac(1, 2), Q(4) }; c.over = c.kind == 0 ? OVER[rng.range(0, 3)] : Q(1);
    static const Q RELAX[] = { Q(1), Q(1), Q::frac(1, 2), Q::frac(3, 4), Q::frac(5, 4) }; c.relax = c.kind == 1 ? RELAX[rng.range(0, 4)] : Q(1);
    c.esr = c.kind == 1 && c.vb == 1 && rng.coin(1, 3);
    const long b = c.vb * c.bs; long maxp = (th ? 40 : 26) / (b > 1 ? 2 : 1);
    Mat Ap;
    if (fam == 2) { long n = rng.range(std::max<long>(np, 4), std::max<long>(np + 2, maxp / 2)); std::vector<Edge> e; for (long i = 0; i + 1 < n; ++i) e.push_back({i, i + 1, rng.coin(1, 4) ? Q::frac(rng.range(1, 4), 2) : Q(1)}); std::vector<Q> sh(n, Q(0)); sh[0] = Q(1); if (rng.coin()) sh[n - 1] = Q(1); Ap = mmatrix_from_edges(n, e, sh); }
    else if (fam == 3) {   // two-scale grid: weak couplings in one direction
        long nx = rng.range(2, 5), ny = rng.range(2, std::max<long>(2, maxp / nx)); std::vector<Edge> e; Q s = Q::frac(rng.range(1, 4), rng.range(1, 2)), wk = s * Q::frac(1, 1L << rng.range(3, 6)); bool sx = rng.coin();
        for (long j = 0; j < ny; ++j) for (long i = 0; i < nx; ++i) { long q = j * nx + i; if (i + 1 < nx) e.push_back({q, q + 1, sx ? s : wk}); if (j + 1 < ny) e.push_back({q, q + nx, sx ? wk : s}); }
        std::vector<Q> sh(nx * ny, Q(0)); sh[rng.range(0, nx * ny - 1)] = s; Ap = mmatrix_from_edges(nx * ny, e, sh);
    } else Ap = gen_spd(rng, rng.range(4, maxp), (int)rng.range(0, 3), 4);
    if (fam == 1 || fam == 4) Ap = drop_directions(rng, Ap, fam == 1 ? 1 : 2, fam == 1 ? 3 : 3);
    if (fam == 5 && rng.coin()) { auto rows = to_rows(Ap); long i = rng.range(0, Ap.n - 1); std::vector<std::pair<long,Q>> d; for (auto &cv : rows[i]) if (cv.first == i) d.push_back(cv); rows[i] = d; Ap = from_rows(Ap.n, Ap.m, rows); }   // a row that points to nobody
    c.A = expand(rng, Ap, b, rng.coin());
    auto pp = part_points(rng, Ap.n, np, fam); c.P.p.clear(); c.P.off.assign(1, 0); for (long s : pp) { c.P.p.push_back(s * b); c.P.off.push_back(c.P.off.back() + s * b); } c.P.sum = c.P.off.back();
    long nb = c.A.n / c.vb; c.B.assign(nb * c.cols, Q(0)); int style = (int)rng.range(0, 2);
    for (long i = 0; i < nb; ++i) for (long j = 0; j < c.cols; ++j) {
        Q v;
        if (style == 0) v = j == 0 ? Q(1) : j == 1 ? Q((i / c.bs) % 5 - 2) : Q::frac(rng.range(-8, 8), 4);
        else if (style == 1) v = (i % c.bs == j % c.bs) ? Q(1 + (j >= c.bs ? (i / c.bs) % 3 : 0)) : Q(j >= c.bs ? rng.range(-2, 2) : 0);
        else v = Q::frac(rng.range(-6, 6), 2);
        c.B[i * c.cols + j] = v;
    }
    if (style == 2) for (long i = 0; i < nb && c.cols; ++i) c.B[i * c.cols] = Q(1);
    return c;
}
// the seed of an aggregate loses itself and its only member to a seed on another rank (asymmetric strength): the
// numbering of rank 0 has a hole that pmis.hpp:649-701 must close and tell the other ranks about
static In gadget_vanish(Rng &rng, int np, long cols) {
    In c; c.kind = 0; c.vb = 1; c.bs = 1; c.cols = cols; c.eps = Q::frac(1, 4); c.over = Q(1); c.relax = Q(1); c.esr = 0;
    // rank 0: chain of m >= 2 pairs {i_t, c_t} strongly coupled inside, plus a tail; rank 1..: unknowns j_t with a one-way strong coupling j_t -> i_t
    long m = rng.range(1, 3), tail = rng.range(0, 3), n0 = 2 * m + tail, nj = m, rest = rng.range(0, 4); long n = n0 + nj + rest;
    std::vector<std::map<long,Q>> rows(n);
    auto sym = [&](long a, long b2, Q w) { rows[a][b2] -= w; rows[b2][a] -= w; };
    for (long t = 0; t < m; ++t) { sym(2 * t, 2 * t + 1, Q(2)); }
    for (long t = 0; t + 1 < tail; ++t) sym(2 * m + t, 2 * m + t + 1, Q(1));
    for (long t = 0; t < m; ++t) rows[n0 + t][2 * t] -= Q(2);                       // one way: j_t -> i_t
    for (long t = 0; t + 1 < rest; ++t) sym(n0 + nj + t, n0 + nj + t + 1, Q(1));
    if (rest && rng.coin()) sym(n0 + nj, n0 + nj - 1, Q(1));
    for (long i = 0; i < n; ++i) { Q off(0); for (auto &cv : rows[i]) off += cv.second < 0 ? -cv.second : cv.second; rows[i][i] = off + Q::frac(rng.range(0, 2), 2) + (off == 0 ? Q(1) : Q(0)); }
    std::vector<std::vector<std::pair<long,Q>>> rr(n); for (long i = 0; i < n; ++i) for (auto &cv : rows[i]) rr[i].push_back({cv.first, cv.second});
    c.A = from_rows(n, n, rr);
    std::vector<long> p(np, 0); p[0] = n0; long left = n - n0; for (int r = 1; r < np; ++r) { long s = r + 1 == np ? left : std::min<long>(left, r == 1 ? nj : rng.range(0, left)); p[r] = s; left -= s; }
    c.P.p = p; c.P.off.assign(1, 0); for (long s : p) c.P.off.push_back(c.P.off.back() + s); c.P.sum = n;
    c.B.assign(n * cols, Q(0)); for (long i = 0; i < n; ++i) for (long j = 0; j < cols; ++j) c.B[i * cols + j] = j == 0 ? Q(1) : Q(i % 3 - 1);
    return c;
}
// a vanished aggregate with a LOW number on a rank whose surviving aggregate with a HIGHER number has a member on
// another rank: after the renumbering that rank must be told the new number (pmis.hpp:657-694).
//   rank 0: u (+ chain)      rank 1: i, c, m (+ chain)      rank 2: j (+ chain)
//   i <-> c and m <-> u strongly coupled both ways, j -> i one way: rank 1 creates {i, c} = 0 and {m, u} = 1, j (higher
//   rank) takes i and c, aggregate 0 of rank 1 vanishes, {m, u} becomes 0 and u on rank 0 has to learn it
static In gadget_notify(Rng &rng, int np, long cols) {
    In c; c.kind = rng.coin(1, 4) ? 1 : 0; c.vb = 1; c.bs = 1; c.cols = cols; c.eps = Q::frac(1, 4); c.over = Q(1); c.relax = Q(1); c.esr = 0;
    long t0 = rng.range(0, 2), t1 = rng.range(0, 2), t2 = rng.range(0, 3); long n0 = 1 + t0, n1 = 3 + t1, n2 = 1 + t2, n = n0 + n1 + n2;
    const long u = n0 - 1, i = n0, cc = n0 + 1, m = n0 + 2, j = n0 + n1;
    std::vector<std::map<long,Q>> rows(n);
    auto sym = [&](long a, long b2, Q w) { rows[a][b2] -= w; rows[b2][a] -= w; };
    sym(i, cc, Q(2)); sym(m, u, Q(2)); rows[j][i] -= Q(2);
    for (long t = 0; t + 1 < n0 - 0 && t + 1 <= u - 0 && t < u; ++t) sym(t, t + 1, Q::frac(1, 8));          // weak chain on rank 0
    for (long t = 0; t < t1; ++t) sym(m + t + 1, m + t + 2 <= n0 + n1 - 1 ? m + t + 2 : m + t + 1, Q(1));  // strong chain behind m on rank 1
    for (long t = 0; t + 1 < t2 + 1; ++t) sym(j + t, j + t + 1, Q::frac(1, 8));                             // weak chain on rank 2
    for (long r = 0; r < n; ++r) { rows[r].erase(r); Q off(0); for (auto &cv : rows[r]) off += cv.second < 0 ? -cv.second : cv.second; rows[r][r] = off + Q::frac(rng.range(0, 2), 2) + (off == 0 ? Q(1) : Q(0)); }
    std::vector<std::vector<std::pair<long,Q>>> rr(n); for (long r = 0; r < n; ++r) for (auto &cv : rows[r]) if (cv.first == r || cv.second != 0) rr[r].push_back({cv.first, cv.second});
    c.A = from_rows(n, n, rr);
    std::vector<long> p(np, 0); p[0] = n0; p[1] = n1; p[2] = n2; c.P.p = p; c.P.off.assign(1, 0); for (long q : p) c.P.off.push_back(c.P.off.back() + q); c.P.sum = n;
    c.B.assign(n * cols, Q(0)); for (long r = 0; r < n; ++r) for (long k = 0; k < cols; ++k) c.B[r * cols + k] = k == 0 ? Q(1) : Q(r % 3 - 1);
    return c;
}
static void generate(Rng &rng, const Opts &o, std::vector<std::string> &lines) {
    const int W = std::min(g_wsize, MAXNP); const bool th = o.thorough();
    long N = o.cases > 0 ? o.cases : (th ? 1400 : 150);
    for (long k = 0; k < N; ++k) lines.push_back(in_str(gen_case(rng, k, th, W)));
    for (long k = 0; k < (o.cases > 0 ? 4 : th ? 120 : 24); ++k) { int np = (int)rng.range(2, std::max(2, W)); if (np > W) np = W; if (np >= 2) lines.push_back(in_str(gadget_vanish(rng, np, (long)(k % 3)))); }
    for (long k = 0; k < (o.cases > 0 ? 3 : th ? 60 : 12); ++k) if (W >= 3) lines.push_back(in_str(gadget_notify(rng, (int)rng.range(3, W), (long)(k % 3))));
    // the partitions named in the brief: 1-D Poisson, rows 5/1/1/5 on 4 ranks, plain aggregation
    if (W >= 4) for (int v = 0; v < 2; ++v) {
        In c; c.kind = 0; c.vb = 1; c.bs = 1; c.cols = v; c.eps = Q::frac(1, 4); c.over = Q(1); c.relax = Q(1); c.esr = 0;
        std::vector<Edge> e; for (long i = 0; i + 1 < 12; ++i) e.push_back({i, i + 1, Q(1)}); std::vector<Q> sh(12, Q(0)); sh[0] = sh[11] = Q(1);
        c.A = mmatrix_from_edges(12, e, sh); c.P.p = {5, 1, 1, 5}; c.P.off = {0, 5, 6, 7, 12}; c.P.sum = 12; c.B.assign(12 * v, Q(1));
        lines.push_back(in_str(c));
    }
    // malformed stream: both sides answer bad-input
    lines.push_back("dsetup 0 1 2 0 1/4 1 1 0 1 3 3 3 1 0 1 1 1 1 1 2 1 0");               // partition not a multiple of block_size
    lines.push_back("dsetup 0 1 1 1 1/4 1 1 0 1 2 2 2 1 0 1 1 1 1 1");                     // B missing
    lines.push_back("dsetup 0 1 1 0 1/3 1 1 0 1 2 2 2 1 0 1 1 1 1 0");                     // eps not exact in binary64
    lines.push_back("dsetup 2 1 1 0 1/4 1 1 0 1 2 2 2 1 0 1 1 1 1 0");                     // unknown kind
    lines.push_back("dsetup 0 1 1 0 1/4 1 1 1 1 2 2 2 1 0 1 1 1 1 0");                     // esr with plain aggregation
    lines.push_back("dsetup 0 1 1 0 1/4 1 1 0 1 2 2 2 1 0 1 1 1 1 0 | 0 1 0 2 0 0 0 2 0 0 0");   // truncated certificate
}

// ---------------------------------------------------------------- main loop (certificate style, see the header)
int main(int argc, char **argv) {
    MPI_Init(&argc, &argv);
    MPI_Comm_rank(MPI_COMM_WORLD, &g_wrank); MPI_Comm_size(MPI_COMM_WORLD, &g_wsize);
    for (int k = 1; k <= MAXNP; ++k) { g_sub[k] = MPI_COMM_NULL; if (k <= g_wsize) MPI_Comm_split(MPI_COMM_WORLD, g_wrank < k ? 0 : MPI_UNDEFINED, g_wrank, &g_sub[k]); }
    Opts o;
    if (const char *e = getenv("VERIF_SEED")) o.seed = strtoull(e, 0, 10);
    if (const char *e = getenv("VERIF_TIER")) o.tier = e;
    for (int i = 1; i < argc; ++i) {
        std::string a = argv[i];
        auto val = [&]() -> std::string { if (i + 1 >= argc) { std::cerr << "missing value for " << a << "\n"; MPI_Abort(MPI_COMM_WORLD, 2); } return argv[++i]; };
        if (a == "--seed") o.seed = strtoull(val().c_str(), 0, 10);
        else if (a == "--tier") o.tier = val();
        else if (a == "--out") o.out = val();
        else if (a == "--replay") o.replay = val();
        else if (a == "--from") o.from = atol(val().c_str());
        else if (a == "--cases") o.cases = atol(val().c_str());
        else { std::cerr << "unknown option " << a << "\n"; MPI_Abort(MPI_COMM_WORLD, 2); }
    }
    std::vector<std::string> lines;
    std::ofstream impl, orc, meta; FILE *ops = 0;
    if (g_wrank == 0) {
        if (!o.replay.empty()) {
            std::ifstream f(o.replay); std::string l;
            if (!f) { std::cerr << "cannot read " << o.replay << "\n"; MPI_Abort(MPI_COMM_WORLD, 2); }
            while (std::getline(f, l)) if (!l.empty() && l[0] != '#') lines.push_back(l);
        } else { Rng rng(mix(o.seed, 0)); generate(rng, o, lines); }
        const bool app = o.from > 0; const std::string opath = o.out + "/ops.txt";
        if (app) {   // keep the lines of the cases already done (completed lines, and the input line of a crashed case)
            std::vector<std::string> old; { std::ifstream f(opath); std::string l; while (std::getline(f, l)) old.push_back(l); }
            ops = fopen(opath.c_str(), "w"); for (long i = 0; i < o.from && i < (long)old.size(); ++i) fprintf(ops, "%s\n", old[i].c_str()); fflush(ops);
        } else ops = fopen(opath.c_str(), "w");
        if (!ops) { std::cerr << "cannot write " << opath << "\n"; MPI_Abort(MPI_COMM_WORLD, 2); }
        auto mode = app ? std::ios::app : std::ios::trunc;
        impl.open(o.out + "/impl.txt", mode); orc.open(o.out + "/oracle.txt", mode); meta.open(o.out + "/meta.txt", mode);
    }
    {
        std::string all; if (g_wrank == 0) for (auto &l : lines) { all += l; all += '\n'; }
        long len = (long)all.size(); MPI_Bcast(&len, 1, MPI_LONG, 0, MPI_COMM_WORLD); all.resize(len);
        for (long off = 0; off < len; off += (1L << 28)) MPI_Bcast(&all[off], (int)std::min(len - off, 1L << 28), MPI_CHAR, 0, MPI_COMM_WORLD);
        if (g_wrank != 0) { std::istringstream is(all); std::string l; while (std::getline(is, l)) lines.push_back(l); }
    }
    for (long cs = o.from; cs < (long)lines.size(); ++cs) {
        const std::string &line = lines[cs];
        long off = 0;
        if (g_wrank == 0) { std::ofstream cur(o.out + "/current_case.txt"); cur << cs << "\n"; off = ftell(ops); fprintf(ops, "%s\n", line.c_str()); fflush(ops); }   // provisional: the line as given
        Result r; Toks t = split(line); std::string full;
        try { if (t.empty()) throw bad_input("empty"); r = execute(t, &full); }
        catch (const bad_input &) { r = Result("bad-input"); full.clear(); }
        if (g_wrank == 0) {
            if (!full.empty() && full != line) { fflush(ops); if (ftruncate(fileno(ops), off) != 0) { std::cerr << "ftruncate failed\n"; MPI_Abort(MPI_COMM_WORLD, 2); } fseek(ops, off, SEEK_SET); fprintf(ops, "%s\n", full.c_str()); fflush(ops); }
            impl << r.out << "\n" << std::flush;
            if (r.ok) orc << "ok\n"; else orc << "FAIL " << r.why << "\n"; orc << std::flush;
            meta << (r.nontrivial ? 1 : 0); for (auto &g : r.tags) meta << ' ' << g; meta << "\n" << std::flush;
        }
    }
    if (ops) fclose(ops);
    MPI_Finalize();
    return 0;
}
