// C16 harness: direct and dense kernels at the exact rational type Q (and QR additionally at double).
// Ops (the same text is fed to the Lean model, lean/Amgcl/Driver/Direct.lean):
//   direct_sky_solve  kind A perm b y0 x0     real amgcl::solver::skyline_lu<Q>            (kind 0: default Cuthill-McKee ordering,
//   direct_skyb_solve kind A perm b y0 x0     real skyline_lu<static_matrix<Q,2,2>>         kind 1: ordering class returning `perm`)
//   direct_inv_dense n A t p                   real amgcl::detail::inverse<Q>(n, A, t, p)
//   (static_matrix ops: harness/h_direct_sm.cpp)
//   direct_cmk_check rev A perm                real amgcl::reorder::cuthill_mckee<rev>::get   (perm = its output, embedded by generate)
//   direct_qr_check arith order m n A Qk R     real amgcl::detail::QR<Q|double>::factorize    (Qk, R = its output, embedded by generate)
//   direct_qr_model order m n A | direct_qr_solve_model order m n A b    real QR<Q> vs the loop-by-loop Lean model (exact)
//   direct_qr_solve_check arith order m n A b x   real QR<Q|double>::solve                    (x = its output, embedded by generate)
//   direct_qr_seq ns (kind order m n A [b])*       ONE real QR<Q> object reused for a sequence of factorize (kind 0) / solve
//                                                  (kind 1) calls of changing shape, vs the Lean model that threads the members
//                                                  tau/f/q through the calls; oracle: every step equals a fresh object + exact QR
// For the V-grade ops the op line carries the implementation's output; `execute` re-runs the real code and fails the
// oracle if the embedded output is not what the code returns now.
//
// skyline_lu keeps perm/ptr/L/U/D/y private.  They are read (and y is overwritten) through the explicit-instantiation
// access idiom below, which needs no change of /repo; repo_patches/hook_skyline_access.patch is the add-only friend
// hook alternative.
#include "direct_common.hpp"
#include <amgcl/value_type/static_matrix.hpp>
#include <amgcl/solver/skyline_lu.hpp>
#include <amgcl/reorder/cuthill_mckee.hpp>
#include <amgcl/detail/inverse.hpp>
#include <amgcl/detail/qr.hpp>
#include <functional>
#include <unistd.h>
#include <sys/wait.h>
using namespace vh;

// ------------------------------------------------------------------ private member access (no /repo change)
template <class Tag> struct Rob { static typename Tag::type ptr; };
template <class Tag> typename Tag::type Rob<Tag>::ptr;
template <class Tag, typename Tag::type p> struct RobFill { RobFill() { Rob<Tag>::ptr = p; } static RobFill inst; };
template <class Tag, typename Tag::type p> RobFill<Tag, p> RobFill<Tag, p>::inst;
template <class S> struct TPerm { typedef std::vector<int> S::*type; };
template <class S> struct TPtr  { typedef std::vector<int> S::*type; };
template <class S> struct TL    { typedef std::vector<typename S::value_type> S::*type; };
template <class S> struct TU    { typedef std::vector<typename S::value_type> S::*type; };
template <class S> struct TD    { typedef std::vector<typename S::value_type> S::*type; };
template <class S> struct TY    { typedef std::vector<typename S::rhs_type> S::*type; };
#define ROB_SKY(S) \
    template struct RobFill<TPerm<S>, &S::perm>; template struct RobFill<TPtr<S>, &S::ptr>; \
    template struct RobFill<TL<S>, &S::L>; template struct RobFill<TU<S>, &S::U>; \
    template struct RobFill<TD<S>, &S::D>; template struct RobFill<TY<S>, &S::y>;

// ordering class that returns a permutation chosen by the harness
struct given_perm {
    static std::vector<long>& cur() { static std::vector<long> v; return v; }
    template <class M, class V> static void get(const M&, V &perm) { for (size_t i = 0; i < cur().size(); ++i) perm[i] = cur()[i]; }
};

typedef amgcl::static_matrix<Q,2,2> B22;
typedef amgcl::static_matrix<Q,2,1> B21;
typedef amgcl::solver::skyline_lu<Q>              SkyQ0;
typedef amgcl::solver::skyline_lu<Q, given_perm>  SkyQ1;
typedef amgcl::solver::skyline_lu<B22>            SkyB0;
typedef amgcl::solver::skyline_lu<B22, given_perm> SkyB1;
ROB_SKY(SkyQ0) ROB_SKY(SkyQ1) ROB_SKY(SkyB0) ROB_SKY(SkyB1)

// ------------------------------------------------------------------ value-type traits (scalar Q / 2x2 block)
template <class V> struct VT;
template <> struct VT<Q> {
    static const int N = 1; typedef Q rhs;
    static Q parse(Cur &c) { return c.rat(); }
    static Q parse_rhs(Cur &c) { return c.rat(); }
    static void print(Line &l, const Q &v) { l << v; }
    static void print_rhs(Line &l, const Q &v) { l << v; }
    static Q at(const Q &v, int, int) { return v; }
    static Q rat(const Q &v, int) { return v; }
    static Q poison_rhs() { return Q::poisoned(); }
    static bool has_poison(const Q &v) { return v.poison; }
};
template <> struct VT<B22> {
    static const int N = 2; typedef B21 rhs;
    static B22 parse(Cur &c) { B22 b; for (int i = 0; i < 4; ++i) b(i) = c.rat(); return b; }
    static B21 parse_rhs(Cur &c) { B21 b; for (int i = 0; i < 2; ++i) b(i) = c.rat(); return b; }
    static void print(Line &l, const B22 &v) { for (int i = 0; i < 4; ++i) l << v(i); }
    static void print_rhs(Line &l, const B21 &v) { for (int i = 0; i < 2; ++i) l << v(i); }
    static Q at(const B22 &v, int i, int j) { return v(i, j); }
    static Q rat(const B21 &v, int i) { return v(i); }
    static B21 poison_rhs() { B21 b; b(0) = Q::poisoned(); b(1) = Q::poisoned(); return b; }
    static bool has_poison(const B21 &v) { return v(0).poison || v(1).poison; }
};

// ------------------------------------------------------------------ skyline
template <class V> struct BMat { long n, m; std::vector<ptrdiff_t> ptr, col; std::vector<V> val; };
template <class V> static BMat<V> parse_mat(Cur &c) {
    BMat<V> M; M.n = c.nat(); M.m = c.nat(); if (M.n < 0 || M.m < 0) throw bad_input("shape"); M.ptr.push_back(0);
    for (long r = 0; r < M.n; ++r) { long k = c.nat(); if (k < 0) throw bad_input("k"); for (long j = 0; j < k; ++j) { M.col.push_back(c.nat()); M.val.push_back(VT<V>::parse(c)); } M.ptr.push_back((ptrdiff_t)M.col.size()); }
    return M;
}
template <class V> static std::vector<typename VT<V>::rhs> parse_rhsvec(Cur &c) {
    long n = c.nat(); if (n < 0) throw bad_input("n"); std::vector<typename VT<V>::rhs> v(n); for (auto &x : v) x = VT<V>::parse_rhs(c); return v;
}
template <class V> static void print_vals(Line &l, const std::vector<V> &v) { l << v.size(); for (auto &x : v) VT<V>::print(l, x); }
template <class V> static void print_rhsvec(Line &l, const std::vector<typename VT<V>::rhs> &v) { l << v.size(); for (auto &x : v) VT<V>::print_rhs(l, x); }

// dense scalar expansion of the permuted matrix P A P^T (entry (i,j) = A(perm[i], perm[j])); explicit zeros are zeros
template <class V> static Dense expand(const BMat<V> &A, const std::vector<long> &perm) {
    const int N = VT<V>::N; long n = A.n; std::vector<long> inv(n); for (long i = 0; i < n; ++i) inv[perm[i]] = i;
    Dense D(n * N, std::vector<Q>(n * N));
    for (long i = 0; i < n; ++i) for (auto j = A.ptr[i]; j < A.ptr[i+1]; ++j)
        for (int a = 0; a < N; ++a) for (int b = 0; b < N; ++b) D[inv[i] * N + a][inv[A.col[j]] * N + b] = VT<V>::at(A.val[j], a, b);
    return D;
}
// block LU without pivoting on the dense expansion: 0 = all pivot blocks invertible, 1 = a pivot block is exactly zero
// (what skyline_lu must report), 2 = a pivot block is singular but not zero (math::inverse would assert; not generated)
static int nopivot_outcome(Dense D, int N) {
    long n = (long)D.size() / N;
    for (long k = 0; k < n; ++k) {
        Dense piv(N, std::vector<Q>(N)); bool zero = true;
        for (int a = 0; a < N; ++a) for (int b = 0; b < N; ++b) { piv[a][b] = D[k*N+a][k*N+b]; if (piv[a][b] != 0) zero = false; }
        if (zero) return 1;
        if (dense_rank(piv) < N) return 2;
        // eliminate the block column below the pivot by scalar Gauss-Jordan steps inside the pivot block rows
        for (int a = 0; a < N; ++a) {
            long r = k * N + a, p = -1;
            for (long i = r; i < (k + 1) * N; ++i) if (D[i][r] != 0) { p = i; break; }
            std::swap(D[r], D[p]);       // row exchange inside the pivot block does not change the block Schur complement
            for (long i = r + 1; i < n * N; ++i) if (D[i][r] != 0) { Q f = D[i][r] / D[r][r]; for (long j = r; j < n * N; ++j) D[i][j] -= f * D[r][j]; }
        }
    }
    return 0;
}

template <class V, class Sky>
static Result run_sky(Cur &c, long kind) {
    typedef typename VT<V>::rhs R; const int N = VT<V>::N;
    Result r;
    BMat<V> A = parse_mat<V>(c);
    std::vector<long> perm = c.natvec();
    std::vector<R> b = parse_rhsvec<V>(c), y0 = parse_rhsvec<V>(c), x0 = parse_rhsvec<V>(c);
    c.expect_end();
    long n = A.n;
    if (n < 1 || A.m != n || !is_perm(perm, n) || (long)b.size() != n || (long)y0.size() != n || (long)x0.size() != n) throw bad_input("shape");
    for (long i = 0; i < n; ++i) { std::set<long> s; for (auto j = A.ptr[i]; j < A.ptr[i+1]; ++j) { if (A.col[j] < 0 || A.col[j] >= n) throw bad_input("col"); if (!s.insert(A.col[j]).second) throw bad_input("dup"); } }
    amgcl::backend::crs<V, ptrdiff_t, ptrdiff_t> Ac((size_t)n, (size_t)n, A.ptr, A.col, A.val);
    Dense PAPt = expand(A, perm);
    int expect = nopivot_outcome(PAPt, N);
    if (expect == 2) { r.out = "singular-block"; r.tag("singular_block"); return r; }
    given_perm::cur() = perm;
    long offdiag = 0; for (long i = 0; i < n; ++i) for (auto j = A.ptr[i]; j < A.ptr[i+1]; ++j) if (A.col[j] != i && !amgcl::math::is_zero(A.val[j])) ++offdiag;
    r.nontrivial = n >= 2 && offdiag >= 1;
    r.tag(N == 1 ? "sky_scalar" : "sky_block"); r.tag(kind == 0 ? "ord_cmk" : "ord_given");
    if (N > 1) {   // block inputs on which a swapped product order / a structurally symmetrised profile would show
        bool noncomm = false, nondom = false, patns = false; std::set<std::pair<long,long>> pos; auto ab = [](const Q &a) { return a.v < 0 ? -a : a; };
        for (long i = 0; i < n; ++i) for (auto j = A.ptr[i]; j < A.ptr[i+1]; ++j) if (!amgcl::math::is_zero(A.val[j])) pos.insert({i, (long)A.col[j]});
        for (auto &ij : pos) if (!pos.count({ij.second, ij.first})) patns = true;
        for (size_t p = 0; p < A.val.size() && !noncomm; ++p) for (size_t q = p + 1; q < A.val.size(); ++q) {
            V pq = A.val[p] * A.val[q], qp = A.val[q] * A.val[p]; bool same = true;
            for (int a = 0; a < N; ++a) for (int b2 = 0; b2 < N; ++b2) if (!qeq(VT<V>::at(pq, a, b2), VT<V>::at(qp, a, b2))) same = false;
            if (!same) { noncomm = true; break; } }
        for (long i = 0; i < n; ++i) for (auto j = A.ptr[i]; j < A.ptr[i+1]; ++j) if (A.col[j] == i)
            for (int a = 0; a < N; ++a) { Q off(0); for (int b2 = 0; b2 < N; ++b2) if (b2 != a) off += ab(VT<V>::at(A.val[j], a, b2)); if (!(ab(VT<V>::at(A.val[j], a, a)) > off)) nondom = true; }
        if (noncomm) r.tag("blk_noncommuting"); if (nondom) r.tag("blk_pivot_nondominant"); if (patns) r.tag("blk_pattern_nonsym");
    }
    std::unique_ptr<Sky> S;
    try { S.reset(new Sky(Ac)); }
    catch (const std::exception &) {
        if (expect != 1) r.fail("precondition thrown although no pivot of PAP^T vanishes");
        r.out = "precondition"; r.tag("zero_pivot"); return r;
    }
    if (expect == 1) r.fail("a pivot of PAP^T is zero but no exception was thrown");
    const std::vector<int> &sperm = (*S).*Rob<TPerm<Sky>>::ptr;
    for (long i = 0; i < n; ++i) if (sperm[i] != perm[i]) { r.fail("ordering computed by the constructor differs from the permutation on the op line"); break; }
    std::vector<R> &sy = (*S).*Rob<TY<Sky>>::ptr;
    for (long i = 0; i < n; ++i) sy[i] = y0[i];
    std::vector<R> x = x0;
    (*S)(b, x);
    std::vector<R> y1 = sy;
    // oracle 1: A x = b exactly (dense expansion, original ordering)
    {
        std::vector<long> id(n); std::iota(id.begin(), id.end(), 0);
        Dense D = expand(A, id); std::vector<Q> xs(n * N), bs(n * N);
        for (long i = 0; i < n; ++i) for (int a = 0; a < N; ++a) { xs[i*N+a] = VT<V>::rat(x[i], a); bs[i*N+a] = VT<V>::rat(b[i], a); }
        std::vector<Q> ax = dmv(D, xs);
        for (long i = 0; i < n * N; ++i) if (!qeq(ax[i], bs[i])) { r.fail("skyline_lu: A*x != b"); break; }
    }
    // oracle 2: a second call with poisoned scratch and poisoned output returns the same, poison-free x
    {
        for (long i = 0; i < n; ++i) sy[i] = VT<V>::poison_rhs();
        std::vector<R> x2(n, VT<V>::poison_rhs());
        (*S)(b, x2);
        for (long i = 0; i < n; ++i) { if (VT<V>::has_poison(x2[i])) { r.fail("result depends on the old content of y / x"); break; }
            for (int a = 0; a < N; ++a) if (!qeq(VT<V>::rat(x2[i], a), VT<V>::rat(x[i], a))) r.fail("second call differs"); }
    }
    // oracle 3: profile is well formed
    const std::vector<int> &sp = (*S).*Rob<TPtr<Sky>>::ptr;
    for (long i = 0; i < n; ++i) if (sp[i+1] < sp[i] || sp[i+1] - sp[i] > i) r.fail("profile: height of column i exceeds i");
    // explicitly stored exact zeros (off the diagonal): inside / outside the profile of the reordered non-zeros
    {
        std::vector<long> inv(n); for (long i = 0; i < n; ++i) inv[perm[i]] = i; bool any = false, outside = false;
        for (long i = 0; i < n; ++i) for (auto j = A.ptr[i]; j < A.ptr[i+1]; ++j) if (A.col[j] != i && amgcl::math::is_zero(A.val[j])) {
            any = true; long a = inv[i], bb = inv[A.col[j]], hi = std::max(a, bb), d = hi - std::min(a, bb); if (d > sp[hi+1] - sp[hi]) outside = true; }
        if (any) r.tag("stored_zero"); if (outside) r.tag("stored_zero_outside_profile");
        // oracle 4 (given ordering): a stored exact zero denotes nothing -- the object built from the matrix without its stored
        // off-diagonal zeros is constructed as well and returns the same x
        if (any && kind == 1) {
            BMat<V> A0; A0.n = n; A0.m = n; A0.ptr.push_back(0);
            for (long i = 0; i < n; ++i) { for (auto j = A.ptr[i]; j < A.ptr[i+1]; ++j) if (A.col[j] == i || !amgcl::math::is_zero(A.val[j])) { A0.col.push_back(A.col[j]); A0.val.push_back(A.val[j]); } A0.ptr.push_back((ptrdiff_t)A0.col.size()); }
            amgcl::backend::crs<V, ptrdiff_t, ptrdiff_t> Ac0((size_t)n, (size_t)n, A0.ptr, A0.col, A0.val);
            try {
                Sky S0(Ac0);
                std::vector<R> xz(n, VT<V>::poison_rhs()); S0(b, xz);
                for (long i = 0; i < n; ++i) for (int a = 0; a < N; ++a) if (!qeq(VT<V>::rat(xz[i], a), VT<V>::rat(x[i], a))) r.fail("skyline_lu: stored exact zeros change the solution");
            } catch (const std::exception &) { r.fail("skyline_lu: precondition thrown only after the stored exact zeros were dropped"); }
        }
    }
    Line l; l << "ok"; l << (size_t)(n + 1); for (long i = 0; i <= n; ++i) l << (long)sp[i];
    print_vals<V>(l, (*S).*Rob<TL<Sky>>::ptr); print_vals<V>(l, (*S).*Rob<TU<Sky>>::ptr); print_vals<V>(l, (*S).*Rob<TD<Sky>>::ptr);
    print_rhsvec<V>(l, x); print_rhsvec<V>(l, y1);
    r.out = l.get();
    bool sym = true; for (long i = 0; i < n * N && sym; ++i) for (long j = 0; j < i; ++j) if (PAPt[i][j] != PAPt[j][i]) { sym = false; break; }
    r.tag(sym ? "symmetric" : "nonsymmetric");
    if (sp[n] == 0 && n > 1) r.tag("diagonal"); if (sp[n] == n * (n - 1) / 2 && n > 2) r.tag("full_profile");
    return r;
}

// ------------------------------------------------------------------ QR
template <class T> struct QRout { std::vector<T> Qk, R, Qtail; };
template <class T> static QRout<T> qr_factorize(long order, long m, long n, const std::vector<T> &Arm) {
    // Arm: row-major m x n input; stored for the real code in the requested order
    std::vector<T> buf(m * n);
    for (long i = 0; i < m; ++i) for (long j = 0; j < n; ++j) buf[order == 0 ? i * n + j : j * m + i] = Arm[i * n + j];
    amgcl::detail::QR<T> qr;
    qr.factorize((int)m, (int)n, buf.data(), order == 0 ? amgcl::detail::row_major : amgcl::detail::col_major);
    long k = std::min(m, n); QRout<T> o;
    for (long i = 0; i < m; ++i) for (long j = 0; j < k; ++j) o.Qk.push_back(qr.Q((int)i, (int)j));
    for (long i = 0; i < k; ++i) for (long j = 0; j < n; ++j) o.R.push_back(qr.R((int)i, (int)j));
    for (long i = 0; i < m; ++i) for (long j = k; j < n; ++j) o.Qtail.push_back(qr.Q((int)i, (int)j));
    return o;
}
template <class T> static std::vector<T> qr_solve(long order, long m, long n, const std::vector<T> &Arm, const std::vector<T> &b) {
    std::vector<T> buf(m * n), x(n);
    for (long i = 0; i < m; ++i) for (long j = 0; j < n; ++j) buf[order == 0 ? i * n + j : j * m + i] = Arm[i * n + j];
    amgcl::detail::QR<T> qr;
    qr.solve((int)m, (int)n, buf.data(), b.data(), x.data(), order == 0 ? amgcl::detail::row_major : amgcl::detail::col_major);
    return x;
}
static std::vector<double> to_double(const std::vector<Q> &v) { std::vector<double> d(v.size()); for (size_t i = 0; i < v.size(); ++i) d[i] = v[i].v.get_d(); return d; }
static std::vector<Q> from_double(const std::vector<double> &v) { std::vector<Q> d(v.size()); for (size_t i = 0; i < v.size(); ++i) d[i] = Q(v[i]); return d; }
static bool dyadic_exact(const std::vector<Q> &v) { for (auto &x : v) if (Q(x.v.get_d()).v != x.v) return false; return true; }
static Q qabs(const Q &a) { return a.v < 0 ? -a : a; }
static const Q TOL = Q::frac(1, 1L << 28);
static Q max_abs_diff(const Dense &A, const Dense &B) { Q d(0); for (size_t i = 0; i < A.size(); ++i) for (size_t j = 0; j < A[i].size(); ++j) { Q e = qabs(A[i][j] - B[i][j]); if (e > d) d = e; } return d; }
static Dense dident(long k) { Dense I(k, std::vector<Q>(k)); for (long i = 0; i < k; ++i) I[i][i] = Q(1); return I; }

static std::vector<Q> qr_vals(Cur &c, long cnt) { std::vector<Q> v(cnt); for (auto &x : v) x = c.rat(); return v; }

// exact-root family (factorize): the diagonal of the exact Cholesky factor of A^T A (first k columns) consists of dyadics with <= 32
// fractional bits <=> every square root the algorithm takes is exact.  Computed independently: squared pivots of Gaussian
// elimination on A^T A.
static bool exact_root_factorize(const Dense &dA, long k, long n) {
    Dense G = dmul(dtrans(dA), dA);
    for (long i = 0; i < k; ++i) {
        Q p = G[i][i];            // squared norm of the i-th orthogonalised column
        if (p.v < 0) return false;
        Q s = vq::sqrt(p); if ((s * s).v != p.v) return false;
        if (p != 0) for (long a = i + 1; a < n; ++a) { Q f = G[a][i] / p; if (f != 0) for (long b = i; b < n; ++b) G[a][b] -= f * G[i][b]; }
        else {
            // a vanishing orthogonalised column: the reflector is the identity and one row is "lost", so the later norms are
            // no longer the Gram pivots.  The promise is kept only if nothing is left at all (all remaining columns vanish too).
            for (long a = i; a < n; ++a) for (long b = i; b < n; ++b) if (G[a][b] != 0) return false;
            return true;
        }
    }
    return true;
}
// exact-root family (solve, full rank): all Gram pivots of the tall orientation are positive exact squares
static bool exact_root_solve(const Dense &dA, long m, long n) {
    Dense B = m >= n ? dA : dtrans(dA); Dense G = dmul(dtrans(B), B); long k = std::min(m, n);
    for (long i = 0; i < k; ++i) { Q p = G[i][i]; Q s = vq::sqrt(p); if (p.v <= 0 || (s * s).v != p.v) return false;
        for (long a = i + 1; a < k; ++a) { Q f = G[a][i] / p; if (f != 0) for (long bb = i; bb < k; ++bb) G[a][bb] -= f * G[i][bb]; } }
    return true;
}

static Result run_qr_check(Cur &c) {
    Result r;
    long arith = c.nat(), order = c.nat(), m = c.nat(), n = c.nat();
    if (arith < 0 || arith > 1 || order < 0 || order > 1 || m < 1 || n < 1 || m > 64 || n > 64) throw bad_input("shape");
    long k = std::min(m, n);
    std::vector<Q> A = qr_vals(c, m * n), Qk = qr_vals(c, m * k), R = qr_vals(c, k * n); c.expect_end();
    if (arith == 1 && !dyadic_exact(A)) throw bad_input("not dyadic");
    std::vector<Q> aQk, aR, aTail;
    if (arith == 0) { auto o = qr_factorize<Q>(order, m, n, A); aQk = o.Qk; aR = o.R; aTail = o.Qtail; }
    else { auto o = qr_factorize<double>(order, m, n, to_double(A)); aQk = from_double(o.Qk); aR = from_double(o.R); aTail = from_double(o.Qtail); }
    for (size_t i = 0; i < Qk.size(); ++i) if (!qeq(Qk[i], aQk[i])) { r.fail("QR::Q(i,j) differs from the output embedded in the op line"); break; }
    for (size_t i = 0; i < R.size(); ++i) if (!qeq(R[i], aR[i])) { r.fail("QR::R(i,j) differs from the output embedded in the op line"); break; }
    for (auto &t : aTail) if (t != 0) { r.fail("columns k..n-1 of Q are not zero"); break; }
    Dense dA = rm_dense(m, n, A), dQ = rm_dense(m, k, aQk), dR = rm_dense(k, n, aR);
    bool upper = true; for (long i = 0; i < k; ++i) for (long j = 0; j < i && j < n; ++j) if (dR[i][j] != 0) upper = false;
    Q d1 = max_abs_diff(dA, dmul(dQ, dR)), d2 = max_abs_diff(dmul(dtrans(dQ), dQ), dident(k));
    Q d = d1 > d2 ? d1 : d2; bool exact = d == 0 && upper, tol = d <= TOL;
    if (!upper) r.fail("R is not upper triangular");
    // which inputs promise what: tag "exactfam" is announced by the generator through the shape of the data only, so the
    // rule is recomputed here: if every R(i,i) is a dyadic rational with at most 32 fractional bits and the factorisation
    // is exact, fine; the requirement "exact" is imposed when the exact Gram-Schmidt norms are such dyadics (below).
    bool exactfam = false;
    if (arith == 0) {
        exactfam = exact_root_factorize(dA, k, n);
        if (exactfam && !exact) r.fail("every square root is exact, but A != Q*R or Q^T Q != I exactly");
    } else {
        if (!tol) r.fail("double: max(|A - QR|, |Q^T Q - I|) > 2^-28");
    }
    r.out = (Line() << exact << tol << upper).get();
    r.nontrivial = m * n >= 2;
    r.tag(arith == 0 ? "qr_rational" : "qr_double"); r.tag(order == 0 ? "row_major" : "col_major");
    r.tag(m > n ? "tall" : (m == n ? "square" : "wide")); if (exactfam) r.tag("exact_roots"); if (arith == 0) r.tag(tol ? "tol_ok" : "tol_exceeded");
    if (dense_rank(dA) < k) r.tag("rank_deficient");
    return r;
}

static Result run_qr_solve_check(Cur &c) {
    Result r;
    long arith = c.nat(), order = c.nat(), m = c.nat(), n = c.nat();
    if (arith < 0 || arith > 1 || order < 0 || order > 1 || m < 1 || n < 1 || m > 64 || n > 64) throw bad_input("shape");
    std::vector<Q> A = qr_vals(c, m * n), b = qr_vals(c, m), x = qr_vals(c, n); c.expect_end();
    if (arith == 1 && (!dyadic_exact(A) || !dyadic_exact(b))) throw bad_input("not dyadic");
    std::vector<Q> ax = arith == 0 ? qr_solve<Q>(order, m, n, A, b) : from_double(qr_solve<double>(order, m, n, to_double(A), to_double(b)));
    for (long i = 0; i < n; ++i) if (!qeq(x[i], ax[i])) { r.fail("QR::solve differs from the output embedded in the op line"); break; }
    Dense dA = rm_dense(m, n, A); std::vector<Q> res = dmv(dA, ax); for (long i = 0; i < m; ++i) res[i] -= b[i];
    Q d(0);
    if (m >= n) { std::vector<Q> g = dmv(dtrans(dA), res); for (auto &v : g) if (qabs(v) > d) d = qabs(v); }
    else for (auto &v : res) if (qabs(v) > d) d = qabs(v);
    bool exact = d == 0, tol = d <= TOL;
    bool fullrank = dense_rank(dA) == std::min(m, n);
    // exact least-squares / minimum-norm solution computed independently
    std::vector<Q> ref; bool have_ref = false;
    if (fullrank) {
        if (m >= n) have_ref = dense_solve(dmul(dtrans(dA), dA), dmv(dtrans(dA), b), ref);
        else { std::vector<Q> w; have_ref = dense_solve(dmul(dA, dtrans(dA)), b, w); if (have_ref) ref = dmv(dtrans(dA), w); }
    }
    Q dev(0); if (have_ref) for (long i = 0; i < n; ++i) if (qabs(ax[i] - ref[i]) > dev) dev = qabs(ax[i] - ref[i]);
    bool exactfam = false;
    if (arith == 0 && fullrank) {
        exactfam = exact_root_solve(dA, m, n);
        if (exactfam && (!exact || dev != 0)) r.fail("every square root is exact, but QR::solve is not the exact least-squares / minimum-norm solution");
    }
    if (arith == 1 && fullrank) {
        // test (floating point): well-conditioned by construction of the generator; deviation from the exact solution
        if (dev > Q::frac(1, 1L << 20)) r.fail("double: QR::solve deviates from the exact least-squares / minimum-norm solution by more than 2^-20");
    }
    r.out = (Line() << exact << tol).get();
    r.nontrivial = m * n >= 2;
    r.tag(arith == 0 ? "qrs_rational" : "qrs_double"); r.tag(m >= n ? "lsq" : "minnorm"); if (exactfam) r.tag("exact_roots"); if (!fullrank) r.tag("rank_deficient");
    return r;
}

// ------------------------------------------------------------------ QR: one object reused for a sequence of calls
// direct_qr_seq ns (kind order m n A [b])*: kind 0 = factorize (result: factorised buffer, Q(i,j) for the full m x n), kind 1 =
// solve (result: x).  The members tau / f / q of the object survive from call to call (std::vector::resize keeps the old
// content); the contract is that no call depends on them: every step must return exactly what a fresh object returns, and
// on the exact-root family the exact QR / least-squares promises hold as for a fresh object.
static Result run_qr_seq(Cur &c) {
    Result r;
    long ns = c.nat(); if (ns < 1 || ns > 16) throw bad_input("steps");
    struct Step { long kind, order, m, n; std::vector<Q> A, b; };
    std::vector<Step> st(ns);
    for (auto &s : st) {
        s.kind = c.nat(); s.order = c.nat(); s.m = c.nat(); s.n = c.nat();
        if (s.kind < 0 || s.kind > 1 || s.order < 0 || s.order > 1 || s.m < 1 || s.n < 1 || s.m > 64 || s.n > 64) throw bad_input("shape");
        s.A = qr_vals(c, s.m * s.n); if (s.kind == 1) s.b = qr_vals(c, s.m);
    }
    c.expect_end();
    amgcl::detail::QR<Q> qr; Line l;
    // (M, N) handed to compute(): the wide solve factorises the transposed matrix
    long entries = 0; bool shrink = false, exroots = false; std::vector<std::pair<long,long>> seen;
    for (long si = 0; si < ns; ++si) {
        const Step &s = st[si]; const long m = s.m, n = s.n, k = std::min(m, n); entries += m * n;
        const std::string at = " (step " + std::to_string(si) + " of a reused QR object)";
        const auto ord = s.order == 0 ? amgcl::detail::row_major : amgcl::detail::col_major;
        std::vector<Q> buf(m * n);
        for (long i = 0; i < m; ++i) for (long j = 0; j < n; ++j) buf[s.order == 0 ? i * n + j : j * m + i] = s.A[i * n + j];
        const long M = (s.kind == 1 && m < n) ? n : m, N = (s.kind == 1 && m < n) ? m : n;
        for (auto &p : seen) if (M <= N && std::min(p.first, p.second) >= M && p.first > M) shrink = true;
        seen.push_back({M, N});
        Dense dA = rm_dense(m, n, s.A);
        if (s.kind == 0) {
            std::vector<Q> fbuf = buf;
            qr.factorize((int)m, (int)n, buf.data(), ord);
            std::vector<Q> qq, Qk, R; for (long i = 0; i < m; ++i) for (long j = 0; j < n; ++j) qq.push_back(qr.Q((int)i, (int)j));
            for (long i = 0; i < m; ++i) for (long j = 0; j < k; ++j) Qk.push_back(qr.Q((int)i, (int)j));
            for (long i = 0; i < k; ++i) for (long j = 0; j < n; ++j) R.push_back(qr.R((int)i, (int)j));
            // oracle 1: a fresh object
            { amgcl::detail::QR<Q> fr; fr.factorize((int)m, (int)n, fbuf.data(), ord); bool same = true;
              for (long i = 0; i < m * n; ++i) if (!qeq(fbuf[i], buf[i])) same = false;
              for (long i = 0; i < m; ++i) for (long j = 0; j < n; ++j) if (!qeq(fr.Q((int)i, (int)j), qq[i * n + j])) same = false;
              if (!same) r.fail("QR::factorize: R / Q differ from what a fresh QR object returns for the same matrix" + at); }
            // oracle 2: exact factorisation on the exact-root family
            { Dense dQ = rm_dense(m, k, Qk), dR = rm_dense(k, n, R);
              bool exact = max_abs_diff(dA, dmul(dQ, dR)) == 0 && max_abs_diff(dmul(dtrans(dQ), dQ), dident(k)) == 0;
              if (exact_root_factorize(dA, k, n)) { exroots = true; if (!exact) r.fail("every square root is exact, but A != Q*R or Q^T Q != I exactly" + at); } }
            l << buf << qq;
        } else {
            std::vector<Q> fbuf = buf, x(n), fx(n);
            qr.solve((int)m, (int)n, buf.data(), s.b.data(), x.data(), ord);
            { amgcl::detail::QR<Q> fr; fr.solve((int)m, (int)n, fbuf.data(), s.b.data(), fx.data(), ord);
              for (long i = 0; i < n; ++i) if (!qeq(fx[i], x[i])) { r.fail("QR::solve: x differs from what a fresh QR object returns for the same system" + at); break; } }
            if (dense_rank(dA) == k && exact_root_solve(dA, m, n)) {
                std::vector<Q> ref; bool have = false;
                if (m >= n) have = dense_solve(dmul(dtrans(dA), dA), dmv(dtrans(dA), s.b), ref);
                else { std::vector<Q> w; have = dense_solve(dmul(dA, dtrans(dA)), s.b, w); if (have) ref = dmv(dtrans(dA), w); }
                exroots = true;
                if (have) for (long i = 0; i < n; ++i) if (!qeq(ref[i], x[i])) { r.fail("every square root is exact, but QR::solve is not the exact least-squares / minimum-norm solution" + at); break; }
            }
            l << x;
        }
    }
    r.out = l.get(); r.nontrivial = ns >= 2 && entries >= 4; r.tag("qr_seq"); if (exroots) r.tag("exact_roots"); if (shrink) r.tag("qr_reuse_shrinks_to_square_or_wide");
    return r;
}

// ------------------------------------------------------------------ execute
static std::vector<long> run_cmk(long rev, const Cur::Mat &A) {
    auto Ac = A.crs(); std::vector<long> perm(A.n, -1);
    if (rev) amgcl::reorder::cuthill_mckee<true>::get(*Ac, perm); else amgcl::reorder::cuthill_mckee<false>::get(*Ac, perm);
    return perm;
}

static Result execute(const Toks &t) {
    Cur c(t);
    const std::string &op = t[0];
    Result r;
    if (op == "direct_sky_solve") {
        long kind = c.nat(); if (kind < 0 || kind > 1) throw bad_input("kind");
        return kind == 0 ? run_sky<Q, SkyQ0>(c, kind) : run_sky<Q, SkyQ1>(c, kind);
    } else if (op == "direct_skyb_solve") {
        long kind = c.nat(); if (kind < 0 || kind > 1) throw bad_input("kind");
        return kind == 0 ? run_sky<B22, SkyB0>(c, kind) : run_sky<B22, SkyB1>(c, kind);
    } else if (op == "direct_inv_dense") {
        long n = c.nat(); auto A = c.vec(); auto tw = c.vec(); auto p = c.natvec(); c.expect_end();
        if (n < 1 || (long)A.size() != n * n || (long)tw.size() != n * n || (long)p.size() != n) throw bad_input("shape");
        for (long v : p) if (v < 0) throw bad_input("p");
        Dense D = rm_dense(n, n, A);
        r.tag("direct_inv_dense"); r.nontrivial = n >= 2;
        if (dense_rank(D) < n) { r.out = "singular"; r.tag("singular"); return r; }
        std::vector<Q> A1 = A, t1 = tw; std::vector<int> p1(p.begin(), p.end());
        amgcl::detail::inverse<Q>((int)n, A1.data(), t1.data(), p1.data());
        Dense I1 = rm_dense(n, n, A1);
        if (!dense_is_identity(dmul(D, I1))) r.fail("A * inverse(A) != I"); if (!dense_is_identity(dmul(I1, D))) r.fail("inverse(A) * A != I");
        // workspace independence: poisoned t, arbitrary p
        std::vector<Q> A2 = A, t2(n * n, Q::poisoned()); std::vector<int> p2(n, 12345);
        amgcl::detail::inverse<Q>((int)n, A2.data(), t2.data(), p2.data());
        for (long i = 0; i < n * n; ++i) if (!qeq(A2[i], A1[i])) { r.fail("result depends on the old content of the workspaces t / p"); break; }
        bool pivoted = false; for (long i = 0; i < n; ++i) if (p1[i] != i) pivoted = true; if (pivoted) r.tag("row_exchange");
        Line l; l << A1 << t1; l << (size_t)n; for (int v : p1) l << (long)v; r.out = l.get();
    } else if (op == "direct_cmk_check") {
        long rev = c.nat(); auto A = c.mat(); auto perm = c.natvec(); c.expect_end();
        std::string why; if (rev < 0 || rev > 1 || A.n < 1 || A.m != A.n || !crs_wf(*A.crs(), why)) throw bad_input("shape");
        std::vector<long> actual = run_cmk(rev, A);
        if (actual != perm) r.fail("cuthill_mckee::get differs from the output embedded in the op line");
        bool ok = is_perm(actual, A.n);
        if (!ok) r.fail("cuthill_mckee::get did not return a permutation of 0..n-1");
        r.out = (Line() << is_perm(perm, A.n)).get(); r.nontrivial = A.n >= 2; r.tag(rev ? "rcm" : "cm");
        // connectivity / symmetry of the pattern for the distribution
        { long n = A.n; std::vector<std::vector<long>> adj(n); for (long i = 0; i < n; ++i) for (auto j = A.ptr[i]; j < A.ptr[i+1]; ++j) { adj[i].push_back(A.col[j]); adj[A.col[j]].push_back(i); }
          std::vector<char> seen(n, 0); std::vector<long> st{0}; seen[0] = 1; long cnt = 1; while (!st.empty()) { long u = st.back(); st.pop_back(); for (long v : adj[u]) if (!seen[v]) { seen[v] = 1; ++cnt; st.push_back(v); } }
          r.tag(cnt == n ? "connected" : "disconnected"); }
    } else if (op == "direct_qr_check") {
        return run_qr_check(c);
    } else if (op == "direct_qr_solve_check") {
        return run_qr_solve_check(c);
    } else if (op == "direct_qr_seq") {
        return run_qr_seq(c);
    } else if (op == "direct_qr_model" || op == "direct_qr_solve_model") {
        // exact correspondence with the loop-by-loop Lean model of QR (real scalars, rsqrt): factorised buffer + Q(i,j), solve
        const bool slv = op == "direct_qr_solve_model";
        long order = c.nat(), m = c.nat(), n = c.nat();
        if (order < 0 || order > 1 || m < 1 || n < 1 || m > 64 || n > 64) throw bad_input("shape");
        std::vector<Q> A = qr_vals(c, m * n), b; if (slv) b = qr_vals(c, m); c.expect_end();
        r.nontrivial = m * n >= 2; r.tag(slv ? "qr_solve_model" : "qr_model"); r.tag(order == 0 ? "row_major" : "col_major");
        if (slv) { Line l; l << qr_solve<Q>(order, m, n, A, b); r.out = l.get(); }
        else {
            std::vector<Q> buf(m * n);
            for (long i = 0; i < m; ++i) for (long j = 0; j < n; ++j) buf[order == 0 ? i * n + j : j * m + i] = A[i * n + j];
            amgcl::detail::QR<Q> qr; qr.factorize((int)m, (int)n, buf.data(), order == 0 ? amgcl::detail::row_major : amgcl::detail::col_major);
            std::vector<Q> qq; for (long i = 0; i < m; ++i) for (long j = 0; j < n; ++j) qq.push_back(qr.Q((int)i, (int)j));
            for (long i = 0; i < std::min(m, n); ++i) for (long j = 0; j < i; ++j) if (qr.R((int)i, (int)j) != 0) r.fail("R(i,j) != 0 below the diagonal");
            Line l; l << buf << qq; r.out = l.get();
        }
    } else {
        r.out = "bad-op";
    }
    return r;
}

// ------------------------------------------------------------------ generators
// `generate` runs the real code for the V-grade ops (the op line carries the implementation's output).  It therefore runs in
// a forked child; before every call of real code the child records a well-formed op line for the input it is about to use
// (`pending`).  If the child dies (sanitizer abort, assert, signal) that line becomes the only generated case, so that the
// crash is reproduced by `execute` and reported with a replayable input.
static std::string g_pending_path;
static void pending(const std::string &op_line) { if (g_pending_path.empty()) return; std::ofstream f(g_pending_path, std::ios::trunc); f << op_line << "\n"; }
static void put_zeros(Line &l, long cnt) { for (long i = 0; i < cnt; ++i) l << Q(0); }
template <class V> static void put_rhsvec(Line &l, const std::vector<typename VT<V>::rhs> &v) { print_rhsvec<V>(l, v); }
static void put_mat(Line &l, const Mat &A) { l << A; }
static void put_bmat(Line &l, const BMat<B22> &A) {
    l << A.n << A.m;
    for (long i = 0; i < A.n; ++i) { l << (long)(A.ptr[i+1] - A.ptr[i]); for (auto j = A.ptr[i]; j < A.ptr[i+1]; ++j) { l << (long)A.col[j]; VT<B22>::print(l, A.val[j]); } }
}
static std::vector<long> random_perm(Rng &rng, long n) { std::vector<long> p(n); std::iota(p.begin(), p.end(), 0); for (long k = n; k > 1; --k) std::swap(p[k-1], p[rng.next() % k]); return p; }
static std::vector<long> cmk_of(const Mat &A) { return run_cmk(0, A); }
template <class V> static std::vector<long> cmk_of_b(const BMat<V> &A) {
    amgcl::backend::crs<V, ptrdiff_t, ptrdiff_t> Ac((size_t)A.n, (size_t)A.n, A.ptr, A.col, A.val); std::vector<long> perm(A.n, -1);
    amgcl::reorder::cuthill_mckee<false>::get(Ac, perm); return perm;
}

// scalar matrix on a given off-diagonal pattern (bit (i,j) of `pat`), values by `mode`:
//  0 strictly row diagonally dominant (non-symmetric values), 1 SPD M-matrix on the symmetrised pattern,
//  2 random values incl. zero / missing diagonal (may hit a zero pivot), 3 singular by construction (row sums zero, Laplacian)
static Mat pattern_matrix(Rng &rng, long n, const std::vector<std::vector<char>> &pat, int mode) {
    std::vector<std::map<long,Q>> rows(n);
    if (mode == 1 || mode == 3) {
        for (long i = 0; i < n; ++i) for (long j = 0; j < i; ++j) if (pat[i][j] || pat[j][i]) { Q w = Q::frac(rng.range(1, 4), rng.range(1, 2)); rows[i][j] -= w; rows[j][i] -= w; rows[i][i] += w; rows[j][j] += w; }
        for (long i = 0; i < n; ++i) { if (mode == 1) rows[i][i] += Q::frac(rng.range(1, 3), 2); else if (!rows[i].count(i)) rows[i][i] = Q(0); }
    } else {
        for (long i = 0; i < n; ++i) { Q s(0); for (long j = 0; j < n; ++j) if (i != j && pat[i][j]) { Q v = rng.rat_nz(5); rows[i][j] = v; s += qabs(v); }
            if (mode == 0) rows[i][i] = (s + Q::frac(rng.range(1, 4), 2)) * Q(rng.coin() ? 1 : -1);
            else { if (rng.coin(3, 4)) rows[i][i] = rng.rat(4); } }
    }
    std::vector<std::vector<std::pair<long,Q>>> rr(n);
    for (long i = 0; i < n; ++i) for (auto &cv : rows[i]) rr[i].push_back({cv.first, cv.second});
    return from_rows(n, n, rr);
}
static std::vector<std::vector<char>> random_pattern(Rng &rng, long n, int dens, bool sym, long comps) {
    std::vector<std::vector<char>> pat(n, std::vector<char>(n, 0)); std::vector<long> comp(n); for (long i = 0; i < n; ++i) comp[i] = rng.range(0, comps - 1);
    for (long i = 0; i < n; ++i) for (long j = 0; j < n; ++j) if (i != j && comp[i] == comp[j] && rng.range(0, 99) < dens) { pat[i][j] = 1; if (sym) pat[j][i] = 1; }
    return pat;
}
// explicitly stored exact zeros at positions that are absent from the pattern (fixed-stencil assembly with vanishing couplings):
// every absent off-diagonal position with probability pct/100, at least one if there is an absent position.  They fall inside
// or outside the profile of the non-zeros, whatever the ordering makes of them.
static Mat with_stored_zeros(Rng &rng, const Mat &A, int pct) {
    auto rows = to_rows(A); long n = A.n, added = 0; std::vector<std::pair<long,long>> absent;
    for (long i = 0; i < n; ++i) { std::set<long> have; for (auto &cv : rows[i]) have.insert(cv.first);
        for (long j = 0; j < A.m; ++j) if (j != i && !have.count(j)) { if (rng.range(0, 99) < pct) { rows[i].push_back({j, Q(0)}); ++added; } else absent.push_back({i, j}); } }
    if (!added && !absent.empty()) { auto &ij = absent[rng.next() % absent.size()]; rows[ij.first].push_back({ij.second, Q(0)}); }
    for (auto &r : rows) std::sort(r.begin(), r.end(), [](const std::pair<long,Q> &a, const std::pair<long,Q> &b) { return a.first < b.first; });
    return from_rows(n, A.m, rows);
}
// 5-point (or 3-point, ny = 1) stencil on an nx x ny grid, every stencil neighbour STORED; each edge weight vanishes with
// probability zx (x-edges) / zy (y-edges) per cent: zy = 100 is the fully anisotropic stencil with zero y-coupling.
// Symmetric M-matrix + positive shift on every row (SPD), or upwind convection added (non-symmetric, diagonally dominant).
static Mat gen_stencil_zeros(Rng &rng, long nx, long ny, int zx, int zy, bool nonsym) {
    long n = nx * ny; std::vector<std::map<long,Q>> r(n);
    for (long k = 0; k < n; ++k) r[k][k] = Q::frac(rng.range(1, 4), 2);
    auto edge = [&](long a, long b, int z) { Q w = rng.range(0, 99) < z ? Q(0) : Q::frac(rng.range(1, 4), rng.range(1, 2));
        Q c = (nonsym && w != 0) ? Q::frac(rng.range(0, 3), 2) : Q(0);
        r[a][b] -= w; r[b][a] -= w + c; r[a][a] += w; r[b][b] += w + c; };
    for (long j = 0; j < ny; ++j) for (long i = 0; i < nx; ++i) { long k = j * nx + i; if (i + 1 < nx) edge(k, k + 1, zx); if (j + 1 < ny) edge(k, k + nx, zy); }
    std::vector<std::vector<std::pair<long,Q>>> rows(n);
    for (long i = 0; i < n; ++i) for (auto &cv : r[i]) rows[i].push_back({cv.first, cv.second});
    return from_rows(n, n, rows);
}
static void emit_sky(Rng &rng, std::vector<std::string> &lines, Mat A, int ordering /*0 cmk, 1 identity, 2 random, 3 reverse*/) {
    long n = A.n; if (rng.coin(1, 3)) { auto rows = to_rows(A); shuffle_rows_inplace(rng, rows); A = from_rows(n, n, rows); }
    std::vector<long> perm; long kind = 1;
    if (ordering == 0) {
        { std::vector<long> id(n); std::iota(id.begin(), id.end(), 0); Line p; p << "direct_sky_solve" << 0; put_mat(p, A); p << id << std::vector<Q>(n) << std::vector<Q>(n) << std::vector<Q>(n); pending(p.get()); }
        perm = cmk_of(A); kind = 0; }
    else if (ordering == 1) { perm.resize(n); std::iota(perm.begin(), perm.end(), 0); }
    else if (ordering == 2) perm = random_perm(rng, n); else { perm.resize(n); for (long i = 0; i < n; ++i) perm[i] = n - 1 - i; }
    Line l; l << "direct_sky_solve" << kind; put_mat(l, A); l << perm << gen_vec(rng, n) << gen_vec(rng, n) << gen_vec(rng, n);
    lines.push_back(l.get());
}
// block matrix: a strictly row diagonally dominant (or SPD) scalar matrix of order 2n viewed as 2x2 blocks on a block pattern
static void emit_skyb(Rng &rng, std::vector<std::string> &lines, long n, const std::vector<std::vector<char>> &pat, int mode, int ordering, int zpct = 0) {
    long N = 2 * n; Dense S(N, std::vector<Q>(N));
    auto present = [&](long I, long J) { return I == J || pat[I][J] || (mode == 1 && pat[J][I]); };
    if (mode == 1) {     // SPD: symmetric M-matrix on the expanded pattern
        for (long i = 0; i < N; ++i) for (long j = 0; j < i; ++j) if (present(i / 2, j / 2) && rng.coin(3, 4)) { Q w = Q::frac(rng.range(1, 4), rng.range(1, 2)); S[i][j] -= w; S[j][i] -= w; S[i][i] += w; S[j][j] += w; }
        for (long i = 0; i < N; ++i) S[i][i] += Q::frac(rng.range(1, 3), 2);
    } else if (mode == 0) {
        for (long i = 0; i < N; ++i) { Q s(0); for (long j = 0; j < N; ++j) if (i != j && present(i / 2, j / 2) && rng.coin(3, 4)) { S[i][j] = rng.rat_nz(4); s += qabs(S[i][j]); } S[i][i] = s + Q::frac(rng.range(1, 4), 2); }
    } else if (mode == 3) {   // non-commuting, non-symmetric pivot blocks that are NOT diagonally dominant (vanishing (0,0) entry: row exchange
        // inside math::inverse; shear: strongly non-normal; rotation-like; general), random off-diagonal blocks on the (structurally
        // non-symmetric) block pattern as given: a swapped product order in factorize()/operator() changes the result on these
        for (long I = 0; I < n; ++I) {
            Q s = Q(rng.range(3, 9)), a, b, c, d; int f = (int)rng.range(0, 3);
            if (f == 0)      { a = Q(0); b = s; c = Q(rng.range(1, 4)) - s - s; d = rng.coin() ? Q(0) : Q(1); }
            else if (f == 1) { a = s; b = Q(rng.range(-9, 9)) * s; c = Q(0); d = Q::frac(rng.range(1, 5), 2); }
            else if (f == 2) { a = Q(rng.range(1, 3)); b = -s; c = s; d = Q(rng.range(-2, 2)); }
            else             { a = rng.rat_nz(4); b = rng.rat_nz(4) * s; c = rng.rat_nz(4); d = rng.rat_nz(4) * s; }
            S[2*I][2*I] = a; S[2*I][2*I+1] = b; S[2*I+1][2*I] = c; S[2*I+1][2*I+1] = d;
            for (long J = 0; J < n; ++J) if (J != I && present(I, J)) for (int p = 0; p < 2; ++p) for (int q = 0; q < 2; ++q) if (rng.coin(3, 4)) S[2*I+p][2*J+q] = rng.rat_nz(4);
        }
    } else {             // mode 2: a zero pivot block: block row/col copies so that a Schur complement block vanishes, or a missing diagonal block
        for (long i = 0; i < N; ++i) { Q s(0); for (long j = 0; j < N; ++j) if (i != j && present(i / 2, j / 2)) { S[i][j] = rng.rat_nz(4); s += qabs(S[i][j]); } S[i][i] = s + Q(1); }
        long z = rng.range(0, n - 1); for (int a = 0; a < 2; ++a) for (int b = 0; b < 2; ++b) S[2*z+a][2*z+b] = Q(0);
        if (z > 0 || n == 1 || rng.coin()) { for (long J = 0; J < n; ++J) if (J != z) for (int a = 0; a < 2; ++a) for (int b = 0; b < 2; ++b) { if (rng.coin()) S[2*z+a][2*J+b] = Q(0); } }
    }
    BMat<B22> A; A.n = n; A.m = n; A.ptr.push_back(0);
    // zpct: a block position absent from the pattern is stored as an explicit zero block with that probability (per cent)
    for (long I = 0; I < n; ++I) { std::vector<long> cols; for (long J = 0; J < n; ++J) if (present(I, J) || (zpct > 0 && rng.range(0, 99) < zpct)) cols.push_back(J);
        if (rng.coin(1, 3)) for (size_t k = cols.size(); k > 1; --k) std::swap(cols[k-1], cols[rng.next() % k]);
        for (long J : cols) { B22 b; bool allz = true; for (int a = 0; a < 2; ++a) for (int c = 0; c < 2; ++c) { b(a, c) = S[2*I+a][2*J+c]; if (b(a, c) != 0) allz = false; }
            if (allz && mode == 2 && rng.coin()) continue;   // a zero block is sometimes stored explicitly, sometimes absent
            A.col.push_back(J); A.val.push_back(b); }
        A.ptr.push_back((ptrdiff_t)A.col.size()); }
    std::vector<long> perm; long kind = 1;
    if (ordering == 0) {
        { std::vector<long> id(n); std::iota(id.begin(), id.end(), 0); Line p; p << "direct_skyb_solve" << 0; put_bmat(p, A); p << id; for (int r3 = 0; r3 < 3; ++r3) { p << (size_t)n; put_zeros(p, 2 * n); } pending(p.get()); }
        perm = cmk_of_b(A); kind = 0; } else if (ordering == 1) { perm.resize(n); std::iota(perm.begin(), perm.end(), 0); } else perm = random_perm(rng, n);
    // never emit a case on which math::inverse would be applied to a singular non-zero block (assert in detail::inverse)
    if (nopivot_outcome(expand(A, perm), 2) == 2) return;
    auto bv = [&]() { std::vector<B21> v(n); for (auto &x : v) { x(0) = rng.rat(5); x(1) = rng.rat(5); } return v; };
    Line l; l << "direct_skyb_solve" << kind; put_bmat(l, A); l << perm; put_rhsvec<B22>(l, bv()); put_rhsvec<B22>(l, bv()); put_rhsvec<B22>(l, bv());
    lines.push_back(l.get());
}

static std::vector<Q> dyadic_vals(Rng &rng, long cnt, int zero_pct = 10) { std::vector<Q> v(cnt); for (auto &x : v) x = rng.range(0, 99) < zero_pct ? Q(0) : Q::frac(rng.range(-12, 12), 1L << rng.range(0, 2)); return v; }
// A = Q0 * R0 with Q0 a product of rational Householder reflections and R0 upper trapezoidal with dyadic diagonal:
// every square root taken by Householder QR on A is exact
static std::vector<Q> exact_root_matrix(Rng &rng, long m, long n, bool allow_deficient) {
    Dense Q0 = dident(m);
    for (int rep = 0; rep < 2; ++rep) { std::vector<Q> v(m); Q vv(0); for (auto &x : v) { x = Q(rng.range(-2, 2)); vv += x * x; } if (vv == 0) continue;
        Dense H = dident(m); for (long i = 0; i < m; ++i) for (long j = 0; j < m; ++j) H[i][j] -= Q(2) * v[i] * v[j] / vv; Q0 = dmul(Q0, H); }
    static const std::vector<Q> diag = { Q(1), Q(2), Q(3), Q::frac(1, 2), Q::frac(3, 2), Q(-1), Q(-2), Q::frac(5, 4), Q(4) };
    Dense R0(m, std::vector<Q>(n));
    // rank deficiency: rows >= rk of R0 vanish (trailing columns depend on the leading ones: exactness is kept); rarely a zero
    // diagonal entry in the middle (then the later square roots are in general not exact and nothing is promised)
    long rk = allow_deficient ? rng.range(0, std::min(m, n)) : std::min(m, n); bool mid = allow_deficient && rng.coin(1, 6);
    for (long i = 0; i < m && i < rk; ++i) for (long j = i; j < n; ++j) R0[i][j] = (i == j) ? ((mid && rng.coin(1, 4)) ? Q(0) : rng.pick(diag)) : Q::frac(rng.range(-4, 4), rng.range(1, 2));
    Dense A = dmul(Q0, R0); std::vector<Q> a; for (long i = 0; i < m; ++i) for (long j = 0; j < n; ++j) a.push_back(A[i][j]); return a;
}
static void emit_qr_check(std::vector<std::string> &lines, long arith, long order, long m, long n, const std::vector<Q> &A) {
    std::vector<Q> Qk, R;
    { Line p; p << "direct_qr_check" << arith << order << m << n; for (auto &v : A) p << v; put_zeros(p, m * std::min(m, n) + std::min(m, n) * n); pending(p.get()); }
    if (arith == 0) { auto o = qr_factorize<Q>(order, m, n, A); Qk = o.Qk; R = o.R; } else { auto o = qr_factorize<double>(order, m, n, to_double(A)); Qk = from_double(o.Qk); R = from_double(o.R); }
    Line l; l << "direct_qr_check" << arith << order << m << n; for (auto &v : A) l << v; for (auto &v : Qk) l << v; for (auto &v : R) l << v; lines.push_back(l.get());
}
static void emit_qr_solve(std::vector<std::string> &lines, long arith, long order, long m, long n, const std::vector<Q> &A, const std::vector<Q> &b) {
    { Line p; p << "direct_qr_solve_check" << arith << order << m << n; for (auto &v : A) p << v; for (auto &v : b) p << v; put_zeros(p, n); pending(p.get()); }
    std::vector<Q> x = arith == 0 ? qr_solve<Q>(order, m, n, A, b) : from_double(qr_solve<double>(order, m, n, to_double(A), to_double(b)));
    Line l; l << "direct_qr_solve_check" << arith << order << m << n; for (auto &v : A) l << v; for (auto &v : b) l << v; for (auto &v : x) l << v; lines.push_back(l.get());
}
static std::vector<Q> transpose_rm(long m, long n, const std::vector<Q> &A) { std::vector<Q> T(m * n); for (long i = 0; i < m; ++i) for (long j = 0; j < n; ++j) T[j * m + i] = A[i * n + j]; return T; }


static void generate_inner(Rng &rng, const Opts &o, std::vector<std::string> &lines) {
    const bool T = o.thorough();
    long scale = o.cases > 0 ? o.cases : (T ? 10 : 1);
    // ---- skyline, exhaustive patterns: all off-diagonal patterns up to 3x3 (4x4 thorough)
    for (long n = 1; n <= (T ? 4 : 3); ++n) {
        long bits = n * (n - 1);
        for (long code = 0; code < (1L << bits); ++code) {
            std::vector<std::vector<char>> pat(n, std::vector<char>(n, 0)); long bpos = 0; bool sym = true;
            for (long i = 0; i < n; ++i) for (long j = 0; j < n; ++j) if (i != j) { pat[i][j] = (code >> bpos++) & 1; }
            for (long i = 0; i < n; ++i) for (long j = 0; j < n; ++j) if (pat[i][j] != pat[j][i]) sym = false;
            int reps = (n <= 3) ? 2 : 1;
            for (int rep = 0; rep < reps; ++rep) {
                emit_sky(rng, lines, pattern_matrix(rng, n, pat, 0), rep == 0 ? 0 : (int)rng.range(1, 3));
                if (sym) emit_sky(rng, lines, pattern_matrix(rng, n, pat, 1), rep == 0 ? 0 : (int)rng.range(1, 3));
            }
            if (n <= 3 || rng.coin(1, 8)) emit_sky(rng, lines, pattern_matrix(rng, n, pat, 2), (int)rng.range(0, 2));
            if (sym && (n <= 3 || rng.coin(1, 8))) emit_sky(rng, lines, pattern_matrix(rng, n, pat, 3), (int)rng.range(0, 2));
            if (n <= 2 || (n == 3 && (T || rng.coin(1, 4))) || (n == 4 && rng.coin(1, 64))) for (int mode = 0; mode < 4; ++mode) emit_skyb(rng, lines, n, pat, mode, (int)rng.range(0, 2));
            // explicitly stored exact zeros at absent positions (inside and outside the profile), all four orderings
            if (n >= 2 && (n <= 3 || rng.coin(1, 4))) for (int rep = 0; rep < 2; ++rep) {
                int mode = rng.coin(1, 3) ? 1 : (rng.coin(1, 4) ? 2 : 0);
                emit_sky(rng, lines, with_stored_zeros(rng, pattern_matrix(rng, n, pat, mode), (int)rng.range(20, 90)), rep == 0 ? 0 : (int)rng.range(1, 3));
            }
            if (n == 2 || (n == 3 && (T || rng.coin(1, 4))) || (n == 4 && rng.coin(1, 64))) emit_skyb(rng, lines, n, pat, (int)rng.range(0, 1), (int)rng.range(0, 2), (int)rng.range(30, 90));
            if (n <= 3 || rng.coin(1, 16)) {   // Cuthill-McKee on every small pattern, both variants
                Mat A = pattern_matrix(rng, n, pat, 2);
                for (long rev = 0; rev < 2; ++rev) { { Line p; p << "direct_cmk_check" << rev; put_mat(p, A); p << std::vector<long>(); pending(p.get()); }
                    Line l; l << "direct_cmk_check" << rev; put_mat(l, A); l << run_cmk(rev, A); lines.push_back(l.get()); }
            }
        }
    }
    // ---- skyline, random beyond (n <= 30)
    for (long k = 0; k < 60 * scale; ++k) {
        long n = rng.range(4, T ? 30 : 16); int fam = (int)rng.range(0, 6); Mat A;
        if (fam == 0) A = gen_spd(rng, n); else if (fam == 1) A = gen_convdiff(rng, n);
        else if (fam == 2) A = pattern_matrix(rng, n, random_pattern(rng, n, (int)rng.range(5, 50), false, 1), 0);
        else if (fam == 3) A = pattern_matrix(rng, n, random_pattern(rng, n, (int)rng.range(10, 60), rng.coin(), rng.range(2, 4)), rng.coin() ? 0 : 1);   // disconnected
        else if (fam == 4) A = pattern_matrix(rng, n, random_pattern(rng, n, (int)rng.range(5, 40), true, 1), 1);
        else if (fam == 5) A = pattern_matrix(rng, std::min<long>(n, 8), random_pattern(rng, std::min<long>(n, 8), (int)rng.range(20, 70), rng.coin(), 1), 2);  // may hit zero pivots
        else A = pattern_matrix(rng, std::min<long>(n, 10), random_pattern(rng, std::min<long>(n, 10), (int)rng.range(20, 60), true, rng.range(1, 2)), 3);       // singular Laplacian
        emit_sky(rng, lines, A, (int)rng.range(0, 3) == 3 ? 3 : (int)rng.range(0, 2));
        // stored exact zeros beyond 3x3: stencils with vanishing couplings (incl. the fully anisotropic 5-point stencil and the 1D
        // chain), banded matrices with far stored zeros, random matrices with random stored zeros
        {
            int zf = (int)rng.range(0, 3); Mat Z;
            if (zf == 0) { long nx = rng.range(2, T ? 6 : 4), ny = rng.range(1, T ? 5 : 4); bool xz = rng.coin(1, 4); int z = rng.coin() ? 100 : (int)rng.range(20, 80);
                Z = gen_stencil_zeros(rng, nx, ny, xz ? z : (int)rng.range(0, 1) * 30, xz ? (int)rng.range(0, 1) * 30 : z, rng.coin(1, 3)); }
            else if (zf == 1) { long nz = rng.range(4, T ? 24 : 12); Mat B = rng.coin() ? gen_spd(rng, nz, 0) : gen_convdiff(rng, nz);   // chain + a few far stored zeros
                auto rows = to_rows(B); long cnt = rng.range(1, 4);
                for (long q = 0; q < cnt; ++q) { long i = rng.range(0, B.n - 1), j = rng.range(0, B.n - 1); bool have = i == j; for (auto &cv : rows[i]) if (cv.first == j) have = true;
                    if (!have) { rows[i].push_back({j, Q(0)}); if (rng.coin()) { bool h2 = false; for (auto &cv : rows[j]) if (cv.first == i) h2 = true; if (!h2) rows[j].push_back({i, Q(0)}); } } }
                Z = from_rows(B.n, B.n, rows); }
            else { long nz = rng.range(4, T ? 20 : 12); int md = (int)rng.range(0, 2);
                Z = with_stored_zeros(rng, pattern_matrix(rng, nz, random_pattern(rng, nz, (int)rng.range(5, 40), rng.coin(), rng.range(1, 2)), md == 2 ? (rng.coin(1, 4) ? 2 : 0) : md), (int)rng.range(2, 30)); }
            emit_sky(rng, lines, Z, (int)rng.range(0, 3));
            if (k % 2 == 0) emit_sky(rng, lines, Z, 0);     // the constructor's own Cuthill-McKee ordering sees the stored zeros as edges
        }
        if (k % 3 == 1) { long nb = rng.range(2, T ? 8 : 5); emit_skyb(rng, lines, nb, random_pattern(rng, nb, (int)rng.range(10, 50), rng.coin(), rng.range(1, 2)), (int)rng.range(0, 1), (int)rng.range(0, 2), (int)rng.range(10, 60)); }
        if (k % 3 == 0) { long nb = rng.range(2, T ? 10 : 6); emit_skyb(rng, lines, nb, random_pattern(rng, nb, (int)rng.range(10, 60), rng.coin(), rng.range(1, 2)), (int)rng.range(0, 9) == 0 ? 2 : (int)rng.range(0, 1), (int)rng.range(0, 2)); }
        if (k % 3 == 2) { long nb = rng.range(2, T ? 8 : 5); emit_skyb(rng, lines, nb, random_pattern(rng, nb, (int)rng.range(15, 60), false, rng.range(1, 2)), 3, (int)rng.range(0, 2), rng.coin(1, 3) ? (int)rng.range(10, 40) : 0); }
        // Cuthill-McKee on larger patterns (values irrelevant): non-symmetric, disconnected, empty rows
        { long nc = rng.range(1, T ? 60 : 30); Mat P = gen_sparse(rng, nc, nc, (int)rng.range(0, 30));
          if (rng.coin(1, 3)) P = pattern_matrix(rng, nc, random_pattern(rng, nc, (int)rng.range(3, 30), rng.coin(), rng.range(1, 4)), 2);
          long rev = rng.range(0, 1); { Line p; p << "direct_cmk_check" << rev; put_mat(p, P); p << std::vector<long>(); pending(p.get()); }
          Line l; l << "direct_cmk_check" << rev; put_mat(l, P); l << run_cmk(rev, P); lines.push_back(l.get()); }
    }
    // ---- detail::inverse
    for (long k = 0; k < 80 * scale; ++k) {
        long n = rng.range(1, T ? 12 : 8); int fam = (int)rng.range(0, 4); std::vector<Q> A(n * n);
        for (int tries = 0; tries < 50; ++tries) {
            if (fam == 0) for (auto &x : A) x = rng.rat(6);
            else if (fam == 1) for (auto &x : A) x = Q(rng.range(-1, 1));                        // many magnitude ties and zeros
            else if (fam == 2) { for (auto &x : A) x = rng.coin(1, 3) ? rng.rat(4) : Q(0); }    // sparse: zero leading entries force row exchanges
            else if (fam == 3) { auto p = random_perm(rng, n); for (auto &x : A) x = Q(0); for (long i = 0; i < n; ++i) A[i * n + p[i]] = rng.rat_nz(4); if (rng.coin()) for (long i = 0; i < n; ++i) for (long j = 0; j < n; ++j) if (j > p[i] && rng.coin(1, 3)) A[i * n + j] = rng.rat(3); }
            else { for (long i = 0; i < n; ++i) for (long j = 0; j < n; ++j) A[i * n + j] = Q::frac(1, i + j + 1); }   // Hilbert
            if (dense_rank(rm_dense(n, n, A)) == n) break;
            for (long i = 0; i < n; ++i) A[i * n + i] += Q(7);
        }
        if (dense_rank(rm_dense(n, n, A)) < n) continue;
        std::vector<long> p(n); for (auto &v : p) v = rng.range(0, 40);
        Line l; l << "direct_inv_dense" << n << A << gen_vec(rng, n * n) << p; lines.push_back(l.get());
    }
    // ---- QR
    for (long k = 0; k < 40 * scale; ++k) {
        long mx = T ? 12 : 8; long m = rng.range(1, mx), n = rng.range(1, mx), order = rng.range(0, 1);
        // exact-root family at Q (exact oracle), incl. rank deficient.  The exact rationals of Householder QR roughly double in
        // length with every reflector, so min(m,n) <= 7 at Q; the shapes up to 12x12 are covered in double below.
        { long me = m, ne = n; if (std::min(me, ne) > 7) { if (rng.coin()) me = rng.range(1, 7); else ne = rng.range(1, 7); }
          emit_qr_check(lines, 0, order, me, ne, exact_root_matrix(rng, me, ne, rng.coin(1, 3))); }
        // general dyadic data: at Q (flags compared with the model, no promise) and in double (tolerance test)
        std::vector<Q> A = dyadic_vals(rng, m * n, (int)rng.range(0, 30));
        int deg = (int)rng.range(0, 5);
        if (deg == 0 && n >= 2) { long c0 = rng.range(0, n - 1), c1 = rng.range(0, n - 1); for (long i = 0; i < m; ++i) A[i * n + c1] = A[i * n + c0]; }      // duplicate column
        if (deg == 1) { long c0 = rng.range(0, n - 1); for (long i = 0; i < m; ++i) A[i * n + c0] = Q(0); }                                                    // zero column
        if (deg == 2 && k % 10 == 2) for (auto &x : A) x = Q(0);                                                                                             // zero matrix
        emit_qr_check(lines, 1, order, m, n, A);
        if (m * n <= 36) emit_qr_check(lines, 0, order, m, n, A);
        // faithful-model correspondence at Q (no embedded output): exact-root family and small general dyadic data
        { long me = rng.range(1, mx), ne = rng.range(1, mx); if (std::min(me, ne) > 6) { if (rng.coin()) me = rng.range(1, 6); else ne = rng.range(1, 6); }
          std::vector<Q> B = exact_root_matrix(rng, me, ne, rng.coin(1, 3));
          { Line l; l << "direct_qr_model" << order << me << ne; for (auto &v : B) l << v; lines.push_back(l.get()); }
          { Line l; l << "direct_qr_solve_model" << order << me << ne; for (auto &v : B) l << v; for (auto &v : dyadic_vals(rng, me, 10)) l << v; lines.push_back(l.get()); }
          long mg = rng.range(1, 5), ng = rng.range(1, 5); std::vector<Q> G = dyadic_vals(rng, mg * ng, (int)rng.range(0, 40));
          { Line l; l << "direct_qr_model" << order << mg << ng; for (auto &v : G) l << v; lines.push_back(l.get()); }
          { Line l; l << "direct_qr_solve_model" << order << mg << ng; for (auto &v : G) l << v; for (auto &v : dyadic_vals(rng, mg, 10)) l << v; lines.push_back(l.get()); } }
        // ONE QR object reused for 2..5 calls of changing shape (factorize / solve; tall, square, wide; both storage orders): the
        // first call is often tall with a large min(m,n) so that later square / wide calls meet members tau, f, q that are longer
        // than they need and still hold the previous values
        for (int rep = 0; rep < 2; ++rep) {
            long ns = rng.range(2, 5), smx = 6; Line l; l << "direct_qr_seq" << ns; bool descend = rng.coin();
            for (long si = 0; si < ns; ++si) {
                long kind = rng.range(0, 1), ord = rng.range(0, 1), sm, sn;
                if (si == 0 && descend) { sm = rng.range(3, smx); sn = rng.range(2, sm); if (rng.coin(1, 4)) std::swap(sm, sn); }
                else { sm = rng.range(1, smx); sn = rng.range(1, smx); if (rng.coin(1, 3)) sn = sm; }
                std::vector<Q> S;
                if (rng.coin(1, 4)) { sm = std::min<long>(sm, 4); sn = std::min<long>(sn, 4); S = dyadic_vals(rng, sm * sn, (int)rng.range(0, 30)); }
                else S = exact_root_matrix(rng, sm, sn, rng.coin(1, 4));
                l << kind << ord << sm << sn; for (auto &v : S) l << v; if (kind == 1) for (auto &v : dyadic_vals(rng, sm, 10)) l << v;
            }
            lines.push_back(l.get());
        }
        // solve: exact-root full-rank systems at Q (tall: least squares, wide: minimum norm), well-conditioned dyadic systems in double
        { long mm = rng.range(1, mx), nn = rng.range(1, std::min<long>(mm, 7)); std::vector<Q> B = exact_root_matrix(rng, mm, nn, false);
          std::vector<Q> b = dyadic_vals(rng, mm, 10); emit_qr_solve(lines, 0, order, mm, nn, B, b);
          std::vector<Q> bw = dyadic_vals(rng, nn, 10); emit_qr_solve(lines, 0, order, nn, mm, transpose_rm(mm, nn, B), bw); }
        { long mm = rng.range(1, mx), nn = rng.range(1, mx); std::vector<Q> B = dyadic_vals(rng, mm * nn, 20); for (long i = 0; i < std::min(mm, nn); ++i) B[i * nn + i] += Q(rng.coin() ? 16 : -16);
          emit_qr_solve(lines, 1, order, mm, nn, B, dyadic_vals(rng, mm, 10)); }
    }
    // ---- malformed stream: both sides must answer bad-input
    lines.push_back("direct_sky_solve 1 2 2 1 0 1 1 1 1 2 0 0 2 1 1 2 0 0 2 0 0");              // perm (0,0) is not a permutation
    lines.push_back("direct_sky_solve 1 2 2 2 0 1 0 2 1 1 1 2 0 1 2 1 1 2 0 0 2 0 0");          // duplicate column in row 0
    lines.push_back("direct_sky_solve 1 2 3 1 0 1 1 1 1 2 0 1 2 1 1 2 0 0 2 0 0");              // not square
    lines.push_back("direct_sky_solve 0 2 2 1 0 1 1 1 1 2 0 1 1 1 2 0 0 2 0 0");                // b too short
    lines.push_back("direct_skyb_solve 1 1 1 1 0 1 0 0 1 1 0 1 1 2 1 0 0 1 0");                 // x0 too short (1 block needs 2 entries)
    lines.push_back("direct_inv_dense 2 4 1 2 3 4 3 0 0 0 2 0 0");                               // t too short
    lines.push_back("direct_cmk_check 0 2 3 1 0 1 1 1 1 2 0 1");                                 // not square
    lines.push_back("direct_qr_check 0 0 2 2 1 0 0 1 1 0 0 1 1 0 0");                            // too few entries
    lines.push_back("direct_qr_model 0 2 2 1 0 0");                                                // too few entries
    lines.push_back("direct_qr_solve_model 2 2 2 1 0 0 1 1 1");                                    // storage order out of range
    lines.push_back("direct_qr_seq 0");                                                            // no step
    lines.push_back("direct_qr_seq 2 0 0 2 2 1 0 0 1 1 0 2 1 1 2");                                // second step: right-hand side too short
    lines.push_back("direct_qr_seq 1 2 0 1 1 1");                                                  // step kind out of range
}

static void generate(Rng &rng, const Opts &o, std::vector<std::string> &lines) {
    const std::string lf = o.out + "/gen_lines.tmp"; g_pending_path = o.out + "/gen_pending.tmp";
    std::remove(lf.c_str()); std::remove(g_pending_path.c_str());
    fflush(0);
    pid_t pid = fork();
    if (pid < 0) { g_pending_path.clear(); generate_inner(rng, o, lines); return; }
    if (pid == 0) {
        std::vector<std::string> ls; generate_inner(rng, o, ls);
        { std::ofstream f(lf); for (auto &l : ls) f << l << "\n"; }
        _exit(0);
    }
    int st = 0; waitpid(pid, &st, 0);
    const bool ok = WIFEXITED(st) && WEXITSTATUS(st) == 0;
    { std::ifstream f(ok ? lf : g_pending_path); std::string l; while (std::getline(f, l)) if (!l.empty()) lines.push_back(l); }
    if (!ok) std::cerr << "h_direct: generation died while running the real code; the pending input is the only generated case\n";
    std::remove(lf.c_str()); std::remove(g_pending_path.c_str()); g_pending_path.clear();
}

VH_MAIN(generate, execute)
