// C06 harness: the REAL relaxation classes of amgcl instantiated at amgcl::backend::builtin<Q> (exact rationals).
// Serial sweeps only (OMP threads forced to 1; the level-scheduled sweeps belong to C09).
//
// Ops (the same text is fed to the Lean model, Driver/Relax.lean):
//   relax_jacobi_pre|post w A f x tmp     relax_jacobi_apply w A f
//   relax_spai0_pre|post A f x tmp        relax_spai0_apply A f       relax_spai0_m A
//   relax_gs_pre|post A f x tmp           relax_gs_apply A f
//   relax_cheb_pre|post deg hi lo scale A f x tmp    relax_cheb_apply deg hi lo scale A f
//   relax_cheb_twice deg hi lo scale A f x g         relax_cheb_cd hi lo scale A
//   relax_ilu0_pre|post w A f x tmp       relax_ilu0_apply A f        relax_ilu0_factors A
//   relax_iluk_pre|post k w A f x tmp     relax_iluk_apply k A f      relax_iluk_factors k A     relax_ilup_factors k A
//   relax_ilu_solve L U D b
//   relax_lu_check kind k A L U D         (V-grade; L U D = what the implementation produced at generation time)
//   relax_spai1_check A M                 (V-grade; M = the implementation's spai1::M)
//   relax_spai1_m A                       relax_spai1_pre|post A f x tmp      relax_spai1_apply A f
//                                         (F-grade: faithful model Model/RelaxSpai1.lean; M in stored order, exact equality)
//   relax_ilupw_factors k A               relax_ilupw_pre|post k w A f x tmp  relax_ilupw_apply k A f   relax_ilupw_pad k A
//                                         (F-grade: ilup.hpp as written, Model/RelaxIlup.lean)
// Results: sweeps `x' tmp'`, apply `x'`, outcomes `precondition`, `bad-input`.
//
// Implementation-side oracles (independent of the Lean model, exact arithmetic, dense):
//   * defining formula of the sweep recomputed from the dense matrix (Jacobi, GS triangular system, SPAI-0 formula,
//     Chebyshev residual polynomial T_d((d - A)/c)/T_d(d/c) with Gershgorin bounds, ILU: B (x'-x) = w (f - A x));
//   * fixed point: whenever f = A x exactly, x' = x;
//   * scratch independence: the sweep is repeated with a poisoned tmp and must give the same x';
//   * ILU family: factors read through apply() on unit vectors (B^-1 column by column, inverted and LU-split
//     exactly); (L U)_ij = a_ij on the admitted pattern, factors inside the pattern, exact inverse on
//     tridiagonal / arrow patterns and for ILU(k), k >= n;
//   * SPAI-1: pattern of M = pattern of A, normal equations (exact where the rational sqrt is exact, else <= 2^-16 on strictly
//     diagonally dominant matrices), sweep = x + M (f - A x), apply = M f with the implementation's own M;
//   * ILUP as written: factors = dense ILU(0) recurrence on A padded to the dense boolean power pattern, (L U)_ij = a_ij on that
//     pattern, real ilup(A, k) == real ilu0(padded matrix) as operators.
#include "gen.hpp"
#include <amgcl/relaxation/damped_jacobi.hpp>
#include <amgcl/relaxation/spai0.hpp>
#include <amgcl/relaxation/spai1.hpp>
#include <amgcl/relaxation/gauss_seidel.hpp>
#include <amgcl/relaxation/chebyshev.hpp>
#include <amgcl/relaxation/ilu0.hpp>
#include <amgcl/relaxation/iluk.hpp>
#include <amgcl/relaxation/ilup.hpp>
#include <amgcl/relaxation/ilut.hpp>
#ifdef _OPENMP
#include <omp.h>
#endif
using namespace vh;

typedef amgcl::backend::builtin<Q> Backend;
typedef Backend::params BPrm;
typedef std::vector<Q> QV;

// ------------------------------------------------------------------ small exact helpers
static QV tovec(const NVec &v) { QV r(v.size()); for (size_t i = 0; i < v.size(); ++i) r[i] = v[i]; return r; }
static bool qeq(const Q &a, const Q &b) { return a.poison == b.poison && (a.poison || a.v == b.v); }
static bool veq(const QV &a, const QV &b) { if (a.size() != b.size()) return false; for (size_t i = 0; i < a.size(); ++i) if (!qeq(a[i], b[i])) return false; return true; }
static bool has_poison(const QV &v) { for (auto &x : v) if (x.poison) return true; return false; }
static QV vsub(const QV &a, const QV &b) { QV r(a.size()); for (size_t i = 0; i < a.size(); ++i) r[i] = a[i] - b[i]; return r; }
static QV vscale(const Q &a, const QV &b) { QV r(b.size()); for (size_t i = 0; i < b.size(); ++i) r[i] = a * b[i]; return r; }
static Q qabs(const Q &a) { return a.v < 0 ? -a : a; }

static bool square_wf(const Mat &A) { std::string why; auto Ac = A.crs(); return A.n == A.m && crs_wf(*Ac, why); }
static bool has_diag(const Mat &A) { for (long i = 0; i < A.n; ++i) { bool d = false; for (auto j = A.ptr[i]; j < A.ptr[i+1]; ++j) if (A.col[j] == i) d = true; if (!d) return false; } return true; }
static bool nodup(const Mat &A) { auto Ac = A.crs(); return crs_nodup(*Ac); }
static bool sorted(const Mat &A) { auto Ac = A.crs(); return crs_sorted_nodup(*Ac); }
static bool diag_nonzero(const Dense &D) { for (size_t i = 0; i < D.size(); ++i) if (D[i][i] == 0) return false; return true; }
static bool is_tridiag(const Dense &D) { for (size_t i = 0; i < D.size(); ++i) for (size_t j = 0; j < D.size(); ++j) if ((i > j + 1 || j > i + 1) && D[i][j] != 0) return false; return true; }
static bool is_arrow(const Dense &D) { size_t n = D.size(); for (size_t i = 0; i + 1 < n; ++i) for (size_t j = 0; j + 1 < n; ++j) if (i != j && D[i][j] != 0) return false; return true; }
static bool pattern_tridiag(const Mat &A) { for (long i = 0; i < A.n; ++i) for (auto j = A.ptr[i]; j < A.ptr[i+1]; ++j) { long c = A.col[j]; if (c > i + 1 || i > c + 1) return false; } return true; }
static bool pattern_arrow(const Mat &A) { for (long i = 0; i + 1 < A.n; ++i) for (auto j = A.ptr[i]; j < A.ptr[i+1]; ++j) { long c = A.col[j]; if (c != i && c != A.n - 1) return false; } return true; }

// exact dense inverse (Gauss-Jordan); false if singular
static bool dinv(Dense M, Dense &R) {
    size_t n = M.size(); R.assign(n, QV(n)); for (size_t i = 0; i < n; ++i) R[i][i] = Q(1);
    for (size_t c = 0; c < n; ++c) {
        size_t p = c; while (p < n && M[p][c] == 0) ++p; if (p == n) return false;
        std::swap(M[p], M[c]); std::swap(R[p], R[c]);
        Q d = Q(1) / M[c][c];
        for (size_t j = 0; j < n; ++j) { M[c][j] *= d; R[c][j] *= d; }
        for (size_t i = 0; i < n; ++i) if (i != c && M[i][c] != 0) { Q m = M[i][c]; for (size_t j = 0; j < n; ++j) { M[i][j] -= m * M[c][j]; R[i][j] -= m * R[c][j]; } }
    }
    return true;
}

// factors in protocol form: L strictly lower, U strictly upper (non-zeros only, sorted), D = inverted pivots
struct Factors { Mat L, U; QV D; };
// Doolittle split of a dense matrix B = (I+L)(Dorig+U); false if a pivot vanishes
static bool lu_split(const Dense &B, Factors &F) {
    size_t n = B.size(); Dense L(n, QV(n)), U(n, QV(n));
    for (size_t i = 0; i < n; ++i) {
        for (size_t j = 0; j < i; ++j) { Q s = B[i][j]; for (size_t k = 0; k < j; ++k) s -= L[i][k] * U[k][j]; if (U[j][j] == 0) return false; L[i][j] = s / U[j][j]; }
        for (size_t j = i; j < n; ++j) { Q s = B[i][j]; for (size_t k = 0; k < i; ++k) s -= L[i][k] * U[k][j]; U[i][j] = s; }
        if (U[i][i] == 0) return false;
    }
    std::vector<std::vector<std::pair<long,Q>>> lr(n), ur(n); F.D.assign(n, Q(0));
    for (size_t i = 0; i < n; ++i) { F.D[i] = Q(1) / U[i][i]; for (size_t j = 0; j < n; ++j) { if (j < i && L[i][j] != 0) lr[i].push_back({(long)j, L[i][j]}); if (j > i && U[i][j] != 0) ur[i].push_back({(long)j, U[i][j]}); } }
    F.L = from_rows(n, n, lr); F.U = from_rows(n, n, ur);
    return true;
}
static Dense lu_product(const Factors &F) {
    size_t n = F.D.size(); Dense L = dense(F.L), U = dense(F.U);
    for (size_t i = 0; i < n; ++i) { L[i][i] = Q(1); U[i][i] = Q(1) / F.D[i]; }
    return dmul(L, U);
}
// the operator B with apply(f) = B^-1 f, read column by column through the public apply()
template <class R> static bool read_operator(R &relax, const Crs &A, Dense &B) {
    size_t n = A.nrows; Dense Binv(n, QV(n));
    for (size_t j = 0; j < n; ++j) { NVec e(n), y(n); for (size_t i = 0; i < n; ++i) { e[i] = Q(i == j ? 1 : 0); y[i] = Q::poisoned(); } relax.apply(A, e, y); for (size_t i = 0; i < n; ++i) { if (y[i].poison) return false; Binv[i][j] = y[i]; } }
    return dinv(Binv, B);
}
template <class R> static bool read_factors(R &relax, const Crs &A, Factors &F) { Dense B; return read_operator(relax, A, B) && lu_split(B, F); }

// admitted patterns, recomputed independently (sets)
typedef std::vector<std::vector<char>> Pat;
static Pat pat_of(const Mat &A) { Pat P(A.n, std::vector<char>(A.n, 0)); for (long i = 0; i < A.n; ++i) for (auto j = A.ptr[i]; j < A.ptr[i+1]; ++j) P[i][A.col[j]] = 1; return P; }
static Pat pat_mul(const Pat &a, const Pat &b) { size_t n = a.size(); Pat c(n, std::vector<char>(n, 0)); for (size_t i = 0; i < n; ++i) for (size_t k = 0; k < n; ++k) if (a[i][k]) for (size_t j = 0; j < n; ++j) if (b[k][j]) c[i][j] = 1; return c; }
static Pat pat_level(const Mat &A, long kfill) {      // amgcl's level rule: lev = max(lev_ik, lev_kj) + 1
    long n = A.n; const long INF = 1L << 40; Pat p0 = pat_of(A);
    std::vector<std::vector<long>> lev(n, std::vector<long>(n, INF));
    for (long i = 0; i < n; ++i) for (long j = 0; j < n; ++j) if (p0[i][j]) lev[i][j] = 0;
    for (long i = 0; i < n; ++i) for (long k = 0; k < i; ++k) if (lev[i][k] <= kfill) for (long j = k + 1; j < n; ++j) if (lev[k][j] <= kfill) { long c = std::max(lev[i][k], lev[k][j]) + 1; if (c <= kfill) lev[i][j] = std::min(lev[i][j], c); }
    Pat P(n, std::vector<char>(n, 0)); for (long i = 0; i < n; ++i) for (long j = 0; j < n; ++j) P[i][j] = lev[i][j] <= kfill; return P;
}
static bool adm_pattern(const std::string &kind, long k, const Mat &A, Pat &P) {
    if (kind == "ilu0") P = pat_of(A);
    else if (kind == "iluk") P = pat_level(A, k);
    else if (kind == "ilup") { Pat a = pat_of(A); P = a; for (long t = 0; t < k; ++t) P = pat_mul(P, a); }
    else if (kind == "ilut") P = Pat(A.n, std::vector<char>(A.n, 1));     // no a-priori pattern: nothing is claimed on it (see lu_flags)
    else return false;
    return true;
}

// Dense reference recurrences for the level-of-fill factorisation, written from the algorithm descriptions:
//   asis = true : amgcl's single pass: a contribution to a position that has no slot yet is DISCARDED when its level
//                 exceeds k (iluk.hpp sparse_vector::add), an existing slot accumulates everything;
//   asis = false: Saad's ILU(p) (Alg. 10.5): every contribution is accumulated together with its level, only slots
//                 of level <= k are used as multipliers, slots of level > k are dropped when the row is finished.
// Level rule in both: lev = max(lev_ik, lev_kj) + 1 (amgcl's).  Works on the stored pattern of A (explicit zeros count).
static bool dense_iluk(const Mat &A, long kfill, bool asis, Factors &F) {
    long n = A.n; const long NONE = -1;
    Dense Lv(n, QV(n)), Uv(n, QV(n)); std::vector<std::vector<long>> Ul(n, std::vector<long>(n, NONE)); QV Dinv(n);
    for (long i = 0; i < n; ++i) {
        QV w(n); std::vector<long> wl(n, NONE);
        auto add = [&](long c, const Q &v, long lev) { if (wl[c] == NONE) { if (!asis || lev <= kfill) { w[c] = v; wl[c] = lev; } } else { w[c] += v; wl[c] = std::min(wl[c], lev); } };
        for (auto j = A.ptr[i]; j < A.ptr[i+1]; ++j) add(A.col[j], A.val[j], 0);
        for (long c = 0; c < i; ++c) { if (wl[c] == NONE || wl[c] > kfill) continue; w[c] = w[c] * Dinv[c]; for (long j = c + 1; j < n; ++j) if (Ul[c][j] != NONE) add(j, -w[c] * Uv[c][j], std::max(wl[c], Ul[c][j]) + 1); }
        if (wl[i] == NONE) return false;
        for (long c = 0; c < n; ++c) { if (wl[c] == NONE || wl[c] > kfill) continue; if (c < i) Lv[i][c] = w[c]; else if (c == i) Dinv[i] = Q(1) / w[c]; else { Uv[i][c] = w[c]; Ul[i][c] = wl[c]; } }
    }
    std::vector<std::vector<std::pair<long,Q>>> lr(n), ur(n);
    for (long i = 0; i < n; ++i) for (long j = 0; j < n; ++j) { if (j < i && Lv[i][j] != 0) lr[i].push_back({j, Lv[i][j]}); if (j > i && Uv[i][j] != 0) ur[i].push_back({j, Uv[i][j]}); }
    F.L = from_rows(n, n, lr); F.U = from_rows(n, n, ur); F.D = Dinv; return true;
}
// A with explicit zeros on the pattern P (what ilup hands to ilu0)
static Mat pad_to(const Mat &A, const std::vector<std::vector<char>> &P) {
    Dense D = dense(A); std::vector<std::vector<std::pair<long,Q>>> rows(A.n);
    for (long i = 0; i < A.n; ++i) for (long j = 0; j < A.n; ++j) if (P[i][j]) rows[i].push_back({j, D[i][j]});
    return from_rows(A.n, A.n, rows);
}

// ------------------------------------------------------------------ running the real classes
template <class R> static void run_sweep(R &relax, const Crs &A, const QV &f, QV &x, QV &t, bool pre) {
    NVec F = nvec(f), X = nvec(x), T = nvec(t);
    if (pre) relax.apply_pre(A, F, X, T); else relax.apply_post(A, F, X, T);
    x = tovec(X); t = tovec(T);
}
template <class R> static QV run_apply(R &relax, const Crs &A, const QV &f) {
    NVec F = nvec(f), X(f.size()); for (size_t i = 0; i < f.size(); ++i) X[i] = Q::poisoned();    // output only
    relax.apply(A, F, X); return tovec(X);
}
// sweep + the generic oracles (fixed point, scratch independence)
template <class R> static void sweep_case(Result &r, R &relax, const Mat &Am, const Crs &A, const QV &f, const QV &x, const QV &t, bool pre, QV &x1, QV &t1, bool need_pivot_for_fixed = false) {
    x1 = x; t1 = t; run_sweep(relax, A, f, x1, t1, pre);
    QV xp = x, tp(t.size(), Q::poisoned()); run_sweep(relax, A, f, xp, tp, pre);
    if (!veq(xp, x1)) r.fail("new iterate depends on the incoming scratch vector");
    if (has_poison(xp)) r.fail("poisoned scratch leaked into the iterate");
    QV Ax = dmv(dense(Am), x);
    if (veq(Ax, f)) { r.tag("fixedpoint"); if (!need_pivot_for_fixed && !veq(x1, x)) r.fail("A x = f but the sweep moved x"); }
    r.out = (Line() << x1 << t1).get();
}
static bool parse_float(const Q &q, float &out) { float f = (float)q.v.get_d(); if (Q(f).v != q.v) return false; out = f; return true; }

struct ChebP { long deg; Q hi, lo; bool scale; };
static ChebP parse_cheb(Cur &c) { ChebP p; p.deg = c.nat(); p.hi = c.rat(); p.lo = c.rat(); long s = c.nat(); if (p.deg < 0 || (s != 0 && s != 1)) throw bad_input("cheb"); p.scale = s == 1; return p; }
typedef amgcl::relaxation::chebyshev<Backend> Cheb;
static Cheb::params cheb_params(const ChebP &p) {
    Cheb::params prm; float hi, lo; if (!parse_float(p.hi, hi) || !parse_float(p.lo, lo)) throw bad_input("float");
    prm.degree = (unsigned)p.deg; prm.higher = hi; prm.lower = lo; prm.power_iters = 0; prm.scale = p.scale; return prm;
}
// Gershgorin bounds -> (c, d), from the dense matrix (mathematical definition; needs a unique stored diagonal)
static void cheb_cd(const Dense &D, const ChebP &p, Q &c, Q &d) {
    Q hi(0); for (size_t i = 0; i < D.size(); ++i) { Q s(0); for (auto &v : D[i]) s += qabs(v); if (p.scale) s = s * qabs(Q(1) / D[i][i]); if (hi < s) hi = s; }
    Q lo = hi * p.lo; hi = hi * p.hi; d = (hi + lo) / Q(2); c = (hi - lo) / Q(2);
}
// residual polynomial oracle: r_deg == T_deg(Z) r_0 / T_deg(d/c), Z = (d I - Ahat)/c
static bool cheb_poly_ok(const Dense &D, const ChebP &p, const QV &f, const QV &x0, const QV &x1, bool &evaluated) {
    evaluated = false; size_t n = D.size(); Q c, d; cheb_cd(D, p, c, d); if (c == 0) return true;
    QV dinvv(n, Q(1)); if (p.scale) for (size_t i = 0; i < n; ++i) dinvv[i] = D[i][i] == 0 ? Q(1) : Q(1) / D[i][i];
    auto res = [&](const QV &x) { QV r = vsub(f, dmv(D, x)); for (size_t i = 0; i < n; ++i) r[i] = dinvv[i] * r[i]; return r; };
    auto Z = [&](const QV &v) { QV a = dmv(D, v); QV z(n); for (size_t i = 0; i < n; ++i) z[i] = (d * v[i] - dinvv[i] * a[i]) / c; return z; };
    QV y0 = res(x0), y1 = Z(y0); Q t0(1), t1 = d / c;
    if (p.deg == 0) { evaluated = true; return veq(res(x1), y0); }
    for (long k = 1; k < p.deg; ++k) { QV zy = Z(y1), y2(n); for (size_t i = 0; i < n; ++i) y2[i] = Q(2) * zy[i] - y0[i]; y0 = y1; y1 = y2; Q t2 = Q(2) * (d / c) * t1 - t0; t0 = t1; t1 = t2; }
    if (t1 == 0) return true;
    evaluated = true; QV want(n); for (size_t i = 0; i < n; ++i) want[i] = y1[i] / t1;
    return veq(res(x1), want);
}

template <class R> static void lu_flags(const std::string &kind, long k, const Mat &A, const Factors &F, bool &onpat, bool &inpat, bool &exact) {
    Pat P; adm_pattern(kind, k, A, P); Dense B = lu_product(F), D = dense(A), L = dense(F.L), U = dense(F.U); long n = A.n;
    onpat = inpat = exact = true;
    for (long i = 0; i < n; ++i) for (long j = 0; j < n; ++j) {
        bool e = B[i][j].v == D[i][j].v; if (!e) exact = false; if (P[i][j] && !e && kind != "ilut") onpat = false;
        if (!P[i][j] && (L[i][j] != 0 || U[i][j] != 0)) inpat = false;
    }
}
struct LuKind { std::string kind; long k; };
// construct the real factorisation `kind`(k) of A and read its factors; false when the operator is singular
static bool real_factors(const std::string &kind, long k, const Mat &Am, Factors &F) {
    auto A = Am.crs(); BPrm bprm;
    if (kind == "ilu0") { amgcl::relaxation::ilu0<Backend>::params p; amgcl::relaxation::ilu0<Backend> R(*A, p, bprm); return read_factors(R, *A, F); }
    if (kind == "iluk") { amgcl::relaxation::iluk<Backend>::params p; p.k = (int)k; amgcl::relaxation::iluk<Backend> R(*A, p, bprm); return read_factors(R, *A, F); }
    if (kind == "ilup") { amgcl::relaxation::ilup<Backend>::params p; p.k = (int)k; amgcl::relaxation::ilup<Backend> R(*A, p, bprm); return read_factors(R, *A, F); }
    if (kind == "ilut") {   // ILUT with tau = 0 (no threshold dropping) and the default fill factor p = 2  (k is ignored)
        amgcl::relaxation::ilut<Backend>::params p; p.tau = Q(0); amgcl::relaxation::ilut<Backend> R(*A, p, bprm); return read_factors(R, *A, F); }
    throw bad_input("kind");
}
// dense as-is reference for the modelled kinds ("-" when there is none: ilut)
static bool asis_reference(const std::string &kind, long k, const Mat &Am, Factors &F) {
    if (kind == "ilu0") return dense_iluk(Am, 0, true, F);
    if (kind == "iluk") return dense_iluk(Am, k, true, F);
    if (kind == "ilup") { Pat P; adm_pattern("ilup", k, Am, P); return dense_iluk(k == 0 ? Am : pad_to(Am, P), 0, true, F); }
    return false;
}
static bool factors_eq(const Factors &a, const Factors &b);
static Mat spai1_M(const Mat &Am) {
    auto A = Am.crs(); BPrm bprm; amgcl::relaxation::spai1<Backend>::params p; amgcl::relaxation::spai1<Backend> R(*A, p, bprm);
    Mat M; M.n = Am.n; M.m = Am.m; const Crs &C = *R.M;
    M.ptr.assign(C.ptr, C.ptr + C.nrows + 1); M.col.assign(C.col, C.col + C.nnz); M.val.assign(C.val, C.val + C.nnz); return M;
}
static bool mat_eq(const Mat &a, const Mat &b) { if (a.n != b.n || a.m != b.m || a.ptr != b.ptr || a.col != b.col || a.val.size() != b.val.size()) return false; for (size_t i = 0; i < a.val.size(); ++i) if (!qeq(a.val[i], b.val[i])) return false; return true; }

static bool factors_eq(const Factors &a, const Factors &b) { return mat_eq(a.L, b.L) && mat_eq(a.U, b.U) && veq(a.D, b.D); }

// ------------------------------------------------------------------ one op
static Result execute(const Toks &t) {
#ifdef _OPENMP
    omp_set_num_threads(1);
#endif
    Cur c(t); const std::string &op = t[0]; Result r; BPrm bprm;
    auto sweep_args = [&](Mat &A, QV &f, QV &x, QV &tmp) { A = c.mat(); f = c.vec(); x = c.vec(); tmp = c.vec(); c.expect_end(); if (!square_wf(A) || (long)f.size() != A.n || (long)x.size() != A.n || (long)tmp.size() != A.n) throw bad_input("shape"); };
    auto apply_args = [&](Mat &A, QV &f) { A = c.mat(); f = c.vec(); c.expect_end(); if (!square_wf(A) || (long)f.size() != A.n) throw bad_input("shape"); };
    auto struct_tags = [&](const Mat &A) { if (A.n == 1) r.tag("n1"); if (!sorted(A)) r.tag(nodup(A) ? "unsorted" : "dups"); if (!is_symmetric(A)) r.tag("nonsym"); if (pattern_tridiag(A)) r.tag("tridiag"); else if (pattern_arrow(A)) r.tag("arrow"); bool lone = false; for (long i = 0; i < A.n; ++i) if (A.ptr[i+1] - A.ptr[i] <= 1) lone = true; if (lone && A.n > 1) r.tag("lonerow"); };
    try {
    if (op == "relax_jacobi_pre" || op == "relax_jacobi_post" || op == "relax_jacobi_apply") {
        typedef amgcl::relaxation::damped_jacobi<Backend> R; Q w = c.rat(); Mat Am; QV f, x, tmp;
        bool app = op == "relax_jacobi_apply"; if (app) apply_args(Am, f); else sweep_args(Am, f, x, tmp);
        if (!has_diag(Am)) throw bad_input("diagonal");       // backend::diagonal would leave the slot uninitialised
        auto A = Am.crs(); R relax(*A, R::params(w), bprm);
        Dense D = dense(Am); QV dinvv(Am.n);
        for (long i = 0; i < Am.n; ++i) { Q d; for (auto j = Am.ptr[i]; j < Am.ptr[i+1]; ++j) if (Am.col[j] == i) { d = Am.val[j]; break; } dinvv[i] = d == 0 ? Q(1) : Q(1) / d; if (d == 0) r.tag("zerodiag"); }
        if (app) {
            QV y = run_apply(relax, *A, f); QV ref(Am.n); for (long i = 0; i < Am.n; ++i) ref[i] = dinvv[i] * f[i];
            if (!veq(y, ref)) r.fail("jacobi apply != D^-1 f"); r.out = (Line() << y).get(); r.tag("jacobi_apply");
        } else {
            QV x1, t1; sweep_case(r, relax, Am, *A, f, x, tmp, op == "relax_jacobi_pre", x1, t1);
            QV res = vsub(f, dmv(D, x)), ref(Am.n); for (long i = 0; i < Am.n; ++i) ref[i] = x[i] + w * dinvv[i] * res[i];
            if (!veq(x1, ref)) r.fail("jacobi sweep != x + w D^-1 (f - A x)"); if (!veq(t1, res)) r.fail("jacobi tmp != f - A x");
            r.tag("jacobi");
        }
        struct_tags(Am); r.nontrivial = Am.n > 1 && Am.col.size() > (size_t)Am.n;
    } else if (op == "relax_spai0_pre" || op == "relax_spai0_post" || op == "relax_spai0_apply" || op == "relax_spai0_m") {
        typedef amgcl::relaxation::spai0<Backend> R; Mat Am; QV f, x, tmp;
        if (op == "relax_spai0_m") { Am = c.mat(); c.expect_end(); if (!square_wf(Am)) throw bad_input("shape"); }
        else if (op == "relax_spai0_apply") apply_args(Am, f); else sweep_args(Am, f, x, tmp);
        auto A = Am.crs(); R relax(*A, R::params(), bprm); Dense D = dense(Am); bool nd = nodup(Am);
        QV m(Am.n); for (long i = 0; i < Am.n; ++i) { Q den(0); for (auto &v : D[i]) den += v * v; m[i] = D[i][i] / den; }      // the formula a_ii / sum_j a_ij^2 (meaningful without duplicates)
        if (nd && !veq(tovec(*relax.M), m)) r.fail("spai0 M_i != a_ii / sum_j a_ij^2");
        if (op == "relax_spai0_m") { r.out = (Line() << *relax.M).get(); r.tag("spai0_m"); }
        else if (op == "relax_spai0_apply") { QV y = run_apply(relax, *A, f); QV ref(Am.n); for (long i = 0; i < Am.n; ++i) ref[i] = m[i] * f[i]; if (nd && !veq(y, ref)) r.fail("spai0 apply != M f"); r.out = (Line() << y).get(); r.tag("spai0_apply"); }
        else { QV x1, t1; sweep_case(r, relax, Am, *A, f, x, tmp, op == "relax_spai0_pre", x1, t1); QV res = vsub(f, dmv(D, x)), ref(Am.n); for (long i = 0; i < Am.n; ++i) ref[i] = x[i] + m[i] * res[i]; if (nd && !veq(x1, ref)) r.fail("spai0 sweep != x + M (f - A x)"); r.tag("spai0"); }
        struct_tags(Am); r.nontrivial = Am.n > 1 && Am.col.size() > (size_t)Am.n;
    } else if (op == "relax_gs_pre" || op == "relax_gs_post" || op == "relax_gs_apply") {
        typedef amgcl::relaxation::gauss_seidel<Backend> R; Mat Am; QV f, x, tmp; bool app = op == "relax_gs_apply";
        if (app) apply_args(Am, f); else sweep_args(Am, f, x, tmp);
        auto A = Am.crs(); R relax(*A, R::params(), bprm); Dense D = dense(Am); long n = Am.n;
        bool defd = nodup(Am) && has_diag(Am) && diag_nonzero(D);            // the triangular systems are defined
        auto fwd = [&](const QV &x0) { QV y = x0; for (long i = 0; i < n; ++i) { Q s = f[i]; for (long j = 0; j < n; ++j) if (j != i) s -= D[i][j] * y[j]; y[i] = s / D[i][i]; } return y; };
        auto bwd = [&](const QV &x0) { QV y = x0; for (long i = n; i-- > 0;) { Q s = f[i]; for (long j = 0; j < n; ++j) if (j != i) s -= D[i][j] * y[j]; y[i] = s / D[i][i]; } return y; };
        if (app) { QV y = run_apply(relax, *A, f); if (defd && !veq(y, bwd(fwd(QV(n, Q(0)))))) r.fail("gs apply != backward(forward(0))"); r.out = (Line() << y).get(); r.tag("gs_apply"); }
        else {
            bool pre = op == "relax_gs_pre"; QV x1, t1; sweep_case(r, relax, Am, *A, f, x, tmp, pre, x1, t1, !defd);
            if (defd) {   // (D+L) y + U x = f  resp.  (D+U) y + L x = f, checked as a residual of the triangular system
                for (long i = 0; i < n; ++i) { Q s(0); for (long j = 0; j < n; ++j) { bool fresh = pre ? (j <= i) : (j >= i); s += D[i][j] * (fresh ? x1[j] : x[j]); } if (s.v != f[i].v) { r.fail(pre ? "(D+L) y + U x != f" : "(D+U) y + L x != f"); break; } }
                if (!veq(x1, pre ? fwd(x) : bwd(x))) r.fail("gs sweep != substitution");
            } else r.tag("gs_undefined_split");
            if (!veq(t1, tmp)) r.fail("gs touched tmp"); r.tag(pre ? "gs_pre" : "gs_post");
        }
        struct_tags(Am); r.nontrivial = n > 1 && Am.col.size() > (size_t)n;
    } else if (op == "relax_cheb_pre" || op == "relax_cheb_post" || op == "relax_cheb_apply" || op == "relax_cheb_twice" || op == "relax_cheb_cd") {
        ChebP p; Mat Am; QV f, x, tmp, g;
        if (op == "relax_cheb_cd") { p.deg = 0; p.hi = c.rat(); p.lo = c.rat(); long s = c.nat(); if (s != 0 && s != 1) throw bad_input("scale"); p.scale = s == 1; Am = c.mat(); c.expect_end(); if (!square_wf(Am)) throw bad_input("shape"); }
        else { p = parse_cheb(c); if (op == "relax_cheb_apply") apply_args(Am, f); else sweep_args(Am, f, x, tmp); }
        if (op == "relax_cheb_twice") g = tmp;
        if (p.scale && !has_diag(Am)) throw bad_input("diagonal");
        Cheb::params prm = cheb_params(p); auto A = Am.crs(); Cheb relax(*A, prm, bprm); Dense D = dense(Am); long n = Am.n;
        bool defd = nodup(Am) && (!p.scale || (has_diag(Am) && diag_nonzero(D)));
        r.tag(p.scale ? "cheb_scale" : "cheb_noscale"); r.tag("deg" + std::to_string(p.deg));
        if (op == "relax_cheb_cd") {
            // c, d are private: observe them through one degree-1 sweep from x = 0 on f = e_0 (x' = r/d) -- instead the
            // model prints them and the harness prints the dense recomputation, which the sweeps then confirm
            Q cc, dd; if (!defd) throw bad_input("undefined"); cheb_cd(D, p, cc, dd); r.out = (Line() << cc << dd).get(); r.tag("cheb_cd");
            if (n > 0 && dd != 0) { ChebP p1 = p; p1.deg = 1; Cheb::params prm1 = cheb_params(p1); Cheb r1(*A, prm1, bprm); QV e(n, Q(0)); e[0] = Q(1); QV y = run_apply(r1, *A, e); Q want = (p.scale ? (D[0][0] == 0 ? Q(1) : Q(1) / D[0][0]) : Q(1)) / dd; if (y[0].v != want.v) r.fail("degree-1 Chebyshev step is not r/d with the Gershgorin d"); }
        } else if (op == "relax_cheb_apply") {
            QV y = run_apply(relax, *A, f); bool ev; if (defd && !cheb_poly_ok(D, p, f, QV(n, Q(0)), y, ev)) r.fail("cheb apply: residual != T_d((d-A)/c) r0 / T_d(d/c)");
            r.out = (Line() << y).get(); r.tag("cheb_apply");
        } else if (op == "relax_cheb_twice") {
            QV x1 = x, t1(n, Q(0)); run_sweep(relax, *A, f, x1, t1, true); QV x2 = x1; run_sweep(relax, *A, g, x2, t1, true);
            Cheb fresh(*A, prm, bprm); QV y2 = x1, t2(n, Q(0)); run_sweep(fresh, *A, g, y2, t2, true);
            if (!veq(x2, y2)) r.fail("second Chebyshev sweep on the same object differs from a fresh object (members p, r leak)");
            r.out = (Line() << x2).get(); r.tag("cheb_twice");
        } else {
            QV x1, t1; sweep_case(r, relax, Am, *A, f, x, tmp, op == "relax_cheb_pre", x1, t1);
            bool ev = false; if (defd && !cheb_poly_ok(D, p, f, x, x1, ev)) r.fail("cheb sweep: residual != T_d((d-A)/c) r0 / T_d(d/c)"); if (ev) r.tag("cheb_poly");
            if (!veq(t1, tmp)) r.fail("cheb touched tmp");
        }
        struct_tags(Am); r.nontrivial = n > 1 && Am.col.size() > (size_t)n && (p.deg > 0 || op == "relax_cheb_cd");
    } else if (op == "relax_ilu0_pre" || op == "relax_ilu0_post" || op == "relax_ilu0_apply" || op == "relax_ilu0_factors") {
        typedef amgcl::relaxation::ilu0<Backend> R; Q w(1); Mat Am; QV f, x, tmp;
        if (op == "relax_ilu0_factors") { Am = c.mat(); c.expect_end(); if (!square_wf(Am)) throw bad_input("shape"); }
        else if (op == "relax_ilu0_apply") apply_args(Am, f); else { w = c.rat(); sweep_args(Am, f, x, tmp); }
        if (!sorted(Am)) throw bad_input("unsorted");
        for (long i = 0; i < Am.n; ++i) { bool ge = false; for (auto j = Am.ptr[i]; j < Am.ptr[i+1]; ++j) if (Am.col[j] >= i) ge = true; if (!ge) throw bad_input("row without diagonal: D[i] stays uninitialised"); }
        auto A = Am.crs(); R::params prm; prm.damping = w; Dense D = dense(Am); long n = Am.n;
        std::unique_ptr<R> relax;
        try { relax.reset(new R(*A, prm, bprm)); } catch (const bad_input&) { throw; } catch (const std::runtime_error&) { r.out = "precondition"; r.tag("ilu0_precondition"); r.nontrivial = n > 1; return r; }
        Factors F; bool okF = read_factors(*relax, *A, F);
        if (!okF) r.fail("ilu0: apply() is not the inverse of a unit-lower times upper product");
        else { bool onpat, inpat, exact; lu_flags<R>("ilu0", 0, Am, F, onpat, inpat, exact); if (!onpat) r.fail("ilu0: (L U)_ij != a_ij on the pattern of A"); if (!inpat) r.fail("ilu0: factor entry outside the pattern of A"); if ((pattern_tridiag(Am) || pattern_arrow(Am)) && !exact) r.fail("ilu0 not exact on a tridiagonal/arrow matrix"); if (exact) r.tag("ilu0_exact"); }
        Dense B = okF ? lu_product(F) : D;
        if (op == "relax_ilu0_factors") { Line lo; lo << F.L << F.U << F.D; r.out = lo.get(); r.tag("ilu0_factors"); }
        else if (op == "relax_ilu0_apply") { QV y = run_apply(*relax, *A, f); if (okF && !veq(dmv(B, y), f)) r.fail("ilu0 apply: (L U) y != f"); r.out = (Line() << y).get(); r.tag("ilu0_apply"); }
        else { QV x1, t1; sweep_case(r, *relax, Am, *A, f, x, tmp, op == "relax_ilu0_pre", x1, t1); QV res = vsub(f, dmv(D, x)); if (okF && !veq(dmv(B, t1), res)) r.fail("ilu0 sweep: (L U) tmp != f - A x"); if (!veq(vsub(x1, x), vscale(w, t1))) r.fail("ilu0 sweep: x' - x != damping * tmp"); r.tag("ilu0"); }
        struct_tags(Am); r.nontrivial = n > 1 && Am.col.size() > (size_t)n;
    } else if (op == "relax_iluk_pre" || op == "relax_iluk_post" || op == "relax_iluk_apply" || op == "relax_iluk_factors" || op == "relax_ilup_factors") {
        bool isp = op == "relax_ilup_factors"; long k = c.nat(); Q w(1); Mat Am; QV f, x, tmp; if (k < 0) throw bad_input("k");
        if (op == "relax_iluk_factors" || isp) { Am = c.mat(); c.expect_end(); if (!square_wf(Am)) throw bad_input("shape"); }
        else if (op == "relax_iluk_apply") apply_args(Am, f); else { w = c.rat(); sweep_args(Am, f, x, tmp); }
        if (!sorted(Am) || !has_diag(Am)) throw bad_input("structure");
        auto A = Am.crs(); Dense D = dense(Am); long n = Am.n; std::string kind = isp ? "ilup" : "iluk";
        typedef amgcl::relaxation::iluk<Backend> RK; typedef amgcl::relaxation::ilup<Backend> RP;
        std::unique_ptr<RK> rk; std::unique_ptr<RP> rp;
        try { if (isp) { RP::params prm; prm.k = (int)k; rp.reset(new RP(*A, prm, bprm)); } else { RK::params prm; prm.k = (int)k; prm.damping = w; rk.reset(new RK(*A, prm, bprm)); } }
        catch (const bad_input&) { throw; } catch (const std::runtime_error&) { r.out = "precondition"; r.tag(kind + "_precondition"); r.nontrivial = n > 1; return r; }
        Factors F; bool okF = isp ? read_factors(*rp, *A, F) : read_factors(*rk, *A, F);
        if (!okF) { r.tag(kind + "_singular"); if (op == "relax_iluk_factors" || isp) { r.out = "singular"; r.nontrivial = n > 1; return r; } }
        Factors Ref; if (okF && !(asis_reference(kind, k, Am, Ref) && factors_eq(Ref, F))) r.fail(kind + ": factors differ from the dense reference recurrence of the algorithm as written");
        Dense B = okF ? lu_product(F) : D;
        if (op == "relax_iluk_factors" || isp) { Line lo; lo << F.L << F.U << F.D; r.out = lo.get(); r.tag(kind + "_factors"); }
        else if (op == "relax_iluk_apply") { QV y = run_apply(*rk, *A, f); if (okF && !veq(dmv(B, y), f)) r.fail("iluk apply: (L U) y != f"); r.out = (Line() << y).get(); r.tag("iluk_apply"); }
        else { QV x1, t1; sweep_case(r, *rk, Am, *A, f, x, tmp, op == "relax_iluk_pre", x1, t1); QV res = vsub(f, dmv(D, x)); if (okF && !veq(dmv(B, t1), res)) r.fail("iluk sweep: (L U) tmp != f - A x"); if (!veq(vsub(x1, x), vscale(w, t1))) r.fail("iluk sweep: x' - x != damping * tmp"); r.tag("iluk"); }
        r.tag(kind + std::to_string(k)); struct_tags(Am); r.nontrivial = n > 1 && Am.col.size() > (size_t)n;
    } else if (op == "relax_ilu_solve") {
        Mat L = c.mat(), U = c.mat(); QV Dv = c.vec(), b = c.vec(); c.expect_end();
        if (!square_wf(L) || !square_wf(U) || L.n != U.n || (long)Dv.size() != L.n || (long)b.size() != L.n) throw bad_input("shape");
        for (long i = 0; i < L.n; ++i) { for (auto j = L.ptr[i]; j < L.ptr[i+1]; ++j) if (L.col[j] >= i) throw bad_input("L"); for (auto j = U.ptr[i]; j < U.ptr[i+1]; ++j) if (U.col[j] <= i) throw bad_input("U"); }
        typedef amgcl::relaxation::detail::ilu_solve<Backend> S; auto Lc = L.crs(), Uc = U.crs(); auto Dn = std::make_shared<NVec>(Dv);
        S::params sp; S solver(Lc, Uc, Dn, sp, bprm); NVec X = nvec(b); solver.solve(X); QV y = tovec(X);
        // oracle: (I+L) z = b, z_i = y_i / D_i + sum_j U_ij y_j  (when no D_i is zero)
        bool nz = true; for (auto &d : Dv) if (d == 0) nz = false;
        if (nz) { Dense Ld = dense(L), Ud = dense(U); long n = L.n; QV z(n); for (long i = 0; i < n; ++i) { z[i] = y[i] / Dv[i]; for (long j = 0; j < n; ++j) z[i] += Ud[i][j] * y[j]; } QV bb = z; for (long i = 0; i < n; ++i) for (long j = 0; j < n; ++j) bb[i] += Ld[i][j] * z[j]; if (!veq(bb, b)) r.fail("serial_solve: (I+L)(D^-1+U) y != b"); } else r.tag("zeroD");
        r.out = (Line() << y).get(); r.tag("ilu_solve"); r.nontrivial = L.n > 1 && (L.col.size() + U.col.size()) > 0;
    } else if (op == "relax_lu_check") {
        std::string kind = c.tok(); long k = c.nat(); Mat Am = c.mat(); Factors G; G.L = c.mat(); G.U = c.mat(); G.D = c.vec(); c.expect_end();
        if (!square_wf(Am) || !square_wf(G.L) || !square_wf(G.U) || G.L.n != Am.n || G.U.n != Am.n || (long)G.D.size() != Am.n || k < 0) throw bad_input("shape");
        for (long i = 0; i < Am.n; ++i) { for (auto j = G.L.ptr[i]; j < G.L.ptr[i+1]; ++j) if (G.L.col[j] >= i) throw bad_input("L"); for (auto j = G.U.ptr[i]; j < G.U.ptr[i+1]; ++j) if (G.U.col[j] <= i) throw bad_input("U"); }
        Pat P; if (!adm_pattern(kind, k, Am, P)) throw bad_input("kind");
        if (!sorted(Am) || !has_diag(Am)) throw bad_input("structure");
        Factors F; bool okF = real_factors(kind, k, Am, F);
        if (!okF) r.fail(kind + ": apply() is not the inverse of a unit-lower times upper product");
        else if (!factors_eq(F, G)) r.fail(kind + ": the factors in the op line are not what the implementation produces now");
        const Factors &H = okF ? F : G;
        bool onpat, inpat, exact; lu_flags<int>(kind, k, Am, H, onpat, inpat, exact);
        // does the independent dense recurrence of the algorithm AS WRITTEN reproduce the implementation's factors?
        Factors Ref; bool has_ref = kind != "ilut", asis = has_ref && asis_reference(kind, k, Am, Ref) && factors_eq(Ref, H);
        if (has_ref && !asis) r.fail(kind + ": factors differ from the dense reference recurrence of the algorithm as written");
        bool must_exact = pattern_tridiag(Am) || pattern_arrow(Am) || (kind == "iluk" && k >= Am.n);
        if (must_exact && !exact) r.fail(kind + ": not the exact factorisation although the exact factors fit the pattern");
        if (!onpat) {
            // Known defect C06-iluk-dropped-contributions is recognised ONLY when (a) the as-is recurrence reproduces the
            // implementation exactly, (b) k < n, and (c) the recurrence that keeps the discarded level>k terms satisfies the
            // identity on the same admitted pattern.  Anything else is an ordinary failure.
            bool excused = false; std::string where;
            if (kind == "iluk" && k < Am.n && asis && !must_exact) {
                Factors Cor; bool co, ci, ce; if (dense_iluk(Am, k, false, Cor)) { lu_flags<int>(kind, k, Am, Cor, co, ci, ce); excused = co && ci; }
                Pat P; adm_pattern(kind, k, Am, P); Dense B = lu_product(H), D = dense(Am);
                for (long i = 0; i < Am.n && where.empty(); ++i) for (long j = 0; j < Am.n; ++j) if (P[i][j] && B[i][j].v != D[i][j].v) { where = "(LU)[" + std::to_string(i) + "," + std::to_string(j) + "] = " + B[i][j].str() + " != a_ij = " + D[i][j].str(); break; }
            }
            if (excused) { r.fail("iluk-dropped-contribution: " + where + " on an admitted position; as-is recurrence == implementation, recurrence with the discarded level>k terms restores the identity"); r.tag("iluk_dropped"); }
            else r.fail(kind + ": (L U)_ij != a_ij on the admitted pattern");
        }
        if (!inpat) r.fail(kind + ": factor entry outside the admitted pattern");
        { Line lo; lo << onpat << inpat << exact << (has_ref ? (asis ? "1" : "0") : "-"); r.out = lo.get(); }
        r.tag("lu_" + kind); if (kind == "iluk" || kind == "ilup") r.tag(kind + std::to_string(k)); if (exact) r.tag("lu_exact");
        struct_tags(Am); r.nontrivial = Am.n > 1 && Am.col.size() > (size_t)Am.n;
    } else if (op == "relax_spai1_check") {
        Mat Am = c.mat(), G = c.mat(); c.expect_end(); if (!square_wf(Am) || !square_wf(G) || G.n != Am.n) throw bad_input("shape");
        Mat M = spai1_M(Am); if (!mat_eq(M, G)) r.fail("spai1: the matrix in the op line is not what the implementation produces now");
        bool samepat = M.ptr == Am.ptr && M.col == Am.col; Dense A = dense(Am), Md = dense(M); long n = Am.n; bool exact = true, tol = true; Q eps = Q::frac(1, 1L << 16);
        for (long i = 0; i < n; ++i) { QV res(n); for (long j = 0; j < n; ++j) { Q s(i == j ? 1 : 0); for (long l = 0; l < n; ++l) s -= Md[i][l] * A[l][j]; res[j] = s; }
            for (auto jj = Am.ptr[i]; jj < Am.ptr[i+1]; ++jj) { long k = Am.col[jj]; Q s(0); for (long j = 0; j < n; ++j) s += res[j] * A[k][j]; if (s != 0) exact = false; if (qabs(s) > eps) tol = false; } }
        if (!samepat) r.fail("spai1: pattern of M differs from the pattern of A"); if (!tol) r.fail("spai1: normal equations violated beyond 2^-16");
        r.out = (Line() << samepat << exact << tol).get(); r.tag("spai1"); if (exact) r.tag("spai1_exact"); struct_tags(Am); r.nontrivial = n > 1 && Am.col.size() > (size_t)n;
    } else if (op == "relax_ilupw_factors" || op == "relax_ilupw_pad" || op == "relax_ilupw_pre" || op == "relax_ilupw_post" || op == "relax_ilupw_apply") {
        // F-grade: the REAL ilup against the model of ilup.hpp as written (Model/RelaxIlup.lean: symb_product with its marker arrays,
        // the scatter loop, ilu0 on the padded matrix)
        typedef amgcl::relaxation::ilup<Backend> RP; typedef amgcl::relaxation::ilu0<Backend> R0;
        long k = c.nat(); Q w(1); Mat Am; QV f, x, tmp; if (k < 0) throw bad_input("k");
        if (op == "relax_ilupw_factors" || op == "relax_ilupw_pad") { Am = c.mat(); c.expect_end(); if (!square_wf(Am)) throw bad_input("shape"); }
        else if (op == "relax_ilupw_apply") apply_args(Am, f); else { w = c.rat(); sweep_args(Am, f, x, tmp); }
        if (!sorted(Am) || !has_diag(Am)) throw bad_input("structure");
        auto A = Am.crs(); Dense D = dense(Am); long n = Am.n; RP::params prm; prm.k = (int)k; prm.damping = w;
        Pat P; adm_pattern("ilup", k, Am, P); Mat Pm = k == 0 ? Am : pad_to(Am, P);      // independent: dense boolean power, values of A
        std::unique_ptr<RP> rp; bool pre_fail = false;
        try { rp.reset(new RP(*A, prm, bprm)); } catch (const bad_input&) { throw; } catch (const std::runtime_error&) { pre_fail = true; }
        if (op == "relax_ilupw_pad") {
            // P is a local of the constructor: what is printed is the harness' own padded matrix; the oracle ties it to the real class:
            // ilup(A, k) and ilu0(padded matrix) must be the same operator (or fail the same precondition)
            auto Pc = Pm.crs(); R0::params p0; std::unique_ptr<R0> r0; bool pre0 = false;
            try { r0.reset(new R0(*Pc, p0, bprm)); } catch (const bad_input&) { throw; } catch (const std::runtime_error&) { pre0 = true; }
            if (pre0 != pre_fail) r.fail("ilup(A, k) and ilu0(A padded to the pattern of A^(k+1)) disagree on the precondition");
            else if (!pre0) for (long j = 0; j < n && r.ok; ++j) { QV e(n, Q(0)); e[j] = Q(1); if (!veq(run_apply(*rp, *A, e), run_apply(*r0, *Pc, e))) r.fail("ilup(A, k) is not ilu0 of A padded to the pattern of A^(k+1)"); }
            Line lo; lo << Pm; r.out = lo.get(); r.tag("ilupw_pad"); r.tag("ilupw" + std::to_string(k)); struct_tags(Am); r.nontrivial = n > 1 && Am.col.size() > (size_t)n; return r;
        }
        if (pre_fail) { r.out = "precondition"; r.tag("ilupw_precondition"); r.nontrivial = n > 1; return r; }
        Factors F; bool okF = read_factors(*rp, *A, F);
        if (!okF) { r.tag("ilupw_singular"); if (op == "relax_ilupw_factors") { r.out = "singular"; r.nontrivial = n > 1; return r; } }
        Factors Ref; if (okF && !(asis_reference("ilup", k, Am, Ref) && factors_eq(Ref, F))) r.fail("ilup: factors differ from the dense reference recurrence (ILU(0) of A padded to the pattern of A^(k+1))");
        if (okF) { bool onpat, inpat, exact; lu_flags<int>("ilup", k, Am, F, onpat, inpat, exact); if (!onpat) r.fail("ilup: (L U)_ij != a_ij on the pattern of A^(k+1)"); if (!inpat) r.fail("ilup: factor entry outside the pattern of A^(k+1)"); if (exact) r.tag("ilupw_exact"); }
        Dense B = okF ? lu_product(F) : D;
        if (op == "relax_ilupw_factors") { Line lo; lo << F.L << F.U << F.D; r.out = lo.get(); r.tag("ilupw_factors"); }
        else if (op == "relax_ilupw_apply") { QV y = run_apply(*rp, *A, f); if (okF && !veq(dmv(B, y), f)) r.fail("ilup apply: (L U) y != f"); r.out = (Line() << y).get(); r.tag("ilupw_apply"); }
        else { QV x1, t1; sweep_case(r, *rp, Am, *A, f, x, tmp, op == "relax_ilupw_pre", x1, t1); QV res = vsub(f, dmv(D, x)); if (okF && !veq(dmv(B, t1), res)) r.fail("ilup sweep: (L U) tmp != f - A x"); if (!veq(vsub(x1, x), vscale(w, t1))) r.fail("ilup sweep: x' - x != damping * tmp"); r.tag("ilupw_sweep"); }
        r.tag("ilupw" + std::to_string(k)); struct_tags(Am); r.nontrivial = n > 1 && Am.col.size() > (size_t)n;
    } else if (op == "relax_spai1_m" || op == "relax_spai1_pre" || op == "relax_spai1_post" || op == "relax_spai1_apply") {
        // F-grade: the REAL spai1 against the faithful model Model/RelaxSpai1.lean (exact equality of M and of the sweeps; the
        // Householder QR runs with the same rational pseudo square root on both sides)
        typedef amgcl::relaxation::spai1<Backend> R; Mat Am; QV f, x, tmp;
        if (op == "relax_spai1_m") { Am = c.mat(); c.expect_end(); if (!square_wf(Am)) throw bad_input("shape"); }
        else if (op == "relax_spai1_apply") apply_args(Am, f); else sweep_args(Am, f, x, tmp);
        for (long i = 0; i < Am.n; ++i) if (Am.ptr[i+1] == Am.ptr[i]) throw bad_input("empty row: spai1 forms &B[0] on an empty vector");
        auto A = Am.crs(); R relax(*A, R::params(), bprm); long n = Am.n;
        Mat M; M.n = Am.n; M.m = Am.m; { const Crs &C = *relax.M; M.ptr.assign(C.ptr, C.ptr + C.nrows + 1); M.col.assign(C.col, C.col + C.nnz); M.val.assign(C.val, C.val + C.nnz); }
        if (!(M.ptr == Am.ptr && M.col == Am.col)) r.fail("spai1: pattern of M differs from the pattern of A");
        Dense D = dense(Am), Md = dense(M); bool nd = nodup(Am);
        // least-squares oracle (independent of the library's QR): normal equations of min || e_i - m A ||_2 over the pattern of row i,
        // exact where the rational square root happened to be exact, else up to 2^-16 on strictly diagonally dominant matrices
        // (full column rank, well conditioned local problems); wide / rank deficient local problems are only compared with the model
        bool sdd = true; for (long i = 0; i < n; ++i) { Q s(0); for (long j = 0; j < n; ++j) if (j != i) s += qabs(D[i][j]); if (!(s < qabs(D[i][i]))) sdd = false; }
        if (nd) {
            bool exact = true, tol = true; Q eps = Q::frac(1, 1L << 16);
            for (long i = 0; i < n; ++i) { QV res(n); for (long j = 0; j < n; ++j) { Q s(i == j ? 1 : 0); for (long l = 0; l < n; ++l) s -= Md[i][l] * D[l][j]; res[j] = s; }
                for (auto jj = Am.ptr[i]; jj < Am.ptr[i+1]; ++jj) { long k = Am.col[jj]; Q s(0); for (long j = 0; j < n; ++j) s += res[j] * D[k][j]; if (s != 0) exact = false; if (qabs(s) > eps) tol = false; } }
            if (exact) r.tag("spai1_exact");
            if (sdd) { r.tag("spai1_sdd"); if (!tol) r.fail("spai1: normal equations violated beyond 2^-16 on a strictly diagonally dominant matrix"); }
        } else r.tag("spai1_dups");
        { bool wide = false; for (long i = 0; i < n && !wide; ++i) { std::set<long> J; for (auto j = Am.ptr[i]; j < Am.ptr[i+1]; ++j) { long cc = Am.col[j]; for (auto jj = Am.ptr[cc]; jj < Am.ptr[cc+1]; ++jj) J.insert(Am.col[jj]); } if ((long)J.size() < Am.ptr[i+1] - Am.ptr[i]) wide = true; } if (wide) r.tag("spai1_wide"); }
        if (op == "relax_spai1_m") { Line lo; lo << M; r.out = lo.get(); r.tag("spai1_m"); }
        else if (op == "relax_spai1_apply") { QV y = run_apply(relax, *A, f); if (!veq(y, dmv(Md, f))) r.fail("spai1 apply != M f"); r.out = (Line() << y).get(); r.tag("spai1_apply"); }
        else { QV x1, t1; sweep_case(r, relax, Am, *A, f, x, tmp, op == "relax_spai1_pre", x1, t1); QV res = vsub(f, dmv(D, x)), mr = dmv(Md, res), ref(n); for (long i = 0; i < n; ++i) ref[i] = x[i] + mr[i];
            if (!veq(x1, ref)) r.fail("spai1 sweep != x + M (f - A x)"); if (!veq(t1, res)) r.fail("spai1 tmp != f - A x"); r.tag("spai1_sweep"); }
        struct_tags(Am); r.nontrivial = n > 1 && Am.col.size() > (size_t)n;
    } else {
        r.out = "bad-op";
    }
    } catch (const bad_input&) { throw; }
    return r;
}

// ------------------------------------------------------------------ generators
// strictly diagonally dominant, structurally non-symmetric, random signs
static Mat gen_dd(Rng &rng, long n, int dens, bool integer = false) {
    Mat S = gen_sparse(rng, n, n, dens, integer); auto rows = to_rows(S);
    for (long i = 0; i < n; ++i) { Q s(0); std::vector<std::pair<long,Q>> nr; for (auto &cv : rows[i]) if (cv.first != i) { s += qabs(cv.second); nr.push_back(cv); } Q d = s + Q::frac(rng.range(1, 4), integer ? 1 : 2); if (rng.coin(1, 4)) d = -d; nr.push_back({i, d}); std::sort(nr.begin(), nr.end(), [](auto &a, auto &b) { return a.first < b.first; }); rows[i] = nr; }
    return from_rows(n, n, rows);
}
static Mat gen_tridiag(Rng &rng, long n) {
    std::vector<std::vector<std::pair<long,Q>>> rows(n);
    for (long i = 0; i < n; ++i) { Q a = i > 0 && !rng.coin(1, 8) ? rng.rat_nz(4) : Q(0), b = i + 1 < n && !rng.coin(1, 8) ? rng.rat_nz(4) : Q(0); if (a != 0) rows[i].push_back({i - 1, a}); rows[i].push_back({i, qabs(a) + qabs(b) + Q::frac(rng.range(1, 4), 2)}); if (b != 0) rows[i].push_back({i + 1, b}); }
    return from_rows(n, n, rows);
}
static Mat gen_arrow(Rng &rng, long n) {
    std::vector<std::vector<std::pair<long,Q>>> rows(n);
    for (long i = 0; i + 1 < n; ++i) { Q b = rng.coin(3, 4) ? rng.rat_nz(4) : Q(0); rows[i].push_back({i, qabs(b) + Q::frac(rng.range(1, 4), 2)}); if (b != 0) rows[i].push_back({n - 1, b}); }
    if (n > 0) { Q s(0); for (long j = 0; j + 1 < n; ++j) if (rng.coin(3, 4)) { Q v = rng.rat_nz(4); s += qabs(v); rows[n-1].push_back({j, v}); } rows[n-1].push_back({n - 1, s + Q(1)}); }
    return from_rows(n, n, rows);
}
// general matrix with stored non-zero diagonal, not dominant
static Mat gen_general(Rng &rng, long n, int dens, bool integer) {
    Mat S = gen_sparse(rng, n, n, dens, integer); auto rows = to_rows(S);
    for (long i = 0; i < n; ++i) { bool d = false; for (auto &cv : rows[i]) if (cv.first == i) d = true; if (!d) { rows[i].push_back({i, integer ? Q(rng.range(1, 3)) : rng.rat_nz(5)}); std::sort(rows[i].begin(), rows[i].end(), [](auto &a, auto &b) { return a.first < b.first; }); } }
    return from_rows(n, n, rows);
}
// some rows reduced to the diagonal entry alone
static Mat lone_rows(Rng &rng, const Mat &A) { auto rows = to_rows(A); for (long i = 0; i < A.n; ++i) if (rng.coin(1, 3)) { std::vector<std::pair<long,Q>> nr; for (auto &cv : rows[i]) if (cv.first == i) nr.push_back(cv); rows[i] = nr; } return from_rows(A.n, A.m, rows); }

static Mat gen_matrix(Rng &rng, long n, int family) {
    switch (family) {
        case 0: return gen_spd(rng, n);
        case 1: return gen_convdiff(rng, n);
        case 2: return gen_dd(rng, n, (int)rng.range(15, 60));
        case 3: return gen_tridiag(rng, n);
        case 4: return gen_arrow(rng, n);
        case 5: return lone_rows(rng, gen_dd(rng, n, (int)rng.range(20, 60)));
        case 6: return gen_general(rng, n, (int)rng.range(15, 60), false);
        default: return gen_general(rng, n, (int)rng.range(20, 70), true);     // small integers: exact cancellations, zero pivots
    }
}
static QV mat_vec(const Mat &A, const QV &x) { return dmv(dense(A), x); }

static void generate(Rng &rng, const Opts &o, std::vector<std::string> &lines) {
#ifdef _OPENMP
    omp_set_num_threads(1);
#endif
    long N = o.cases > 0 ? o.cases : (o.thorough() ? 20000 : 480);
    const long nmax = o.thorough() ? 14 : 9;
    const std::vector<Q> omegas = { Q::frac(18, 25), Q(1), Q::frac(2, 3), Q::frac(1, 2), Q(0), Q::frac(-1, 3) };
    const std::vector<float> his = { 1.0f, 1.1f, 1.5f }, los = { 1.0f / 30, 0.25f, 0.5f, 1.0f };
    for (long k = 0; k < N; ++k) {
        int which = (int)rng.range(0, 28);
        long n = rng.coin(1, 12) ? 1 : rng.range(2, nmax);
        int fam = (int)rng.range(0, 7);
        Mat A = gen_matrix(rng, n, fam); n = A.n;
        bool sortedA = true;
        QV x = gen_vec(rng, n), f = rng.coin(1, 4) ? mat_vec(A, x) : gen_vec(rng, n), tmp = gen_vec(rng, n);
        auto maybe_unsort = [&]() { if (rng.coin(1, 4)) { A = unsort(rng, A, rng.coin(1, 3)); sortedA = false; if (rng.coin()) f = mat_vec(A, x); } };
        Line l;
        if (which <= 1) { maybe_unsort(); if (rng.coin(1, 10)) { auto rows = to_rows(A); long i0 = rng.range(0, n - 1); for (auto &cv : rows[i0]) if (cv.first == i0) cv.second = Q(0); A = from_rows(n, n, rows); }
            l << (which == 0 ? "relax_jacobi_pre" : "relax_jacobi_post") << rng.pick(omegas) << A << f << x << tmp; }
        else if (which == 2) { maybe_unsort(); l << "relax_jacobi_apply" << rng.pick(omegas) << A << f; }
        else if (which <= 4) { maybe_unsort(); l << (which == 3 ? "relax_spai0_pre" : "relax_spai0_post") << A << f << x << tmp; }
        else if (which == 5) { maybe_unsort(); if (rng.coin()) l << "relax_spai0_apply" << A << f; else l << "relax_spai0_m" << A; }
        else if (which <= 7) { maybe_unsort(); l << (which == 6 ? "relax_gs_pre" : "relax_gs_post") << A << f << x << tmp; }
        else if (which == 8) { maybe_unsort(); l << "relax_gs_apply" << A << f; }
        else if (which <= 11) {
            if (n > 7) { n = rng.range(2, 7); A = gen_matrix(rng, n, fam); n = A.n; x = gen_vec(rng, n); f = rng.coin(1, 4) ? mat_vec(A, x) : gen_vec(rng, n); tmp = gen_vec(rng, n); }
            maybe_unsort(); long deg = rng.range(0, o.thorough() ? 5 : 4); Q hi(rng.pick(his)), lo(rng.pick(los)); bool sc = rng.coin();
            int sub = (int)rng.range(0, 5);
            if (sub <= 1) l << (sub == 0 ? "relax_cheb_pre" : "relax_cheb_post") << deg << hi << lo << sc << A << f << x << tmp;
            else if (sub == 2) l << "relax_cheb_apply" << deg << hi << lo << sc << A << f;
            else if (sub == 3) l << "relax_cheb_twice" << std::min<long>(deg, 3) << hi << lo << sc << A << f << x << tmp;
            else { if (!sortedA) { A = gen_matrix(rng, n, fam); } l << "relax_cheb_cd" << hi << lo << sc << A; }
        }
        else if (which <= 14) {
            int sub = (int)rng.range(0, 9);
            if (sub == 0 && n > 1) {   // missing diagonal but an upper entry: precondition("No diagonal value")
                auto rows = to_rows(A); long i0 = rng.range(0, n - 2); std::vector<std::pair<long,Q>> nr; for (auto &cv : rows[i0]) if (cv.first != i0) nr.push_back(cv); bool up = false; for (auto &cv : nr) if (cv.first > i0) up = true; if (!up) nr.push_back({n - 1, Q(1)}); rows[i0] = nr; A = from_rows(n, n, rows);
            } else if (sub == 1) {     // stored zero diagonal: precondition("Zero pivot")
                auto rows = to_rows(A); long i0 = rng.range(0, n - 1); for (auto &cv : rows[i0]) if (cv.first == i0) cv.second = Q(0); A = from_rows(n, n, rows);
            }
            int w2 = (int)rng.range(0, 3);
            if (w2 <= 1) l << (w2 == 0 ? "relax_ilu0_pre" : "relax_ilu0_post") << rng.pick(omegas) << A << f << x << tmp;
            else if (w2 == 2) l << "relax_ilu0_apply" << A << f;
            else l << "relax_ilu0_factors" << A;
        }
        else if (which == 15) {       // serial_solve on arbitrary strictly triangular factors
            Mat S = gen_sparse(rng, n, n, (int)rng.range(10, 70)); auto rows = to_rows(S); std::vector<std::vector<std::pair<long,Q>>> lr(n), ur(n);
            for (long i = 0; i < n; ++i) for (auto &cv : rows[i]) { if (cv.first < i) lr[i].push_back(cv); if (cv.first > i) ur[i].push_back(cv); }
            Mat L = from_rows(n, n, lr), U = from_rows(n, n, ur); if (rng.coin(1, 4)) { L = unsort(rng, L, rng.coin()); U = unsort(rng, U, rng.coin()); }
            QV D(n); for (auto &d : D) d = rng.coin(1, 12) ? Q(0) : rng.rat_nz(5);
            l << "relax_ilu_solve" << L << U << D << gen_vec(rng, n);
        }
        else if (which <= 18) {       // V-grade: factors of the real ILU(k) / ILUP / ILUT(tau = 0) / ILU(0)
            static const std::vector<std::string> kinds = { "iluk", "iluk", "ilup", "ilup", "ilut", "ilu0" };
            std::string kind = rng.pick(kinds);
            int fam2 = (int)rng.range(0, 5); if (kind == "ilut" && rng.coin(2, 3)) fam2 = rng.coin() ? 3 : 4;      // ILUT: mostly tridiagonal / arrow (the only claim made for it)
            A = gen_matrix(rng, n, fam2); n = A.n; long kk = kind == "iluk" ? (rng.coin(1, 6) ? n : rng.range(0, 3)) : kind == "ilup" ? rng.range(0, 2) : 0;
            Factors F; bool ok = false; try { ok = real_factors(kind, kk, A, F); } catch (const std::exception&) { ok = false; }
            if (!ok) { F.L = from_rows(n, n, std::vector<std::vector<std::pair<long,Q>>>(n)); F.U = F.L; F.D.assign(n, Q(1)); }    // reported by the oracle when executed
            l << "relax_lu_check" << kind << kk << A << F.L << F.U << F.D;
        }
        else if (which >= 26) {       // F-grade: ILUP as written (Model/RelaxIlup.lean): k = 0..3, families with a stored diagonal, sorted rows
            if (n > 7) n = rng.range(2, 7); int fam2 = (int)rng.range(0, 7); A = gen_matrix(rng, n, fam2); n = A.n; x = gen_vec(rng, n); f = rng.coin(1, 4) ? mat_vec(A, x) : gen_vec(rng, n); tmp = gen_vec(rng, n);
            long kk = rng.range(0, 3); int sub = (int)rng.range(0, 6);
            if (sub <= 1) l << "relax_ilupw_factors" << kk << A; else if (sub == 2) l << "relax_ilupw_pad" << kk << A;
            else if (sub <= 4) l << (sub == 3 ? "relax_ilupw_pre" : "relax_ilupw_post") << kk << rng.pick(omegas) << A << f << x << tmp; else l << "relax_ilupw_apply" << kk << A << f;
        }
        else if (which >= 23) {       // F-grade: SPAI-1 against the faithful model (Model/RelaxSpai1.lean): all families, unsorted rows, duplicates,
                                      // a missing diagonal (local problems with fewer rows than columns: the wide branch of QR::solve)
            if (n > 6) n = rng.range(2, 6); A = gen_matrix(rng, n, (int)rng.range(0, 7)); n = A.n;
            if (rng.coin(1, 6)) { auto rows = to_rows(A); long i0 = rng.range(0, n - 1); if (rows[i0].size() > 1) { std::vector<std::pair<long,Q>> nr; for (auto &cv : rows[i0]) if (cv.first != i0) nr.push_back(cv); rows[i0] = nr; A = from_rows(n, n, rows); } }
            x = gen_vec(rng, n); f = rng.coin(1, 4) ? mat_vec(A, x) : gen_vec(rng, n); tmp = gen_vec(rng, n);
            maybe_unsort();
            int sub = (int)rng.range(0, 5);
            if (sub <= 1) l << "relax_spai1_m" << A; else if (sub <= 3) l << (sub == 2 ? "relax_spai1_pre" : "relax_spai1_post") << A << f << x << tmp; else l << "relax_spai1_apply" << A << f;
        }
        else if (which >= 20) {       // ILU(k) / ILUP as written (modelled in Lean: Model/RelaxIluk.lean, ilup = ilu0 on the padded pattern)
            int fam2 = (int)rng.range(0, 5); A = gen_matrix(rng, n, fam2); n = A.n; x = gen_vec(rng, n); f = rng.coin(1, 4) ? mat_vec(A, x) : gen_vec(rng, n); tmp = gen_vec(rng, n);
            long kk = rng.coin(1, 8) ? n : rng.range(0, 3);
            if (which == 22) l << "relax_ilup_factors" << rng.range(0, 2) << A;
            else { int w2 = (int)rng.range(0, 3);
                if (w2 <= 1) l << (w2 == 0 ? "relax_iluk_pre" : "relax_iluk_post") << kk << rng.pick(omegas) << A << f << x << tmp;
                else if (w2 == 2) l << "relax_iluk_apply" << kk << A << f;
                else l << "relax_iluk_factors" << kk << A; }
        }
        else {                        // V-grade: SPAI-1
            { if (n > 6) n = rng.range(2, 6); A = gen_matrix(rng, n, (int)rng.range(0, 5)); n = A.n; }      // diagonally dominant families only: a singular A makes the row-wise least-squares problems rank deficient (QR breaks down)
            if (rng.coin(1, 5)) { std::vector<std::vector<std::pair<long,Q>>> rows(n); for (long i = 0; i < n; ++i) rows[i].push_back({i, Q::frac(rng.range(1, 9) * (rng.coin() ? 1 : -1), 1L << rng.range(0, 3))}); A = from_rows(n, n, rows); }   // diagonal, dyadic: the rational sqrt is exact
            Mat M = spai1_M(A); l << "relax_spai1_check" << A << M;
        }
        lines.push_back(l.get());
    }
    // targeted ILU(k) stream, k >= 2, structurally non-symmetric random patterns: a position reached first through a
    // high-level path and later through a lower-level one (the level must be lowered to the minimum, and further
    // fill generated from it) — too rare in the mixed stream above
    for (long k = 0; k < (o.thorough() ? 1500 : 160); ++k) {
        long n = rng.range(7, 11); Mat S = gen_sparse(rng, n, n, (int)rng.range(15, 30)); auto rows = to_rows(S);
        for (long i = 0; i < n; ++i) { bool has = false; for (auto &cv : rows[i]) if (cv.first == i) { cv.second = Q(rng.range(8, 12)); has = true; } if (!has) { rows[i].push_back({i, Q(rng.range(8, 12))}); std::sort(rows[i].begin(), rows[i].end(), [](auto &a, auto &b){ return a.first < b.first; }); } }
        Mat A = from_rows(n, n, rows);
        lines.push_back((Line() << "relax_iluk_factors" << rng.range(2, 3) << A).get());
    }
    // malformed stream: both sides must answer bad-input
    lines.push_back("relax_jacobi_pre 1 2 2 1 0 1 1 1 1 2 1 1 2 1 1 1 1");          // vector sizes do not fit
    lines.push_back("relax_gs_pre 2 2 1 0 1 1 5 1 2 1 1 2 1 1 2 0 0");              // column 5 in a 2x2 matrix
    lines.push_back("relax_jacobi_pre 1 2 2 1 1 1 1 1 1 2 1 1 2 1 1 2 0 0");        // row 0 stores no diagonal
    lines.push_back("relax_ilu0_apply 2 2 2 1 1 0 1 1 1 1 2 1 1");                  // unsorted row
    lines.push_back("relax_ilu0_apply 2 2 1 0 1 1 0 1 2 1 1");                      // last row has no entry at or right of the diagonal
    lines.push_back("relax_spai0_pre 2 3 1 0 1 1 1 1 2 1 1 2 1 1 2 0 0");           // not square
    lines.push_back("relax_ilupw_factors 1 2 2 2 1 1 0 1 1 1 1");                   // unsorted row
    lines.push_back("relax_ilupw_pad 1 2 2 1 1 1 1 1 1");                           // row 0 stores no diagonal
    lines.push_back("relax_spai1_m 2 2 0 1 1 2");                                   // empty row
    lines.push_back("relax_spai1_apply 2 2 1 0 1 1 1 1 1 1");                       // vector size does not fit
}

VH_MAIN(generate, execute)
