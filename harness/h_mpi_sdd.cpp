// C12 harness (implementation-only, "no_model"): the distributed solver classes that h_mpi_solve / h_mpi_rt do not reach,
// under real MPI, in double, on exact-in-binary64 SPD M-matrices.
//
//   msdd lp sv dv <part> A f        amgcl::mpi::subdomain_deflation<LP, S<builtin<double>, mpi::inner_product>,
//                                   mpi::direct::skyline_lu<double>> (deflated matrix E assembled over the ranks, factorized on
//                                   the master).  lp 0: amg<smoothed_aggregation, spai0> on the local block, 1:
//                                   relaxation::as_preconditioner<ilu0>; sv 0 cg, 1 bicgstab, 2 gmres; dv 0: constant
//                                   deflation (1 vector per rank), 1: constant_deflation(2) (2 vectors), 2: user-supplied
//                                   vectors {1, local index}, 3: a DIFFERENT number of vectors per rank (1 on even, 2 on odd ranks)
//   mblock lp sv <part> A f         mpi::make_solver<mpi::block_preconditioner<LP>, mpi::solver::S<builtin<double>>>
//   mrtsolve st pc <part> A f       mpi::make_solver<runtime::mpi::preconditioner, runtime::mpi::solver::wrapper> for EVERY value
//                                   of runtime::solver::type (cg bicgstab bicgstabl gmres lgmres fgmres idrs richardson preonly);
//                                   pc 0: class amg (smoothed_aggregation, spai0, merge repartitioning ENABLED), 1: class relaxation
//   mscatter rx <part> A f          mpi::amg<recording aggregation, R, skyline_lu, scatter> + cg, where `scatter` is a
//                                   repartitioning policy written like mpi::partition::parmetis / ptscotch (symm_graph ->
//                                   part vector -> graph_perm_index -> graph_perm_matrix, amgcl/mpi/partition/util.hpp) with
//                                   the graph partitioner replaced by a deterministic scattering of the rows over fewer ranks:
//                                   a NON-contiguous redistribution with ranks becoming empty
//   mrebuild rx direct <part> A f   mpi::amg (allow_rebuild) : apply, rebuild(64 A), apply; fresh amg on 64 A
//   mzero <part> d f                a diagonal matrix: no aggregates, zero-sized coarse level (amg.hpp:299-302, 384-389)
//   mrtbad which                    run-time wrappers given a component name they do not know: every rank throws
// Oracles (rank 0, gathered data; the result line only summarises):
//   * (iters, resid) bitwise identical on all ranks                                                           [property]
//   * the true residual of the gathered solution (long double) is within 1e-8 of the reported one             [test]
//   * converged to tol on SPD M-matrices (not required of preonly)                                            [test]
//   * msdd: Z^T (f - A x) = 0 for every deflation vector of every rank (1e-8 relative): the returned x has been
//     corrected with the exact coarse solve of E = Z^T A Z assembled from ALL ranks' rows
//   * mscatter: the permutation I handed to mpi::amg is a permutation matrix (one unit entry per row, every new number
//     used once), rows sent to the rank the part vector names, order preserved inside a part; symm_graph is the
//     pattern of A + A^T without the diagonal; every coarse operator after the redistribution is J (s R A P) I, R = P^T
//   * mrebuild: B' rhs = (B rhs) / 64 bitwise and = the apply of a freshly built hierarchy of 64 A, bitwise (scaling
//     by a power of two is exact in every operation of setup and cycle: spai0 / damped_jacobi, Galerkin, skyline LU)
#include "mpi_common.hpp"
#include <boost/property_tree/ptree.hpp>
#include <amgcl/amg.hpp>
#include <amgcl/coarsening/smoothed_aggregation.hpp>
#include <amgcl/relaxation/spai0.hpp>
#include <amgcl/relaxation/ilu0.hpp>
#include <amgcl/relaxation/as_preconditioner.hpp>
#include <amgcl/solver/cg.hpp>
#include <amgcl/solver/bicgstab.hpp>
#include <amgcl/solver/gmres.hpp>
#include <amgcl/mpi/make_solver.hpp>
#include <amgcl/mpi/amg.hpp>
#include <amgcl/mpi/subdomain_deflation.hpp>
#include <amgcl/mpi/block_preconditioner.hpp>
#include <amgcl/mpi/preconditioner.hpp>
#include <amgcl/mpi/solver/runtime.hpp>
#include <amgcl/mpi/solver/cg.hpp>
#include <amgcl/mpi/solver/bicgstab.hpp>
#include <amgcl/mpi/solver/gmres.hpp>
#include <amgcl/mpi/coarsening/aggregation.hpp>
#include <amgcl/mpi/coarsening/smoothed_aggregation.hpp>
#include <amgcl/mpi/relaxation/spai0.hpp>
#include <amgcl/mpi/relaxation/damped_jacobi.hpp>
#include <amgcl/mpi/relaxation/ilu0.hpp>
#include <amgcl/mpi/direct_solver/skyline_lu.hpp>
#include <amgcl/mpi/partition/merge.hpp>
#include <amgcl/mpi/partition/util.hpp>
#include <amgcl/mpi/relaxation/runtime.hpp>
#include <amgcl/mpi/coarsening/runtime.hpp>
#include <amgcl/mpi/direct_solver/runtime.hpp>
#include <amgcl/mpi/partition/runtime.hpp>

typedef boost::property_tree::ptree PT;
typedef std::vector<std::vector<long double>> LD;
static const double TOL = 1e-10; static const int MAXIT = 300;
struct SolveOut { size_t iters = 0; double resid = 0; std::vector<double> x, proj; };

static void strip(const Mat &A, const Part &P, int rank, std::vector<ptrdiff_t> &ptr, std::vector<ptrdiff_t> &col, std::vector<double> &val) {
    ptr.assign(1, 0); col.clear(); val.clear();
    for (long i = P.off[rank]; i < P.off[rank + 1]; ++i) { for (auto j = A.ptr[i]; j < A.ptr[i+1]; ++j) { col.push_back(A.col[j]); val.push_back(exact(A.val[j])); } ptr.push_back((ptrdiff_t)col.size()); }
}
static std::vector<long double> true_residual(const Mat &A, const std::vector<double> &F, const std::vector<double> &X, long double &rel) {
    std::vector<long double> res(A.n); long double rr = 0, ff = 0;
    for (long i = 0; i < A.n; ++i) { long double s = F[i]; for (auto j = A.ptr[i]; j < A.ptr[i+1]; ++j) s -= (long double)A.val[j].v.get_d() * (long double)X[A.col[j]]; res[i] = s; rr += s * s; ff += (long double)F[i] * F[i]; }
    rel = ff > 0 ? std::sqrt(rr / ff) : std::sqrt(rr); return res;
}
// the oracles every solve op shares; returns the true residual vector
static std::vector<long double> check_solve(Result &r, const Ctx &x, const Mat &A, const Part &P, const std::vector<double> &F, const SolveOut &o, bool must_converge, const std::string &who) {
    std::vector<double> its, res; bool same_it = same_on_all(x, (double)o.iters, its), same_res = same_on_all(x, o.resid, res);
    auto X = gather_vec(x, o.x, P);
    if (x.rank) return {};
    if (!same_it || !same_res) { std::string s = who + ": (iters, resid) differ between ranks:"; for (int q = 0; q < x.np; ++q) s += " (" + std::to_string((long)its[q]) + "," + qd(res[q]).str() + ")"; r.fail(s); }
    long double rel; auto rv = true_residual(A, F, X, rel);
    if (!(std::fabs(rel - (long double)o.resid) <= 1e-8L)) r.fail("test: " + who + ": reported residual " + std::to_string(o.resid) + " is not the true residual " + std::to_string((double)rel) + " of the gathered solution");
    if (must_converge && (!(o.resid <= TOL) || o.iters >= (size_t)MAXIT)) r.fail("test: " + who + ": not converged on an SPD M-matrix: iters=" + std::to_string(o.iters) + " resid=" + std::to_string(o.resid));
    r.tag("np" + std::to_string(x.np)); bool e = false; for (long s : P.p) if (!s) e = true; if (e) r.tag("emptyrank");
    return rv;
}
struct Sys { Part P; Mat A; std::vector<double> F; };
static Sys parse_sys(Cur &c) {
    Sys s; s.P = part(c); s.A = checked(c); auto fq = c.vec(); c.expect_end(); need_mat(s.A, s.P, s.P); need((long)fq.size() == s.A.n && s.A.n > 0); s.F = dvec(fq);
    for (long i = 0; i < s.A.n; ++i) { bool d = false; for (auto j = s.A.ptr[i]; j < s.A.ptr[i+1]; ++j) if (s.A.col[j] == i && s.A.val[j] > 0) d = true; need(d); }
    return s;
}

// ---------------------------------------------------------------- subdomain deflation / block preconditioner
typedef amgcl::amg<BD, amgcl::coarsening::smoothed_aggregation, amgcl::relaxation::spai0> LP0;
typedef amgcl::relaxation::as_preconditioner<BD, amgcl::relaxation::ilu0> LP1;
template <class LP> static void lp_prm(typename LP::params &) {}
template <> void lp_prm<LP0>(LP0::params &p) { p.coarse_enough = 2; }
static int ndv_of(long dv, int rank) { return dv == 0 ? 1 : dv == 3 ? 1 + rank % 2 : 2; }
static double defvec(long dv, ptrdiff_t i, unsigned j) { if (dv == 0) return 1.0; if (dv == 1) return (i % 2 == (ptrdiff_t)j) ? 1.0 : 0.0; return j == 0 ? 1.0 : (double)i; }
template <class LP, template <class, class> class S> static SolveOut run_sdd(const Ctx &x, const Sys &s, long dv) {
    typedef amgcl::mpi::subdomain_deflation<LP, S<BD, amgcl::mpi::inner_product>, amgcl::mpi::direct::skyline_lu<double>> SDD;
    typename SDD::params prm; lp_prm<LP>(prm.local); prm.isolver.tol = TOL; prm.isolver.maxiter = MAXIT;
    prm.num_def_vec = (unsigned)ndv_of(dv, x.rank);
    if (dv == 1) { amgcl::mpi::constant_deflation cd(2); prm.def_vec = cd; } else prm.def_vec = [dv](ptrdiff_t i, unsigned j) { return defvec(dv, i, j); };
    std::vector<ptrdiff_t> ptr, col; std::vector<double> val; strip(s.A, s.P, x.rank, ptr, col, val);
    size_t nl = ptr.size() - 1;
    SDD solve(x.comm, std::make_tuple(nl, ptr, col, val), prm);
    SolveOut o; o.x.assign(nl, 0.0); std::vector<double> f(s.F.begin() + s.P.off[x.rank], s.F.begin() + s.P.off[x.rank + 1]);
    // the deflation projector on its own: v -> (I - A Z E^-1 Z^T) v
    { amgcl::backend::numa_vector<double> pv(f); solve.project(pv); o.proj.assign(pv.data(), pv.data() + nl); }
    std::tie(o.iters, o.resid) = solve(f, o.x); return o;
}
template <class LP, class S> static SolveOut run_block(const Ctx &x, const Sys &s) {
    typedef amgcl::mpi::make_solver<amgcl::mpi::block_preconditioner<LP>, S> MS;
    typename MS::params prm; lp_prm<LP>(prm.precond); prm.solver.tol = TOL; prm.solver.maxiter = MAXIT;
    std::vector<ptrdiff_t> ptr, col; std::vector<double> val; strip(s.A, s.P, x.rank, ptr, col, val);
    size_t nl = ptr.size() - 1;
    MS solve(x.comm, std::make_tuple(nl, ptr, col, val), prm);
    SolveOut o; o.x.assign(nl, 0.0); std::vector<double> f(s.F.begin() + s.P.off[x.rank], s.F.begin() + s.P.off[x.rank + 1]);
    std::tie(o.iters, o.resid) = solve(f, o.x); return o;
}

// ---------------------------------------------------------------- recording coarsening + scattering repartitioner
static LD gather_dense(const DM &M) {
    amgcl::mpi::communicator comm = M.comm(); const DCrs &L = *M.local(), &R = *M.remote();
    std::vector<ptrdiff_t> rdom = comm.exclusive_sum((ptrdiff_t)M.loc_rows()); ptrdiff_t rb = rdom[comm.rank], cb = M.loc_col_shift();
    std::vector<double> trip;
    for (size_t i = 0; i < L.nrows; ++i) { for (auto j = L.ptr[i]; j < L.ptr[i+1]; ++j) { trip.push_back((double)(rb + i)); trip.push_back((double)(cb + L.col[j])); trip.push_back(L.val[j]); } for (auto j = R.ptr[i]; j < R.ptr[i+1]; ++j) { trip.push_back((double)(rb + i)); trip.push_back((double)R.col[j]); trip.push_back(R.val[j]); } }
    int len = (int)trip.size(); std::vector<int> lens(comm.size), disp(comm.size, 0); MPI_Gather(&len, 1, MPI_INT, lens.data(), 1, MPI_INT, 0, comm);
    std::vector<double> all; int tot = 0; if (comm.rank == 0) for (int q = 0; q < comm.size; ++q) { disp[q] = tot; tot += lens[q]; } all.resize(tot + 1);
    MPI_Gatherv(trip.data(), len, MPI_DOUBLE, all.data(), lens.data(), disp.data(), MPI_DOUBLE, 0, comm);
    LD D; if (comm.rank == 0) { D.assign(M.glob_rows(), std::vector<long double>(M.glob_cols(), 0.0L)); for (int k = 0; k + 2 < tot; k += 3) D[(size_t)all[k]][(size_t)all[k+1]] += all[k+2]; }
    return D;
}
static std::vector<long> gather_longs(amgcl::mpi::communicator comm, const std::vector<long> &v, std::vector<int> *counts = 0) {
    int len = (int)v.size(); std::vector<int> lens(comm.size), disp(comm.size, 0); MPI_Gather(&len, 1, MPI_INT, lens.data(), 1, MPI_INT, 0, comm);
    int tot = 0; if (comm.rank == 0) for (int q = 0; q < comm.size; ++q) { disp[q] = tot; tot += lens[q]; } std::vector<long> all(tot + 1);
    MPI_Gatherv(const_cast<long*>(v.data()), len, MPI_LONG, all.data(), lens.data(), disp.data(), MPI_LONG, 0, comm); all.resize(tot); if (counts) *counts = lens; return all;
}
static LD mul(const LD &A, const LD &B) { size_t n = A.size(), k = B.size(), m = k ? B[0].size() : 0; LD C(n, std::vector<long double>(m, 0.0L)); for (size_t i = 0; i < n; ++i) for (size_t l = 0; l < k && l < A[i].size(); ++l) if (A[i][l] != 0) for (size_t j = 0; j < m; ++j) C[i][j] += A[i][l] * B[l][j]; return C; }
static LD tr(const LD &A) { size_t n = A.size(), m = n ? A[0].size() : 0; LD T(m, std::vector<long double>(n)); for (size_t i = 0; i < n; ++i) for (size_t j = 0; j < m; ++j) T[j][i] = A[i][j]; return T; }

struct LevelRec { LD A, P, R, Ac; };
struct PermRec { LD Ac, I; std::vector<long> part, rows_per_rank, graph_ptr, graph_col; std::vector<int> rows_cnt; int npart; bool needed; };
static std::vector<LevelRec> g_lev; static std::vector<PermRec> g_perm; static std::vector<LD> g_levelA;
template <class Base> struct rec : Base {
    typedef typename Base::params params;
    rec(const params &p = params()) : Base(p) {}
    std::tuple<std::shared_ptr<DM>, std::shared_ptr<DM>> transfer_operators(const DM &A) { LD a = gather_dense(A); if (A.comm().rank == 0) g_levelA.push_back(a); return Base::transfer_operators(A); }
    std::shared_ptr<DM> coarse_operator(const DM &A, const DM &P, const DM &R) const {
        auto Ac = Base::coarse_operator(A, P, R);
        LevelRec l; l.A = gather_dense(A); l.P = gather_dense(P); l.R = gather_dense(R); l.Ac = gather_dense(*Ac);
        if (A.comm().rank == 0) g_lev.push_back(l);
        return Ac;
    }
};
template <class Base> unsigned block_size(const rec<Base> &c) { return c.prm.aggr.block_size; }
struct scatter {
    struct params { bool enable; ptrdiff_t min_per_proc; int shrink_ratio; int mul; params() : enable(true), min_per_proc(10000), shrink_ratio(2), mul(3) {} } prm;
    scatter(const params &p = params()) : prm(p) {}
    bool is_needed(const DM &A) const {
        if (!prm.enable) return false;
        amgcl::mpi::communicator comm = A.comm(); std::vector<ptrdiff_t> dom = comm.exclusive_sum((ptrdiff_t)A.loc_rows());
        int non_empty = 0; ptrdiff_t min_n = std::numeric_limits<ptrdiff_t>::max(); for (int i = 0; i < comm.size; ++i) { ptrdiff_t m = dom[i+1] - dom[i]; if (m) { min_n = std::min(min_n, m); ++non_empty; } }
        return non_empty > 1 && min_n <= prm.min_per_proc;
    }
    std::shared_ptr<DM> operator()(const DM &A, unsigned = 1) const {
        amgcl::mpi::communicator comm = A.comm(); ptrdiff_t n = A.loc_rows(), row_beg = A.loc_col_shift();
        int active = n > 0, active_ranks = comm.reduce(MPI_SUM, active); int npart = std::max(1, active_ranks / prm.shrink_ratio);
        LD Ag = gather_dense(A);
        // the symmetrized graph the partitioner wrappers hand to ParMETIS / PT-Scotch
        std::vector<long> gptr, gcol; amgcl::mpi::partition::symm_graph(A, gptr, gcol);
        // "graph partitioner": rows dealt out to npart parts, neighbours mostly in different parts
        std::vector<long> part(n); for (ptrdiff_t i = 0; i < n; ++i) part[i] = (long)(((row_beg + i) * prm.mul + (row_beg + i) / 3) % npart);
        std::vector<ptrdiff_t> perm; ptrdiff_t col_beg, col_end;
        std::tie(col_beg, col_end) = amgcl::mpi::partition::graph_perm_index(comm, npart, part, perm);
        auto I = amgcl::mpi::partition::graph_perm_matrix<BD>(comm, col_beg, col_end, perm);
        PermRec p; p.npart = npart; p.needed = true; p.Ac = Ag; p.I = gather_dense(*I);
        p.part = gather_longs(comm, part, &p.rows_cnt);
        std::vector<long> lens; for (ptrdiff_t i = 0; i < n; ++i) lens.push_back(gptr[i + 1] - gptr[i]); p.graph_ptr = gather_longs(comm, lens); p.graph_col = gather_longs(comm, gcol);
        std::vector<long> lc(1, (long)I->loc_cols()); p.rows_per_rank = gather_longs(comm, lc);
        if (comm.rank == 0) g_perm.push_back(p);
        return I;
    }
};
typedef amgcl::mpi::coarsening::aggregation<BD> Aggr;
template <template <class> class Rx, class Rep> using AMGr = amgcl::mpi::amg<BD, rec<Aggr>, Rx<BD>, amgcl::mpi::direct::skyline_lu<double>, Rep>;

static void check_perm(Result &r) {
    for (size_t k = 0; k < g_perm.size(); ++k) {
        const PermRec &p = g_perm[k]; size_t n = p.Ac.size(); const std::string w = "redistribution " + std::to_string(k) + ": ";
        if (p.I.size() != n || (n && p.I[0].size() != n) || p.part.size() != n) { r.fail(w + "permutation matrix has the wrong shape"); continue; }
        std::vector<long> img(n, -1), used(n, 0); bool ok = true;
        for (size_t i = 0; i < n; ++i) { int cnt = 0; for (size_t j = 0; j < n; ++j) if (p.I[i][j] != 0) { ++cnt; if (p.I[i][j] != 1) ok = false; img[i] = (long)j; } if (cnt != 1) ok = false; else ++used[img[i]]; }
        for (size_t j = 0; j < n; ++j) if (used[j] != 1) ok = false;
        if (!ok) { r.fail(w + "graph_perm_matrix is not a permutation matrix"); continue; }
        // new owner = the part; parts laid out one after the other; order inside a part preserved
        std::vector<long> psize(p.npart, 0); for (long q : p.part) { if (q < 0 || q >= p.npart) { ok = false; break; } ++psize[q]; }
        if (!ok) { r.fail(w + "part vector out of range"); continue; }
        std::vector<long> pbeg(p.npart + 1, 0); for (int q = 0; q < p.npart; ++q) pbeg[q + 1] = pbeg[q] + psize[q];
        std::vector<long> next(pbeg.begin(), pbeg.end() - 1);
        for (size_t i = 0; i < n; ++i) if (img[i] != next[p.part[i]]++) { r.fail(w + "row " + std::to_string(i) + " (part " + std::to_string(p.part[i]) + ") is renumbered to " + std::to_string(img[i]) + ", expected the next free number of its part"); ok = false; break; }
        if (!ok) continue;
        for (size_t q = 0; q < p.rows_per_rank.size(); ++q) if (p.rows_per_rank[q] != ((int)q < p.npart ? psize[q] : 0)) { r.fail(w + "rank " + std::to_string(q) + " receives " + std::to_string(p.rows_per_rank[q]) + " rows, its part has " + std::to_string((int)q < p.npart ? psize[q] : 0)); break; }
        // symm_graph: pattern of A + A^T without the diagonal, in global numbers
        { size_t at = 0; bool gok = p.graph_ptr.size() == n;
          for (size_t i = 0; gok && i < n; ++i) { std::set<long> want, got; for (size_t j = 0; j < n; ++j) if (j != i && (p.Ac[i][j] != 0 || p.Ac[j][i] != 0)) want.insert((long)j); for (long e = 0; e < p.graph_ptr[i]; ++e) { if (at >= p.graph_col.size()) { gok = false; break; } got.insert(p.graph_col[at++]); } if ((long)got.size() != p.graph_ptr[i] || got != want) gok = false; }
          if (!gok || at != p.graph_col.size()) r.fail(w + "symm_graph is not the off-diagonal pattern of A + A^T"); }
        r.tag("scatter_perm"); bool moved = false; for (size_t i = 0; i < n; ++i) if (img[i] != (long)i) moved = true; if (moved) r.tag("rows_moved");
    }
}
static void check_levels(Result &r, long double s) {
    // level k+1's matrix (seen by transfer_operators) must be J (s R A P) I of level k, with I the permutation recorded for that level
    for (size_t k = 0; k < g_lev.size(); ++k) {
        const LevelRec &l = g_lev[k]; size_t n = l.A.size(), nc = l.P.size() ? l.P[0].size() : 0;
        bool rt = l.R.size() == nc; for (size_t i = 0; rt && i < nc; ++i) { if (l.R[i].size() != n) { rt = false; break; } for (size_t j = 0; j < n; ++j) if (l.R[i][j] != l.P[j][i]) rt = false; }
        if (!rt) r.fail("level " + std::to_string(k) + ": R != P^T");
        LD G = mul(l.R, mul(l.A, l.P)); bool ok = l.Ac.size() == nc; for (size_t i = 0; ok && i < nc; ++i) for (size_t j = 0; j < nc; ++j) if (l.Ac[i][j] != s * G[i][j]) ok = false;
        if (!ok) r.fail("level " + std::to_string(k) + ": distributed coarse operator != s*R*A*P (exact, dyadic data)");
    }
    // what the next level works on: the redistributed operator
    size_t pk = 0;
    for (size_t k = 0; k + 1 < g_levelA.size() && k < g_lev.size(); ++k) {
        const LD &next = g_levelA[k + 1]; LD want = g_lev[k].Ac;
        if (pk < g_perm.size() && g_perm[pk].Ac == g_lev[k].Ac) { const LD &I = g_perm[pk].I; want = mul(tr(I), mul(g_lev[k].Ac, I)); ++pk; }
        if (next != want) r.fail("level " + std::to_string(k + 1) + ": the matrix the hierarchy continues with is not J * A_c * I of the level above");
    }
}

// ---------------------------------------------------------------- ops
static const char *SNAME[] = { "cg", "bicgstab", "bicgstabl", "gmres", "lgmres", "fgmres", "idrs", "richardson", "preonly" };

static Result execute(const Toks &t) {
    Cur c(t); const std::string &op = t[0]; Result r;
    if (op == "msdd") {
        long lp = c.nat(), sv = c.nat(), dv = c.nat(); need(lp >= 0 && lp <= 1 && sv >= 0 && sv <= 2 && dv >= 0 && dv <= 3);
        Sys s = parse_sys(c); for (int q = 0; q < s.P.np(); ++q) need(s.P.p[q] >= 2 * ndv_of(dv, q));
        Ctx x = ctx_for(s.P.np()); if (!x.active) return r;
        SolveOut o;
        if (lp == 0) o = sv == 0 ? run_sdd<LP0, amgcl::solver::cg>(x, s, dv) : sv == 1 ? run_sdd<LP0, amgcl::solver::bicgstab>(x, s, dv) : run_sdd<LP0, amgcl::solver::gmres>(x, s, dv);
        else         o = sv == 0 ? run_sdd<LP1, amgcl::solver::cg>(x, s, dv) : sv == 1 ? run_sdd<LP1, amgcl::solver::bicgstab>(x, s, dv) : run_sdd<LP1, amgcl::solver::gmres>(x, s, dv);
        auto PV = gather_vec(x, o.proj, s.P);
        auto rv = check_solve(r, x, s.A, s.P, s.F, o, true, "subdomain_deflation");
        if (x.rank) return r;
        // Z^T (I - A Z E^-1 Z^T) f = 0 exactly when E = Z^T A Z is assembled from the rows of ALL ranks
        { long double fn2 = 0; for (double v : s.F) fn2 += (long double)v * v; fn2 = std::sqrt(fn2);
          for (int q = 0; q < x.np && r.ok; ++q) for (int j = 0; j < ndv_of(dv, q); ++j) {
            long double zp = 0, zn = 0; for (long i = s.P.off[q]; i < s.P.off[q + 1]; ++i) { long double z = defvec(dv, i - s.P.off[q], (unsigned)j); zp += z * PV[i]; zn += z * z; }
            if (!(std::fabs(zp) <= 1e-9L * std::max<long double>(1.0L, fn2) * std::sqrt(std::max<long double>(zn, 1.0L)))) { r.fail("subdomain_deflation::project: the projected vector is not orthogonal to deflation vector " + std::to_string(j) + " of rank " + std::to_string(q) + ": z^T (I - A Z E^-1 Z^T) f = " + std::to_string((double)zp) + " (E must be Z^T A Z of the whole matrix, couplings between ranks included)"); break; }
          } }
        long double fn = 0; for (double v : s.F) fn += (long double)v * v; fn = std::sqrt(fn);
        for (int q = 0; q < x.np && r.ok; ++q) for (int j = 0; j < ndv_of(dv, q); ++j) {
            long double zr = 0, zn = 0; for (long i = s.P.off[q]; i < s.P.off[q + 1]; ++i) { long double z = defvec(dv, i - s.P.off[q], (unsigned)j); zr += z * rv[i]; zn += z * z; }
            if (!(std::fabs(zr) <= 1e-8L * std::max<long double>(1.0L, fn) * std::sqrt(std::max<long double>(zn, 1.0L)))) { r.fail("subdomain_deflation: the residual of the returned solution is not orthogonal to deflation vector " + std::to_string(j) + " of rank " + std::to_string(q) + ": z^T (f - A x) = " + std::to_string((double)zr) + " (the coarse system E = Z^T A Z must couple all ranks)"); break; }
        }
        r.out = (Line() << "converged").get(); r.nontrivial = o.iters >= 1 && x.np > 1 && has_remote(s.A, s.P, s.P);
        r.tag("msdd"); r.tag("sdd_lp" + std::to_string(lp)); r.tag("sdd_dv" + std::to_string(dv)); r.tag(std::string("sdd_") + SNAME[sv == 2 ? 3 : sv]);
    } else if (op == "mblock") {
        long lp = c.nat(), sv = c.nat(); need(lp >= 0 && lp <= 1 && sv >= 0 && sv <= 2);
        Sys s = parse_sys(c); if (lp == 0) for (long q : s.P.p) need(q >= 1);
        Ctx x = ctx_for(s.P.np()); if (!x.active) return r;
        SolveOut o;
        if (lp == 0) o = sv == 0 ? run_block<LP0, amgcl::mpi::solver::cg<BD>>(x, s) : sv == 1 ? run_block<LP0, amgcl::mpi::solver::bicgstab<BD>>(x, s) : run_block<LP0, amgcl::mpi::solver::gmres<BD>>(x, s);
        else         o = sv == 0 ? run_block<LP1, amgcl::mpi::solver::cg<BD>>(x, s) : sv == 1 ? run_block<LP1, amgcl::mpi::solver::bicgstab<BD>>(x, s) : run_block<LP1, amgcl::mpi::solver::gmres<BD>>(x, s);
        check_solve(r, x, s.A, s.P, s.F, o, true, "block_preconditioner");
        if (x.rank) return r;
        r.out = "converged"; r.nontrivial = o.iters >= 1 && x.np > 1 && has_remote(s.A, s.P, s.P); r.tag("mblock"); r.tag("block_lp" + std::to_string(lp));
    } else if (op == "mrtsolve") {
        long st = c.nat(), pc = c.nat(); need(st >= 0 && st <= 8 && pc >= 0 && pc <= 1);
        Sys s = parse_sys(c);
        Ctx x = ctx_for(s.P.np()); if (!x.active) return r;
        typedef amgcl::mpi::make_solver<amgcl::runtime::mpi::preconditioner<BD>, amgcl::runtime::mpi::solver::wrapper<BD>> RS;
        PT prm; prm.put("solver.type", SNAME[st]); prm.put("solver.tol", TOL); prm.put("solver.maxiter", st == 7 ? 2000 : MAXIT);
        if (pc == 0) { prm.put("precond.class", "amg"); prm.put("precond.coarsening.type", "smoothed_aggregation"); prm.put("precond.relax.type", "spai0"); prm.put("precond.direct.type", "skyline_lu"); prm.put("precond.repart.type", "merge");
            prm.put("precond.coarse_enough", 3); prm.put("precond.repart.enable", true); prm.put("precond.repart.min_per_proc", 4); prm.put("precond.repart.shrink_ratio", 2); }
        else { prm.put("precond.class", "relaxation"); prm.put("precond.type", "spai0"); }
        auto D = make_dm(x, s.A, s.P, s.P);
        RS solve(x.comm, D, prm);
        SolveOut o; size_t nl = s.P.p[x.rank]; amgcl::backend::numa_vector<double> rhs(std::vector<double>(s.F.begin() + s.P.off[x.rank], s.F.begin() + s.P.off[x.rank + 1])), xx(nl);
        std::tie(o.iters, o.resid) = solve(rhs, xx); o.x.assign(xx.data(), xx.data() + nl);
        // preonly applies the preconditioner once; richardson / relaxation-as-preconditioner converge slowly: truthfulness and rank consistency only
        const bool must = st != 8 && !(pc == 1) && st != 7;
        if (st == 8) {   // preonly: one application of the preconditioner, returns the placeholder (0, 0) by design (solver/preonly.hpp)
            std::vector<double> its, res; bool same_it = same_on_all(x, (double)o.iters, its), same_res = same_on_all(x, o.resid, res); auto X = gather_vec(x, o.x, s.P);
            if (x.rank) return r;
            if (!same_it || !same_res || o.iters != 0 || o.resid != 0) r.fail("run-time preonly: (iters, resid) is not the documented (0, 0) on every rank");
            for (long i = 0; i < s.A.n; ++i) { if (!std::isfinite(X[i])) r.fail("run-time preonly: non-finite component"); if (pc == 1) { long double d = 0, q = 0; for (auto j = s.A.ptr[i]; j < s.A.ptr[i+1]; ++j) { long double v = s.A.val[j].v.get_d(); q += v * v; if (s.A.col[j] == i) d = v; } long double want = d / q * s.F[i]; if (!(std::fabs(want - X[i]) <= 1e-12L * std::max<long double>(1.0L, std::fabs(want)))) r.fail("run-time preonly + spai0: x[" + std::to_string(i) + "] is not (a_ii / sum_j a_ij^2) f_i"); } }
            r.tag("np" + std::to_string(x.np));
        } else check_solve(r, x, s.A, s.P, s.F, o, must, std::string("run-time ") + SNAME[st]);
        if (x.rank) return r;
        if (st == 7 && pc == 0 && !(o.resid <= TOL)) r.fail("test: run-time richardson + amg: not converged within 2000 iterations: resid=" + std::to_string(o.resid));
        r.out = (Line() << "solved" << SNAME[st]).get(); r.nontrivial = o.iters >= 1 && x.np > 1; r.tag("mrtsolve"); r.tag(std::string("rt_") + SNAME[st]); r.tag(pc ? "rt_relaxation" : "rt_amg_repart");
    } else if (op == "mscatter") {
        long rx = c.nat(); need(rx >= 0 && rx <= 1);
        Sys s = parse_sys(c);
        Ctx x = ctx_for(s.P.np()); if (!x.active) return r;
        g_lev.clear(); g_perm.clear(); g_levelA.clear();
        SolveOut o; std::vector<ptrdiff_t> ptr, col; std::vector<double> val; strip(s.A, s.P, x.rank, ptr, col, val); size_t nl = ptr.size() - 1;
        std::vector<double> f(s.F.begin() + s.P.off[x.rank], s.F.begin() + s.P.off[x.rank + 1]); o.x.assign(nl, 0.0);
        auto go = [&](auto tag) {
            typedef typename decltype(tag)::type MS; typename MS::params prm;
            prm.precond.coarse_enough = 3; prm.precond.coarsening.over_interp = 1.0f; prm.precond.coarsening.aggr.eps_strong = 0.08;
            prm.precond.repart.enable = true; prm.precond.repart.min_per_proc = 6; prm.precond.repart.shrink_ratio = 2; prm.precond.repart.mul = 3 + (int)(s.A.n % 4);
            prm.solver.tol = TOL; prm.solver.maxiter = MAXIT;
            MS solve(x.comm, std::make_tuple(nl, ptr, col, val), prm); std::tie(o.iters, o.resid) = solve(f, o.x);
        };
        struct T0 { typedef amgcl::mpi::make_solver<AMGr<amgcl::mpi::relaxation::spai0, scatter>, amgcl::mpi::solver::cg<BD>> type; };
        struct T1 { typedef amgcl::mpi::make_solver<AMGr<amgcl::mpi::relaxation::damped_jacobi, scatter>, amgcl::mpi::solver::bicgstab<BD>> type; };
        if (rx == 0) go(T0()); else go(T1());
        check_solve(r, x, s.A, s.P, s.F, o, true, "amg + scattering repartitioner");
        if (x.rank) return r;
        check_perm(r); check_levels(r, 1.0L);
        r.out = (Line() << "converged" << (long)g_lev.size() << (long)g_perm.size()).get(); r.nontrivial = o.iters >= 1 && x.np > 1 && !g_perm.empty();
        r.tag("mscatter"); r.tag("levels" + std::to_string(g_lev.size() + 1)); if (g_perm.empty()) r.tag("no_redistribution");
    } else if (op == "mrebuild") {
        long rx = c.nat(), direct = c.nat(); need(rx >= 0 && rx <= 2 && (direct == 0 || direct == 1));
        Sys s = parse_sys(c);
        Ctx x = ctx_for(s.P.np()); if (!x.active) return r;
        std::vector<ptrdiff_t> ptr, col; std::vector<double> val, val64; strip(s.A, s.P, x.rank, ptr, col, val); size_t nl = ptr.size() - 1; for (double v : val) val64.push_back(64.0 * v);
        std::vector<double> f(s.F.begin() + s.P.off[x.rank], s.F.begin() + s.P.off[x.rank + 1]), y0(nl, 0.0), y1(nl, 0.0), y2(nl, 0.0), y3(nl, 0.0);
        auto go = [&](auto tag) {
            typedef typename decltype(tag)::type AMG; typename AMG::params prm;
            prm.coarse_enough = 3; prm.coarsening.over_interp = 1.0f; prm.coarsening.aggr.eps_strong = 0.08; prm.allow_rebuild = true; prm.direct_coarse = direct != 0; prm.npre = 1; prm.npost = 1;
            if (!direct && s.A.n % 2 == 0) prm.max_levels = 2;      // hierarchy cut off by max_levels: the coarsest level is relaxed, never solved
            AMG amg(x.comm, std::make_tuple(nl, ptr, col, val), prm);
            amg.apply(f, y0);
            amg.rebuild(std::make_tuple(nl, ptr, col, val64)); amg.apply(f, y1);
            AMG fresh(x.comm, std::make_tuple(nl, ptr, col, val64), prm); fresh.apply(f, y2);
            amg.rebuild(std::make_tuple(nl, ptr, col, val)); amg.apply(f, y3);
        };
        typedef amgcl::mpi::coarsening::aggregation<BD> Ag; typedef amgcl::mpi::direct::skyline_lu<double> Dir; typedef amgcl::mpi::partition::merge<BD> Mg;
        struct T0 { typedef amgcl::mpi::amg<BD, Ag, amgcl::mpi::relaxation::spai0<BD>, Dir, Mg> type; };
        struct T1 { typedef amgcl::mpi::amg<BD, Ag, amgcl::mpi::relaxation::damped_jacobi<BD>, Dir, Mg> type; };
        struct T2 { typedef amgcl::mpi::amg<BD, Ag, amgcl::mpi::relaxation::ilu0<BD>, Dir, Mg> type; };
        if (rx == 0) go(T0()); else if (rx == 1) go(T1()); else go(T2());
        auto Y0 = gather_vec(x, y0, s.P), Y1 = gather_vec(x, y1, s.P), Y2 = gather_vec(x, y2, s.P), Y3 = gather_vec(x, y3, s.P);
        if (x.rank) return r;
        // scaling by a power of two is exact in every operation; what may differ between the first setup and a rebuild is
        // the ORDER of the entries inside the rows of the coarse matrices (the first setup sorts them, a Galerkin product
        // does not), i.e. the order of summation: agreement to 1e-10 relative, never a factor
        long double sc = 0; for (double v : Y0) sc = std::max<long double>(sc, std::fabs(v)); const long double tol = 1e-10L * std::max<long double>(sc, 1e-300L);
        for (long i = 0; i < s.A.n && r.ok; ++i) {
            if (!(std::fabs((long double)Y1[i] * 64 - Y0[i]) <= tol)) r.fail("rebuild(64 A): the preconditioner must scale by 1/64: component " + std::to_string(i) + " is " + std::to_string(Y1[i]) + ", before the rebuild / 64 = " + std::to_string(Y0[i] / 64.0));
            else if (!(std::fabs((long double)Y1[i] * 64 - (long double)Y2[i] * 64) <= tol)) r.fail("rebuild(64 A) differs from a freshly built hierarchy of 64 A at component " + std::to_string(i) + ": " + std::to_string(Y1[i]) + " vs " + std::to_string(Y2[i]));
            else if (!(std::fabs((long double)Y3[i] - Y0[i]) <= tol)) r.fail("rebuild back to A does not reproduce the original preconditioner at component " + std::to_string(i) + ": " + std::to_string(Y3[i]) + " vs " + std::to_string(Y0[i]));
        }
        bool nz = false; for (double v : Y0) if (v != 0) nz = true;
        r.out = "rebuilt"; r.nontrivial = nz && x.np > 1; r.tag("mrebuild"); r.tag("rebuild_rx" + std::to_string(rx)); r.tag(direct ? "direct_coarse" : "relaxed_coarse"); r.tag("np" + std::to_string(x.np));
    } else if (op == "mzero") {
        Part P = part(c); auto dq = c.vec(), fq = c.vec(); c.expect_end(); need((long)dq.size() == P.sum && (long)fq.size() == P.sum && P.sum > 3); for (auto &d : dq) need(d > 0);
        Sys s; s.P = P; s.F = dvec(fq); std::vector<std::vector<std::pair<long,Q>>> rows(P.sum); for (long i = 0; i < P.sum; ++i) { exact(dq[i]); rows[i].push_back({i, dq[i]}); } s.A = from_rows(P.sum, P.sum, rows);
        Ctx x = ctx_for(P.np()); if (!x.active) return r;
        typedef amgcl::mpi::make_solver<amgcl::mpi::amg<BD, Aggr, amgcl::mpi::relaxation::spai0<BD>, amgcl::mpi::direct::skyline_lu<double>, amgcl::mpi::partition::merge<BD>>, amgcl::mpi::solver::cg<BD>> MS;
        MS::params prm; prm.precond.coarse_enough = 3; prm.solver.tol = TOL; prm.solver.maxiter = MAXIT;
        std::vector<ptrdiff_t> ptr, col; std::vector<double> val; strip(s.A, s.P, x.rank, ptr, col, val); size_t nl = ptr.size() - 1;
        MS solve(x.comm, std::make_tuple(nl, ptr, col, val), prm);
        SolveOut o; o.x.assign(nl, 0.0); std::vector<double> f(s.F.begin() + P.off[x.rank], s.F.begin() + P.off[x.rank + 1]); std::tie(o.iters, o.resid) = solve(f, o.x);
        check_solve(r, x, s.A, s.P, s.F, o, true, "diagonal matrix (zero-sized coarse level)");
        if (x.rank) return r;
        r.out = "converged"; r.nontrivial = x.np > 1; r.tag("mzero");
    } else if (op == "mrtbad") {
        long which = c.nat(); c.expect_end(); need(which >= 0 && which <= 3);
        Ctx x = ctx_for(std::min(g_wsize, 3)); if (!x.active) return r;
        Mat A; A.n = A.m = 3 * x.np; A.ptr.assign(1, 0); for (long i = 0; i < A.n; ++i) { A.col.push_back(i); A.val.push_back(Q(2)); A.ptr.push_back((ptrdiff_t)A.col.size()); }
        Part P; P.p.assign(x.np, 3); P.off.assign(1, 0); for (long q : P.p) P.off.push_back(P.off.back() + q); P.sum = A.n;
        auto D = make_dm(x, A, P, P); bool threw = false;
        try {
            PT p;
            // (the `default:` branches of the wrappers' switches cannot be reached without an invalid enumeration VALUE,
            // which is undefined behaviour on the caller's side; what a user can get wrong is the NAME)
            if (which == 0) { p.put("type", "no_such_relaxation"); amgcl::runtime::mpi::relaxation::wrapper<BD> w(*D, p); }
            else if (which == 1) { p.put("type", "no_such_coarsening"); amgcl::runtime::mpi::coarsening::wrapper<BD> w(p); }
            else if (which == 2) { p.put("type", "no_such_direct_solver"); amgcl::runtime::mpi::direct::solver<double> w(x.comm, *D->local(), p); }
            else { p.put("class", "no_such_class"); amgcl::runtime::mpi::preconditioner<BD> w(x.comm, D, p); }
        } catch (const std::invalid_argument &) { threw = true; } catch (const std::exception &) { threw = true; }
        bool all = all_true(x, threw);
        if (x.rank) return r;
        if (!all) r.fail("a run-time wrapper accepted an unknown component name on some rank");
        r.out = threw ? "invalid_argument" : "accepted"; r.nontrivial = x.np > 1; r.tag("mrtbad" + std::to_string(which));
    } else r.out = "bad-op";
    return r;
}

static std::vector<long> nonempty_part(Rng &rng, long n, int np, long minrows) {
    // contiguous partition with at least minrows rows on every rank
    std::vector<long> p(np, minrows); long rest = n - minrows * np; std::vector<long> cuts; for (int i = 0; i + 1 < np; ++i) cuts.push_back(rng.range(0, rest)); std::sort(cuts.begin(), cuts.end());
    long prev = 0; for (int i = 0; i + 1 < np; ++i) { p[i] += cuts[i] - prev; prev = cuts[i]; } p[np - 1] += rest - prev; return p;
}
static void generate(Rng &rng, const Opts &o, std::vector<std::string> &lines) {
    const int W = std::min(g_wsize, MAXNP); const bool th = o.thorough();
    const long scale = o.cases > 0 ? 1 : th ? 6 : 1;
    for (long k = 0; k < 24 * scale; ++k) {        // msdd: lp x sv x dv cycled
        int np = (k % 6 == 5) ? 1 : (int)rng.range(2, W); long dv = k % 4, lpx = (k / 4) % 2, sv = (k / 8) % 3;
        long n = rng.range(std::max<long>(4 * np, 8), th ? 60 : 40); Mat A = gen_spd(rng, n, (int)rng.range(0, 3), 4);
        while (A.n < 4 * np) A = gen_spd(rng, 4 * np + 4, 0, 4);
        Line l; l << "msdd" << lpx << sv << dv; lp(l, nonempty_part(rng, A.n, np, 4)); l << A << gen_vec(rng, A.n, true); lines.push_back(l.get());
    }
    for (long k = 0; k < 12 * scale; ++k) {        // mblock
        int np = (int)rng.range(1, W); long lpx = k % 2, sv = (k / 2) % 3; Mat A = gen_spd(rng, rng.range(std::max<long>(2 * np, 6), 40), (int)rng.range(0, 3), 4);
        while (A.n < 2 * np) A = gen_spd(rng, 2 * np + 4, 0, 4);
        Line l; l << "mblock" << lpx << sv; lp(l, lpx == 0 ? nonempty_part(rng, A.n, np, 1) : rand_part(rng, A.n, np)); l << A << gen_vec(rng, A.n, true); lines.push_back(l.get());
    }
    for (long k = 0; k < 18 * scale; ++k) {        // mrtsolve: every solver type x 2 preconditioner classes
        int np = (int)rng.range(1, W); long st = k % 9, pc = (k / 9) % 2; Mat A = gen_spd(rng, rng.range(6, pc ? 16 : 30), (int)rng.range(0, 3), 4);
        Line l; l << "mrtsolve" << st << pc; lp(l, rand_part(rng, A.n, np)); l << A << gen_vec(rng, A.n, true); lines.push_back(l.get());
    }
    for (long k = 0; k < 16 * scale; ++k) {        // mscatter
        int np = (k % 8 == 7) ? 1 : (int)rng.range(2, W); Mat A = gen_spd(rng, rng.range(12, th ? 70 : 44), (int)rng.range(0, 3), 4);
        Line l; l << "mscatter" << (long)(k % 2); lp(l, rand_part(rng, A.n, np)); l << A << gen_vec(rng, A.n, true); lines.push_back(l.get());
    }
    for (long k = 0; k < 12 * scale; ++k) {        // mrebuild
        int np = (int)rng.range(1, W); Mat A = gen_spd(rng, rng.range(6, 36), (int)rng.range(0, 3), 4);
        Line l; l << "mrebuild" << (long)(k % 3) << (long)((k / 3) % 2); lp(l, rand_part(rng, A.n, np)); l << A << gen_vec(rng, A.n, true); lines.push_back(l.get());
    }
    for (long k = 0; k < 4 * scale; ++k) { int np = (int)rng.range(1, W); long n = rng.range(4, 14); std::vector<Q> d(n); for (auto &v : d) v = Q::frac(rng.range(1, 8), 2); Line l; l << "mzero"; lp(l, rand_part(rng, n, np)); l << d << gen_vec(rng, n, true); lines.push_back(l.get()); }
    for (long w = 0; w < 4; ++w) { Line l; l << "mrtbad" << w; lines.push_back(l.get()); }
    lines.push_back("msdd 0 0 0 1 1 1 1 1 0 2 1 1");                                            // fewer rows than 2 * deflation vectors
    lines.push_back("mrtsolve 9 0 1 2 2 2 2 0 2 1 -1 2 0 -1 1 2 2 1 1");          // no such solver
    lines.push_back("mrebuild 0 2 1 2 2 2 2 0 2 1 -1 2 0 -1 1 2 2 1 1");          // direct flag out of range
}

VH_MPI_MAIN(generate, execute)
