// C07 / C08 harness, part 3: value types with structure (blocks, complex) in the primitives and in transpose / Galerkin.
//
//   mx_spmv     b mk cx cy  a A x beta y       block-valued crs<static_matrix<Q,b,b>> (mk = 0; mk = 2: built from a scalar matrix by
//                                              builtin_hybrid<block>::copy_matrix, the hybrid backend itself) with scalar (c? = 0) or block
//   mx_residual b mk cf cx cr  f A x           (c? = 1, numa_vector<static_matrix<Q,b,1>>) vectors in EVERY combination: the
//                                              mixed specialisations of backend/detail/matrix_ops.hpp (reinterpret_as_rhs), the
//                                              path of builtin_hybrid / make_block_solver / as_block; mk = 1: the converse, a
//                                              SCALAR crs<Q> with block vectors (same specialisations, reinterpreted to scalars)
//   mx_vmul     b cy cz  a X y beta z          vmul with a vector of b x b blocks X and scalar/block y, z (builtin.hpp mixed vmul)
//   vt_transpose_blk b vt A                    backend::transpose at block values: vt = 0 static_matrix<Q,b,b>, vt = 1
//                                              Eigen::Matrix<double,b,b> (value_type/eigen.hpp) on exact-in-binary64 data
//   vt_transpose_cx A                          backend::transpose at std::complex<Q>
//   vt_galerkin_cx nt A P | vt_galerkin_blk b nt A P     R = transpose(P); coarsening::detail::galerkin(A, P, R) with nt threads
//                                              (nt > 16: row-merge SpGEMM); output `R Ac`
// All vectors travel FLAT (the scalar view of the memory); a block matrix is `nb mb` then per block row
// `k (c v_00 v_01 .. )*` with row-major b x b blocks; a complex number is two rationals `re im`.
// Oracles (exact, independent of the Lean model): dense scalar recomputation on the EXPANDED matrix; T(j,i) = adjoint(A(i,j))
// entrywise + shape / ptr / ordering; R = P^H, Ac = P^H A P densely, Ac Hermitian when A is.
#include "gen.hpp"
#include <complex>
#include <amgcl/backend/builtin.hpp>
#include <amgcl/value_type/static_matrix.hpp>
#include <amgcl/backend/builtin_hybrid.hpp>
#include <amgcl/value_type/complex.hpp>
#include <amgcl/coarsening/detail/galerkin.hpp>
#include <Eigen/Dense>
#include <amgcl/value_type/eigen.hpp>
#ifdef _OPENMP
#include <omp.h>
#endif
using namespace vh;

typedef std::complex<Q> CQ;
static bool has_poison(const std::vector<Q> &v) { for (auto &x : v) if (x.poison) return true; return false; }
static bool same(const std::vector<Q> &a, const std::vector<Q> &b) {
    if (a.size() != b.size()) return false;
    for (size_t i = 0; i < b.size(); ++i) { if (a[i].poison != b[i].poison) return false; if (!a[i].poison && a[i].v != b[i].v) return false; }
    return true;
}
static bool exact_small(const Q &x) { return !x.poison && x.v.get_den() == 1 && abs(x.v.get_num()) <= (1L << 40); }

// ------------------------------------------------------------------ generic sparse matrix in protocol form
// V = Q (scalar), CQ (complex), or a flat block of b*b rationals (BV)
struct BV { std::vector<Q> e; };
template <class V> struct SMat { long n = 0, m = 0; std::vector<ptrdiff_t> ptr{0}, col; std::vector<V> val; };
typedef SMat<BV> BMat; typedef SMat<CQ> CMat;

static CQ rdc(Cur &c) { Q r = c.rat(); Q i = c.rat(); if (r.poison || i.poison) throw bad_input("poison"); return CQ(r, i); }
static BV rdb(Cur &c, long b) { BV v; v.e.resize(b * b); for (auto &x : v.e) { x = c.rat(); if (x.poison) throw bad_input("poison"); } return v; }
template <class V, class RD> static SMat<V> rdmat(Cur &c, RD rd) {
    SMat<V> A; A.n = c.nat(); A.m = c.nat(); if (A.n < 0 || A.m < 0) throw bad_input("shape");
    for (long i = 0; i < A.n; ++i) { long k = c.nat(); if (k < 0) throw bad_input("k"); for (long j = 0; j < k; ++j) { long cc = c.nat(); if (cc < 0 || cc >= A.m) throw bad_input("col"); A.col.push_back(cc); A.val.push_back(rd(c)); } A.ptr.push_back((ptrdiff_t)A.col.size()); }
    return A;
}
static BMat rdbmat(Cur &c, long b) { return rdmat<BV>(c, [b](Cur &cc) { return rdb(cc, b); }); }
static CMat rdcmat(Cur &c) { return rdmat<CQ>(c, [](Cur &cc) { return rdc(cc); }); }
static Line& putv(Line &l, const CQ &v) { l << v.real(); l << v.imag(); return l; }
static Line& putv(Line &l, const BV &v) { for (auto &x : v.e) l << x; return l; }
template <class V> static Line& putm(Line &l, const SMat<V> &A) {
    l << A.n << A.m;
    for (long i = 0; i < A.n; ++i) { l << (long)(A.ptr[i+1] - A.ptr[i]); for (auto j = A.ptr[i]; j < A.ptr[i+1]; ++j) { l << (long)A.col[j]; putv(l, A.val[j]); } }
    return l;
}
template <class V> static bool nodup(const SMat<V> &A) { for (long i = 0; i < A.n; ++i) { std::set<long> s; for (auto j = A.ptr[i]; j < A.ptr[i+1]; ++j) if (!s.insert(A.col[j]).second) return false; } return true; }
template <class V> static bool sorted_rows(const SMat<V> &A) { for (long i = 0; i < A.n; ++i) for (auto j = A.ptr[i]; j + 1 < A.ptr[i+1]; ++j) if (!(A.col[j] < A.col[j+1])) return false; return true; }

// ------------------------------------------------------------------ dense oracles over T = Q (expanded blocks) or CQ
template <class T> using Dn = std::vector<std::vector<T>>;
static Q adjT(const Q &x) { return x; }
static CQ adjT(const CQ &x) { return CQ(x.real(), -x.imag()); }
static bool eqT(const Q &a, const Q &b) { return a.v == b.v; }
static bool eqT(const CQ &a, const CQ &b) { return a.real().v == b.real().v && a.imag().v == b.imag().v; }
template <class T> static Dn<T> dzero(long n, long m) { return Dn<T>(n, std::vector<T>(m, T(Q(0)))); }
template <class T> static Dn<T> dadj(const Dn<T> &A, long n, long m) { Dn<T> R = dzero<T>(m, n); for (long i = 0; i < n; ++i) for (long j = 0; j < m; ++j) R[j][i] = adjT(A[i][j]); return R; }
template <class T> static Dn<T> dmulT(const Dn<T> &A, const Dn<T> &B, long n, long k, long m) {
    Dn<T> C = dzero<T>(n, m); for (long i = 0; i < n; ++i) for (long l = 0; l < k; ++l) for (long j = 0; j < m; ++j) C[i][j] += A[i][l] * B[l][j]; return C; }
template <class T> static bool deq(const Dn<T> &A, const Dn<T> &B) {
    if (A.size() != B.size()) return false;
    for (size_t i = 0; i < A.size(); ++i) { if (A[i].size() != B[i].size()) return false; for (size_t j = 0; j < A[i].size(); ++j) if (!eqT(A[i][j], B[i][j])) return false; }
    return true; }
// the scalar matrix a block matrix stands for (duplicates add up)
static Dn<Q> ddense(const BMat &A, long b) { Dn<Q> D = dzero<Q>(A.n * b, A.m * b); for (long i = 0; i < A.n; ++i) for (auto j = A.ptr[i]; j < A.ptr[i+1]; ++j) for (long p = 0; p < b; ++p) for (long q = 0; q < b; ++q) D[i*b+p][A.col[j]*b+q] += A.val[j].e[p*b+q]; return D; }
static Dn<CQ> ddense(const CMat &A, long) { Dn<CQ> D = dzero<CQ>(A.n, A.m); for (long i = 0; i < A.n; ++i) for (auto j = A.ptr[i]; j < A.ptr[i+1]; ++j) D[i][A.col[j]] += A.val[j]; return D; }
static bool self_adjoint(const CQ &v, long) { return v.imag().v == 0; }
static bool self_adjoint(const BV &v, long b) { for (long p = 0; p < b; ++p) for (long q = 0; q < p; ++q) if (v.e[p*b+q].v != v.e[q*b+p].v) return false; return true; }
template <class V> static bool has_non_self_adjoint(const SMat<V> &A, long b) { for (auto &v : A.val) if (!self_adjoint(v, b)) return true; return false; }

// ------------------------------------------------------------------ conversion to / from the real amgcl types
template <class F> static void with_flag(bool f, F &&fn) { if (f) fn(std::true_type()); else fn(std::false_type()); }

template <int B> struct BK {
    typedef amgcl::static_matrix<Q, B, B> val; typedef amgcl::static_matrix<Q, B, 1> rhs;
    typedef amgcl::backend::crs<val> Matrix;
    static val to_val(const BV &v) { val x; for (int i = 0; i < B * B; ++i) x(i) = v.e[i]; return x; }
    static BV from_val(const val &x) { BV v; v.e.resize(B * B); for (int i = 0; i < B * B; ++i) v.e[i] = x(i); return v; }
    static std::shared_ptr<Matrix> build(const BMat &A) {
        std::vector<val> v(A.val.size()); for (size_t i = 0; i < v.size(); ++i) v[i] = to_val(A.val[i]);
        return std::make_shared<Matrix>((size_t)A.n, (size_t)A.m, A.ptr, A.col, v);
    }
};
template <int B> struct EK {
    typedef Eigen::Matrix<double, B, B> val; typedef amgcl::backend::crs<val> Matrix;
    static val to_val(const BV &v) { val x; for (int p = 0; p < B; ++p) for (int q = 0; q < B; ++q) x(p, q) = v.e[p*B+q].v.get_d(); return x; }
    static BV from_val(const val &x) { BV v; v.e.resize(B * B); for (int p = 0; p < B; ++p) for (int q = 0; q < B; ++q) v.e[p*B+q] = Q(x(p, q)); return v; }
    static std::shared_ptr<Matrix> build(const BMat &A) {
        std::vector<val> v(A.val.size()); for (size_t i = 0; i < v.size(); ++i) v[i] = to_val(A.val[i]);
        return std::make_shared<Matrix>((size_t)A.n, (size_t)A.m, A.ptr, A.col, v);
    }
};
struct CK {
    typedef CQ val; typedef amgcl::backend::crs<CQ> Matrix;
    static CQ to_val(const CQ &v) { return v; } static CQ from_val(const CQ &v) { return v; }
    static std::shared_ptr<Matrix> build(const CMat &A) { return std::make_shared<Matrix>((size_t)A.n, (size_t)A.m, A.ptr, A.col, A.val); }
};
// copy a result out; a structurally broken result is reported, never dereferenced out of range
template <class K, class V> static bool extract(const typename K::Matrix &T, SMat<V> &R, std::string &why) {
    R = SMat<V>(); R.n = (long)T.nrows; R.m = (long)T.ncols;
    if (!T.ptr) { if (T.nrows) { why = "ptr missing"; return false; } return true; }
    if (T.ptr[0] != 0) { why = "ptr[0] != 0"; return false; }
    for (size_t i = 0; i < T.nrows; ++i) if (T.ptr[i+1] < T.ptr[i]) { why = "ptr not monotone"; return false; }
    if ((size_t)T.ptr[T.nrows] != T.nnz) { why = "ptr[nrows] != nnz"; return false; }
    for (size_t i = 0; i < T.nrows; ++i) { for (auto j = T.ptr[i]; j < T.ptr[i+1]; ++j) { if (T.col[j] < 0 || (size_t)T.col[j] >= T.ncols) { why = "column out of range"; return false; } R.col.push_back(T.col[j]); R.val.push_back(K::from_val(T.val[j])); } R.ptr.push_back((ptrdiff_t)R.col.size()); }
    return true;
}

// a vector held either as scalars (numa_vector<Q>) or as blocks (numa_vector<static_matrix<Q,B,1>>); same flat content
template <int B, bool BLK> struct VW;
template <int B> struct VW<B, false> {
    NVec v; explicit VW(const std::vector<Q> &x) : v(x) {}
    std::vector<Q> flat() const { return std::vector<Q>(v.data(), v.data() + v.size()); }
};
template <int B> struct VW<B, true> {
    amgcl::backend::numa_vector<typename BK<B>::rhs> v;
    explicit VW(const std::vector<Q> &x) : v(x.size() / B) { for (size_t i = 0; i < v.size(); ++i) for (int k = 0; k < B; ++k) v[i](k) = x[i * B + k]; }
    std::vector<Q> flat() const { std::vector<Q> x(v.size() * B); for (size_t i = 0; i < v.size(); ++i) for (int k = 0; k < B; ++k) x[i * B + k] = v[i](k); return x; }
};

struct ThreadScope {
    explicit ThreadScope(long nt) {
#ifdef _OPENMP
        omp_set_num_threads((int)nt);
#else
        (void)nt;
#endif
    }
    ~ThreadScope() {
#ifdef _OPENMP
        omp_set_num_threads(1);
#endif
    }
};

// ------------------------------------------------------------------ mixed primitives
static const char *vk(bool b) { return b ? "block" : "scalar"; }

static const char *mkname(long mk) { return mk == 0 ? "block" : mk == 1 ? "scalar" : "hybrid block"; }
static const char *mktag(long mk) { return mk == 0 ? "bmat" : mk == 1 ? "smat" : "hybrid"; }
// the operand of a mixed primitive: mk = 0 block CRS as given, 1 scalar CRS, 2 scalar CRS converted by builtin_hybrid::copy_matrix
template <int B> struct Operand {
    long mk, n, m; BMat Ab; Mat As; Dn<Q> D; size_t nnz;
    std::shared_ptr<typename BK<B>::Matrix> blk; std::shared_ptr<Crs> sc;
    void read(Cur &c, long mk_) { mk = mk_; if (mk < 0 || mk > 2) throw bad_input("mk"); if (mk) As = c.mat(); else Ab = rdbmat(c, B); }
    void prepare() {
        if (mk == 0) { n = Ab.n * B; m = Ab.m * B; D = ddense(Ab, B); blk = BK<B>::build(Ab); nnz = Ab.col.size(); return; }
        sc = As.crs(); std::string why; if (!crs_wf(*sc, why)) throw bad_input(why);
        n = As.n; m = As.m; D = dense(As); nnz = As.col.size();
        if (mk == 2) {
            if (n % B || m % B || !crs_sorted_nodup(*sc)) throw bad_input("hybrid: sorted rows, sizes divisible by the block size");
            typedef amgcl::backend::builtin_hybrid<typename BK<B>::val> HB;
            blk = HB::copy_matrix(sc, typename HB::params());
        }
    }
};

template <int B> static Result mx_spmv(Cur &c) {
    Result r; Operand<B> A; long mk = c.nat(); long cxl = c.nat(), cyl = c.nat(); if (cxl < 0 || cxl > 1 || cyl < 0 || cyl > 1) throw bad_input("flag");
    bool cx = cxl, cy = cyl; Q a = c.rat(); A.read(c, mk);
    auto x = c.vec(); Q b = c.rat(); auto y = c.vec(); c.expect_end();
    A.prepare(); long n = A.n, m = A.m;
    if ((long)x.size() != m || (long)y.size() != n || (cx && m % B) || (cy && n % B)) throw bad_input("shape");
    std::vector<Q> out;
    auto run = [&](auto &M) { with_flag(cx, [&](auto CX) { with_flag(cy, [&](auto CY) { VW<B, decltype(CX)::value> X(x); VW<B, decltype(CY)::value> Y(y); amgcl::backend::spmv(a, M, X.v, b, Y.v); out = Y.flat(); }); }); };
    if (mk == 1) run(*A.sc); else run(*A.blk);
    std::vector<Q> ref = dmv(A.D, x); ref.resize(n); for (long i = 0; i < n; ++i) ref[i] = (b == 0) ? a * ref[i] : a * ref[i] + b * y[i];
    std::string combo = std::string(mkname(mk)) + " matrix, " + vk(cx) + " x, " + vk(cy) + " y";
    if (b == 0 && !a.poison && has_poison(out)) r.fail("mixed spmv (" + combo + "): beta = 0 but the old output leaked");
    if (!same(out, ref)) r.fail("mixed spmv (" + combo + ") != alpha*A*x + beta*y on the expanded scalar matrix");
    r.out = (Line() << out).get(); r.nontrivial = A.nnz > 0 && (mk == 1 ? (cx || cy) : !(cx && cy));
    r.tag("mx_spmv"); r.tag("b" + std::to_string(B)); r.tag(std::string(mktag(mk)) + "_x" + (cx ? "b" : "s") + "y" + (cy ? "b" : "s"));
    return r;
}

template <int B> static Result mx_residual(Cur &c) {
    Result r; Operand<B> A; long mk = c.nat(); long fl[3]; for (auto &f : fl) { f = c.nat(); if (f < 0 || f > 1) throw bad_input("flag"); }
    bool cf = fl[0], cx = fl[1], cr = fl[2]; auto f = c.vec(); A.read(c, mk);
    auto x = c.vec(); c.expect_end();
    A.prepare(); long n = A.n, m = A.m;
    if ((long)x.size() != m || (long)f.size() != n || (cx && m % B) || ((cf || cr) && n % B)) throw bad_input("shape");
    std::vector<Q> out;
    auto run = [&](auto &M) {
        std::vector<Q> r0(n, Q::poisoned());
        with_flag(cf, [&](auto CF) { with_flag(cx, [&](auto CX) { with_flag(cr, [&](auto CR) {
            VW<B, decltype(CF)::value> F(f); VW<B, decltype(CX)::value> X(x); VW<B, decltype(CR)::value> R(r0);
            amgcl::backend::residual(F.v, M, X.v, R.v); out = R.flat(); }); }); });
    };
    if (mk == 1) run(*A.sc); else run(*A.blk);
    std::vector<Q> ref = dmv(A.D, x); ref.resize(n); for (long i = 0; i < n; ++i) ref[i] = f[i] - ref[i];
    std::string combo = std::string(mkname(mk)) + " matrix, " + vk(cf) + " f, " + vk(cx) + " x, " + vk(cr) + " r";
    if (!same(out, ref)) {
        bool swapped = false;      // diagnosis only: r = x - A f ?
        if (n == m) { std::vector<Q> alt = dmv(A.D, f); for (long i = 0; i < n; ++i) alt[i] = x[i] - alt[i]; swapped = same(out, alt); }
        r.fail("mixed residual (" + combo + ") != f - A*x on the expanded scalar matrix" + (swapped ? " (it equals x - A*f: rhs and x exchanged)" : ""));
    }
    r.out = (Line() << out).get(); r.nontrivial = A.nnz > 0 && (mk == 1 ? (cf || cx || cr) : !(cf && cx && cr));
    r.tag("mx_residual"); r.tag("b" + std::to_string(B)); r.tag(std::string(mktag(mk)) + "_f" + (cf ? "b" : "s") + "x" + (cx ? "b" : "s") + "r" + (cr ? "b" : "s"));
    return r;
}

template <int B> static Result mx_vmul(Cur &c) {
    Result r; long cyl = c.nat(), czl = c.nat(); if (cyl < 0 || cyl > 1 || czl < 0 || czl > 1) throw bad_input("flag");
    bool cy = cyl, cz = czl; Q a = c.rat(); long nb = c.nat(); if (nb < 0) throw bad_input("n");
    std::vector<BV> X(nb); for (auto &v : X) { v.e.resize(B * B); for (auto &e : v.e) e = c.rat(); }
    auto y = c.vec(); Q b = c.rat(); auto z = c.vec(); c.expect_end();
    if ((long)y.size() != nb * B || (long)z.size() != nb * B) throw bad_input("shape");
    amgcl::backend::numa_vector<typename BK<B>::val> XV(nb); for (long i = 0; i < nb; ++i) XV[i] = BK<B>::to_val(X[i]);
    std::vector<Q> out;
    with_flag(cy, [&](auto CY) { with_flag(cz, [&](auto CZ) { VW<B, decltype(CY)::value> Y(y); VW<B, decltype(CZ)::value> Z(z); amgcl::backend::vmul(a, XV, Y.v, b, Z.v); out = Z.flat(); }); });
    std::vector<Q> ref(nb * B);
    for (long i = 0; i < nb; ++i) for (long p = 0; p < B; ++p) { Q s(0); for (long q = 0; q < B; ++q) s += X[i].e[p*B+q] * y[i*B+q]; ref[i*B+p] = (b == 0) ? a * s : a * s + b * z[i*B+p]; }
    std::string combo = std::string("block x, ") + vk(cy) + " y, " + vk(cz) + " z";
    if (b == 0 && !a.poison && has_poison(out)) r.fail("mixed vmul (" + combo + "): beta = 0 but the old output leaked");
    if (!same(out, ref)) r.fail("mixed vmul (" + combo + ") != alpha*X_i*y_i + beta*z_i blockwise");
    r.out = (Line() << out).get(); r.nontrivial = nb > 0 && !(cy && cz);
    r.tag("mx_vmul"); r.tag("b" + std::to_string(B)); r.tag(std::string("y") + (cy ? "b" : "s") + "z" + (cz ? "b" : "s"));
    return r;
}

// ------------------------------------------------------------------ transpose / Galerkin at structured values
// T must be the conjugate transpose of A: shape, ptr, ordering, and T(j,i) = adjoint(A(i,j)) entrywise (dense, expanded)
template <class V> static void check_transpose(Result &r, const SMat<V> &A, const SMat<V> &T, long b, const char *what) {
    std::string w(what);
    if (T.n != A.m || T.m != A.n) { r.fail(w + ": wrong shape"); return; }
    if (T.col.size() != A.col.size()) r.fail(w + ": number of stored entries changed");
    for (long i = 0; i < T.n; ++i) for (auto j = T.ptr[i]; j + 1 < T.ptr[i+1]; ++j) if (T.col[j] > T.col[j+1]) r.fail(w + ": rows of the transpose not sorted");
    if (nodup(A) && !sorted_rows(T)) r.fail(w + ": rows of the transpose not strictly sorted");
    long N = A.n * b, M = A.m * b; auto DA = ddense(A, b), DT = ddense(T, b);
    if (deq(DT, dadj(DA, N, M))) return;
    bool plain = true;      // diagnosis only: the structural transpose with the values copied verbatim?
    for (long i = 0; plain && i < N; ++i) for (long j = 0; j < M; ++j) if (!eqT(DT[j][i], DA[i][j])) { plain = false; break; }
    r.fail(w + ": T(j,i) != adjoint(A(i,j))" + (plain ? " (it is the plain transpose: entries not conjugated)" : b > 1 ? " (blocks not transposed inside the block?)" : ""));
}

template <class K, class V> static Result run_transpose(const SMat<V> &A, long b, const char *what) {
    Result r; auto Ac = K::build(A); auto T = amgcl::backend::transpose(*Ac);
    SMat<V> TM; std::string why; if (!extract<K>(*T, TM, why)) { r.fail(std::string(what) + ": " + why); r.out = "malformed"; return r; }
    check_transpose(r, A, TM, b, what);
    Line l; putm(l, TM); r.out = l.get(); r.nontrivial = A.col.size() > 1 && has_non_self_adjoint(A, b);
    if (A.n != A.m) r.tag("rect"); if (!nodup(A)) r.tag("dups"); if (!has_non_self_adjoint(A, b)) r.tag("self_adjoint_values");
    return r;
}

template <class K, class V> static Result run_galerkin(long nt, const SMat<V> &A, const SMat<V> &P, long b, const char *what) {
    Result r; std::string w(what);
    if (A.n != A.m || P.n != A.n || nt < 1 || (nt > 16 && !sorted_rows(P))) throw bad_input("shape");
    auto Ac = K::build(A); auto Pc = K::build(P);
    std::shared_ptr<typename K::Matrix> R, C;
    { ThreadScope ts(nt); R = amgcl::backend::transpose(*Pc); C = amgcl::coarsening::detail::galerkin(*Ac, *Pc, *R); }
    SMat<V> RM, CM; std::string why;
    if (!extract<K>(*R, RM, why) || !extract<K>(*C, CM, why)) { r.fail(w + ": " + why); r.out = "malformed"; return r; }
    auto DA = ddense(A, b), DP = ddense(P, b), DR = ddense(RM, b), DC = ddense(CM, b);
    long N = A.n * b, NC = P.m * b;
    auto PH = dadj(DP, N, NC);
    if (RM.n != P.m || RM.m != P.n) r.fail(w + ": restriction has the wrong shape");
    else if (!deq(DR, PH)) r.fail(w + ": R = transpose(P) is not the adjoint P^H (entries not conjugated / blocks not transposed inside the block)");
    if (CM.n != P.m || CM.m != P.m) r.fail(w + ": coarse matrix has the wrong shape");
    else {
        auto ref = dmulT(PH, dmulT(DA, DP, N, N, NC), NC, N, NC);
        if (!deq(DC, ref)) r.fail(w + ": coarse matrix != P^H * A * P (dense)");
        bool herm = deq(DA, dadj(DA, N, N));
        if (herm && !deq(DC, dadj(DC, NC, NC))) r.fail(w + ": A is Hermitian but the Galerkin coarse matrix R*A*P is not");
        if (herm) r.tag("hermitian");
    }
    Line l; putm(l, RM); putm(l, CM); r.out = l.get();
    r.nontrivial = A.col.size() > 0 && P.col.size() > 1 && has_non_self_adjoint(P, b);
    r.tag(nt > 16 ? "rmerge" : "saad");
    return r;
}

static Result execute(const Toks &t) {
    Cur c(t); const std::string &op = t[0]; Result r;
    if (op == "mx_spmv" || op == "mx_residual" || op == "mx_vmul") {
        long b = c.nat(); if (b != 2 && b != 3) throw bad_input("b");
        if (op == "mx_spmv") r = b == 2 ? mx_spmv<2>(c) : mx_spmv<3>(c);
        else if (op == "mx_residual") r = b == 2 ? mx_residual<2>(c) : mx_residual<3>(c);
        else r = b == 2 ? mx_vmul<2>(c) : mx_vmul<3>(c);
    } else if (op == "vt_transpose_blk") {
        long b = c.nat(); if (b != 2 && b != 3) throw bad_input("b");
        long vt = c.nat(); if (vt < 0 || vt > 1) throw bad_input("vt");
        BMat A = rdbmat(c, b); c.expect_end();
        if (vt == 1) for (auto &v : A.val) for (auto &e : v.e) if (!exact_small(e)) throw bad_input("not exact in binary64");
        if (vt == 0) r = b == 2 ? run_transpose<BK<2>>(A, b, "block transpose") : run_transpose<BK<3>>(A, b, "block transpose");
        else r = b == 2 ? run_transpose<EK<2>>(A, b, "Eigen-block transpose") : run_transpose<EK<3>>(A, b, "Eigen-block transpose");
        r.tag(op); r.tag("b" + std::to_string(b)); r.tag(vt ? "eigen_block" : "static_matrix");
    } else if (op == "vt_transpose_cx") {
        CMat A = rdcmat(c); c.expect_end();
        r = run_transpose<CK>(A, 1, "complex transpose"); r.tag(op);
    } else if (op == "vt_galerkin_cx") {
        long nt = c.nat(); CMat A = rdcmat(c), P = rdcmat(c); c.expect_end();
        r = run_galerkin<CK>(nt, A, P, 1, "complex galerkin"); r.tag(op);
    } else if (op == "vt_galerkin_blk") {
        long b = c.nat(); if (b != 2 && b != 3) throw bad_input("b");
        long nt = c.nat(); BMat A = rdbmat(c, b), P = rdbmat(c, b); c.expect_end();
        r = b == 2 ? run_galerkin<BK<2>>(nt, A, P, b, "block galerkin") : run_galerkin<BK<3>>(nt, A, P, b, "block galerkin");
        r.tag(op); r.tag("b" + std::to_string(b));
    } else r.out = "bad-op";
    return r;
}

// ------------------------------------------------------------------ generators
static Q small(Rng &rng, bool integer) { return integer ? rng.integer(4) : rng.rat(4); }
static CQ gen_c(Rng &rng) { Q im = rng.coin(1, 8) ? Q(0) : rng.rat_nz(4); return CQ(rng.rat(4), im); }
// general block: non-symmetric with overwhelming probability, some zero entries; 1/10 symmetric, 1/20 multiple of the identity
static BV gen_b(Rng &rng, long b, bool integer) {
    BV v; v.e.resize(b * b); int kind = (int)rng.range(0, 19);
    for (long p = 0; p < b; ++p) for (long q = 0; q < b; ++q) v.e[p*b+q] = rng.coin(1, 5) ? Q(0) : small(rng, integer);
    if (kind == 0) { Q d = small(rng, integer); for (long p = 0; p < b; ++p) for (long q = 0; q < b; ++q) v.e[p*b+q] = p == q ? d : Q(0); }
    else if (kind <= 2) for (long p = 0; p < b; ++p) for (long q = 0; q < p; ++q) v.e[p*b+q] = v.e[q*b+p];
    return v;
}
template <class V, class G> static SMat<V> gen_mat(Rng &rng, long n, long m, int dens, G g, bool unsorted, bool dups) {
    std::vector<std::vector<std::pair<long, V>>> rows(n);
    for (long i = 0; i < n; ++i) { for (long j = 0; j < m; ++j) if (rng.range(0, 99) < dens) { rows[i].push_back({j, g()}); if (dups && rng.coin(1, 4)) rows[i].push_back({j, g()}); }
        if (unsorted) for (size_t k = rows[i].size(); k > 1; --k) std::swap(rows[i][k-1], rows[i][rng.next() % k]); }
    SMat<V> A; A.n = n; A.m = m; for (auto &r : rows) { for (auto &cv : r) { A.col.push_back(cv.first); A.val.push_back(cv.second); } A.ptr.push_back((ptrdiff_t)A.col.size()); }
    return A;
}
static BV bt(const BV &v, long b) { BV t; t.e.resize(b * b); for (long p = 0; p < b; ++p) for (long q = 0; q < b; ++q) t.e[q*b+p] = v.e[p*b+q]; return t; }
// Hermitian (block-symmetric) matrix with genuinely complex / non-symmetric off-diagonal values
template <class V, class G, class ADJ, class SYM> static SMat<V> gen_herm(Rng &rng, long n, int dens, G g, ADJ adj, SYM sym, bool unsorted) {
    std::vector<std::map<long, V>> rows(n);
    for (long i = 0; i < n; ++i) { rows[i][i] = sym(g()); for (long j = i + 1; j < n; ++j) if (rng.range(0, 99) < dens) { V v = g(); rows[i][j] = v; rows[j][i] = adj(v); } }
    SMat<V> A; A.n = A.m = n;
    for (auto &r : rows) { std::vector<std::pair<long, V>> e(r.begin(), r.end()); if (unsorted) for (size_t k = e.size(); k > 1; --k) std::swap(e[k-1], e[rng.next() % k]);
        for (auto &cv : e) { A.col.push_back(cv.first); A.val.push_back(cv.second); } A.ptr.push_back((ptrdiff_t)A.col.size()); }
    return A;
}
// prolongation-like n x nc: kind 0 = one entry per row at the row's aggregate (aggregation with a near-nullspace), kind 1 = smoothed (several per row)
template <class V, class G> static SMat<V> gen_prol(Rng &rng, long n, long nc, G g, int kind, bool unsorted) {
    if (kind == 1 || nc == 0) return gen_mat<V>(rng, n, nc, (int)rng.range(30, 70), g, unsorted, false);
    SMat<V> P; P.n = n; P.m = nc; for (long i = 0; i < n; ++i) { if (!rng.coin(1, 8)) { P.col.push_back(std::min(nc - 1, i * nc / std::max<long>(n, 1))); P.val.push_back(g()); } P.ptr.push_back((ptrdiff_t)P.col.size()); }
    return P;
}

static void generate(Rng &rng, const Opts &o, std::vector<std::string> &lines) {
    long N = o.cases > 0 ? o.cases : (o.thorough() ? 4000 : 400);
    auto coef = [&]() { int k = (int)rng.range(0, 5); return k == 0 ? Q(0) : k == 1 ? Q(1) : k == 2 ? Q(-1) : rng.rat(); };
    auto poisoned = [&](std::vector<Q> v) { for (auto &x : v) if (rng.coin()) x = Q::poisoned(); return v; };
    static const std::vector<long> nts = { 1, 1, 2, 17 }, mks = { 0, 0, 1, 2 };
    for (long k = 0; k < N; ++k) {
        int which = (int)rng.range(0, 13); long b = rng.range(2, 3);
        long lo = rng.coin(1, 8) ? 0 : 1, nb = rng.range(lo, b == 2 ? 6 : 4), mb = rng.coin(1, 2) ? rng.range(lo, b == 2 ? 6 : 4) : nb; int dens = (int)rng.range(10, 70);
        bool uns = rng.coin(1, 3), dups = rng.coin(1, 5);
        Line l;
        if (which <= 2) {            // mx_spmv
            long mk = rng.pick(mks); bool cx = rng.coin(), cy = rng.coin(); if (mk == 1 && !cx && !cy) cx = true;
            Q beta = rng.coin(1, 3) ? Q(0) : coef(); auto y = gen_vec(rng, nb * b); if (beta == 0 && rng.coin()) y = poisoned(y);
            l << "mx_spmv" << b << mk << cx << cy << coef();
            if (mk) { Mat A = gen_sparse(rng, nb * b, mb * b, dens / 2 + 5); if (uns && mk == 1) A = unsort(rng, A, dups); l << A; }
            else putm(l, gen_mat<BV>(rng, nb, mb, dens, [&]() { return gen_b(rng, b, false); }, uns, dups));
            l << gen_vec(rng, mb * b) << beta << y;
        } else if (which <= 6) {     // mx_residual
            long mk = rng.pick(mks); bool cf = rng.coin(), cx = rng.coin(), cr = rng.coin(); if (mk == 1 && !cf && !cx && !cr) cr = true;
            l << "mx_residual" << b << mk << cf << cx << cr << gen_vec(rng, nb * b);
            if (mk) { Mat A = gen_sparse(rng, nb * b, mb * b, dens / 2 + 5); if (uns && mk == 1) A = unsort(rng, A, dups); l << A; }
            else putm(l, gen_mat<BV>(rng, nb, mb, dens, [&]() { return gen_b(rng, b, false); }, uns, dups));
            l << gen_vec(rng, mb * b);
        } else if (which == 7) {     // mx_vmul
            Q beta = rng.coin(1, 3) ? Q(0) : coef(); auto z = gen_vec(rng, nb * b); if (beta == 0 && rng.coin()) z = poisoned(z);
            l << "mx_vmul" << b << rng.coin() << rng.coin() << coef() << nb; for (long i = 0; i < nb; ++i) putv(l, gen_b(rng, b, false));
            l << gen_vec(rng, nb * b) << beta << z;
        } else if (which <= 9) {     // block transpose
            bool eig = rng.coin(1, 3);
            l << "vt_transpose_blk" << b << eig; putm(l, gen_mat<BV>(rng, nb, mb, dens, [&]() { return gen_b(rng, b, eig); }, uns, dups));
        } else if (which == 10) {    // complex transpose
            long n = rng.range(0, 10), m = rng.coin() ? rng.range(0, 10) : n;
            l << "vt_transpose_cx"; putm(l, gen_mat<CQ>(rng, n, m, dens, [&]() { return gen_c(rng); }, uns, dups));
        } else if (which == 11) {    // complex Galerkin
            long n = rng.range(1, 8), nc = rng.range(rng.coin(1, 6) ? 0 : 1, std::max<long>(1, n / 2)); long nt = rng.pick(nts); bool herm = !rng.coin(1, 4);
            auto g = [&]() { return gen_c(rng); };
            CMat A = herm ? gen_herm<CQ>(rng, n, dens, g, [](const CQ &v) { return adjT(v); }, [](const CQ &v) { return CQ(v.real(), Q(0)); }, uns && nt <= 16)
                          : gen_mat<CQ>(rng, n, n, dens, g, uns, false);
            l << "vt_galerkin_cx" << nt; putm(l, A); putm(l, gen_prol<CQ>(rng, n, nc, g, (int)rng.range(0, 1), uns && nt <= 16));
        } else {                     // block Galerkin
            long n = rng.range(1, b == 2 ? 5 : 3), nc = rng.range(rng.coin(1, 6) ? 0 : 1, std::max<long>(1, n / 2)); long nt = rng.pick(nts); bool herm = !rng.coin(1, 4);
            auto g = [&]() { return gen_b(rng, b, true); };
            BMat A = herm ? gen_herm<BV>(rng, n, dens, g, [b](const BV &v) { return bt(v, b); }, [b](const BV &v) { BV s = v; for (long p = 0; p < b; ++p) for (long q = 0; q < p; ++q) s.e[p*b+q] = s.e[q*b+p]; return s; }, uns && nt <= 16)
                          : gen_mat<BV>(rng, n, n, dens, g, uns, false);
            l << "vt_galerkin_blk" << b << nt; putm(l, A); putm(l, gen_prol<BV>(rng, n, nc, g, (int)rng.range(0, 1), uns && nt <= 16));
        }
        lines.push_back(l.get());
    }
    // malformed stream
    lines.push_back("mx_spmv 4 0 0 0 1 0 0 0 0 0");                                   // block size outside {2,3}
    lines.push_back("mx_spmv 2 0 0 0 1 1 1 1 0 1 2 3 4 3 1 2 3 0 2 1 1");            // x has 3 scalars for one 2x2 block column
    lines.push_back("mx_residual 2 0 0 0 0 2 1 1 1 1 1 1 1 2 3 4 2 1 1");            // block column 1 in a matrix with 1 block column
    lines.push_back("mx_residual 3 1 1 0 0 2 1 1 2 2 0 0 2 1 1");                    // scalar matrix with 2 rows cannot take a 3-block f
    lines.push_back("mx_vmul 2 0 0 1 1 1 2 3 4 3 1 1 1 0 2 0 0");                    // y has 3 scalars for one block
    lines.push_back("mx_spmv 2 2 0 0 1 2 2 2 1 1 0 1 1 1 1 2 1 1 0 2 0 0");                 // hybrid conversion needs sorted rows
    lines.push_back("mx_residual 2 3 0 0 0 0 0 0 0");                                // unknown matrix kind
    lines.push_back("vt_transpose_blk 2 1 1 1 1 0 1/2 0 0 1");                       // Eigen (double) variant needs integers
    lines.push_back("vt_transpose_cx 1 2 1 2 1 0");                                  // column 2 in a 2-column matrix
    lines.push_back("vt_galerkin_cx 1 1 2 1 0 1 0 1 1 1 0 1 0");                     // A not square
    lines.push_back("vt_galerkin_blk 2 17 1 1 1 0 1 0 0 1 1 2 2 1 1 0 0 1 0 1 0 0 1");   // row-merge product needs sorted P rows
}

VH_MAIN(generate, execute)
