// Generators of the adapter harnesses (C13, C17).  Shared by h_adapters.cpp and h_adapters_solve.cpp.
#pragma once
#include "gen.hpp"
#include <complex>

// `std::vector<V>` is a builtin vector iff `V` is arithmetic (builtin.hpp:1009); the exact type Q plays the role of
// `double`, so it is declared one here (needed by scaled_problem, whose scale vector is a std::vector<scalar>).
namespace amgcl { namespace backend { template <> struct is_builtin_vector< std::vector<Q> > : std::true_type {}; } }

namespace vh {

// block-structured scalar matrix: nb x mb blocks of size b, a block is present with probability dens/100; inside a
// present block every entry is stored with probability fill/100 (at least one): fill < 100 gives structurally
// incomplete blocks.  Sorted rows, no duplicates.
inline Mat gen_block_structured(Rng &rng, long nb, long mb, long b, int dens, int fill, bool integer = false, bool diag = false) {
    std::vector<std::vector<std::pair<long,Q>>> rows(nb * b);
    for (long I = 0; I < nb; ++I) for (long J = 0; J < mb; ++J) {
        bool dg = diag && I == J;
        if (!dg && rng.range(0, 99) >= dens) continue;
        long forced = rng.range(0, b * b - 1);
        for (long p = 0; p < b; ++p) for (long q = 0; q < b; ++q) {
            bool on = rng.range(0, 99) < fill || p * b + q == forced || (dg && p == q);
            if (!on) continue;
            Q v = integer ? rng.integer(4) : rng.rat(6); if (v == 0) v = Q(1);
            if (dg && p == q) v = Q(rng.range(12, 20)) * Q(b);          // strictly diagonally dominant rows
            rows[I * b + p].push_back({ J * b + q, v });
        }
    }
    return from_rows(nb * b, mb * b, rows);
}

// Kronecker product A (x) D with a dense b x b matrix D
inline Mat kron(const Mat &A, const std::vector<std::vector<Q>> &D) {
    long b = (long)D.size();
    std::vector<std::vector<std::pair<long,Q>>> rows(A.n * b);
    for (long i = 0; i < A.n; ++i) for (long p = 0; p < b; ++p) for (auto j = A.ptr[i]; j < A.ptr[i+1]; ++j) for (long q = 0; q < b; ++q)
        rows[i * b + p].push_back({ (long)A.col[j] * b + q, A.val[j] * D[p][q] });
    return from_rows(A.n * b, A.m * b, rows);
}
// a well conditioned SPD b x b matrix (diagonally dominant, symmetric) with small rational entries
inline std::vector<std::vector<Q>> spd_block(Rng &rng, long b, bool identity_like = false) {
    std::vector<std::vector<Q>> D(b, std::vector<Q>(b, Q(0)));
    for (long p = 0; p < b; ++p) for (long q = 0; q < p; ++q) if (!identity_like) { Q v = Q::frac(rng.range(-2, 2), 2); D[p][q] = v; D[q][p] = v; }
    for (long p = 0; p < b; ++p) D[p][p] = Q(rng.range(3, 5)) * Q(b) / Q(2);
    return D;
}

inline std::vector<long> gen_perm(Rng &rng, long n) { std::vector<long> p(n); std::iota(p.begin(), p.end(), 0L); for (long k = n; k > 1; --k) std::swap(p[k-1], p[rng.next() % k]); return p; }

// strictly diagonally dominant, non-symmetric in general, full diagonal, sorted rows
inline Mat gen_diag_dominant(Rng &rng, long n, int dens) {
    Mat A = gen_sparse(rng, n, n, dens);
    auto rows = to_rows(A);
    for (long i = 0; i < n; ++i) {
        Q s(0); bool has = false; for (auto &cv : rows[i]) if (cv.first != i) s += abs(cv.second);
        for (auto &cv : rows[i]) if (cv.first == i) { cv.second = s + Q(rng.range(1, 3)); has = true; }
        if (!has) { rows[i].push_back({ i, s + Q(rng.range(1, 3)) }); std::sort(rows[i].begin(), rows[i].end(), [](const std::pair<long,Q> &a, const std::pair<long,Q> &b) { return a.first < b.first; }); }
    }
    return from_rows(n, n, rows);
}
// only the order of the entries inside each row changes (no duplicates introduced); `diag_first` lists the diagonal first
inline Mat shuffle_rows(Rng &rng, const Mat &A, int how) {
    auto rows = to_rows(A);
    if (how == 0) shuffle_rows_inplace(rng, rows);
    else if (how == 1) { for (long i = 0; i < A.n; ++i) for (size_t k = 0; k < rows[i].size(); ++k) if (rows[i][k].first == i) { std::rotate(rows[i].begin(), rows[i].begin() + k, rows[i].begin() + k + 1); break; } }
    else for (auto &r : rows) std::reverse(r.begin(), r.end());
    return from_rows(A.n, A.m, rows);
}

inline void put_cx(Line &l, const Q &re, const Q &im) { l << re; l << im; }

// family 13: the ops of property C13 (block adapter, hybrid backend, unblock, complex adapter);
// family 17: the ops of property C17 (every adapter incl. the block adapter, as_preconditioner / amg row order)
inline void gen_adapter_ops(Rng &rng, const Opts &o, std::vector<std::string> &lines, int family) {
    long N = o.cases > 0 ? o.cases : (o.thorough() ? 12000 : 1200);
    static const std::vector<int> fam13 = { 3, 4, 5, 6, 7, 3, 5, 7, 14 }, fam17 = { 0, 1, 2, 3, 8, 9, 10, 11, 12, 13, 0, 4 };
    const std::vector<int> &menu = family == 13 ? fam13 : fam17;
    static const std::vector<std::string> idx = { "int", "long", "unsigned", "size_t", "ptrdiff_t" };
    const std::vector<Q> coefs = { Q(0), Q(1), Q(-1), Q::frac(2, 3), Q(2) };
    auto coef = [&]() { return rng.coin(3, 4) ? rng.pick(coefs) : rng.rat(); };
    const long big = o.thorough() ? 24 : 12;
    for (long k = 0; k < N; ++k) {
        int which = menu[k % menu.size()];
        Line l;
        if (which == 0) {                                        // tuple of ranges, every index type, optional ptr base
            long n = rng.range(0, big); Mat A = gen_sparse(rng, n, n, (int)rng.range(0, 60)); if (rng.coin(1, 3)) A = unsort(rng, A, rng.coin());
            long base = rng.coin(1, 3) ? rng.range(1, 3) : 0;
            std::vector<long> ptr(A.ptr.begin(), A.ptr.end()), col; std::vector<Q> val;
            for (long j = 0; j < base; ++j) { col.push_back(rng.range(0, std::max<long>(0, n - 1))); val.push_back(rng.rat()); }
            for (auto &p : ptr) p += base;
            for (size_t j = 0; j < A.col.size(); ++j) { col.push_back(A.col[j]); val.push_back(A.val[j]); }
            if (rng.coin(1, 4)) { col.push_back(0); val.push_back(Q(7)); }      // trailing slack the adapter must ignore
            l << "ad_tuple" << idx[(k / menu.size()) % 5] << n << ptr << col << val << gen_vec(rng, n);
        } else if (which == 1) {
            long n = rng.range(0, big), m = rng.coin(1, 3) ? rng.range(0, big) : n;
            Mat A = gen_sparse(rng, n, m, (int)rng.range(0, 60)); if (rng.coin(1, 3)) A = unsort(rng, A, rng.coin());
            l << "ad_zero_copy" << (long)rng.range(0, 1) << A << gen_vec(rng, m);
        } else if (which == 2) {
            long n = rng.range(0, big); Mat A = gen_sparse(rng, n, n, (int)rng.range(0, 60)); if (rng.coin(1, 3)) A = unsort(rng, A, rng.coin());
            l << "ad_builder" << A << gen_vec(rng, n);
        } else if (which == 3 || which == 4 || which == 5) {     // block adapter / hybrid backend
            long b = rng.range(2, 4), nb = rng.range(0, o.thorough() ? 7 : 5), mb = rng.coin(1, 3) ? rng.range(0, 6) : nb;
            Mat A;
            int fam = (int)rng.range(0, 5);
            if (fam == 0) A = gen_block_structured(rng, nb, mb, b, (int)rng.range(10, 70), 100);                 // complete blocks
            else if (fam <= 2) A = gen_block_structured(rng, nb, mb, b, (int)rng.range(10, 70), (int)rng.range(0, 80));   // incomplete blocks
            else if (fam == 3) { Mat S = gen_spd(rng, std::max<long>(1, nb), -1); A = kron(S, spd_block(rng, b, rng.coin())); }
            else if (fam == 4) A = gen_sparse(rng, nb * b, mb * b, (int)rng.range(5, 40));                       // no block structure at all
            else { long n = nb * b + rng.range(0, b - 1), m = mb * b + rng.range(0, b - 1); A = gen_sparse(rng, n, m, 30); } // mostly indivisible
            if (rng.coin(1, 6)) A = unsort(rng, A, rng.coin());       // outside the adapter's domain (sorted rows): model correspondence only
            l << (which == 5 ? "ad_hybrid" : "ad_block") << b << A << coef() << gen_vec(rng, A.m) << coef() << gen_vec(rng, A.n);
        } else if (which == 14) {                                // block adapter at the Eigen block value type, integer data
            long b = rng.range(2, 4), nb = rng.range(0, 5), mb = rng.coin(1, 3) ? rng.range(0, 5) : nb;
            Mat A = rng.coin(1, 8) ? gen_sparse(rng, nb * b + rng.range(0, b - 1), mb * b, 30, true)
                                   : gen_block_structured(rng, nb, mb, b, (int)rng.range(10, 70), (int)rng.range(0, 100), true);
            if (rng.coin(1, 8)) A = unsort(rng, A, false);
            static const std::vector<Q> ic = { Q(0), Q(1), Q(-1), Q(2), Q(3) };
            l << "ad_block_eigen" << b << A << rng.pick(ic) << gen_vec(rng, A.m, true) << rng.pick(ic) << gen_vec(rng, A.n, true);
        } else if (which == 6) {                                 // unblock
            long b = rng.range(2, 4), nb = rng.range(0, 5), mb = rng.coin(1, 3) ? rng.range(0, 5) : nb;
            Mat S = gen_sparse(rng, nb, mb, (int)rng.range(10, 70)); if (rng.coin(1, 4)) S = unsort(rng, S, false);
            l << "ad_unblock" << b << S.n << S.m;
            for (long i = 0; i < S.n; ++i) { l << (long)(S.ptr[i+1] - S.ptr[i]); for (auto j = S.ptr[i]; j < S.ptr[i+1]; ++j) { l << (long)S.col[j]; for (long q = 0; q < b * b; ++q) l << (rng.coin(1, 3) ? Q(0) : rng.rat()); } }
        } else if (which == 7) {                                 // complex adapter
            long n = rng.range(0, big), m = rng.coin(1, 3) ? rng.range(0, big) : n;
            Mat S = gen_sparse(rng, n, m, (int)rng.range(5, 50)); if (rng.coin(1, 3)) S = unsort(rng, S, rng.coin());
            l << "ad_complex" << S.n << S.m;
            for (long i = 0; i < S.n; ++i) { l << (long)(S.ptr[i+1] - S.ptr[i]); for (auto j = S.ptr[i]; j < S.ptr[i+1]; ++j) { l << (long)S.col[j]; put_cx(l, S.val[j], rng.coin(1, 4) ? Q(0) : rng.rat()); } }
            l << m; for (long i = 0; i < m; ++i) put_cx(l, rng.rat(), rng.rat());
        } else if (which == 8) {                                 // reorder
            long n = rng.range(0, big); Mat A = gen_sparse(rng, n, n, (int)rng.range(5, 60)); if (rng.coin(1, 3)) A = unsort(rng, A, rng.coin());
            std::vector<long> perm = gen_perm(rng, n);
            l << "ad_reorder" << A << perm << gen_vec(rng, n) << gen_vec(rng, n) << gen_vec(rng, n);
        } else if (which == 9) {                                 // scaled problem
            long n = rng.range(0, big); Mat A = gen_sparse(rng, n, n, (int)rng.range(5, 60)); if (rng.coin(1, 3)) A = unsort(rng, A, rng.coin());
            if (rng.coin(1, 3)) l << "ad_scale_diag" << A;
            else { std::vector<Q> s(n); for (auto &v : s) v = rng.coin(1, 10) ? Q(0) : rng.rat_nz(); l << "ad_scaled" << A << s << gen_vec(rng, n); }
        } else if (which == 10) {                                // Eigen / uBlas on integers
            long n = rng.range(0, big);
            if (rng.coin()) { long m = rng.coin(1, 3) ? rng.range(0, big) : n; Mat A = gen_sparse(rng, n, m, (int)rng.range(5, 60), true); if (rng.coin(1, 3)) A = unsort(rng, A, false); l << "ad_eigen" << A << gen_vec(rng, m, true); }
            else { Mat A = gen_sparse(rng, n, n, (int)rng.range(5, 60), true); l << "ad_ublas" << A << gen_vec(rng, n, true); }
        } else if (which == 11 || which == 12) {                 // as_preconditioner<ilu0> on user matrices with arbitrary row order
            long n = rng.range(1, o.thorough() ? 14 : 9);
            Mat A = rng.coin() ? gen_diag_dominant(rng, n, (int)rng.range(20, 70)) : gen_spd(rng, n, -1);
            long kind = which == 12 && rng.coin(1, 3) ? 1 : 0;
            if (rng.coin(5, 6)) A = shuffle_rows(rng, A, (int)rng.range(0, 2));
            long m = rng.range(1, 2);
            l << "ad_asprec" << kind << A << m; for (long q = 0; q < m; ++q) l << gen_vec(rng, A.n);
        } else {                                                 // amg sorts the rows of a user matrix on entry
            long n = rng.range(1, o.thorough() ? 14 : 9);
            Mat A = rng.coin(1, 3) ? gen_diag_dominant(rng, n, (int)rng.range(20, 70)) : gen_spd(rng, n, -1);
            if (rng.coin(5, 6)) A = shuffle_rows(rng, A, (int)rng.range(0, 2));
            l << "ad_amg_sort" << A;
        }
        lines.push_back(l.get());
    }
    // malformed stream: both sides must answer bad-input
    lines.push_back("ad_block 5 0 0 1 0 1 0");                                  // block size out of range
    lines.push_back("ad_block 2 2 2 1 0 1 1 3 1 1 2 1 1 1 2 1 1");              // column 3 in a 2-column matrix
    lines.push_back("ad_unblock 2 1 1 1 0 1 2 3");                              // truncated block
    if (family == 13) {
        lines.push_back("ad_complex 1 2 1 0 1 1 2 1 0 0 0");                    // not square
        lines.push_back("ad_hybrid 3 3 3 0 0 0 1 2 1 1 0 3 0 0 0");             // x too short
        lines.push_back("ad_block_eigen 2 2 2 1 0 1/2 1 1 1 1 2 1 1 0 2 0 0");  // non-integer entry
    } else {
        lines.push_back("ad_tuple int 2 3 0 1 2 2 0 5 2 1 1 2 1 1");            // column 5 in a 2 x 2 matrix
        lines.push_back("ad_tuple short 1 2 0 1 1 0 1 1 1 1");                  // unknown index type
        lines.push_back("ad_tuple long 2 3 0 2 1 2 0 1 2 1 1 2 1 1");           // ptr not monotone
        lines.push_back("ad_reorder 2 2 1 0 1 1 1 1 2 0 2 2 1 1 2 1 1 2 0 0");  // perm entry out of range
        lines.push_back("ad_reorder 2 2 1 0 1 1 1 1 2 1 1 2 1 1 2 1 1 2 0 0");  // not a permutation
        lines.push_back("ad_scaled 2 2 1 0 1 1 1 1 1 1 2 1 1");                 // scale vector too short
        lines.push_back("ad_asprec 0 2 2 1 1 1 1 1 1 1 2 1 1");                 // row 0 has no diagonal entry
        lines.push_back("ad_ublas 2 2 2 1 1 0 1 0 2 1 1");                      // unsorted row cannot be a uBlas compressed matrix
    }
}

} // namespace vh
