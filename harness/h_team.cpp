// C09 harness (implementation only, "no_model"): the OpenMP TEAM the library actually gets is not always the team it
// asked for.  omp_get_max_threads() / omp_set_num_threads(nt) promise at most nt threads; the run time may deliver
// fewer (OMP_DYNAMIC, thread limits, a call from inside the application's own parallel region where nested
// parallelism is off).  Every kernel that partitions work by hand (per-thread chunks, per-thread partial sums, level
// schedules built for `nthreads` threads) must still produce the same answer.  All computations at the exact type Q:
// the reference is the single-threaded result, the comparison is equality.
//
// Ops:  team <mode> <nt> <kind> A x y
//   mode 0  the requested team (dynamic adjustment off): sanity, must equal the serial result as well
//   mode 1  omp_set_dynamic(1) and nt threads requested (with nt above the core count the team is smaller)
//   mode 2  the kernel is called by BOTH threads of an application-level `#pragma omp parallel num_threads(2)` region on
//           private data (nested parallelism disabled: the inner team has ONE thread although max_threads says nt)
//   mode 3  as mode 2 with one level of nested parallelism enabled (inner teams of nt threads)
//   mode 4  objects (relaxation, preconditioner, solver) BUILT with nt threads, then omp_set_num_threads(max(1, nt/2))
//           before they are applied: the team is smaller than the one the schedule was built for
//   mode 5  built with nt threads, applied after omp_set_num_threads(min(64, 2 nt)): the team is larger (kinds 0-9
//           have no object that outlives a call: for them modes 4, 5 are mode 0 with the other thread count)
//   kind    0 inner_product  1 spmv  2 residual  3 axpby  4 axpbypcz  5 vmul  6 gershgorin  7 scaled gershgorin
//           8 product A*A  9 transpose  10 gauss_seidel pre+post sweep  11 ilu0 apply  12 amg(smoothed_aggregation,
//           spai0) + cg solve  13 amg(ruge_stuben, gauss_seidel) apply
// Result line: "same" | "differs" (+ oracle text).
#include "gen.hpp"
#include <amgcl/backend/builtin.hpp>
#include <amgcl/amg.hpp>
#include <amgcl/make_solver.hpp>
#include <amgcl/solver/cg.hpp>
#include <amgcl/coarsening/smoothed_aggregation.hpp>
#include <amgcl/coarsening/ruge_stuben.hpp>
#include <amgcl/relaxation/spai0.hpp>
#include <amgcl/relaxation/gauss_seidel.hpp>
#include <amgcl/relaxation/ilu0.hpp>
#include <omp.h>
using namespace vh;

typedef amgcl::backend::builtin<Q> Backend;
typedef amgcl::backend::numa_vector<Q> Vec;
typedef std::vector<Q> VQ;

struct In { Mat A; VQ x, y; };

// canonical result of one kernel: a flat list of rationals (matrices as sorted triples)
static void put_crs(VQ &o, const Crs &C) {
    o.push_back(Q((long)C.nrows)); o.push_back(Q((long)C.ncols));
    for (size_t i = 0; i < C.nrows; ++i) {
        std::vector<std::pair<long, Q>> row;
        for (auto j = C.ptr[i]; j < C.ptr[i+1]; ++j) row.push_back({(long)C.col[j], C.val[j]});
        std::sort(row.begin(), row.end(), [](const std::pair<long,Q> &a, const std::pair<long,Q> &b) { return a.first < b.first; });
        o.push_back(Q((long)row.size())); for (auto &cv : row) { o.push_back(Q(cv.first)); o.push_back(cv.second); }
    }
}
static int g_apply_threads = 0;      // modes 4, 5: thread count requested between construction and application (0 = unchanged)
static void between() { if (g_apply_threads > 0) omp_set_num_threads(g_apply_threads); }
static VQ run_kernel(long kind, const In &in) {
    VQ o; const long n = in.A.n;
    if (kind < 10) between();
    auto A = in.A.crs();
    Vec x(in.x), y(in.y);
    switch (kind) {
    case 0: o.push_back(amgcl::backend::inner_product(x, y)); break;
    case 1: amgcl::backend::spmv(Q(2), *A, x, Q(3), y); o.assign(y.data(), y.data() + n); break;
    case 2: { Vec r(n); amgcl::backend::residual(y, *A, x, r); o.assign(r.data(), r.data() + n); } break;
    case 3: amgcl::backend::axpby(Q(2), x, Q(-3), y); o.assign(y.data(), y.data() + n); break;
    case 4: { Vec z(in.x); amgcl::backend::axpbypcz(Q(2), x, Q(-3), y, Q(5), z); o.assign(z.data(), z.data() + n); } break;
    case 5: { Vec z(in.y); amgcl::backend::vmul(Q(2), x, y, Q(7), z); o.assign(z.data(), z.data() + n); } break;
    case 6: o.push_back(amgcl::backend::spectral_radius<false>(*A, 0)); break;
    case 7: o.push_back(amgcl::backend::spectral_radius<true>(*A, 0)); break;
    case 8: { auto C = amgcl::backend::product(*A, *A); put_crs(o, *C); } break;
    case 9: { auto T = amgcl::backend::transpose(*A); put_crs(o, *T); } break;
    case 10: { amgcl::relaxation::gauss_seidel<Backend> gs(*A, amgcl::relaxation::gauss_seidel<Backend>::params(), Backend::params());
               between(); Vec t(n); gs.apply_pre(*A, y, x, t); gs.apply_post(*A, y, x, t); o.assign(x.data(), x.data() + n); } break;
    case 11: { amgcl::relaxation::ilu0<Backend> R(*A, amgcl::relaxation::ilu0<Backend>::params(), Backend::params());
               between(); Vec z(n); R.apply(*A, y, z); o.assign(z.data(), z.data() + n); } break;
    case 12: { typedef amgcl::make_solver<amgcl::amg<Backend, amgcl::coarsening::smoothed_aggregation, amgcl::relaxation::spai0>, amgcl::solver::cg<Backend>> S;
               S::params p; p.precond.coarse_enough = 2; p.solver.maxiter = 3; p.solver.tol = 0;
               S s(*A, p); between(); Vec z(n); for (long i = 0; i < n; ++i) z[i] = Q(0);
               size_t it; Q res; std::tie(it, res) = s(y, z); o.push_back(Q((long)it)); o.push_back(res); o.insert(o.end(), z.data(), z.data() + n); } break;
    case 13: { typedef amgcl::amg<Backend, amgcl::coarsening::ruge_stuben, amgcl::relaxation::gauss_seidel> P;
               P::params p; p.coarse_enough = 2;
               P pr(*A, p); between(); Vec z(n); pr.apply(y, z); o.assign(z.data(), z.data() + n); } break;
    default: throw bad_input("kind");
    }
    return o;
}
static bool eq(const VQ &a, const VQ &b) { if (a.size() != b.size()) return false; for (size_t i = 0; i < a.size(); ++i) if (!(a[i].v == b[i].v)) return false; return true; }

struct Outcome { bool thrown = false; VQ v; };
static Outcome guarded(long kind, const In &in) {
    Outcome o; try { o.v = run_kernel(kind, in); } catch (const std::exception &) { o.thrown = true; } return o;
}
static bool same(const Outcome &a, const Outcome &b) { return a.thrown == b.thrown && (a.thrown || eq(a.v, b.v)); }

static Result execute(const Toks &t) {
    Cur c(t); if (t[0] != "team") return Result("bad-op");
    long mode = c.nat(), nt = c.nat(), kind = c.nat();
    In in; in.A = c.mat(); in.x = c.vec(); in.y = c.vec(); c.expect_end();
    std::string why; if (!crs_wf(*in.A.crs(), why) || in.A.n != in.A.m || (long)in.x.size() != in.A.n || (long)in.y.size() != in.A.n) throw bad_input("shape");
    if (mode < 0 || mode > 5 || nt < 1 || nt > 64 || kind < 0 || kind > 13) throw bad_input("enum");
    Result r;
    omp_set_dynamic(0); omp_set_max_active_levels(1); omp_set_num_threads(1);
    g_apply_threads = 0;
    Outcome ref = guarded(kind, in);
    Outcome got[2]; int ncalls = 1;
    if (mode == 4 || mode == 5) {
        omp_set_num_threads((int)nt);
        g_apply_threads = mode == 4 ? (int)std::max(1L, nt / 2) : (int)std::min(64L, 2 * nt);
        got[0] = guarded(kind, in);
        g_apply_threads = 0;
    } else if (mode == 0 || mode == 1) {
        omp_set_dynamic(mode == 1); omp_set_num_threads((int)nt);
        got[0] = guarded(kind, in);
    } else {
        omp_set_dynamic(0); omp_set_max_active_levels(mode == 3 ? 2 : 1); omp_set_num_threads((int)nt);
        ncalls = 2;
#pragma omp parallel num_threads(2)
        {
            int me = omp_get_thread_num();
            if (me < 2) { omp_set_num_threads((int)nt); got[me] = guarded(kind, in); }
        }
        if (omp_get_max_threads() < 1) ncalls = 1;
    }
    omp_set_dynamic(0); omp_set_max_active_levels(1); omp_set_num_threads(1);
    bool ok = true;
    for (int k = 0; k < ncalls; ++k) if (!same(ref, got[k])) ok = false;
    static const char *mn[] = { "requested team", "dynamic team (omp_set_dynamic)", "called from an application parallel region (inner team of one thread)", "called from an application parallel region, nested parallelism on",
                                "built with nt threads, applied with nt/2", "built with nt threads, applied with 2 nt" };
    if (!ok) r.fail(std::string("kernel ") + std::to_string(kind) + " with " + std::to_string(nt) + " threads, " + mn[mode] + ": result differs from the single-threaded result (exact arithmetic)");
    r.out = ok ? "same" : "differs";
    r.nontrivial = in.A.n > 1 && nt > 1 && !ref.thrown;
    r.tag("mode" + std::to_string(mode)).tag("kind" + std::to_string(kind)).tag(ref.thrown ? "throws" : "ok");
    return r;
}

static void generate(Rng &rng, const Opts &o, std::vector<std::string> &lines) {
    long N = o.cases > 0 ? o.cases : (o.thorough() ? 1200 : 150);
    static const std::vector<long> nts = { 2, 3, 4, 5, 8, 16, 17, 24, 32, 48 };
    for (long k = 0; k < N; ++k) {
        long kind = k % 14;
        long n = (kind >= 12) ? rng.range(6, 16) : rng.range(1, o.thorough() ? 120 : 70);
        Mat A = (kind == 12) ? gen_spd(rng, n, (int)rng.range(0, 2), 3) : rng.coin(1, 4) ? gen_convdiff(rng, n) : gen_spd(rng, n, (int)rng.range(0, 3), 3);
        Line l; l << "team" << rng.range(0, 5) << rng.pick(nts) << kind << A << gen_vec(rng, A.n, true) << gen_vec(rng, A.n, true);
        lines.push_back(l.get());
    }
    lines.push_back("team 9 2 0 1 1 1 0 1 1 1 1 1");      // unknown mode
}

VH_MAIN(generate, execute)
