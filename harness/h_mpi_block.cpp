// C11 harness, block value types: amgcl::mpi::distributed_matrix<builtin<static_matrix<T, N, N>>> / comm_pattern /
// mpi::inner_product (vectors of static_matrix<T, N, 1>) under real MPI, for
//   (N, T) = (2, double), (3, double), (2, std::complex<double>)
// on EXACT-IN-BINARY64 data (small integers).  Implementation-side oracles only ("no_model" in tools/checks/C11.json):
// the gathered result equals the SERIAL amgcl kernel at the same block type on the assembled data AND a dense
// recomputation over exact (Gaussian) rationals on the matrix expanded to scalars -- the latter does not use amgcl's
// block arithmetic at all.  Blocks are full, non-symmetric and do not commute, so an operand swap, a missing adjoint
// or a transposed block shows up.  Ops: `bdist_<op> N cx ...` with <op> and the line format of mpi_vt.hpp (sizes and
// partitions in block units, a block as its N*N scalars in row-major order, a complex scalar as `re im`).
#include "mpi_vt.hpp"

typedef amgcl::static_matrix<double, 2, 2> B2;
typedef amgcl::static_matrix<double, 3, 3> B3;
typedef amgcl::static_matrix<Cd, 2, 2>     C2;

static Result execute(const Toks &t) {
    Cur c(t); const std::string &op = t[0];
    if (op.compare(0, 6, "bdist_") != 0) return Result("bad-op");
    long n = c.nat(), cx = c.nat(); std::string o = op.substr(6);
    if (n == 2 && cx == 0) return VtExec<B2>::run(o, c);
    if (n == 3 && cx == 0) return VtExec<B3>::run(o, c);
    if (n == 2 && cx == 1) return VtExec<C2>::run(o, c);
    throw bad_input("block type");
}

static void generate(Rng &rng, const Opts &o, std::vector<std::string> &lines) {
    const int W = std::min(g_wsize, MAXNP);
    long N = o.cases > 0 ? o.cases : (o.thorough() ? 2000 : 220);
    long nmax = o.thorough() ? 3 : 2, hi = o.thorough() ? 16 : 8;
    VtGen<B2>::generate(rng, "bdist_", "2 0", W, nmax, N, hi, lines);
    VtGen<C2>::generate(rng, "bdist_", "2 1", W, nmax, N, hi, lines);
    VtGen<B3>::generate(rng, "bdist_", "3 0", W, o.thorough() ? 2 : 1, N / 2, hi - 2, lines);
    // malformed stream
    lines.push_back("bdist_ip 4 0 1 1 1 1 1 1 1 1 1 1 1 1");                              // unsupported block size
    lines.push_back("bdist_ip 2 0 2 1 1 2 1 1 1 1 2 1 1 1");                              // second vector too short
    lines.push_back("bdist_ip 2 0 2 1 1 2 1 1 1 1/3 2 1 1 1 1");                          // component not exact in binary64
    lines.push_back("bdist_split 2 0 1 1 1 1 1 1 1 1 1 0 0 1");                           // column 1 in a 1-column matrix
    lines.push_back("bdist_gersh 2 0 0 1 1 1 1 1 1 0 1 1 1 0");                           // Frobenius norm sqrt(3) is irrational
}

VH_MPI_MAIN(generate, execute)
