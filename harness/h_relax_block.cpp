// C06 harness, block-valued part (implementation-only oracles; the Lean models are scalar).
//   rb_exact  <kind ilu0|iluk|ilup> b A f     block tridiagonal A with b x b blocks (given as a SCALAR matrix of size nb*b):
//                                           the incomplete factorisation is complete there, so apply(f) = x with A x = f exactly
//   rb_fixed  <kind jacobi|gs|spai0|ilu0> b A x   the exact solution is a fixed point of a pre- and of a post-sweep (f := A x)
// Blocks are general (non-commuting), so the ORDER of block products in the factorisation matters.
#include "gen.hpp"
#include <amgcl/value_type/static_matrix.hpp>
#include <amgcl/backend/builtin.hpp>
#include <amgcl/adapter/block_matrix.hpp>
#include <amgcl/relaxation/damped_jacobi.hpp>
#include <amgcl/relaxation/gauss_seidel.hpp>
#include <amgcl/relaxation/spai0.hpp>
#include <amgcl/relaxation/ilu0.hpp>
#include <amgcl/relaxation/iluk.hpp>
#include <amgcl/relaxation/ilup.hpp>
using namespace vh;

template <int B> struct Blk {
    typedef amgcl::static_matrix<Q, B, B> val; typedef amgcl::static_matrix<Q, B, 1> rhs;
    typedef amgcl::backend::builtin<val> Backend; typedef amgcl::backend::crs<val> Matrix; typedef amgcl::backend::numa_vector<rhs> Vector;

    static std::shared_ptr<Matrix> to_block(const Mat &A) {
        auto As = A.crs();
        return std::make_shared<Matrix>(amgcl::adapter::block_matrix<val>(*As));
    }
    static void fill(Vector &v, const std::vector<Q> &x) { for (size_t i = 0; i < v.size(); ++i) for (int k = 0; k < B; ++k) v[i](k) = x[i * B + k]; }
    static std::vector<Q> flat(const Vector &v) { std::vector<Q> x(v.size() * B); for (size_t i = 0; i < v.size(); ++i) for (int k = 0; k < B; ++k) x[i * B + k] = v[i](k); return x; }

    template <class R> static void set_serial(typename R::params &p, long k, int) { (void)p; (void)k; }
    static void prm(typename amgcl::relaxation::ilu0<Backend>::params &p, long) { p.solve.serial = true; }
    static void prm(typename amgcl::relaxation::iluk<Backend>::params &p, long k) { p.solve.serial = true; p.k = (int)k; }
    static void prm(typename amgcl::relaxation::ilup<Backend>::params &p, long k) { p.solve.serial = true; p.k = (int)k; }
    static void prm(typename amgcl::relaxation::damped_jacobi<Backend>::params &, long) {}
    static void prm(typename amgcl::relaxation::spai0<Backend>::params &, long) {}
    static void prm(typename amgcl::relaxation::gauss_seidel<Backend>::params &p, long) { p.serial = true; }

    template <template <class> class R>
    static Result exact(const Mat &A, const std::vector<Q> &f, long k) {
        Result r; auto Ab = to_block(A); long nb = Ab->nrows;
        typename R<Backend>::params p; prm(p, k);
        R<Backend> relax(*Ab, p, typename Backend::params());
        Vector F(nb), X(nb); fill(F, f); for (long i = 0; i < nb; ++i) for (int q = 0; q < B; ++q) X[i](q) = Q::poisoned();
        relax.apply(*Ab, F, X);
        std::vector<Q> x = flat(X), ax = dmv(dense(A), x);
        for (size_t i = 0; i < f.size(); ++i) if (x[i].poison || ax[i].v != f[i].v) { r.fail("block-valued incomplete LU on a block tridiagonal matrix is not the exact inverse: A*apply(f) != f"); break; }
        r.out = (Line() << x).get(); r.nontrivial = nb > 1; return r;
    }
    template <template <class> class R>
    static Result fixed(const Mat &A, const std::vector<Q> &x, long k) {
        Result r; auto Ab = to_block(A); long nb = Ab->nrows;
        typename R<Backend>::params p; prm(p, k);
        R<Backend> relax(*Ab, p, typename Backend::params());
        std::vector<Q> f = dmv(dense(A), x);
        Vector F(nb), X(nb), T(nb); fill(F, f);
        for (int pass = 0; pass < 2; ++pass) {
            fill(X, x); for (long i = 0; i < nb; ++i) for (int q = 0; q < B; ++q) T[i](q) = Q::poisoned();
            if (pass == 0) relax.apply_pre(*Ab, F, X, T); else relax.apply_post(*Ab, F, X, T);
            std::vector<Q> y = flat(X);
            for (size_t i = 0; i < x.size(); ++i) if (y[i].poison || y[i].v != x[i].v) { r.fail(std::string("block-valued sweep moves the exact solution (") + (pass ? "post" : "pre") + ")"); break; }
        }
        r.out = "fixed"; r.nontrivial = nb > 1; return r;
    }
    static Result run(const std::string &op, const std::string &kind, long k, const Mat &A, const std::vector<Q> &v) {
        namespace rx = amgcl::relaxation;
        if (op == "rb_exact") {
            if (kind == "ilu0") return exact<rx::ilu0>(A, v, 0);
            if (kind == "iluk") return exact<rx::iluk>(A, v, k);
            if (kind == "ilup") return exact<rx::ilup>(A, v, k);
        } else {
            if (kind == "jacobi") return fixed<rx::damped_jacobi>(A, v, 0);
            if (kind == "gs") return fixed<rx::gauss_seidel>(A, v, 0);
            if (kind == "spai0") return fixed<rx::spai0>(A, v, 0);
            if (kind == "ilu0") return fixed<rx::ilu0>(A, v, 0);
        }
        throw bad_input("kind");
    }
};

static Result execute(const Toks &t) {
    Cur c(t); const std::string &op = t[0]; if (op != "rb_exact" && op != "rb_fixed") return Result("bad-op");
    std::string kind = c.tok(); long k = c.nat(); long b = c.nat(); Mat A = c.mat(); auto v = c.vec(); c.expect_end();
    std::string why; if (!crs_wf(*A.crs(), why) || A.n != A.m || A.n % b || (long)v.size() != A.n || !crs_sorted_nodup(*A.crs())) throw bad_input("shape");
    Result r = b == 2 ? Blk<2>::run(op, kind, k, A, v) : b == 3 ? Blk<3>::run(op, kind, k, A, v) : throw bad_input("b");
    r.tag(op + "_" + kind); r.tag("b" + std::to_string(b));
    return r;
}

// block tridiagonal, full b x b blocks, strongly block-diagonally dominant, general (non-commuting) blocks
static Mat gen_block_tridiag(Rng &rng, long nb, long b) {
    long n = nb * b; std::vector<std::vector<std::pair<long,Q>>> rows(n);
    for (long I = 0; I < nb; ++I) for (long J = std::max<long>(0, I - 1); J <= std::min(nb - 1, I + 1); ++J)
        for (long p = 0; p < b; ++p) for (long q = 0; q < b; ++q) {
            Q v = rng.integer(2); if (I == J && p == q) v = Q(rng.range(9, 14)); else if (I == J) v = Q(rng.range(-2, 2));
            rows[I * b + p].push_back({J * b + q, v});
        }
    return from_rows(n, n, rows);
}

static void generate(Rng &rng, const Opts &o, std::vector<std::string> &lines) {
    long N = o.cases > 0 ? o.cases : (o.thorough() ? 600 : 60);
    static const std::vector<std::string> ek = { "ilu0", "iluk", "ilup" }, fk = { "jacobi", "gs", "spai0", "ilu0" };
    for (long k = 0; k < N; ++k) {
        long b = rng.range(2, 3), nb = rng.range(1, b == 2 ? 5 : 3); Mat A = gen_block_tridiag(rng, nb, b);
        if (rng.coin()) { std::string kind = rng.pick(ek); lines.push_back((Line() << "rb_exact" << kind << (kind == "ilu0" ? 0L : rng.range(0, 2)) << b << A << gen_vec(rng, A.n, true)).get()); }
        else lines.push_back((Line() << "rb_fixed" << rng.pick(fk) << 0L << b << A << gen_vec(rng, A.n)).get());
    }
    lines.push_back("rb_exact ilu0 0 2 3 3 1 0 1 1 1 1 1 2 1 3 1 1 1");      // size not divisible by the block size
}

VH_MAIN(generate, execute)
