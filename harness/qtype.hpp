// Exact rational value type `Q` for instantiating amgcl's templates (DESIGN.md §1, §2.3).
// Include BEFORE any amgcl header.
//  * arithmetic is exact (GMP mpq), division is total: a/0 := 0 (same convention as the Lean model)
//  * sqrt is the deterministic rational function rsqrt(q) = floor(sqrt(q*4^32))/2^32 (Lean: Amgcl.rsqrt)
//  * an optional sticky `poison` flag (absorbing under + - * /) models "NaN/Inf in an output that must be overwritten"
#pragma once
#include <gmpxx.h>
#include <iostream>
#include <sstream>
#include <limits>
#include <cmath>
#include <random>
#include <string>
#include <type_traits>
namespace vq { struct Q; }
namespace std {
template<> struct numeric_limits<vq::Q> {
    static constexpr bool is_specialized = true;
    static constexpr bool is_integer = false;
    static constexpr bool is_signed = true;
    static vq::Q epsilon();
    static vq::Q min();
    static vq::Q max();
};
}
namespace vq {
struct Q {
    mpq_class v;
    bool poison;
    Q() : v(0), poison(false) {}
    Q(int x) : v(x), poison(false) {}
    Q(long x) : v(x), poison(false) {}
    Q(long long x) : v((long)x), poison(false) {}
    Q(unsigned x) : v(x), poison(false) {}
    Q(unsigned long x) : v(x), poison(false) {}
    Q(unsigned long long x) : v((unsigned long)x), poison(false) {}
    Q(double x) : v(x), poison(false) {}
    Q(float x) : v((double)x), poison(false) {}
    Q(bool x) : v(x ? 1 : 0), poison(false) {}
    struct raw{};
    Q(const mpq_class &r, raw, bool p = false) : v(r), poison(p) {}
    static Q frac(long p, long q) { mpq_class r(p, q); r.canonicalize(); return Q(r, raw()); }
    static Q poisoned() { Q q; q.poison = true; return q; }
    static Q parse(const std::string &s) { mpq_class r(s); r.canonicalize(); return Q(r, raw()); }
    Q& operator+=(const Q&o){v+=o.v; poison |= o.poison; return *this;}
    Q& operator-=(const Q&o){v-=o.v; poison |= o.poison; return *this;}
    Q& operator*=(const Q&o){v*=o.v; poison |= o.poison; return *this;}
    Q& operator/=(const Q&o){ if (o.v == 0) v = 0; else v/=o.v; poison |= o.poison; return *this;}
    Q operator-() const { return Q(mpq_class(-v), raw(), poison); }
    Q operator+() const { return *this; }
    explicit operator double() const { return v.get_d(); }
    explicit operator float() const { return (float)v.get_d(); }
    // truncating integer conversions (additive, C06): ilut.hpp does static_cast<size_t>/<int>(len * prm.p) with scalar_type p
    explicit operator unsigned long() const { mpz_class t; mpz_tdiv_q(t.get_mpz_t(), v.get_num_mpz_t(), v.get_den_mpz_t()); return t.get_ui(); }
    explicit operator int() const { mpz_class t; mpz_tdiv_q(t.get_mpz_t(), v.get_num_mpz_t(), v.get_den_mpz_t()); return (int)t.get_si(); }
    std::string str() const { return poison ? std::string("POISON") : v.get_str(); }
};
#define VQ_OP(op) \
inline Q operator op(const Q&a,const Q&b){ Q r(a); r op##= b; return r; } \
template<class T, class=typename std::enable_if<std::is_arithmetic<T>::value>::type> inline Q operator op(const Q&a,T b){return a op Q(b);} \
template<class T, class=typename std::enable_if<std::is_arithmetic<T>::value>::type> inline Q operator op(T a,const Q&b){return Q(a) op b;}
VQ_OP(+) VQ_OP(-) VQ_OP(*) VQ_OP(/)
#undef VQ_OP
#define VQ_CMP(op) \
inline bool operator op(const Q&a,const Q&b){return a.v op b.v;} \
template<class T, class=typename std::enable_if<std::is_arithmetic<T>::value>::type> inline bool operator op(const Q&a,T b){return a op Q(b);} \
template<class T, class=typename std::enable_if<std::is_arithmetic<T>::value>::type> inline bool operator op(T a,const Q&b){return Q(a) op b;}
VQ_CMP(<) VQ_CMP(>) VQ_CMP(<=) VQ_CMP(>=)
#undef VQ_CMP
// a poisoned value is never "equal to zero": is_zero(poison) must be false
inline bool operator==(const Q&a,const Q&b){return !a.poison && !b.poison && a.v == b.v;}
inline bool operator!=(const Q&a,const Q&b){return !(a == b);}
template<class T, class=typename std::enable_if<std::is_arithmetic<T>::value>::type> inline bool operator==(const Q&a,T b){return a == Q(b);}
template<class T, class=typename std::enable_if<std::is_arithmetic<T>::value>::type> inline bool operator==(T a,const Q&b){return Q(a) == b;}
template<class T, class=typename std::enable_if<std::is_arithmetic<T>::value>::type> inline bool operator!=(const Q&a,T b){return a != Q(b);}
template<class T, class=typename std::enable_if<std::is_arithmetic<T>::value>::type> inline bool operator!=(T a,const Q&b){return Q(a) != b;}
inline Q abs(const Q&a){ return a.v < 0 ? -a : a; }
inline Q fabs(const Q&a){ return abs(a); }
// rsqrt(q) = floor(sqrt(q * 4^32)) / 2^32 for q > 0, else 0
inline Q sqrt(const Q&a){
    if (a.v <= 0) return Q(mpq_class(0), Q::raw(), a.poison);
    const unsigned K = 32;
    mpz_class num = a.v.get_num(), den = a.v.get_den();
    mpz_class t = (num << (2*K)) / den;
    mpz_class s; mpz_sqrt(s.get_mpz_t(), t.get_mpz_t());
    mpq_class r(s, mpz_class(1) << K); r.canonicalize();
    return Q(r, Q::raw(), a.poison);
}
inline std::ostream& operator<<(std::ostream&os,const Q&a){return os<<a.str();}
inline std::istream& operator>>(std::istream&is,Q&a){std::string s; is>>s; a=Q::parse(s); return is;}
inline bool isnan(const Q&a){ return a.poison; }
inline bool isfinite(const Q&a){ return !a.poison; }
}
namespace std {
inline vq::Q numeric_limits<vq::Q>::epsilon() { return vq::Q::frac(1, 1L<<52); }
inline vq::Q numeric_limits<vq::Q>::min() { return vq::Q(0); }
inline vq::Q numeric_limits<vq::Q>::max() { return vq::Q(1e300); }
template<> class uniform_real_distribution<vq::Q> {
    uniform_real_distribution<double> d;
  public:
    typedef vq::Q result_type;
    uniform_real_distribution(vq::Q a, vq::Q b) : d(double(a), double(b)) {}
    template<class G> vq::Q operator()(G &g) { return vq::Q(d(g)); }
};
inline vq::Q abs(const vq::Q&a){return vq::abs(a);}
inline vq::Q fabs(const vq::Q&a){return vq::abs(a);}
inline vq::Q real(const vq::Q&a){return a;}
inline vq::Q sqrt(const vq::Q&a){return vq::sqrt(a);}
inline bool isnan(const vq::Q&a){return a.poison;}
inline bool isfinite(const vq::Q&a){return !a.poison;}
}
using vq::Q;
