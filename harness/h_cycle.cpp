// C02 harness: the multigrid cycle as an operator, at the exact rational type Q.
// Ops (header exactly as amg_build, see h_amg.cpp):
//   amg_apply <hdr> rk <relax params> npre npost ncycle pre_cycles 4 f g f h     with h = a f + b g (a,b appended)
//   amg_bmat  <hdr> rk <relax params> npre npost ncycle pre_cycles               (B extracted column by column;
//             implementation-side oracles: B(4 A) = B(A)/4 exactly; symmetric configurations: B = B^T, B SPD, A - E^T A E SPD)
// rk: 0 damped_jacobi(damping) | 1 gauss_seidel | 2 spai0 | 3 ilu0(damping) | 4 chebyshev(degree higher lower scale)
#define VH_NO_MAIN
#include "h_amg.cpp"
#include <amgcl/relaxation/gauss_seidel.hpp>
#include <amgcl/relaxation/spai0.hpp>
#include <amgcl/relaxation/ilu0.hpp>
#include <amgcl/relaxation/chebyshev.hpp>

struct RelaxPrm { long rk; Q damping; long degree; Q higher, lower; long scale; };
struct Tail { long npre, npost, ncycle, pre_cycles; };

template <class P> static void set_relax(P &p, const RelaxPrm &r);
template <> void set_relax(amgcl::relaxation::damped_jacobi<Backend>::params &p, const RelaxPrm &r) { p.damping = r.damping; }
template <> void set_relax(amgcl::relaxation::gauss_seidel<Backend>::params &p, const RelaxPrm &) { p.serial = true; }
template <> void set_relax(amgcl::relaxation::spai0<Backend>::params &, const RelaxPrm &) {}
template <> void set_relax(amgcl::relaxation::ilu0<Backend>::params &p, const RelaxPrm &r) { p.damping = r.damping; p.solve.serial = true; }
template <> void set_relax(amgcl::relaxation::chebyshev<Backend>::params &p, const RelaxPrm &r) { p.degree = (unsigned)r.degree; p.higher = (float)double(r.higher); p.lower = (float)double(r.lower); p.power_iters = 0; p.scale = r.scale != 0; }

// exact LDL^T test of positive definiteness of a symmetric rational matrix
static bool is_spd(Dense M) {
    size_t n = M.size();
    for (size_t k = 0; k < n; ++k) {
        if (!(M[k][k] > 0)) return false;
        for (size_t i = k + 1; i < n; ++i) { Q f = M[i][k] / M[k][k]; for (size_t j = k; j < n; ++j) M[i][j] -= f * M[k][j]; }
    }
    return true;
}
static bool is_sym(const Dense &M) { for (size_t i = 0; i < M.size(); ++i) for (size_t j = 0; j < i; ++j) if (M[i][j].v != M[j][i].v) return false; return true; }

template <class P> auto set_over(P &p, float v, int) -> decltype(p.over_interp, void()) { p.over_interp = v; }
template <class P> void set_over(P&, float, long) {}

static std::vector<Q> vcomb(const Q &a, const std::vector<Q> &f, const Q &b, const std::vector<Q> &g) { std::vector<Q> h(f.size()); for (size_t i = 0; i < f.size(); ++i) h[i] = a * f[i] + b * g[i]; return h; }
static bool veq(const std::vector<Q> &x, const std::vector<Q> &y) { if (x.size() != y.size()) return false; for (size_t i = 0; i < x.size(); ++i) if (x[i].poison || y[i].poison || x[i].v != y[i].v) return false; return true; }

// amg_cycle: initial guesses of the two public cycle(rhs, x) calls (set by execute2; the harness is single threaded)
static std::vector<Q> g_x0, g_y0;
static std::vector<Q> matvec(const Mat &A, const std::vector<Q> &x) { std::vector<Q> y(A.n, Q(0)); for (long i = 0; i < A.n; ++i) for (auto j = A.ptr[i]; j < A.ptr[i+1]; ++j) y[i] += A.val[j] * x[A.col[j]]; return y; }

template <template <class> class C, template <class> class R>
struct Cyc {
    typedef amgcl::amg<Backend, rec<C>::template type, R> AMG;
    static typename AMG::params params(const Hdr &h, const RelaxPrm &rp, const Tail &t) {
        typename AMG::params p; set_prm<AMG>(p, h); set_relax(p.relax, rp); set_over(p.coarsening, over_of(h), 0);
        p.npre = (unsigned)t.npre; p.npost = (unsigned)t.npost; p.ncycle = (unsigned)t.ncycle; p.pre_cycles = (unsigned)t.pre_cycles;
        return p;
    }
    static std::vector<Q> apply(AMG &amg, const std::vector<Q> &f) {
        NVec F(f), X(f.size()); for (size_t i = 0; i < f.size(); ++i) X[i] = Q::poisoned();    // apply must overwrite x
        amg.apply(F, X); std::vector<Q> x(f.size()); for (size_t i = 0; i < f.size(); ++i) x[i] = X[i]; return x;
    }
    // the PUBLIC amg::cycle(rhs, x): one cycle from the caller's x (not cleared)
    static std::vector<Q> cycle(AMG &amg, const std::vector<Q> &f, const std::vector<Q> &x0) {
        NVec F(f), X(x0); amg.cycle(F, X); std::vector<Q> x(f.size()); for (size_t i = 0; i < f.size(); ++i) x[i] = X[i]; return x;
    }
    static Result run(const std::string &op, const Hdr &h, const RelaxPrm &rp, const Tail &t,
                      const std::vector<Q> &f, const std::vector<Q> &g, const Q &a, const Q &b) {
        Result r; Line l;
        auto prm = params(h, rp, t);
#ifdef _OPENMP
        omp_set_num_threads((int)h.nt);
#endif
        g_rec.clear();
        try {
            AMG amg(*h.A.crs(), prm);
            size_t nl = amgcl_verif::access::levels(amg).size();
            bool same = g_rec.size() == h.prs.size();
            for (size_t k = 0; same && k < g_rec.size(); ++k) same = crs_same(*g_rec[k].first, *h.prs[k].first.crs()) && crs_same(*g_rec[k].second, *h.prs[k].second.crs());
            l << (long)nl;
            if (!same) l << "transfer-operators-differ-from-op-line";
            long n = h.A.n;
            bool symA = is_symmetric(h.A);
            // symmetric smoother pairs, R = P^T.  smoothed_aggr_emin computes R = R_tent - Omega R_tent Af D^-1 separately from
            // P = P_tent - D^-1 Af P_tent Omega; for SYMMETRIC A the filtered matrix Af is symmetric (the strength test is
            // symmetric), hence R = P^T exactly there as well, on every level (the Galerkin operators stay symmetric)
            bool symcfg = symA && t.npre == t.npost;
            if (symA || h.kind != 3) for (size_t k = 0; k < g_rec.size(); ++k)
                if (!dense_eq(dense(*g_rec[k].second), dtrans(dense(*g_rec[k].first), g_rec[k].first->ncols))) {
                    r.fail(std::string("restriction is not the transpose of the prolongation (R != P^T) on level ") + std::to_string(k) + (h.kind == 3 ? " for smoothed_aggr_emin on a symmetric matrix" : "")); break; }
            if (op == "amg_cycle") {
                // x <- S x + B f is affine in (f, x), and a solution of A x = f is a fixed point of every cycle
                std::vector<Q> fs = matvec(h.A, g_x0);
                std::vector<Q> c1 = cycle(amg, f, g_x0), c2 = cycle(amg, g, g_y0), c3 = cycle(amg, fs, g_x0);
                l << c1 << c2 << c3;
                std::vector<Q> c4 = cycle(amg, vcomb(a, f, b, g), vcomb(a, g_x0, b, g_y0));
                if (!veq(c3, g_x0)) r.fail("cycle(A x, x) != x: the exact solution is not a fixed point of the cycle");
                if (!veq(c4, vcomb(a, c1, b, c2))) r.fail("cycle(a f + b g, a x + b y) != a cycle(f, x) + b cycle(g, y)");
                if (!veq(cycle(amg, f, g_x0), c1)) r.fail("cycle(f, x) differs between the first and a later call on the same object");
                r.nontrivial = nl >= 2 && n > 1; r.tag("cycle"); if (t.npre == 0) r.tag("npre0"); if (t.npost == 0) r.tag("npost0");
            } else if (op == "amg_apply") {
                std::vector<Q> hh = vcomb(a, f, b, g);
                std::vector<Q> x1 = apply(amg, f), x2 = apply(amg, g), x3 = apply(amg, f), x4 = apply(amg, hh);
                l << x1 << x2 << x3 << x4;
                for (auto *x : { &x1, &x2, &x3, &x4 }) for (auto &v : *x) if (v.poison) { r.fail("apply left an entry of x unwritten"); break; }
                if (!veq(x1, x3)) r.fail("B f differs between the first and a later application on the same object (state leaks between applications)");
                if (!veq(x4, vcomb(a, x1, b, x2))) r.fail("B(a f + b g) != a B f + b B g");
                if (symcfg) { Q s1(0), s2(0); for (long i = 0; i < n; ++i) { s1 += g[i] * x1[i]; s2 += f[i] * x2[i]; } if (s1.v != s2.v) r.fail("B is not symmetric: <g, B f> != <f, B g>"); }
                r.nontrivial = nl >= 2 && n > 1; if (symcfg) r.tag("symcfg");
            } else {
                Dense B(n, std::vector<Q>(n));
                for (long j = 0; j < n; ++j) { std::vector<Q> e(n, Q(0)); e[j] = Q(1); std::vector<Q> c = apply(amg, e); for (long i = 0; i < n; ++i) B[i][j] = c[i]; l << c; }
                // scaling oracle (C02 "B(2^k A) = 2^-k B(A)", C02e): the hierarchy built by the real code for 4 A, same parameters, must
                // have the same number of levels and B(4 A) = B(A) / 4 entry by entry (exact rationals); ILU(0) and Chebyshev (rk 3, 4: the
                // smoothers without a scaling THEOREM before C02e; Jacobi / SPAI-0 / Gauss-Seidel are C02b.smoothers_scale), all coarsenings
                if (rp.rk >= 3) {
                    Hdr h4 = h; for (auto &v : h4.A.val) v = v * Q(4);
                    const char *bad = nullptr;
                    try {
                        AMG amg4(*h4.A.crs(), prm);
                        if (amgcl_verif::access::levels(amg4).size() != nl) bad = "scaling: the hierarchy of 4 A has a different number of levels than that of A";
                        for (long j = 0; !bad && j < n; ++j) { std::vector<Q> e(n, Q(0)); e[j] = Q(1); std::vector<Q> c4 = apply(amg4, e); for (long i = 0; i < n; ++i) if (c4[i].poison || (c4[i] * Q(4)).v != B[i][j].v) bad = "scaling: B(4 A) != B(A) / 4"; }
                    } catch (const std::exception &) { bad = "scaling: the hierarchy of A is built but the construction for 4 A throws"; }
                    if (bad) r.fail(bad); else r.tag("scale4");
                }
                if (symcfg && t.pre_cycles >= 1) {
                    Dense Ad = dense(h.A);
                    // 0 = B symmetric positive definite and A - E^T A E positive definite (E = I - B A: contraction in the energy norm),
                    // 1 = B not symmetric, 2 = B not positive definite, 3 = not a contraction
                    auto certify = [&](const Dense &Bm) -> int {
                        if (!is_sym(Bm)) return 1;
                        if (!is_spd(Bm)) return 2;
                        Dense E = dmul(Bm, Ad, n); for (long i = 0; i < n; ++i) for (long j = 0; j < n; ++j) E[i][j] = (i == j ? Q(1) : Q(0)) - E[i][j];
                        Dense AE = dmul(Ad, E, n), Et = dtrans(E, n), EAE = dmul(Et, AE, n), D(n, std::vector<Q>(n));
                        for (long i = 0; i < n; ++i) for (long j = 0; j < n; ++j) D[i][j] = Ad[i][j] - EAE[i][j];
                        return is_spd(D) ? 0 : 3;
                    };
                    static const char *msg[] = { "", "B is not symmetric", "B is not positive definite",
                        "stationary iteration is not a contraction in the energy norm: A - E^T A E is not positive definite" };
                    int v = certify(B);
                    if (v >= 2) {
                        // plain aggregation with over_interp > 1 (its default): is the over-interpolation the cause (known finding K02)?
                        // B must still be symmetric, and the SAME input with over_interp = 1 (same aggregates: the strength test is
                        // scale invariant) must have the same number of levels and pass all three certificates.
                        bool overint = false;
                        if (h.kind == 0 && !(h.s.v == Q(1).v) && nl >= 3) {
                            Hdr h1 = h; h1.s = Q(1); auto prm1 = params(h1, rp, t); AMG amg1(*h1.A.crs(), prm1);
                            Dense B1(n, std::vector<Q>(n));
                            for (long j = 0; j < n; ++j) { std::vector<Q> e(n, Q(0)); e[j] = Q(1); std::vector<Q> c = apply(amg1, e); for (long i = 0; i < n; ++i) B1[i][j] = c[i]; }
                            overint = amgcl_verif::access::levels(amg1).size() == nl && certify(B1) == 0;
                        }
                        if (overint) { r.fail(std::string("over-interpolation: B is symmetric but ") + (v == 2 ? "not positive definite" : "the stationary iteration is not a contraction in the energy norm") + " for plain aggregation with over_interp > 1 on " + std::to_string(nl) + " levels; the same input with over_interp = 1 gives a symmetric positive definite, contracting B"); r.tag("over_interp_not_contracting"); }
                        else r.fail(msg[v]);
                    } else if (v == 1) r.fail(msg[1]);
                    else r.tag("spd-certified");
                }
                r.nontrivial = nl >= 2 && n > 1; if (symcfg) r.tag("symcfg");
            }
            r.tag("levels" + std::to_string(nl));
        } catch (const amgcl::error::empty_level&) { l << "empty_level"; }
        catch (const std::exception &e) { if (getenv("VH_DEBUG")) std::cerr << "exception: " << e.what() << "\n"; l << "precondition"; }
#ifdef _OPENMP
        omp_set_num_threads(1);
#endif
        r.out = l.get();
        return r;
    }
};

template <template <class> class C>
static Result by_relax(const std::string &op, const Hdr &h, const RelaxPrm &rp, const Tail &t, const std::vector<Q> &f, const std::vector<Q> &g, const Q &a, const Q &b) {
    switch (rp.rk) {
        case 0: return Cyc<C, amgcl::relaxation::damped_jacobi>::run(op, h, rp, t, f, g, a, b);
        case 1: return Cyc<C, amgcl::relaxation::gauss_seidel>::run(op, h, rp, t, f, g, a, b);
        case 2: return Cyc<C, amgcl::relaxation::spai0>::run(op, h, rp, t, f, g, a, b);
        case 3: return Cyc<C, amgcl::relaxation::ilu0>::run(op, h, rp, t, f, g, a, b);
        case 4: return Cyc<C, amgcl::relaxation::chebyshev>::run(op, h, rp, t, f, g, a, b);
    }
    throw bad_input("rk");
}
static Result by_kind(const std::string &op, const Hdr &h, const RelaxPrm &rp, const Tail &t, const std::vector<Q> &f, const std::vector<Q> &g, const Q &a, const Q &b) {
    switch (h.kind) {
        case 0: return by_relax<amgcl::coarsening::aggregation>(op, h, rp, t, f, g, a, b);
        case 1: return by_relax<amgcl::coarsening::smoothed_aggregation>(op, h, rp, t, f, g, a, b);
        case 2: return by_relax<amgcl::coarsening::ruge_stuben>(op, h, rp, t, f, g, a, b);
        case 3: return by_relax<amgcl::coarsening::smoothed_aggr_emin>(op, h, rp, t, f, g, a, b);
    }
    throw bad_input("kind");
}

static RelaxPrm parse_relax(Cur &c) {
    RelaxPrm r; r.rk = c.nat(); r.damping = Q(1); r.degree = 5; r.scale = 0;
    if (r.rk == 0 || r.rk == 3) r.damping = c.rat();
    else if (r.rk == 4) { r.degree = c.nat(); r.higher = c.rat(); r.lower = c.rat(); r.scale = c.nat(); }
    else if (r.rk != 1 && r.rk != 2) throw bad_input("rk");
    return r;
}
static Tail parse_tail(Cur &c) { Tail t; t.npre = c.nat(); t.npost = c.nat(); t.ncycle = c.nat(); t.pre_cycles = c.nat(); return t; }

static Result execute2(const Toks &t) {
    Cur c(t); const std::string &op = t[0];
    if (op != "amg_apply" && op != "amg_bmat" && op != "amg_cycle") return Result("bad-op");
    Hdr h = parse_hdr(c); RelaxPrm rp = parse_relax(c); Tail tl = parse_tail(c);
    std::vector<Q> f, g; Q a(0), b(0);
    if (op == "amg_apply") {
        long K = c.nat(); if (K != 4) throw bad_input("K");
        f = c.vec(); g = c.vec(); auto f2 = c.vec(); auto hh = c.vec(); a = c.rat(); b = c.rat();
        if ((long)f.size() != h.A.n || (long)g.size() != h.A.n || !veq(f, f2) || !veq(hh, vcomb(a, f, b, g))) throw bad_input("vectors");
    }
    if (op == "amg_cycle") {
        long K = c.nat(); if (K != 5) throw bad_input("K");
        f = c.vec(); g_x0 = c.vec(); g = c.vec(); g_y0 = c.vec(); auto fs = c.vec(); a = c.rat(); b = c.rat();
        if ((long)f.size() != h.A.n || (long)g.size() != h.A.n || (long)g_x0.size() != h.A.n || (long)g_y0.size() != h.A.n || !veq(fs, matvec(h.A, g_x0))) throw bad_input("vectors");
    }
    c.expect_end();
    return by_kind(op, h, rp, tl, f, g, a, b);
}

static std::string make_line2(Rng &rng, const Opts &o, bool bmat, bool cyc = false) {
    Hdr h; h.kind = rng.range(0, 3);
    long n = bmat ? rng.range(2, o.thorough() ? 12 : 8) : rng.range(2, o.thorough() ? 24 : 12);
    int fam = (int)rng.range(0, 4);
    h.A = fam <= 3 ? gen_spd(rng, n, fam) : gen_convdiff(rng, n);
    if (bmat) h.A = gen_spd(rng, n, (int)rng.range(0, 3));
    static const std::vector<long> ces = { 0, 1, 2, 3, 5 }; static const std::vector<long> mls = { 1, 2, 3, 10, 10 };
    h.ce = rng.pick(ces); h.dc = rng.coin(3, 4); h.ml = rng.pick(mls); h.ar = rng.coin(); h.nt = 1;
    h.s = pick_s(rng, h.kind);
    RelaxPrm rp; rp.rk = rng.range(0, 4); rp.damping = Q::frac(rng.range(2, 7), 8); rp.degree = rng.range(1, o.thorough() ? 3 : 2); rp.higher = Q(1); rp.lower = Q::frac(1, 32); rp.scale = rng.coin();
    long smax = o.thorough() ? 3 : 2;
    // zero pre- or post-smoothing steps are valid configurations (npre = 0 / npost = 0): one case in five each
    Tail t; t.npre = rng.coin(1, 5) ? 0 : rng.range(1, smax); t.npost = rng.coin(2, 3) ? t.npre : (rng.coin(1, 5) ? 0 : rng.range(1, smax)); t.ncycle = rng.range(1, 2); t.pre_cycles = rng.coin(1, 6) ? 0 : rng.range(1, 2);
    if (t.ncycle == 2 && t.pre_cycles == 2) t.pre_cycles = 1;     // keep the rational growth bounded
    if (bmat) { if (t.npre == 0) t.npre = 1; t.npost = t.npre; t.pre_cycles = rng.range(1, 2); }   // SPD / contraction clause: smoothing steps >= 1
    if (bmat && rng.coin(1, 6)) {
        // deep hierarchies: 2D grid with random weights, plain aggregation down to one unknown (4+ levels), V-cycle with one sweep
        long m = rng.range(6, o.thorough() ? 8 : 7); h.kind = 0; h.A = gen_spd(rng, m * m, 1); h.ce = rng.range(1, 2); h.dc = 1; h.ml = 10; h.s = pick_s(rng, 0);
        rp.rk = rng.range(0, 2); t.npre = t.npost = 1; t.ncycle = rng.coin(3, 4) ? 1 : 2; t.pre_cycles = 1;
    }
    Result dummy = run(h, {}, false);    // records the transfer operators (damped Jacobi hierarchy: same P, R)
    Line l; l << (bmat ? "amg_bmat" : cyc ? "amg_cycle" : "amg_apply") << h.kind << h.s << h.nt << h.ce << h.dc << h.ml << h.ar << h.A << (long)g_rec.size();
    for (auto &pr : g_rec) { l << *pr.first; l << *pr.second; }
    l << rp.rk; if (rp.rk == 0 || rp.rk == 3) l << rp.damping; else if (rp.rk == 4) { l << rp.degree << rp.higher << rp.lower << rp.scale; }
    l << t.npre << t.npost << t.ncycle << t.pre_cycles;
    if (cyc) { auto f = gen_vec(rng, h.A.n), x0 = gen_vec(rng, h.A.n), g = gen_vec(rng, h.A.n), y0 = gen_vec(rng, h.A.n); Q a = rng.rat(4), b = rng.rat(4); l << 5L << f << x0 << g << y0 << matvec(h.A, x0) << a << b; }
    else if (!bmat) { auto f = gen_vec(rng, h.A.n), g = gen_vec(rng, h.A.n); Q a = rng.rat(4), b = rng.rat(4); l << 4L << f << g << f << vcomb(a, f, b, g) << a << b; }
    return l.get();
}

static void generate2(Rng &rng, const Opts &o, std::vector<std::string> &lines) {
    long N = o.cases > 0 ? o.cases : (o.thorough() ? 1200 : 120);
    for (long k = 0; k < N; ++k) lines.push_back(make_line2(rng, o, k % 4 == 3, k % 4 == 1));
    lines.push_back("amg_apply 0 11184811/16777216 1 2 1 10 0 1 1 1 0 1 0 7 1 1 1 1 4 1 1 1 1 1 1 1 1 0 0");    // unknown relaxation kind
}

int main(int argc, char **argv) { return vh::harness_main(argc, argv, generate2, execute2); }
