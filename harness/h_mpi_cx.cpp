// C11 harness, complex value type: amgcl::mpi::distributed_matrix<builtin<std::complex<double>>> / comm_pattern /
// mpi::inner_product under real MPI, on EXACT-IN-BINARY64 Gaussian rationals (small integers / dyadic components).
// The ops mirror h_mpi.cpp with the prefix `cdist_` (see mpi_vt.hpp for the op list, the line format -- a complex
// number is two rationals `re im` -- and the implementation-side oracles); the Lean side (Driver/DistCx.lean) runs
// the SAME generic model of Model/Dist.lean at Gaussian rationals with conj/adj := complex conjugation.
//
// What the complex instantiation adds over the real one: the inner product is sesquilinear (linear in x,
// conjugate-linear in y: <x,y> != <y,x>), the transpose is the CONJUGATE transpose, alpha/beta/scale factors have
// imaginary parts, math::norm is the modulus (Gershgorin: entries with rational modulus, i.e. Pythagorean pairs).
#include "mpi_vt.hpp"

static Result execute(const Toks &t) {
    Cur c(t); const std::string &op = t[0];
    if (op.compare(0, 6, "cdist_") != 0) return Result("bad-op");
    return VtExec<Cd>::run(op.substr(6), c);
}

static void generate(Rng &rng, const Opts &o, std::vector<std::string> &lines) {
    const int W = std::min(g_wsize, MAXNP);
    long N = o.cases > 0 ? o.cases : (o.thorough() ? 5000 : 450);
    VtGen<Cd>::generate(rng, "cdist_", "", W, o.thorough() ? 5 : 3, N, o.thorough() ? 24 : 10, lines);
    // hand-written: <x,y> with a non-real value on partitions with empty ranks; np = 1
    lines.push_back("cdist_ip 3 3 0 4 7 1 -3 2 -1 3 1 4 3 5 5 6 7 7 9 7 5 -4 4 -3 3 0 2 5 1 12 0 21 -1 32");
    lines.push_back("cdist_ip 1 2 2 2 1 1 2 2 1 0 3 -1");
    lines.push_back("cdist_norm 2 0 2 2 3 4 0 -2");
    // malformed stream: both sides must answer bad-input
    lines.push_back("cdist_ip 2 1 1 2 1 1 1 1 2 1 1 1");                                  // second vector too short (odd token count)
    lines.push_back("cdist_ip 2 1 1 2 1 1 1 1 3 1 1 1 1 1 1");                            // vector sizes differ
    lines.push_back("cdist_ip 2 1 1 2 1 1/3 1 1 2 1 1 1 1");                              // component not exact in binary64
    lines.push_back("cdist_spmv 2 1 1 2 1 1 1 0 2 2 1 0 1 1 1 1 2 1 2 1 0 0 0 0 0 2 0 0 0 0 0");   // trailing token
    lines.push_back("cdist_split 2 1 1 2 1 1 2 2 1 2 1 1 1 1 1 1");                       // column 2 in a 2-column matrix
    lines.push_back("cdist_split 0 0 0 0");                                               // no ranks
    lines.push_back("cdist_transpose 2 1 2 2 1 1 2 2 1 0 1 1 1 1 1 1");                   // row partition sums to 3, matrix has 2 rows
    lines.push_back("cdist_gersh 0 2 1 1 2 2 1 0 1 1 1 1 2 0");                           // modulus of 1+i is irrational
    lines.push_back("cdist_gersh 2 1 1 1 1 0");                                           // bad flag
    lines.push_back("cdist_power 1 0 1 1 1 1 1 0 2 0");                                   // zero iterations
}

VH_MPI_MAIN(generate, execute)
