// C03 harness: the AMG hierarchy (construction, Galerkin coarse operators, rebuild) at the exact rational type Q.
// Ops:
//   amg_build   kind s nt coarse_enough direct_coarse max_levels allow_rebuild A L (P R)^L
//   amg_rebuild <same header> K (A')^K
// kind: 0 aggregation, 1 smoothed_aggregation, 2 ruge_stuben, 3 smoothed_aggr_emin.  The (P,R) pairs in the op line
// are the transfer operators recorded from the implementation when the case was generated; on execution they are
// recorded again and printed from the real hierarchy, the model uses the ones in the line.
#include "gen.hpp"
#include <amgcl/amg.hpp>
#include <amgcl/coarsening/aggregation.hpp>
#include <amgcl/coarsening/smoothed_aggregation.hpp>
#include <amgcl/coarsening/ruge_stuben.hpp>
#include <amgcl/coarsening/smoothed_aggr_emin.hpp>
#include <amgcl/relaxation/damped_jacobi.hpp>
#ifdef _OPENMP
#include <omp.h>
#endif
using namespace vh;

namespace amgcl_verif { struct access {
    template <class AMG> static auto& levels(AMG &a) { return a.levels; }
}; }

typedef amgcl::backend::builtin<Q> Backend;

// recorded transfer operators of the last constructed hierarchy
static std::vector<std::pair<std::shared_ptr<Crs>, std::shared_ptr<Crs>>> g_rec;

template <template <class> class Base>
struct rec {
    template <class B> struct type : Base<B> {
        typedef typename Base<B>::params params;
        type(const params &p = params()) : Base<B>(p) {}
        template <class Matrix>
        std::tuple<std::shared_ptr<Matrix>, std::shared_ptr<Matrix>> transfer_operators(const Matrix &A) {
            auto pr = Base<B>::transfer_operators(A);
            // deep copies: the hierarchy sorts the originals in place afterwards
            g_rec.push_back({ std::make_shared<Crs>(*std::get<0>(pr)), std::make_shared<Crs>(*std::get<1>(pr)) });
            return pr;
        }
    };
};

// coarsening that replays a fixed list of transfer operators (oracle for "rebuild == fresh assembly")
static std::vector<std::pair<std::shared_ptr<Crs>, std::shared_ptr<Crs>>> g_fixed;
static size_t g_fixed_pos = 0;
static int g_fixed_kind = 0; static float g_fixed_s = 1;
template <class B> struct fixed_coarsening {
    typedef amgcl::detail::empty_params params;
    fixed_coarsening(const params& = params()) {}
    template <class Matrix>
    std::tuple<std::shared_ptr<Matrix>, std::shared_ptr<Matrix>> transfer_operators(const Matrix&) {
        if (g_fixed_pos >= g_fixed.size()) throw amgcl::error::empty_level();
        auto &pr = g_fixed[g_fixed_pos++];
        return std::make_tuple(std::make_shared<Matrix>(*pr.first), std::make_shared<Matrix>(*pr.second));
    }
    template <class Matrix>
    std::shared_ptr<Matrix> coarse_operator(const Matrix &A, const Matrix &P, const Matrix &R) const {
        if (g_fixed_kind == 0) return amgcl::coarsening::detail::scaled_galerkin(A, P, R, g_fixed_s);
        return amgcl::coarsening::detail::galerkin(A, P, R);
    }
};

struct Hdr { long kind; Q s; long nt, ce, dc, ml, ar; Mat A; std::vector<std::pair<Mat,Mat>> prs; bool full = false; };

template <class AMG> static void set_prm(typename AMG::params &p, const Hdr &h) {
    p.coarse_enough = (unsigned)h.ce; p.direct_coarse = h.dc != 0; p.max_levels = (unsigned)h.ml; p.allow_rebuild = h.ar != 0;
}
static const float over_interp_of_kind0 = 1.5f;      // the scalar default of coarsening::aggregation
// over_interp of a case: plain aggregation (kind 0) carries s = float(1/over_interp) in its op line, s in {1, 11184811/16777216, 1/2}
// (over_interp 1, 1.5 = scalar default, 2 = block default); the other coarsenings have no such parameter (s = 1)
static float over_of(const Hdr &h) {
    if (h.kind != 0) { if (!(h.s.v == Q(1).v)) throw bad_input("s"); return 1.f; }
    if (h.s.v == Q(1).v) return 1.f; if (h.s.v == Q(1 / 1.5f).v) return 1.5f; if (h.s.v == Q::frac(1, 2).v) return 2.f;
    throw bad_input("s");
}
// generator: mostly the default
static Q pick_s(Rng &rng, long kind) { if (kind != 0) return Q(1); long k = rng.range(0, 5); return k <= 2 ? Q(1 / 1.5f) : k <= 4 ? Q(1) : Q::frac(1, 2); }

template <class AMG> static void dump(Line &l, AMG &amg) {
    auto &lv = amgcl_verif::access::levels(amg);
    l << (long)lv.size();
    for (auto &v : lv) {
        l << "L" << (long)v.m_rows << (bool)v.A << (bool)v.P << (bool)v.R << (bool)v.bP << (bool)v.bR << (bool)v.solve << (bool)v.relax;
        if (v.A) l << *v.A; if (v.P) l << *v.P; if (v.R) l << *v.R;
    }
}

static bool crs_same(const Crs &a, const Crs &b) {
    if (a.nrows != b.nrows || a.ncols != b.ncols) return false;
    for (size_t i = 0; i <= a.nrows; ++i) if (a.ptr[i] != b.ptr[i]) return false;
    for (ptrdiff_t j = 0; j < a.ptr[a.nrows]; ++j) if (a.col[j] != b.col[j] || a.val[j].v != b.val[j].v) return false;
    return true;
}
static bool dense_eq(const Dense &a, const Dense &b) {
    if (a.size() != b.size()) return false;
    for (size_t i = 0; i < a.size(); ++i) { if (a[i].size() != b[i].size()) return false; for (size_t j = 0; j < a[i].size(); ++j) if (a[i][j].v != b[i][j].v) return false; }
    return true;
}
static Dense dscale(Dense d, const Q &s) { for (auto &r : d) for (auto &x : r) x = x * s; return d; }
static Dense dtrans(const Dense &d, size_t m) { Dense t(m, std::vector<Q>(d.size())); for (size_t i = 0; i < d.size(); ++i) for (size_t j = 0; j < m; ++j) t[j][i] = d[i][j]; return t; }

// property oracle on a built hierarchy: Galerkin, adjoint, decreasing sizes, last-level decision table
template <class AMG> static void oracle_levels(Result &r, AMG &amg, const Hdr &h, const Crs *A0) {
    auto &lv = amgcl_verif::access::levels(amg);
    std::vector<typename std::remove_reference<decltype(lv)>::type::value_type*> L; for (auto &v : lv) L.push_back(&v);
    if (L.empty()) { r.fail("no levels"); return; }
    Q s = h.kind == 0 ? h.s : Q(1);
    Dense cur = dense(*A0);     // dense system matrix of the current level (level 0: the input; then recomputed)
    for (size_t k = 0; k < L.size(); ++k) {
        auto &v = *L[k]; bool last = k + 1 == L.size();
        if (v.A && !dense_eq(dense(*v.A), cur)) r.fail("level " + std::to_string(k) + ": A is not s*R*A*P of the previous level");
        if (v.A) { std::string why; if (!crs_wf(*v.A, why)) r.fail("level A: " + why); if (!crs_sorted_nodup(*v.A)) r.fail("level A not sorted"); }
        if ((size_t)v.m_rows != cur.size()) r.fail("level " + std::to_string(k) + ": wrong number of rows");
        if (!last) {
            if (!v.A || !v.P || !v.R || !v.relax) { r.fail("inner level lacks A/P/R/relax"); return; }
            if (v.P->nrows != cur.size() || v.R->ncols != cur.size() || v.P->ncols != v.R->nrows) { r.fail("transfer operator shapes"); return; }
            if (h.kind != 3 && !dense_eq(dense(*v.R), dtrans(dense(*v.P), v.P->ncols))) r.fail("R is not the adjoint of P");
            if (!(v.P->ncols < cur.size())) r.fail("level sizes do not strictly decrease");
            if (h.ar && (!v.bP || !v.bR || !crs_same(*v.bP, *v.P) || !crs_same(*v.bR, *v.R))) r.fail("bP/bR not retained");
            cur = dscale(dmul(dense(*v.R), dmul(cur, dense(*v.P), v.P->ncols), v.P->ncols), s);
        } else {
            bool small = cur.size() <= (size_t)h.ce;
            if (v.solve) { if (!(small && h.dc)) r.fail("direct solver on a level that should be smoothed"); }
            else { if (!v.relax) r.fail("last level has neither solver nor smoother"); if (small && h.dc) r.fail("small last level not handed to the direct solver"); }
        }
    }
}

template <template <class> class C> struct Run {
    typedef amgcl::amg<Backend, rec<C>::template type, amgcl::relaxation::damped_jacobi> AMG;
    typedef amgcl::amg<Backend, fixed_coarsening, amgcl::relaxation::damped_jacobi> FixedAMG;

    static typename AMG::params params(const Hdr &h);

    static Result build(const Hdr &h, const std::vector<Mat> &rebuilds, bool is_rebuild) {
        Result r; Line l;
        auto prm = params(h);
#ifdef _OPENMP
        omp_set_num_threads((int)h.nt);
#endif
        g_rec.clear();
        try {
            AMG amg(*h.A.crs(), prm);
            auto recorded = g_rec;
            dump(l, amg);
            auto A0 = h.A.crs(); amgcl::backend::sort_rows(*A0);
            oracle_levels(r, amg, h, A0.get());
            // the transfer operators in the op line must be the ones the implementation produces now
            bool same = recorded.size() == h.prs.size();
            for (size_t k = 0; same && k < recorded.size(); ++k) same = crs_same(*recorded[k].first, *h.prs[k].first.crs()) && crs_same(*recorded[k].second, *h.prs[k].second.crs());
            if (!same && !h.full) l << "transfer-operators-differ-from-op-line";
            r.nontrivial = amgcl_verif::access::levels(amg).size() >= 2;
            r.tag("levels" + std::to_string(amgcl_verif::access::levels(amg).size()));
            for (size_t k = 0; k < rebuilds.size(); ++k) {
                l << "|";
                try {
                    amg.rebuild(*rebuilds[k].crs());
                    dump(l, amg);
                    auto Ak = rebuilds[k].crs(); amgcl::backend::sort_rows(*Ak);
                    oracle_levels(r, amg, h, Ak.get());
                    // transfer operators unchanged
                    auto &lv = amgcl_verif::access::levels(amg); size_t q = 0;
                    for (auto &v : lv) if (v.P) { auto P0 = recorded[q].first, R0 = recorded[q].second; amgcl::backend::sort_rows(*P0); amgcl::backend::sort_rows(*R0); if (!crs_same(*v.P, *P0) || !crs_same(*v.R, *R0)) r.fail("rebuild changed a transfer operator"); ++q; }
                    // acts exactly like a fresh hierarchy assembled from A' with the retained operators
                    g_fixed = recorded; g_fixed_pos = 0; g_fixed_kind = (int)h.kind; g_fixed_s = 1 / over_of(h);
                    typename FixedAMG::params fp; set_prm<FixedAMG>(fp, h); fp.relax.damping = prm.relax.damping;
                    FixedAMG fresh(*rebuilds[k].crs(), fp);
                    Rng vr(mix(77, k)); std::vector<Q> f = gen_vec(vr, h.A.n);
                    NVec F(f), X1(h.A.n), X2(h.A.n);
                    amg.apply(F, X1); fresh.apply(F, X2);
                    for (long i = 0; i < h.A.n; ++i) if (X1[i].v != X2[i].v) { r.fail("rebuilt hierarchy acts differently from a fresh assembly with the same transfer operators"); break; }
                } catch (const std::exception &e) { l << "precondition"; }
            }
            if (is_rebuild) r.tag("rebuild");
        } catch (const amgcl::error::empty_level&) { l << "empty_level"; }
        catch (const std::exception &e) { if (getenv("VH_DEBUG")) std::cerr << "exception: " << e.what() << "\n"; l << "precondition"; }
#ifdef _OPENMP
        omp_set_num_threads(1);
#endif
        r.out = l.get();
        return r;
    }
};
template <> typename Run<amgcl::coarsening::aggregation>::AMG::params Run<amgcl::coarsening::aggregation>::params(const Hdr &h) { AMG::params p; set_prm<AMG>(p, h); p.coarsening.over_interp = over_of(h); return p; }
template <> typename Run<amgcl::coarsening::smoothed_aggregation>::AMG::params Run<amgcl::coarsening::smoothed_aggregation>::params(const Hdr &h) { AMG::params p; set_prm<AMG>(p, h); return p; }
template <> typename Run<amgcl::coarsening::ruge_stuben>::AMG::params Run<amgcl::coarsening::ruge_stuben>::params(const Hdr &h) { AMG::params p; set_prm<AMG>(p, h); return p; }
template <> typename Run<amgcl::coarsening::smoothed_aggr_emin>::AMG::params Run<amgcl::coarsening::smoothed_aggr_emin>::params(const Hdr &h) { AMG::params p; set_prm<AMG>(p, h); return p; }

static Result run(const Hdr &h, const std::vector<Mat> &rb, bool is_rb) {
    switch (h.kind) {
        case 0: return Run<amgcl::coarsening::aggregation>::build(h, rb, is_rb);
        case 1: return Run<amgcl::coarsening::smoothed_aggregation>::build(h, rb, is_rb);
        case 2: return Run<amgcl::coarsening::ruge_stuben>::build(h, rb, is_rb);
        case 3: return Run<amgcl::coarsening::smoothed_aggr_emin>::build(h, rb, is_rb);
    }
    throw bad_input("kind");
}

static Hdr parse_hdr(Cur &c) {
    Hdr h; h.kind = c.nat(); h.s = c.rat(); h.nt = c.nat(); h.ce = c.nat(); h.dc = c.nat(); h.ml = c.nat(); h.ar = c.nat();
    h.A = c.mat(); std::string why; if (!crs_wf(*h.A.crs(), why)) throw bad_input(why);
    long L = c.nat(); if (L < 0 || L > 64) throw bad_input("L");
    for (long k = 0; k < L; ++k) { Mat P = c.mat(); Mat R = c.mat(); if (!crs_wf(*P.crs(), why) || !crs_wf(*R.crs(), why)) throw bad_input(why); h.prs.push_back({P, R}); }
    if (h.kind < 0 || h.kind > 3 || h.nt < 1 || h.ml < 1 || h.dc > 1 || h.ar > 1) throw bad_input("hdr");
    (void)over_of(h);
    return h;
}

static Result execute(const Toks &t) {
    Cur c(t); const std::string &op = t[0];
    if (op == "amg_build") { Hdr h = parse_hdr(c); c.expect_end(); return run(h, {}, false); }
    if (op == "amg_full") {   // end to end: the model computes the transfer operators itself (C04 models)
        Hdr h = parse_hdr(c); Q e = c.rat(), rl = c.rat(); c.expect_end();
        if (h.kind > 1 || !h.prs.empty() || e.v != Q(0.08f).v || rl.v != Q(1.0f).v) throw bad_input("amg_full");
        h.full = true; Result r = run(h, {}, false); r.tag("full"); return r;
    }
    if (op == "amg_rebuild") {
        Hdr h = parse_hdr(c); long K = c.nat(); std::vector<Mat> rb; std::string why;
        for (long k = 0; k < K; ++k) { rb.push_back(c.mat()); if (!crs_wf(*rb.back().crs(), why)) throw bad_input(why); }
        c.expect_end(); return run(h, rb, true);
    }
    return Result("bad-op");
}

// a matrix with the same pattern as A: scaled by a power of two / perturbed but still an SPD M-matrix
static Mat perturb(Rng &rng, const Mat &A, int how) {
    Mat B = A;
    if (how == 0) { Q s = Q::frac(1, 1L << rng.range(0, 3)) * Q(1L << rng.range(0, 3)); for (auto &v : B.val) v = v * s; }
    else if (how == 1) { for (long i = 0; i < B.n; ++i) for (auto j = B.ptr[i]; j < B.ptr[i+1]; ++j) if (B.col[j] == i) B.val[j] += Q::frac(rng.range(0, 5), 2); }
    else if (how == 2) { Rng r2(rng.next()); Mat C = gen_spd(r2, A.n, 0); if (C.n == A.n) B = C; }
    else { auto rows = to_rows(B); for (long i = 0; i < B.n; ++i) if (rng.coin(1, 3)) { rows[i].clear(); rows[i].push_back({i, Q::frac(rng.range(2, 7), 2)}); } B = from_rows(B.n, B.n, rows); }
    return B;
}

static std::string make_line(Rng &rng, const Opts &o, bool rebuild) {
    Hdr h; h.kind = rng.range(0, 3);
    long n = rng.range(1, o.thorough() ? 40 : 22);
    int fam = (int)rng.range(0, 5);
    if (fam <= 3) h.A = gen_spd(rng, n, fam); else if (fam == 4) h.A = gen_convdiff(rng, n);
    else { std::vector<std::vector<std::pair<long,Q>>> rows(n); for (long i = 0; i < n; ++i) rows[i].push_back({i, Q(rng.range(1, 5))}); h.A = from_rows(n, n, rows); }   // diagonal matrix: coarsens to nothing
    // Dirichlet-type rows: a single diagonal entry d != 1 (left operand rows with ONE entry exercise the single-row
    // fast path of the row-merge SpGEMM, which multiplies the whole right row by that coefficient)
    bool dirichlet = rng.coin(1, 4);
    if (dirichlet) { auto rows = to_rows(h.A); for (long i = 0; i < h.A.n; ++i) if (rng.coin(1, 4)) { rows[i].clear(); rows[i].push_back({i, Q::frac(rng.range(2, 7), 2)}); } h.A = from_rows(h.A.n, h.A.n, rows); }
    if (rng.coin(1, 4)) h.A = unsort(rng, h.A, false);
    static const std::vector<long> ces = { 0, 1, 2, 3, 5, 8, 100 }; static const std::vector<long> mls = { 1, 2, 3, 10, 10 };
    h.ce = rng.pick(ces); h.dc = rng.coin(3, 4); h.ml = rng.pick(mls); h.ar = rebuild ? 1 : rng.coin(); h.nt = (dirichlet ? rng.coin(3, 4) : rng.coin(1, 4)) ? 17 : 1;
    h.s = pick_s(rng, h.kind);
    // record the transfer operators by running the real coarsening once
    Result dummy = run(h, {}, false);
    Line l; l << (rebuild ? "amg_rebuild" : "amg_build") << h.kind << h.s << h.nt << h.ce << h.dc << h.ml << h.ar << h.A << (long)g_rec.size();
    for (auto &pr : g_rec) { l << *pr.first; l << *pr.second; }
    if (rebuild) {
        long K = rng.range(1, 3); l << K;
        // the matrices handed to rebuild() list their row entries in arbitrary order half of the time (rebuild sorts its copy)
        for (long k = 0; k < K; ++k) { Mat B = k == 2 ? h.A : perturb(rng, h.A, (int)rng.range(0, 3)); if (rng.coin()) B = unsort(rng, B, false); l << B; }
    }
    return l.get();
}

static void generate(Rng &rng, const Opts &o, std::vector<std::string> &lines) {
    long N = o.cases > 0 ? o.cases : (o.thorough() ? 1500 : 150);
    for (long k = 0; k < N; ++k) lines.push_back(make_line(rng, o, k % 3 == 2));
    for (long k = 0; k < N / 2; ++k) {     // end-to-end cases: coarsening models + hierarchy model
        Hdr h; h.kind = rng.range(0, 1); long n = rng.range(2, o.thorough() ? 40 : 24); int fam = (int)rng.range(0, 4);
        h.A = fam <= 3 ? gen_spd(rng, n, fam) : gen_convdiff(rng, n);
        if (rng.coin(1, 4)) h.A = unsort(rng, h.A, false);
        static const std::vector<long> ces2 = { 0, 1, 2, 3, 5, 8 }; static const std::vector<long> mls2 = { 2, 3, 10, 10 };
        h.ce = rng.pick(ces2); h.dc = rng.coin(3, 4); h.ml = rng.pick(mls2); h.ar = rng.coin(); h.nt = rng.coin(1, 4) ? 17 : 1;
        h.s = pick_s(rng, h.kind);
        lines.push_back((Line() << "amg_full" << h.kind << h.s << h.nt << h.ce << h.dc << h.ml << h.ar << h.A << 0L << Q(0.08f) << Q(1.0f)).get());
    }
    lines.push_back("amg_build 0 11184811/16777216 1 2 1 10 0 2 3 1 0 1 1 1 1 0");          // non-square matrix: precondition
    lines.push_back("amg_build 9 1 1 2 1 10 0 1 1 1 0 1 0");                    // unknown coarsening kind
}

#ifndef VH_NO_MAIN
VH_MAIN(generate, execute)
#endif
