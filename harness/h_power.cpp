// C08 / C06 harness: the POWER-METHOD branch of backend::spectral_radius<scale>(A, power_iters > 0) at the exact type Q.
// Ops:  pm_radius scaled iters A b0                        -> the returned radius
//       pm_cheb_apply deg hi lo scaled iters A f b0        -> the radius and chebyshev::apply(A, f) with prm.power_iters = iters
// The library draws its start vector from std::mt19937 rng(omp_get_thread_num()) through
// std::uniform_real_distribution<scalar_type>(-1, 1) (for Q: the specialisation of qtype.hpp, a double converted exactly).
// The harness runs ONE thread, replays that generator (library_b0) and prints the vector into the op line, so that the Lean
// model (Model/PowerMethod.lean) takes b0 as an input; execute() checks that the b0 of the line IS the replayed one, calls the
// REAL function and compares exactly.
// Oracles (independent of the model, exact): the mathematical definition of the iteration on the DENSE matrix M = (D^-1) A
// (b = b/||b||; y = M b; radius = sum_i |y_i b_i|; stop after the last pass or when y = 0; b = y/||y||, norms through the same
// rsqrt), radius >= 0, and the upper-bound clause radius^2 <= ||M||_1 ||M||_inf (>= sigma_max^2) up to the rounding allowance
// of the floor roots; Chebyshev: ellipse from that radius, residual polynomial T_deg((d - M)/c) / T_deg(d/c).
#include "gen.hpp"
#include <amgcl/backend/builtin.hpp>
#include <amgcl/relaxation/chebyshev.hpp>
#include <random>
#ifdef _OPENMP
#include <omp.h>
#endif
using namespace vh;
typedef amgcl::backend::builtin<Q> Backend;
typedef std::vector<Q> QV;

static Q qabs(const Q &a) { return a.v < 0 ? -a : a; }
static QV tovec(const NVec &v) { QV r(v.size()); for (size_t i = 0; i < v.size(); ++i) r[i] = v[i]; return r; }

// what the library's first loop produces with one thread: tid = 0
static QV library_b0(long n) {
    std::mt19937 rng(0); std::uniform_real_distribution<Q> rnd(-1, 1);
    QV b(n); for (long i = 0; i < n; ++i) b[i] = rnd(rng); return b;
}

struct PmIn { bool sc; long iters; Mat A; QV b0; };
static void admit(const PmIn &p) {
    std::string why; if (!crs_wf(*p.A.crs(), why)) throw bad_input(why);
    if (p.A.n != p.A.m || p.iters < 1 || (long)p.b0.size() != p.A.n) throw bad_input("shape");
    if (p.sc) for (long i = 0; i < p.A.n; ++i) { int nd = 0, nz = 0; for (auto j = p.A.ptr[i]; j < p.A.ptr[i+1]; ++j) if (p.A.col[j] == i) { ++nd; if (p.A.val[j] != 0) ++nz; } if (nd != 1 || nz != 1) throw bad_input("diagonal"); }
}
static Dense scaled_dense(const Mat &A, bool sc) {
    Dense D = dense(A); if (sc) for (long i = 0; i < A.n; ++i) { Q d = D[i][i]; for (auto &v : D[i]) v = v / d; } return D;
}
// the mathematical definition on the dense matrix; minnorm = smallest squared norm a root was taken of
static Q power_ref(const Dense &M, long iters, QV b, Q &minnorm) {
    size_t n = M.size(); Q N(0); for (auto &v : b) N += v * v; minnorm = N;
    { Q c = vq::sqrt(N); for (auto &v : b) v = v / c; }
    Q radius(0);
    for (long it = 0; it < iters; ++it) {
        QV y(n); for (size_t i = 0; i < n; ++i) for (size_t j = 0; j < n; ++j) y[i] += M[i][j] * b[j];
        radius = Q(0); Q nrm(0); for (size_t i = 0; i < n; ++i) { radius += qabs(y[i] * b[i]); nrm += y[i] * y[i]; }
        if (it + 1 == iters || nrm == 0) break;
        if (nrm < minnorm) minnorm = nrm;
        Q c = vq::sqrt(nrm); for (size_t i = 0; i < n; ++i) b[i] = y[i] / c;
    }
    return radius;
}
static bool parse_float(const Q &q, float &out) { float f = (float)q.v.get_d(); if (Q(f).v != q.v) return false; out = f; return true; }

static Result execute(const Toks &t) {
    Cur c(t); const std::string &op = t[0]; Result r;
#ifdef _OPENMP
    omp_set_num_threads(1);
#endif
    if (op == "pm_radius") {
        PmIn p; long s = c.nat(); if (s != 0 && s != 1) throw bad_input("scale"); p.sc = s == 1; p.iters = c.nat(); p.A = c.mat(); p.b0 = c.vec(); c.expect_end(); admit(p);
        long n = p.A.n; QV lib = library_b0(n);
        for (long i = 0; i < n; ++i) if (lib[i].v != p.b0[i].v) { r.fail("b0 of the op line is not the start vector of the library's generator"); break; }
        auto Ac = p.A.crs();
        Q est = p.sc ? amgcl::backend::spectral_radius<true>(*Ac, (int)p.iters) : amgcl::backend::spectral_radius<false>(*Ac, (int)p.iters);
        Dense M = scaled_dense(p.A, p.sc); Q minnorm; Q ref = power_ref(M, p.iters, p.b0, minnorm);
        if (est.poison) r.fail("estimate is poisoned (division by zero / NaN)");
        else {
            if (est.v != ref.v) r.fail("estimate != power iteration on the dense matrix");
            if (est < 0) r.fail("estimate is negative");
            Q n1(0), ni(0); for (long i = 0; i < n; ++i) { Q s1(0), s2(0); for (long j = 0; j < n; ++j) { s1 += qabs(M[i][j]); s2 += qabs(M[j][i]); } if (ni < s1) ni = s1; if (n1 < s2) n1 = s2; }
            if (n > 0 && !(minnorm < Q::frac(1, 1L << 20))) { r.tag("bound"); if (est * est > n1 * ni * (Q(1) + Q::frac(1, 1L << 10))) r.fail("estimate^2 exceeds ||M||_1 ||M||_inf >= sigma_max^2"); }
        }
        r.out = (Line() << est).get(); r.nontrivial = n > 1 && p.iters > 1 && p.A.col.size() > 0;
        r.tag(p.sc ? "power_scaled" : "power"); r.tag("iters" + std::to_string(p.iters)); if (est == 0) r.tag("zero_estimate");
    } else if (op == "pm_cheb_apply") {
        PmIn p; long deg = c.nat(); Q hi = c.rat(), lo = c.rat(); long s = c.nat(); if (deg < 0 || (s != 0 && s != 1)) throw bad_input("cheb"); p.sc = s == 1;
        p.iters = c.nat(); p.A = c.mat(); QV f = c.vec(); p.b0 = c.vec(); c.expect_end(); admit(p);
        long n = p.A.n; if ((long)f.size() != n) throw bad_input("shape");
        typedef amgcl::relaxation::chebyshev<Backend> Cheb; Cheb::params prm; float fh, fl; if (!parse_float(hi, fh) || !parse_float(lo, fl)) throw bad_input("float");
        prm.degree = (unsigned)deg; prm.higher = fh; prm.lower = fl; prm.power_iters = (int)p.iters; prm.scale = p.sc;
        QV lib = library_b0(n);
        for (long i = 0; i < n; ++i) if (lib[i].v != p.b0[i].v) { r.fail("b0 of the op line is not the start vector of the library's generator"); break; }
        auto Ac = p.A.crs(); Backend::params bprm; Cheb relax(*Ac, prm, bprm);
        NVec F = nvec(f), X(n); for (long i = 0; i < n; ++i) X[i] = Q::poisoned();
        relax.apply(*Ac, F, X); QV x = tovec(X);
        Q est = p.sc ? amgcl::backend::spectral_radius<true>(*Ac, (int)p.iters) : amgcl::backend::spectral_radius<false>(*Ac, (int)p.iters);
        Dense M = scaled_dense(p.A, p.sc); Q minnorm; Q rad = power_ref(M, p.iters, p.b0, minnorm);
        if (est.poison || est.v != rad.v) r.fail("radius != power iteration on the dense matrix");
        Q l = rad * lo, h = rad * hi, d = (h + l) / Q(2), cc = (h - l) / Q(2);
        // residual polynomial: r_deg = T_deg((d - M)/c) r0 / T_deg(d/c), r0 = (D^-1) f, by the three-term recurrence; the code's own
        // recurrence divides by quantities that vanish only if some T_k(d/c) = 0, k <= deg (or c = 0, d = 0): decided here
        bool anyp = false; for (long i = 0; i < n; ++i) if (x[i].poison) anyp = true;
        if (anyp) { if (deg >= 1) r.fail("apply left an output entry unwritten"); }
        else if (cc != 0 && d != 0 && deg >= 1) {
            Dense DA = dense(p.A); QV r0(n); for (long i = 0; i < n; ++i) r0[i] = p.sc ? f[i] / DA[i][i] : f[i];
            auto Z = [&](const QV &v) { QV y(n); for (long i = 0; i < n; ++i) { Q sm(0); for (long j = 0; j < n; ++j) sm += M[i][j] * v[j]; y[i] = (d * v[i] - sm) / cc; } return y; };
            QV t0 = r0, t1 = Z(r0); Q s0(1), s1 = d / cc; bool nz = s1 != 0;
            for (long k = 2; k <= deg; ++k) { QV z = Z(t1), t2(n); for (long i = 0; i < n; ++i) t2[i] = Q(2) * z[i] - t0[i]; Q s2 = Q(2) * (d / cc) * s1 - s0; t0 = t1; t1 = t2; s0 = s1; s1 = s2; if (s1 == 0) nz = false; }
            if (nz) { bool ok = true; for (long i = 0; i < n; ++i) { Q sm(0); for (long j = 0; j < n; ++j) sm += M[i][j] * x[j]; if ((r0[i] - sm).v != (t1[i] / s1).v) ok = false; }
                if (!ok) r.fail("cheb apply: residual != T_deg((d-M)/c) r0 / T_deg(d/c) with the ellipse of the power-method radius"); else r.tag("cheb_poly"); }
        }
        r.out = (Line() << est << x).get(); r.nontrivial = n > 1 && deg >= 1 && p.A.col.size() > (size_t)n;
        r.tag(p.sc ? "cheb_power_scaled" : "cheb_power"); r.tag("deg" + std::to_string(deg));
    } else r.out = "bad-op";
    return r;
}

static Mat pattern_mat(long n, unsigned long bits, int vshift) {
    static const long vals[] = { 1, -1, 2, -3, 5 };
    std::vector<std::vector<std::pair<long,Q>>> rows(n); int k = vshift;
    for (long i = 0; i < n; ++i) for (long j = 0; j < n; ++j) if (bits >> (i * n + j) & 1) rows[i].push_back({j, Q(vals[k++ % 5])});
    return from_rows(n, n, rows);
}

static void generate(Rng &rng, const Opts &o, std::vector<std::string> &lines) {
    long N = o.cases > 0 ? o.cases : (o.thorough() ? 900 : 150);
    for (long k = 0; k < N; ++k) {
        int fam = (int)rng.range(0, 5); long n = rng.range(1, o.thorough() ? 14 : 9); bool sc = rng.coin(); long iters = rng.range(1, o.thorough() ? 8 : 6);
        Mat A;
        if (fam == 0) A = gen_spd(rng, std::max<long>(n, 2));
        else if (fam == 1) A = gen_convdiff(rng, std::max<long>(n, 2));
        else if (fam == 2) { A = gen_sparse(rng, n, n, (int)rng.range(10, 70)); sc = false; if (rng.coin()) A = unsort(rng, A, rng.coin()); }       // general, unsorted, duplicates
        else if (fam == 3) { std::vector<std::vector<std::pair<long,Q>>> rows(n); for (long i = 0; i < n; ++i) rows[i].push_back({i, rng.coin(1, 6) && !sc ? Q(0) : rng.rat_nz(9)}); A = from_rows(n, n, rows); }   // diagonal
        else if (fam == 4) { std::vector<std::vector<std::pair<long,Q>>> rows(n); bool lower = rng.coin(); sc = false;                                  // strictly triangular: nilpotent
            for (long i = 0; i < n; ++i) for (long j = 0; j < n; ++j) if ((lower ? j < i : j > i) && rng.coin(1, 2)) rows[i].push_back({j, rng.integer(3)}); A = from_rows(n, n, rows); }
        else { A = gen_spd(rng, std::max<long>(n, 2)); Q s3 = rng.rat_nz(5); for (auto &v : A.val) v = v * s3; }
        if (fam != 2 && rng.coin(1, 3)) A = unsort(rng, A, false);
        lines.push_back((Line() << "pm_radius" << sc << iters << A << library_b0(A.n)).get());
    }
    // every pattern up to 3x3 (nilpotent / zero matrices make A*b0 vanish exactly: as found the estimate was NaN, fix 714f66b)
    for (long n = 1; n <= 3; ++n) for (unsigned long bits = 0; bits < (1ul << (n * n)); ++bits) {
        if (n == 3 && !o.thorough() && bits % 5 != 0) continue;
        lines.push_back((Line() << "pm_radius" << 0L << (long)(1 + bits % 5) << pattern_mat(n, bits, (int)(bits % 5)) << library_b0(n)).get());
    }
    // Chebyshev with the power-method radius
    const std::vector<float> his = { 1.0f, 1.1f, 1.5f }, los = { 1.0f / 30, 0.25f, 0.5f, 1.0f };
    for (long k = 0; k < (o.thorough() ? 200 : 40); ++k) {
        long n = rng.range(2, 7); bool sc = rng.coin(); Mat A = rng.coin() ? gen_spd(rng, n) : gen_convdiff(rng, n); n = A.n;
        if (rng.coin(1, 3)) A = unsort(rng, A, false);
        long deg = rng.range(0, 4), iters = rng.range(1, 4); Q hi(rng.pick(his)), lo(rng.pick(los));
        lines.push_back((Line() << "pm_cheb_apply" << deg << hi << lo << sc << iters << A << gen_vec(rng, n) << library_b0(n)).get());
    }
    // malformed stream
    lines.push_back("pm_radius 0 0 1 1 1 0 1 1 1/2");            // iters = 0
    lines.push_back("pm_radius 0 2 1 1 1 0 1 2 1/2 1/3");        // b0 longer than the matrix
    lines.push_back("pm_radius 1 2 2 2 1 1 1 1 1 1 2 1/2 1/3");  // scaled, row 0 has no diagonal entry
    lines.push_back("pm_radius 2 2 1 1 1 0 1 1 1/2");            // scale flag not 0/1
    lines.push_back("pm_cheb_apply 1 1 1/2 0 2 1 1 1 0 1 2 1 1 1 1/2");   // f longer than the matrix
}

VH_MAIN(generate, execute)
