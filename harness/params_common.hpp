// C14 — shared plumbing of the params harnesses (h_params.cpp, h_params_mpi.cpp, probe_params_deflated.cpp).
//
// MUST be the first include of the translation unit: it redefines AMGCL_PARAM_UNKNOWN *before* any amgcl header is
// seen, so that every unknown-key report of the real `check_params` is recorded instead of printed.
//
// A harness registers, per params struct, the REAL C++ type (instantiated at backend::builtin<double>) and — written
// by hand from the documentation comments of the struct — its data members.  The member kind and the candidate
// values are derived from the member's C++ type (decltype), nothing is taken from the generated Lean table: the
// registry is the independent statement of "the documented parameters" the oracle judges the implementation by.
#pragma once
#include <string>
#include <vector>
namespace vp { inline std::vector<std::string>& unknown_log() { static std::vector<std::string> v; return v; } }
#ifdef AMGCL_PARAM_UNKNOWN
#  error "params_common.hpp must be included before any amgcl header"
#endif
#define AMGCL_PARAM_UNKNOWN(name) ::vp::unknown_log().push_back(name)

#include "proto.hpp"
#include <boost/property_tree/ptree.hpp>
#include <functional>
#include <type_traits>
#include <cstdio>

namespace vp {
using boost::property_tree::ptree;
using vh::Result; using vh::Toks; using vh::bad_input;

// ---------------------------------------------------------------- member kind / candidate values from the C++ type
template <class T> struct is_container : std::false_type {};
template <class T, class A> struct is_container<std::vector<T, A>> : std::true_type {};
template <class S> struct is_container<std::function<S>> : std::true_type {};

template <class T> std::string kind_of() {
    if (std::is_pointer<T>::value || is_container<T>::value) return "pointer";
    if (std::is_enum<T>::value) return "enum";
    if (std::is_arithmetic<T>::value) return "value";
    return "child";
}
// values whose text form is canonical for boost's stream translator (integers, true/false, dyadic decimals)
template <class T> std::vector<std::string> candidates_of() {
    if (std::is_same<T, bool>::value) return {"true", "false"};
    if (std::is_pointer<T>::value) return {"0x10", "0x20", "0x1f40"};
    if (std::is_integral<T>::value) return {"2", "3", "5", "7", "11", "64"};
    if (std::is_floating_point<T>::value) return {"0.5", "0.25", "0.125", "0.75", "1.5", "2.5"};
    return {};
}

struct FieldReg {
    std::string name, kind;
    std::vector<std::string> cand;      // non-empty = participates in the value round trip
    bool export_exempt = false;         // documented as not written back (nullspace_params.cols)
    std::string enum_name;              // for kind enum: the run-time enum whose names are the legal values
};

struct StructReg {
    std::string name;
    std::vector<FieldReg> fields;
    std::vector<std::pair<std::string, std::string>> required;   // keys without which the constructor throws
    std::vector<std::string> companions;   // documented non-member keys (sizes / patterns of pointer members)
    std::vector<std::string> tolerated;    // keys accepted on purpose although nothing reads them (see PTree.lean)
    bool external = false;                 // executed by a separately compiled probe (struct may not compile)
    std::string probe_id;                  // -DVP_PROBE_<id> of probe_params.cpp
    std::function<ptree(const ptree&)> roundtrip;   // params(p) followed by get(out, "")
    const FieldReg* field(const std::string &n) const { for (auto &f : fields) if (f.name == n) return &f; return nullptr; }
    bool knows(const std::string &k) const {
        if (field(k)) return true;
        for (auto &c : companions) if (c == k) return true;
        for (auto &c : tolerated) if (c == k) return true;
        for (auto &c : required) if (c.first == k) return true;
        return false;
    }
};

inline std::vector<StructReg>& registry() { static std::vector<StructReg> r; return r; }
inline const StructReg* find_struct(const std::string &n) { for (auto &s : registry()) if (s.name == n) return &s; return nullptr; }

template <class P> StructReg& reg(const std::string &name) {
    StructReg s; s.name = name;
    s.roundtrip = [](const ptree &in) { P prm(in); ptree out; prm.get(out, std::string()); return out; };
    registry().push_back(s);
    return registry().back();
}
struct RegExternal {};
inline StructReg& reg_external(const std::string &name) { StructReg s; s.name = name; s.external = true; registry().push_back(s); return registry().back(); }

template <class P, class C, class T> void add_field(StructReg &s, const char *name, T C::*, const char *enum_name = "") {
    FieldReg f; f.name = name; f.kind = kind_of<T>(); f.enum_name = enum_name;
    if (f.kind == "value" || (f.kind == "pointer" && std::is_pointer<T>::value)) f.cand = candidates_of<T>();
    s.fields.push_back(f);
}
#define VP_F(S, P, name)            ::vp::add_field<P>(S, #name, &P::name)
#define VP_FE(S, P, name, ename)    ::vp::add_field<P>(S, #name, &P::name, ename)

// ---------------------------------------------------------------- enum registry
struct EnumReg {
    std::string name;
    std::vector<std::string> idents;                                 // enumerator identifiers, declaration order
    std::function<std::string(const std::string&)> print;            // ident -> operator<< text ("" if unknown ident)
    std::function<std::string(const std::string&)> parse;            // text -> ident | "invalid" | "?" (no such ident)
};
inline std::vector<EnumReg>& enums() { static std::vector<EnumReg> r; return r; }
inline const EnumReg* find_enum(const std::string &n) { for (auto &e : enums()) if (e.name == n) return &e; return nullptr; }

template <class E> void reg_enum(const std::string &name, std::vector<std::pair<std::string, E>> vals) {
    EnumReg r; r.name = name;
    for (auto &v : vals) r.idents.push_back(v.first);
    r.print = [vals](const std::string &id) { for (auto &v : vals) if (v.first == id) { std::ostringstream s; s << v.second; return s.str(); } return std::string(); };
    r.parse = [vals](const std::string &txt) {
        std::istringstream s(txt); E e;
        try { s >> e; } catch (const std::invalid_argument&) { return std::string("invalid"); }
        for (auto &v : vals) if (v.second == e) return v.first;
        return std::string("?");
    };
    enums().push_back(r);
}
#define VP_E(ns, x) { #x, ns::x }

// ---------------------------------------------------------------- the struct-level operations
inline ptree base_tree(const StructReg &S) { ptree p; for (auto &r : S.required) p.put(r.first, r.second); return p; }

inline std::string keys_line(const std::vector<std::string> &v) { vh::Line l; l << v.size(); for (auto &s : v) l << s; return l.get(); }

// returns false if `op` is not a struct-level op
inline bool struct_op(const Toks &t, Result &r) {
    const std::string &op = t[0];
    vh::Cur c(t);
    if (op == "params_fields") {
        const std::string s = c.tok(); c.expect_end();
        const StructReg *S = find_struct(s); if (!S) throw bad_input("struct");
        std::vector<std::string> v; for (auto &f : S->fields) v.push_back(f.name + ":" + f.kind);
        std::sort(v.begin(), v.end());
        r.out = keys_line(v); r.nontrivial = !v.empty(); r.tag("fields");
        return true;
    }
    if (op == "params_roundtrip") {
        const std::string s = c.tok(), f = c.tok(), v = c.tok(); c.expect_end();
        const StructReg *S = find_struct(s); if (!S) throw bad_input("struct");
        const FieldReg *F = S->field(f); if (!F || F->kind == "child") throw bad_input("field");
        ptree in = base_tree(*S); in.put(f, v);
        unknown_log().clear();
        bool legal_enum = true;
        if (F->kind == "enum") {
            const EnumReg *E = find_enum(F->enum_name); if (!E) throw bad_input("enum");
            legal_enum = false;
            for (auto &id : E->idents) if (E->print(id) == v) legal_enum = true;
        }
        try {
            ptree out = S->roundtrip(in), dout = S->roundtrip(base_tree(*S));
            auto o = out.get_optional<std::string>(f), d = dout.get_optional<std::string>(f);
            if (!o) r.out = "not-exported";
            else if (*o == v) r.out = f + "=" + v;
            else if (d && *o == *d) r.out = f + "=default";
            else r.out = f + "=" + *o;
            r.nontrivial = !(d && *d == v);
            if (!legal_enum) r.fail("struct " + s + " field " + f + ": invalid enumeration value '" + v + "' accepted without exception");
            else if (F->export_exempt) { if (o) r.fail("struct " + s + " field " + f + ": documented as not exported but export contains it"); }
            else if (!F->cand.empty() || F->kind == "enum") {
                if (!o) r.fail("struct " + s + " field " + f + ": set to " + v + " through the property tree but missing from the export list (get does not write it back)");
                else if (*o != v) r.fail("struct " + s + " field " + f + ": set to " + v + " through the property tree but exported as " + *o + (d && *o == *d ? " (the default: missing from the import list)" : ""));
            }
            for (auto &u : unknown_log()) if (u == f) r.fail("struct " + s + " field " + f + ": valid key reported as unknown (missing from the check_params list)");
        } catch (const std::invalid_argument &e) {
            r.out = "invalid";
            if (legal_enum) r.fail("struct " + s + " field " + f + " = " + v + ": std::invalid_argument");
        } catch (const std::exception &e) {
            r.out = "exception"; r.fail("struct " + s + " field " + f + " = " + v + ": exception " + std::string(e.what()).substr(0, 80));
        }
        r.tag("roundtrip").tag("kind_" + F->kind);
        return true;
    }
    if (op == "params_nested") {
        // params_nested Root c1=T1 … ck=Tk field value : nested configuration along a chain of child members
        if (t.size() < 4) throw bad_input("args");
        const StructReg *S = find_struct(t[1]); if (!S || S->external) throw bad_input("struct");
        const std::string f = t[t.size() - 2], v = t.back();
        const StructReg *cur = S; std::string dotted;
        for (size_t i = 2; i + 2 < t.size(); ++i) {
            size_t eq = t[i].find('='); if (eq == std::string::npos || t[i].find('=', eq + 1) != std::string::npos) throw bad_input("chain");
            std::string cn = t[i].substr(0, eq), tn = t[i].substr(eq + 1);
            const FieldReg *C = cur->field(cn); if (!C || C->kind != "child") throw bad_input("child");
            cur = find_struct(tn); if (!cur || cur->external) throw bad_input("table");
            dotted += cn + ".";
        }
        const FieldReg *F = cur->field(f); if (!F || F->kind == "child") throw bad_input("field");
        dotted += f;
        ptree in = base_tree(*S); in.put(dotted, v);
        unknown_log().clear();
        try {
            ptree out = S->roundtrip(in), dout = S->roundtrip(base_tree(*S));
            auto o = out.get_optional<std::string>(dotted), d = dout.get_optional<std::string>(dotted);
            if (!o) r.out = "not-exported";
            else if (*o == v) r.out = dotted + "=" + v;
            else if (d && *o == *d) r.out = dotted + "=default";
            else r.out = dotted + "=" + *o;
            r.nontrivial = !(d && *d == v) && t.size() > 4;
            if (!F->export_exempt && (!F->cand.empty() || F->kind == "enum") && r.out != dotted + "=" + v)
                r.fail("struct " + t[1] + " nested key " + dotted + ": set to " + v + " through the property tree but the export gives " + r.out);
            for (auto &u : unknown_log()) r.fail("struct " + t[1] + " nested key " + dotted + ": key " + u + " reported as unknown");
        } catch (const std::exception &e) { r.out = "exception"; r.fail("struct " + t[1] + " nested key " + dotted + ": exception " + std::string(e.what()).substr(0, 80)); }
        r.tag("nested").tag("depth_" + std::to_string(t.size() - 4));
        return true;
    }
    if (op == "params_export_keys") {
        const std::string s = c.tok(); c.expect_end();
        const StructReg *S = find_struct(s); if (!S) throw bad_input("struct");
        try {
            ptree out = S->roundtrip(base_tree(*S));
            std::vector<std::string> v; for (auto &kv : out) if (!kv.second.data().empty()) v.push_back(kv.first);
            r.out = keys_line(v); r.nontrivial = !v.empty();
            for (auto &f : S->fields) if ((f.kind == "value" || f.kind == "enum") && !f.export_exempt && std::find(v.begin(), v.end(), f.name) == v.end())
                r.fail("struct " + s + " field " + f.name + ": missing from the export list (default-constructed params export has no such key)");
        } catch (const std::exception &e) { r.out = "exception"; r.fail("struct " + s + ": exception " + std::string(e.what()).substr(0, 80)); }
        r.tag("export_keys");
        return true;
    }
    if (op == "params_unknown") {
        const std::string s = c.tok(), k = c.tok(); c.expect_end();
        const StructReg *S = find_struct(s); if (!S) throw bad_input("struct");
        ptree in = base_tree(*S);
        if (!in.get_child_optional(k)) {
            // a legal value if the key is a documented member, "1" otherwise
            std::string val = "1";
            if (const FieldReg *F = S->field(k)) {
                if (!F->cand.empty()) val = F->cand[0];
                else if (F->kind == "enum") { const EnumReg *E = find_enum(F->enum_name); if (E && !E->idents.empty()) val = E->print(E->idents[0]); }
                else if (F->kind != "child") val = "0";     // null pointer / size companion of a null pointer
            }
            in.put(k, val);
        }
        unknown_log().clear();
        try {
            S->roundtrip(in);
            bool rep = std::find(unknown_log().begin(), unknown_log().end(), k) != unknown_log().end();
            r.out = rep ? "reported" : "accepted";
            if (S->knows(k) && rep) r.fail("struct " + s + " key " + k + ": valid key reported as unknown (missing from the check_params list)");
            if (!S->knows(k) && !rep) r.fail("struct " + s + " key " + k + ": a key no component understands is silently accepted (not reported through AMGCL_PARAM_UNKNOWN)");
            for (auto &u : unknown_log()) if (u != k) r.fail("struct " + s + ": key " + u + " reported as unknown although only " + k + " was added");
        } catch (const std::exception &e) { r.out = "exception"; r.fail("struct " + s + " key " + k + ": exception " + std::string(e.what()).substr(0, 80)); }
        r.nontrivial = true; r.tag(S->knows(k) ? "known_key" : "extra_key");
        return true;
    }
    return false;
}

inline bool enum_text_op(const Toks &t, Result &r) {
    const std::string &op = t[0];
    vh::Cur c(t);
    if (op == "params_enum_print") {
        const std::string e = c.tok(), id = c.tok(); c.expect_end();
        const EnumReg *E = find_enum(e); if (!E) throw bad_input("enum");
        std::string s = E->print(id); if (s.empty()) throw bad_input("ident");
        r.out = s; r.nontrivial = true; r.tag("enum_print");
        std::string back = E->parse(s);
        if (back != id) r.fail("enum " + e + " value " + id + ": operator<< prints '" + s + "' which operator>> maps to " + back + " (misspelt name in one of the two tables)");
        return true;
    }
    if (op == "params_enum_parse") {
        const std::string e = c.tok(), s = c.tok(); c.expect_end();
        const EnumReg *E = find_enum(e); if (!E) throw bad_input("enum");
        r.out = E->parse(s); r.nontrivial = true;
        bool printed = false; for (auto &id : E->idents) if (E->print(id) == s) printed = true;
        if (!printed && r.out != "invalid") r.fail("enum " + e + ": the string '" + s + "' is not the name of any value but is accepted as " + r.out);
        if (printed && r.out == "invalid") r.fail("enum " + e + ": the printed name '" + s + "' is rejected by operator>>");
        r.tag(printed ? "enum_parse_valid" : "enum_parse_invalid");
        return true;
    }
    return false;
}

// ---------------------------------------------------------------- op-line generation shared by the harnesses
inline void gen_struct_ops(vh::Rng &rng, bool thorough, std::vector<std::string> &lines) {
    static const std::vector<std::string> extra = {"foo", "tolerance", "max_iter", "block", "type", "class", "nvecs", "eps", "Damping", "solver_", "x"};
    for (auto &S : registry()) {
        lines.push_back("params_compiles " + S.name);
        lines.push_back("params_fields " + S.name);
        lines.push_back("params_export_keys " + S.name);
        for (auto &f : S.fields) {
            if (f.kind == "child") continue;
            std::vector<std::string> vals = f.cand;
            if (f.kind == "enum") { const EnumReg *E = find_enum(f.enum_name); if (E) for (auto &id : E->idents) vals.push_back(E->print(id)); vals.push_back("no_such_name"); vals.push_back(f.name); }
            if (vals.empty()) continue;
            if (thorough || f.kind == "enum") for (auto &v : vals) lines.push_back("params_roundtrip " + S.name + " " + f.name + " " + v);
            else for (int k = 0; k < 2; ++k) lines.push_back("params_roundtrip " + S.name + " " + f.name + " " + rng.pick(vals));
        }
        for (auto &f : S.fields) lines.push_back("params_unknown " + S.name + " " + f.name);
        for (auto &k : S.companions) lines.push_back("params_unknown " + S.name + " " + k);
        for (auto &k : S.tolerated) lines.push_back("params_unknown " + S.name + " " + k);
        // keys nobody understands: fixed near-misses, a misspelt member, a member of some other struct
        std::vector<std::string> ex;
        for (int k = 0; k < (thorough ? 6 : 3); ++k) ex.push_back(rng.pick(extra));
        if (!S.fields.empty()) { ex.push_back(rng.pick(S.fields).name + "s"); ex.push_back("_" + rng.pick(S.fields).name); }
        for (int k = 0; k < (thorough ? 8 : 3); ++k) { auto &O = rng.pick(registry()); if (!O.fields.empty()) ex.push_back(rng.pick(O.fields).name); }
        ex.push_back("k" + std::to_string(rng.range(0, 999)));
        for (auto &k : ex) lines.push_back("params_unknown " + S.name + " " + k);
    }
}
// nested paths: `chain` = "Root c1=T1 … ck=Tk field"; values are the candidates of the final member
inline void gen_nested_ops(vh::Rng &rng, bool thorough, const std::vector<std::string> &chains, std::vector<std::string> &lines) {
    for (auto &ch : chains) {
        Toks t = vh::split(ch);
        const std::string last = t.size() > 2 ? t[t.size() - 2].substr(t[t.size() - 2].find('=') + 1) : t[0];
        const StructReg *L = find_struct(last); const FieldReg *F = L ? L->field(t.back()) : nullptr;
        std::vector<std::string> vals = F ? F->cand : std::vector<std::string>();
        if (F && F->kind == "enum") { const EnumReg *E = find_enum(F->enum_name); if (E) for (auto &id : E->idents) vals.push_back(E->print(id)); }
        if (vals.empty()) vals.push_back("1");
        if (thorough) for (auto &v : vals) lines.push_back("params_nested " + ch + " " + v);
        else lines.push_back("params_nested " + ch + " " + rng.pick(vals));
    }
    lines.push_back("params_nested make_solver precond=no_such_table x 1");
    lines.push_back("params_nested make_solver");
}
inline void gen_enum_text_ops(vh::Rng &rng, bool thorough, std::vector<std::string> &lines) {
    for (auto &E : enums()) {
        for (auto &id : E.idents) { lines.push_back("params_enum_print " + E.name + " " + id); lines.push_back("params_enum_parse " + E.name + " " + E.print(id)); lines.push_back("params_enum_parse " + E.name + " " + id); }
        std::vector<std::string> bad = {"???", "none", "CG", "amg_", "0", "1"};
        for (auto &id : E.idents) { bad.push_back(id + "x"); bad.push_back(id.substr(0, id.size() - 1)); }
        for (auto &O : enums()) if (O.name != E.name) bad.push_back(rng.pick(O.idents));
        for (size_t k = 0; k < bad.size(); ++k) if (thorough || k < 6 || rng.coin(1, 3)) lines.push_back("params_enum_parse " + E.name + " " + bad[k]);
    }
}
inline void gen_malformed(std::vector<std::string> &lines) {
    lines.push_back("params_roundtrip no_such_struct x 1");
    lines.push_back("params_roundtrip");
    lines.push_back("params_unknown detail::empty_params");
    lines.push_back("params_enum_print no_such_enum cg");
    lines.push_back("params_fields");
    lines.push_back("params_compiles no_such_struct");
    lines.push_back("params_export_keys a b");
}

} // namespace vp
