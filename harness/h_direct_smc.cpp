// C16 harness, part 3: amgcl::static_matrix<std::complex<Q>,N,M> arithmetic (N, M <= 4, incl. rectangular) and
// amgcl::detail::inverse<std::complex<Q>> at the exact Gaussian rationals (harness/cq.hpp).
// Ops, oracles and generators: harness/direct_sm.hpp (shared with h_direct_sm.cpp); model side: lean/Amgcl/Driver/DirectC.lean.
#include "direct_sm.hpp"

static Result execute(const Toks &t) {
    Cur c(t);
    const std::string &op = t[0];
    for (auto &k : sm_kinds()) if (op == "direct_smc_" + k) return run_sm<CQ>(op, k, c);
    if (op == "direct_invc_dense") return run_invc(c);
    Result r; r.out = "bad-op"; return r;
}

static void generate(Rng &rng, const Opts &o, std::vector<std::string> &lines) {
    const bool T = o.thorough();
    long scale = o.cases > 0 ? o.cases : (T ? 10 : 1);
    gen_family(rng, lines, true, 60 * scale);
    // every shape once with dense complex entries (the adjoint / inner-product conventions depend on the shape only through the loops)
    for (long N = 1; N <= 4; ++N) for (long M = 1; M <= 4; ++M) { ElGen g{rng, true, 1};
        { Line l; l << "direct_smc_adj" << N << M; g.put_n(l, N * M + M + N, 0); lines.push_back(l.get()); }
        { Line l; l << "direct_smc_lin" << N << M; g.put(l, 0); g.put_n(l, 2 * N * M, 0); lines.push_back(l.get()); }
        { Line l; l << "direct_smc_inner" << N << M; g.put_n(l, 2 * N * M, 0); lines.push_back(l.get()); } }
    // detail::inverse on complex buffers, random workspaces
    for (long k = 0; k < 40 * scale; ++k) {
        long n = rng.range(1, T ? 8 : 6); int fam = (int)rng.range(0, 4); std::vector<CQ> A(n * n);
        for (int tries = 0; tries < 50; ++tries) {
            if (fam == 0) A = gen_cq(rng, n * n, 1, 5);
            else if (fam == 1) A = gen_cq(rng, n * n, 3, 30);                                          // many magnitude ties and zeros
            else if (fam == 2) A = gen_cq(rng, n * n, (int)rng.range(1, 4), 60);                       // sparse: zero leading entries force row exchanges
            else if (fam == 3) { std::vector<long> p(n); std::iota(p.begin(), p.end(), 0L); for (long i = n; i > 1; --i) std::swap(p[i-1], p[rng.range(0, i - 1)]);
                                 for (auto &x : A) x = CQ(Q(0), Q(0)); for (long i = 0; i < n; ++i) { A[i * n + p[i]] = gen_cq(rng, 1, 4, 0)[0]; for (long j = p[i] + 1; j < n; ++j) if (rng.coin(1, 3)) A[i * n + j] = gen_cq(rng, 1, 1, 0)[0]; } }
            else A = gen_cq(rng, n * n, 4, 10);                                                        // Gaussian integers: exact and tied magnitudes (|3+4i| = |5| = |-5i|)
            if (rank_t(rm_dense_t(n, n, A)) == n) break;
            for (long i = 0; i < n; ++i) A[i * n + i] += CQ(Q(7), Q(-2));
        }
        if (rank_t(rm_dense_t(n, n, A)) < n) continue;
        std::vector<long> p(n); for (auto &v : p) v = rng.range(0, 40);
        Line l; l << "direct_invc_dense" << n; putcv(l, A); putcv(l, gen_cq(rng, n * n, 1, 10)); l << p; lines.push_back(l.get());
    }
    // malformed stream: both sides must answer bad-input
    lines.push_back("direct_smc_adj 1 1 1 2 3 4 5");             // half a complex number
    lines.push_back("direct_smc_lin 0 2 1 1");                   // dimension out of range
    lines.push_back("direct_smc_inverse 1 1 0 0");               // trailing token
    lines.push_back("direct_smc_assoc 3 3 3 2 1 0");             // shape outside the instantiated set
    lines.push_back("direct_invc_dense 2 4 1 0 0 0 0 0 1 0 3 0 0 0 0 0 0 2 0 0"); // t too short
}

VH_MAIN(generate, execute)
