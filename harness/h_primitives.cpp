// C07 harness: backend primitives of the builtin backend at the exact rational type Q.
// Ops (same text is fed to the Lean model):
//   spmv a A x b y | residual f A x | axpby a x b y | axpbypcz a x b y c z | vmul a x y b z
//   copy x | clear n | lin_comb n (c v)* alpha y | inner_product nt x y
// POISON may occur in an output vector whose coefficient is zero; the result must then be poison-free.
#include "gen.hpp"
#include <amgcl/backend/builtin.hpp>
#include <amgcl/value_type/interface.hpp>
#ifdef _OPENMP
#include <omp.h>
#endif
using namespace vh;

static bool has_poison(const NVec &v) { for (size_t i = 0; i < v.size(); ++i) if (v[i].poison) return true; return false; }
static bool has_poison(const std::vector<Q> &v) { for (auto &x : v) if (x.poison) return true; return false; }
static bool same(const NVec &a, const std::vector<Q> &b) {
    if (a.size() != b.size()) return false;
    for (size_t i = 0; i < b.size(); ++i) { if (a[i].poison != b[i].poison) return false; if (!a[i].poison && a[i].v != b[i].v) return false; }
    return true;
}

static Result execute(const Toks &t) {
    Cur c(t);
    const std::string &op = t[0];
    Result r;
    if (op == "spmv") {
        Q a = c.rat(); auto A = c.mat(); auto x = c.vec(); Q b = c.rat(); auto y = c.vec(); c.expect_end();
        std::string why; auto Ac = A.crs();
        if (!crs_wf(*Ac, why) || (long)x.size() != A.m || (long)y.size() != A.n) throw bad_input("shape");
        NVec X = nvec(x), Y = nvec(y);
        amgcl::backend::spmv(a, *Ac, X, b, Y);
        // oracle: dense recomputation of the defining formula
        Dense D = dense(A); std::vector<Q> ref = dmv(D, x);
        for (long i = 0; i < A.n; ++i) ref[i] = (b == 0) ? a * ref[i] : a * ref[i] + b * y[i];
        if (!same(Y, ref)) r.fail("spmv != alpha*A*x + beta*y");
        if (b == 0 && has_poison(Y) && !has_poison(x) && !a.poison) r.fail("beta = 0 but old output leaked");
        r.out = (Line() << Y).get();
        r.nontrivial = A.n > 0 && A.col.size() > 0;
        r.tag(b == 0 ? "beta0" : (b == 1 ? "beta1" : "beta")); if (has_poison(y)) r.tag("poison");
        bool empty_row = false; for (long i = 0; i < A.n; ++i) if (A.ptr[i] == A.ptr[i+1]) empty_row = true; if (empty_row) r.tag("emptyrow");
        if (A.n != A.m) r.tag("rect");
    } else if (op == "residual") {
        auto f = c.vec(); auto A = c.mat(); auto x = c.vec(); c.expect_end();
        std::string why; auto Ac = A.crs();
        if (!crs_wf(*Ac, why) || (long)x.size() != A.m || (long)f.size() != A.n) throw bad_input("shape");
        NVec F = nvec(f), X = nvec(x), R(A.n);
        for (long i = 0; i < A.n; ++i) R[i] = Q::poisoned();       // output must be overwritten
        amgcl::backend::residual(F, *Ac, X, R);
        std::vector<Q> ref = dmv(dense(A), x); for (long i = 0; i < A.n; ++i) ref[i] = f[i] - ref[i];
        if (!same(R, ref)) r.fail("residual != f - A*x");
        r.out = (Line() << R).get(); r.nontrivial = A.col.size() > 0; r.tag("residual");
    } else if (op == "axpby") {
        Q a = c.rat(); auto x = c.vec(); Q b = c.rat(); auto y = c.vec(); c.expect_end();
        if (x.size() != y.size()) throw bad_input("shape");
        NVec X = nvec(x), Y = nvec(y);
        amgcl::backend::axpby(a, X, b, Y);
        std::vector<Q> ref(x.size()); for (size_t i = 0; i < x.size(); ++i) ref[i] = (b == 0) ? a * x[i] : a * x[i] + b * y[i];
        if (!same(Y, ref)) r.fail("axpby formula");
        if (b == 0 && has_poison(Y)) r.fail("b = 0 but old output leaked");
        r.out = (Line() << Y).get(); r.nontrivial = x.size() > 0; r.tag(b == 0 ? "beta0" : "beta");
    } else if (op == "axpbypcz") {
        Q a = c.rat(); auto x = c.vec(); Q b = c.rat(); auto y = c.vec(); Q cc = c.rat(); auto z = c.vec(); c.expect_end();
        if (x.size() != y.size() || x.size() != z.size()) throw bad_input("shape");
        NVec X = nvec(x), Y = nvec(y), Z = nvec(z);
        amgcl::backend::axpbypcz(a, X, b, Y, cc, Z);
        std::vector<Q> ref(x.size()); for (size_t i = 0; i < x.size(); ++i) ref[i] = (cc == 0) ? a * x[i] + b * y[i] : a * x[i] + b * y[i] + cc * z[i];
        if (!same(Z, ref)) r.fail("axpbypcz formula");
        if (cc == 0 && has_poison(Z)) r.fail("c = 0 but old output leaked");
        r.out = (Line() << Z).get(); r.nontrivial = x.size() > 0; r.tag(cc == 0 ? "beta0" : "beta");
    } else if (op == "vmul") {
        Q a = c.rat(); auto x = c.vec(); auto y = c.vec(); Q b = c.rat(); auto z = c.vec(); c.expect_end();
        if (x.size() != y.size() || x.size() != z.size()) throw bad_input("shape");
        NVec X = nvec(x), Y = nvec(y), Z = nvec(z);
        amgcl::backend::vmul(a, X, Y, b, Z);
        std::vector<Q> ref(x.size()); for (size_t i = 0; i < x.size(); ++i) ref[i] = (b == 0) ? a * x[i] * y[i] : a * x[i] * y[i] + b * z[i];
        if (!same(Z, ref)) r.fail("vmul formula");
        if (b == 0 && has_poison(Z)) r.fail("b = 0 but old output leaked");
        r.out = (Line() << Z).get(); r.nontrivial = x.size() > 0; r.tag(b == 0 ? "beta0" : "beta");
    } else if (op == "copy") {
        auto x = c.vec(); c.expect_end();
        NVec X = nvec(x), Y(x.size()); for (size_t i = 0; i < x.size(); ++i) Y[i] = Q::poisoned();
        amgcl::backend::copy(X, Y);
        if (!same(Y, x)) r.fail("copy");
        r.out = (Line() << Y).get(); r.nontrivial = x.size() > 0; r.tag("copy");
    } else if (op == "clear") {
        long n = c.nat(); c.expect_end(); if (n < 0) throw bad_input("n");
        NVec Y(n); for (long i = 0; i < n; ++i) Y[i] = Q::poisoned();
        amgcl::backend::clear(Y);
        if (!same(Y, std::vector<Q>(n, Q(0)))) r.fail("clear");
        r.out = (Line() << Y).get(); r.nontrivial = n > 0; r.tag("clear");
    } else if (op == "lin_comb") {
        long n = c.nat(); if (n < 1) throw bad_input("n");
        std::vector<Q> cs(n); std::vector<std::vector<Q>> vs(n);
        for (long i = 0; i < n; ++i) { cs[i] = c.rat(); vs[i] = c.vec(); }
        Q alpha = c.rat(); auto y = c.vec(); c.expect_end();
        for (auto &v : vs) if (v.size() != y.size()) throw bad_input("shape");
        std::vector<std::shared_ptr<NVec>> V; for (auto &v : vs) V.push_back(std::make_shared<NVec>(v));   // numa_vector is not copyable (implicit shallow copy): construct in place
        NVec Y = nvec(y);
        amgcl::backend::lin_comb(n, cs, V, alpha, Y);
        std::vector<Q> ref(y.size());
        for (size_t i = 0; i < y.size(); ++i) { Q s = (alpha == 0) ? cs[0] * vs[0][i] : cs[0] * vs[0][i] + alpha * y[i]; for (long k = 1; k < n; ++k) s += cs[k] * vs[k][i]; ref[i] = s; }
        if (!same(Y, ref)) r.fail("lin_comb formula");
        if (alpha == 0 && has_poison(Y)) r.fail("alpha = 0 but old output leaked");
        r.out = (Line() << Y).get(); r.nontrivial = y.size() > 0 && n > 1; r.tag("lin_comb" + std::to_string(n));
    } else if (op == "inner_product") {
        long nt = c.nat(); auto x = c.vec(); auto y = c.vec(); c.expect_end();
        if (x.size() != y.size() || nt < 1) throw bad_input("shape");
#ifdef _OPENMP
        omp_set_num_threads((int)nt);
#endif
        NVec X = nvec(x), Y = nvec(y);
        Q s = amgcl::backend::inner_product(X, Y);
        Q ref(0); for (size_t i = 0; i < x.size(); ++i) ref += x[i] * y[i];
        if (s.v != ref.v) r.fail("inner_product != sum x_i*y_i");
#ifdef _OPENMP
        omp_set_num_threads(1);
#endif
        r.out = (Line() << s).get(); r.nontrivial = x.size() > 1; r.tag(nt > 1 ? "ip_parallel" : "ip_serial");
    } else {
        r.out = "bad-op";
    }
    return r;
}

static void generate(Rng &rng, const Opts &o, std::vector<std::string> &lines) {
    long N = o.cases > 0 ? o.cases : (o.thorough() ? 4000 : 400);
    const std::vector<Q> coefs = { Q(0), Q(1), Q(-1), Q::frac(2, 3), Q(2) };
    auto coef = [&]() { return rng.coin(3, 4) ? rng.pick(coefs) : rng.rat(); };
    auto poisoned = [&](std::vector<Q> v) { for (auto &x : v) if (rng.coin()) x = Q::poisoned(); return v; };
    for (long k = 0; k < N; ++k) {
        int which = (int)rng.range(0, 8);
        long n = rng.range(0, o.thorough() ? 64 : 24), m = rng.coin(1, 3) ? rng.range(0, 24) : n;
        Line l;
        if (which == 0) {
            Mat A = gen_sparse(rng, n, m, (int)rng.range(0, 60)); if (rng.coin(1, 3)) A = unsort(rng, A, rng.coin());
            Q b = coef(); auto y = gen_vec(rng, n); if (b == 0 && rng.coin(2, 3)) y = poisoned(y);
            l << "spmv" << coef() << A << gen_vec(rng, m) << b << y;
        } else if (which == 1) {
            Mat A = gen_sparse(rng, n, m, (int)rng.range(0, 60)); if (rng.coin(1, 3)) A = unsort(rng, A, rng.coin());
            l << "residual" << gen_vec(rng, n) << A << gen_vec(rng, m);
        } else if (which == 2) {
            Q b = coef(); auto y = gen_vec(rng, n); if (b == 0 && rng.coin(2, 3)) y = poisoned(y);
            l << "axpby" << coef() << gen_vec(rng, n) << b << y;
        } else if (which == 3) {
            Q cc = coef(); auto z = gen_vec(rng, n); if (cc == 0 && rng.coin(2, 3)) z = poisoned(z);
            l << "axpbypcz" << coef() << gen_vec(rng, n) << coef() << gen_vec(rng, n) << cc << z;
        } else if (which == 4) {
            Q b = coef(); auto z = gen_vec(rng, n); if (b == 0 && rng.coin(2, 3)) z = poisoned(z);
            l << "vmul" << coef() << gen_vec(rng, n) << gen_vec(rng, n) << b << z;
        } else if (which == 5) {
            l << "copy" << gen_vec(rng, n);
        } else if (which == 6) {
            l << "clear" << n;
        } else if (which == 7) {
            long cnt = rng.range(1, 6); l << "lin_comb" << cnt;
            for (long i = 0; i < cnt; ++i) { l << coef(); l << gen_vec(rng, n); }
            Q a = coef(); auto y = gen_vec(rng, n); if (a == 0 && rng.coin(2, 3)) y = poisoned(y);
            l << a << y;
        } else {
            static const std::vector<long> nts = { 1, 1, 2, 3, 4, 5, 8, 16, 17, 33 };
            l << "inner_product" << rng.pick(nts) << gen_vec(rng, n) << gen_vec(rng, n);
        }
        lines.push_back(l.get());
    }
    // malformed stream: both sides must answer bad-input
    lines.push_back("spmv 1 2 2 1 5 1 0 2 1 2 0 2 0 0");          // column 5 in a 2-column matrix
    lines.push_back("axpby 1 2 1 2 1 3 1 2 3");                     // size mismatch
    lines.push_back("residual 1 1 2 2 1 0 1 1 1 1 2 1 2");          // f too short
}

VH_MAIN(generate, execute)
