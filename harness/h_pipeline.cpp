// C10 harness: outputs are a function of the inputs only; no memory errors on valid (incl. degenerate) input.
// Runs the full pipeline make_solver<amg<builtin<double>, runtime coarsening, runtime relaxation>, runtime solver>
// several times in ONE process with every fresh heap allocation pre-filled with 0x00 / 0xFF / 0xAA / PRNG bytes
// (replaced global operator new / new[] below) and requires bitwise identical (iters, resid, x) — any dependence
// on uninitialised heap memory or on allocation history shows up as a difference; ASan/UBSan (always on) turn
// out-of-bounds accesses, use-after-free and leaks of owned arrays into a crash that the driver script records.
// Op:  pipe <coarsening> <relaxation> <solver> <coarse_enough> <max_levels> <direct_coarse> <npre> <npost> <ncycle> <maxiter> A f
//      papply <class 0 amg|1 relaxation|2 dummy> <coarsening> <relaxation> <coarse_enough> <max_levels> <direct_coarse> A f
//             (preconditioner.apply(rhs, x) with the OUTPUT vector x allocated uninitialised, i.e. holding the fill pattern)
//      pcomp <kind 0 cpr|1 cpr_drs|2 schur_pressure_correction|3 kernels> <block_size> A f
//             composite preconditioners in double (spai0 / ilu0 inner preconditioners) constructed and applied to an
//             uninitialised output vector; kind 3: backend::sum, pointwise_matrix, unblock_matrix, crs copy / assignment,
//             numa_vector::resize — the arrays they return are compared across the fills
// Every case is tagged with the keys of the uninitialised allocation sites (tools/alloc_sites.py) it ran through.
//      phist  <same arguments as papply>    ONE preconditioner object, double precision: apply(f) -> a; apply(2^47 * g);
//             apply(a vector holding NaN and Inf); apply(f) -> b.  The object's persistent work vectors (level scratch,
//             Chebyshev p/r, ...) have then seen huge and non-finite values: b must equal a BITWISE (C02: B is one fixed
//             operator independent of earlier applications; C15: no state leaks between calls).  Rounding-level leaks
//             (a coefficient that is zero only in exact arithmetic) are invisible at the exact type Q — this op is the
//             floating-point side.  Built with -DPIPE_HIST_ONLY the harness generates only these ops (checks C02, C15).
// The values are small dyadic rationals, converted to double exactly.  Implementation-only harness (no model line).
#include "poison.hpp"      // replaced operator new (fill patterns) + allocation-site tracker; must come first
#include "gen.hpp"
#include <limits>
#include <cmath>

#include <amgcl/amg.hpp>
#include <amgcl/make_solver.hpp>
#include <amgcl/solver/runtime.hpp>
#include <amgcl/coarsening/runtime.hpp>
#include <amgcl/relaxation/runtime.hpp>
#include <amgcl/preconditioner/runtime.hpp>
#include <amgcl/adapter/crs_tuple.hpp>
#include <amgcl/adapter/block_matrix.hpp>
#include <amgcl/preconditioner/cpr.hpp>
#include <amgcl/preconditioner/cpr_drs.hpp>
#include <amgcl/preconditioner/schur_pressure_correction.hpp>
#include <amgcl/relaxation/as_preconditioner.hpp>
#include <amgcl/relaxation/spai0.hpp>
#include <amgcl/relaxation/ilu0.hpp>
#include <amgcl/solver/preonly.hpp>
#include <amgcl/value_type/static_matrix.hpp>
#include <amgcl/coarsening/tentative_prolongation.hpp>
#include <boost/property_tree/ptree.hpp>
using namespace vh;

typedef amgcl::backend::builtin<double> Backend;
typedef amgcl::make_solver<
    amgcl::amg<Backend, amgcl::runtime::coarsening::wrapper, amgcl::runtime::relaxation::wrapper>,
    amgcl::runtime::solver::wrapper<Backend> > Solver;

static const char *coarsenings[] = { "ruge_stuben", "aggregation", "smoothed_aggregation", "smoothed_aggr_emin" };
static const char *relaxations[] = { "gauss_seidel", "ilu0", "iluk", "ilup", "ilut", "damped_jacobi", "spai0", "spai1", "chebyshev" };
static const char *solvers[]     = { "cg", "bicgstab", "bicgstabl", "gmres", "lgmres", "fgmres", "idrs", "richardson", "preonly" };

struct Out { std::string tag; size_t iters = 0; double resid = 0; std::vector<double> x; };
static std::string hex(double d) { uint64_t u; std::memcpy(&u, &d, 8); char b[20]; snprintf(b, sizeof b, "%016llx", (unsigned long long)u); return b; }
static bool same(const Out &a, const Out &b) {
    if (a.tag != b.tag || a.iters != b.iters || a.x.size() != b.x.size()) return false;
    if (std::memcmp(&a.resid, &b.resid, 8)) return false;
    return a.x.empty() || !std::memcmp(a.x.data(), b.x.data(), 8 * a.x.size());
}

// optional trailing list of NON-DEFAULT component parameters: `nprm key value ...`; keys are relative to the component
// ("relax.", "coarsening.", "solver." prefix), the executor prepends the path of the class under test
typedef std::vector<std::pair<std::string, std::string>> Extra;
static Extra read_extra(Cur &c) {
    Extra e; if (c.end()) return e;
    long n = c.nat(); if (n < 0 || n > 32) throw bad_input("nprm");
    for (long i = 0; i < n; ++i) { std::string k = c.tok(), v = c.tok(); if (k.compare(0, 6, "relax.") && k.compare(0, 11, "coarsening.") && k.compare(0, 7, "solver.")) throw bad_input("prm key"); e.push_back({k, v}); }
    return e;
}
struct Case { long c, r, s, ce, ml, dc, npre, npost, ncycle, maxiter; Mat A; std::vector<Q> f; Extra extra; };

static Out run_once(const Case &k, int fill_mode) {
    Out o;
    std::vector<ptrdiff_t> ptr(k.A.ptr), col(k.A.col); std::vector<double> val(k.A.val.size()), rhs(k.f.size());
    for (size_t i = 0; i < val.size(); ++i) val[i] = k.A.val[i].v.get_d();
    for (size_t i = 0; i < rhs.size(); ++i) rhs[i] = k.f[i].v.get_d();
    boost::property_tree::ptree prm;
    prm.put("precond.coarsening.type", coarsenings[k.c]); prm.put("precond.relax.type", relaxations[k.r]); prm.put("solver.type", solvers[k.s]);
    prm.put("precond.coarse_enough", k.ce); prm.put("precond.max_levels", k.ml); prm.put("precond.direct_coarse", k.dc != 0);
    prm.put("precond.npre", k.npre); prm.put("precond.npost", k.npost); prm.put("precond.ncycle", k.ncycle);
    if (std::string(solvers[k.s]) != "preonly") prm.put("solver.maxiter", k.maxiter);
    for (auto &kv : k.extra) prm.put((kv.first.compare(0, 7, "solver.") ? "precond." : "") + kv.first, kv.second);
    vh_poison::mode = fill_mode; vh_poison::track = (fill_mode == 1);
    struct Off { ~Off() { vh_poison::mode = -1; vh_poison::track = false; } } off_guard;
    try {
        Solver solve(std::tie(k.A.n, ptr, col, val), prm);
        std::vector<double> x(k.A.n, 0.0);
        size_t it; double res; std::tie(it, res) = solve(rhs, x);
        vh_poison::mode = -1;
        o.tag = "ok"; o.iters = it; o.resid = res; o.x = x;
    } catch (const amgcl::error::empty_level&) { vh_poison::mode = -1; o.tag = "empty_level"; }
    catch (const std::exception &e) { vh_poison::mode = -1; o.tag = "exception"; }
    return o;
}

typedef amgcl::runtime::preconditioner<Backend> RPrecond;
static const char *pclasses[] = { "amg", "relaxation", "dummy" };

struct PCase { long cls, c, r, ce, ml, dc; Mat A; std::vector<Q> f; Extra extra; };
static Out papply_once(const PCase &k, int fill_mode) {
    Out o;
    std::vector<ptrdiff_t> ptr(k.A.ptr), col(k.A.col); std::vector<double> val(k.A.val.size()), rhs(k.f.size());
    for (size_t i = 0; i < val.size(); ++i) val[i] = k.A.val[i].v.get_d();
    for (size_t i = 0; i < rhs.size(); ++i) rhs[i] = k.f[i].v.get_d();
    boost::property_tree::ptree prm;
    prm.put("class", pclasses[k.cls]);
    if (k.cls == 0) { prm.put("coarsening.type", coarsenings[k.c]); prm.put("relax.type", relaxations[k.r]); prm.put("coarse_enough", k.ce); prm.put("max_levels", k.ml); prm.put("direct_coarse", k.dc != 0); }
    else if (k.cls == 1) prm.put("type", relaxations[k.r]);
    for (auto &kv : k.extra) {
        if (!kv.first.compare(0, 7, "solver.")) continue;
        if (k.cls == 0) prm.put(kv.first, kv.second);
        else if (k.cls == 1 && !kv.first.compare(0, 6, "relax.")) prm.put(kv.first.substr(6), kv.second);
    }
    vh_poison::mode = fill_mode; vh_poison::track = (fill_mode == 1);
    struct Off { ~Off() { vh_poison::mode = -1; vh_poison::track = false; } } off_guard;
    try {
        RPrecond P(std::tie(k.A.n, ptr, col, val), prm);
        double *xraw = new double[k.A.n ? k.A.n : 1];            // output vector: never initialised by the caller
        auto X = amgcl::make_iterator_range(xraw, xraw + k.A.n);
        P.apply(rhs, X);
        vh_poison::mode = -1;
        o.tag = "ok"; o.x.assign(xraw, xraw + k.A.n); delete[] xraw;
    } catch (const amgcl::error::empty_level&) { vh_poison::mode = -1; o.tag = "empty_level"; }
    catch (const std::exception &e) { vh_poison::mode = -1; o.tag = "exception"; }
    return o;
}

// ---------------------------------------------------------------- composites and kernels in double
typedef amgcl::relaxation::as_preconditioner<Backend, amgcl::relaxation::spai0> PSpai;
typedef amgcl::relaxation::as_preconditioner<Backend, amgcl::relaxation::ilu0> PIlu;
typedef amgcl::preconditioner::cpr<PSpai, PIlu> CPR;
typedef amgcl::preconditioner::cpr_drs<PSpai, PIlu> CPRDRS;
typedef amgcl::make_solver<PIlu, amgcl::solver::preonly<Backend>> InnerS;
typedef amgcl::preconditioner::schur_pressure_correction<InnerS, InnerS> SPC;
typedef amgcl::static_matrix<double, 2, 2> BV2; typedef amgcl::static_matrix<double, 2, 1> BR2;
typedef amgcl::backend::builtin<BV2> BBackend;
typedef amgcl::relaxation::as_preconditioner<BBackend, amgcl::relaxation::spai0> PSpaiB;
typedef amgcl::preconditioner::cpr<PSpai, PSpaiB> CPRB;
typedef amgcl::preconditioner::cpr_drs<PSpai, PSpaiB> CPRDRSB;
static const char *pcomps[] = { "cpr", "cpr_drs", "schur", "kernels", "cpr_block", "cpr_drs_block" };
template <class P, class MA> static void block_cpr(Out &o, const MA &A, const std::vector<double> &rhs, long n) {
    typename P::params prm;
    auto Bm = amgcl::adapter::block_matrix<BV2>(A);
    P pre(Bm, prm);
    long nb = n / 2;
    for (int round = 0; round < 2; ++round) {
        amgcl::backend::numa_vector<BR2> F(nb), X(nb, false);      // output vector: never initialised
        for (long i = 0; i < nb; ++i) { F[i](0) = rhs[2 * i]; F[i](1) = rhs[2 * i + 1]; }
        pre.apply(F, X);
        for (long i = 0; i < nb; ++i) { o.x.push_back(X[i](0)); o.x.push_back(X[i](1)); }
        if (round == 0) pre.partial_update(Bm, true);
    }
}
struct CCase { long kind, B; Mat A; std::vector<Q> f; };

template <class M> static void dump_crs(std::vector<double> &o, const M &A) {
    o.push_back((double)A.nrows); o.push_back((double)A.ncols);
    for (size_t i = 0; i <= A.nrows; ++i) o.push_back((double)A.ptr[i]);
    for (ptrdiff_t j = 0; j < (ptrdiff_t)A.ptr[A.nrows]; ++j) { o.push_back((double)A.col[j]); o.push_back(A.val[j]); }
}
template <class P> static void apply_raw(Out &o, const P &pre, const std::vector<double> &rhs, long n) {
    double *xraw = new double[n ? n : 1];                        // output vector: never initialised by the caller
    auto X = amgcl::make_iterator_range(xraw, xraw + n);
    pre.apply(rhs, X);
    o.x.assign(xraw, xraw + n); delete[] xraw;
}
static Out pcomp_once(const CCase &k, int fill_mode) {
    Out o;
    std::vector<ptrdiff_t> ptr(k.A.ptr), col(k.A.col); std::vector<double> val(k.A.val.size()), rhs(k.f.size());
    for (size_t i = 0; i < val.size(); ++i) val[i] = k.A.val[i].v.get_d();
    for (size_t i = 0; i < rhs.size(); ++i) rhs[i] = k.f[i].v.get_d();
    vh_poison::mode = fill_mode; vh_poison::track = (fill_mode == 1);
    struct Off { ~Off() { vh_poison::mode = -1; vh_poison::track = false; } } off_guard;
    try {
        auto A = std::tie(k.A.n, ptr, col, val);
        if (k.kind == 0) { CPR::params prm; prm.block_size = (int)k.B; CPR P(A, prm); apply_raw(o, P, rhs, k.A.n);
            Out o2; P.partial_update(A, true); apply_raw(o2, P, rhs, k.A.n); o.x.insert(o.x.end(), o2.x.begin(), o2.x.end()); }
        else if (k.kind == 1) { CPRDRS::params prm; prm.block_size = (int)k.B; CPRDRS P(A, prm); apply_raw(o, P, rhs, k.A.n);
            Out o2; P.partial_update(A, true); apply_raw(o2, P, rhs, k.A.n); o.x.insert(o.x.end(), o2.x.begin(), o2.x.end()); }
        else if (k.kind == 4) block_cpr<CPRB>(o, A, rhs, k.A.n);
        else if (k.kind == 5) block_cpr<CPRDRSB>(o, A, rhs, k.A.n);
        else if (k.kind == 2) {
            SPC::params prm; prm.pmask.assign(k.A.n, 0); for (long i = k.B - 1; i < k.A.n; i += k.B) prm.pmask[i] = 1;
            SPC P(A, prm); apply_raw(o, P, rhs, k.A.n);
        } else {
            typedef amgcl::backend::crs<double> M;
            M Ac(A);                                                        // crs(const Matrix&)
            M Bc(Ac);                                                       // copy constructor
            M Cc; Cc = Bc;                                                  // operator=
            M Dc(Ac.nrows, Ac.ncols, ptr, col, val);                        // range constructor
            auto S = amgcl::backend::sum(2.0, Ac, -0.5, *amgcl::backend::transpose(Dc), true);
            dump_crs(o.x, Cc); dump_crs(o.x, *S);
            if (k.A.n % k.B == 0) {
                auto Pw = amgcl::backend::pointwise_matrix(Ac, (unsigned)k.B); dump_crs(o.x, *Pw);
                if (k.B == 2) {
                    typedef amgcl::static_matrix<double, 2, 2> BV;
                    auto Bm = amgcl::adapter::block_matrix<BV>(A);
                    amgcl::backend::crs<BV> Bcrs(Bm);
                    auto U = amgcl::adapter::unblock_matrix(Bcrs); dump_crs(o.x, *U);
                }
            }
            { M Rm; amgcl::backend::spgemm_rmerge(Ac, Dc, Rm); dump_crs(o.x, Rm); }      // row-merge product (normally > 16 threads only)
            {   // tentative prolongation with near-null-space vectors (QR branch)
                std::vector<ptrdiff_t> aggr(k.A.n); for (long i = 0; i < k.A.n; ++i) aggr[i] = (i % 5 == 4) ? -1 : i / 3;
                long naggr = (k.A.n + 2) / 3;
                amgcl::coarsening::nullspace_params ns; ns.cols = 1; ns.B.assign(k.A.n, 1.0);
                auto Pt = amgcl::coarsening::tentative_prolongation<M>((size_t)k.A.n, (size_t)naggr, aggr, ns, 1);
                dump_crs(o.x, *Pt); for (double b : ns.B) o.x.push_back(b);
            }
            amgcl::backend::numa_vector<double> v(3);
            v.resize((size_t)k.A.n, true); for (long i = 0; i < k.A.n; ++i) o.x.push_back(v[i]);
            amgcl::backend::numa_vector<double> w(rhs.begin(), rhs.end()); for (long i = 0; i < k.A.n; ++i) o.x.push_back(w[i]);
            o.x.push_back(amgcl::backend::spectral_radius<true>(Ac, 3)); o.x.push_back(amgcl::backend::spectral_radius<false>(Ac, 2));
        }
        o.tag = "ok";
    } catch (const amgcl::error::empty_level&) { o.tag = "empty_level"; o.x.clear(); }
    catch (const std::exception &e) { o.tag = "exception"; o.x.clear(); }
    return o;
}
static Result execute_pcomp(const Toks &t) {
    Cur c(t); CCase k; k.kind = c.nat(); k.B = c.nat(); k.A = c.mat(); k.f = c.vec(); c.expect_end();
    std::string why; if (!crs_wf(*k.A.crs(), why) || k.A.n != k.A.m || (long)k.f.size() != k.A.n) throw bad_input("shape");
    if (k.kind < 0 || k.kind > 5 || k.B < 1 || k.B > 4 || (k.kind != 3 && k.A.n % k.B) || (k.kind > 3 && k.B != 2)) throw bad_input("enum");
    Result r; Out base = pcomp_once(k, 0);
    for (int m = 1; m <= 3; ++m) { Out o = pcomp_once(k, m); if (!same(base, o)) { r.fail(std::string("result depends on heap contents: fill 0x00 vs ") + (m == 1 ? "0xFF" : m == 2 ? "0xAA" : "random") + " (" + pcomps[k.kind] + ")"); break; } }
    { Out o = pcomp_once(k, 0); if (!same(base, o)) r.fail("second run in the same process differs (allocation history)"); }
    Line l; l << base.tag; for (double d : base.x) l << hex(d);
    r.out = l.get(); r.nontrivial = base.tag == "ok" && k.A.n > 1; r.tag("pcomp").tag(pcomps[k.kind]).tag(base.tag);
    for (auto &key : vh_poison::sites_since_mark()) r.tag("site:" + key);
    return r;
}

static Result execute_phist(const Toks &t) {
    Cur c(t); PCase k; k.cls = c.nat(); k.c = c.nat(); k.r = c.nat(); k.ce = c.nat(); k.ml = c.nat(); k.dc = c.nat(); k.A = c.mat(); k.f = c.vec(); k.extra = read_extra(c); c.expect_end();
    std::string why; if (!crs_wf(*k.A.crs(), why) || k.A.n != k.A.m || (long)k.f.size() != k.A.n) throw bad_input("shape");
    if (k.cls < 0 || k.cls > 2 || k.c < 0 || k.c > 3 || k.r < 0 || k.r > 8 || k.ml < 1) throw bad_input("enum");
    Result r; const long n = k.A.n;
    std::vector<ptrdiff_t> ptr(k.A.ptr), col(k.A.col); std::vector<double> val(k.A.val.size()), rhs(n);
    for (size_t i = 0; i < val.size(); ++i) val[i] = k.A.val[i].v.get_d();
    for (long i = 0; i < n; ++i) rhs[i] = k.f[i].v.get_d();
    boost::property_tree::ptree prm;
    prm.put("class", pclasses[k.cls]);
    if (k.cls == 0) { prm.put("coarsening.type", coarsenings[k.c]); prm.put("relax.type", relaxations[k.r]); prm.put("coarse_enough", k.ce); prm.put("max_levels", k.ml); prm.put("direct_coarse", k.dc != 0); }
    else if (k.cls == 1) prm.put("type", relaxations[k.r]);
    for (auto &kv : k.extra) {
        if (!kv.first.compare(0, 7, "solver.")) continue;
        if (k.cls == 0) prm.put(kv.first, kv.second);
        else if (k.cls == 1 && !kv.first.compare(0, 6, "relax.")) prm.put(kv.first.substr(6), kv.second);
    }
    std::string tag = "ok"; bool same_ab = true, finite = true;
    try {
        RPrecond P(std::tie(k.A.n, ptr, col, val), prm);
        std::vector<double> a(n, 0.0), b(n, 0.0), y(n, 0.0), g(n), bad(n);
        for (long i = 0; i < n; ++i) { g[i] = std::ldexp(rhs[(i * 7 + 3) % n] + 0.3 * (double)((i % 5) - 2), 47); bad[i] = (i % 3 == 0) ? std::numeric_limits<double>::quiet_NaN() : (i % 3 == 1) ? std::numeric_limits<double>::infinity() : -1.0; }
        P.apply(rhs, a);
        P.apply(g, y);
        P.apply(bad, y);
        P.apply(rhs, b);
        for (long i = 0; i < n; ++i) if (!std::isfinite(a[i])) finite = false;
        same_ab = n == 0 || !std::memcmp(a.data(), b.data(), 8 * n);
    } catch (const amgcl::error::empty_level&) { tag = "empty_level"; }
    catch (const std::exception &e) { tag = "exception"; }
    if (tag == "ok" && !same_ab) r.fail(std::string("double precision: apply(f) on ONE object differs bitwise before and after applications to a huge and to a non-finite right-hand side: state leaks between applications (") + pclasses[k.cls] + "/" + coarsenings[k.c] + "/" + relaxations[k.r] + ")");
    r.out = tag; r.nontrivial = tag == "ok" && n > 1 && finite; r.tag("phist").tag(pclasses[k.cls]).tag(relaxations[k.r]).tag(tag);
    if (!k.extra.empty()) r.tag("nondefault_params");
    return r;
}

static Result execute_papply(const Toks &t) {
    Cur c(t); PCase k; k.cls = c.nat(); k.c = c.nat(); k.r = c.nat(); k.ce = c.nat(); k.ml = c.nat(); k.dc = c.nat(); k.A = c.mat(); k.f = c.vec(); k.extra = read_extra(c); c.expect_end();
    std::string why; if (!crs_wf(*k.A.crs(), why) || k.A.n != k.A.m || (long)k.f.size() != k.A.n) throw bad_input("shape");
    if (k.cls < 0 || k.cls > 2 || k.c < 0 || k.c > 3 || k.r < 0 || k.r > 8 || k.ml < 1) throw bad_input("enum");
    Result r; Out base = papply_once(k, 0);
    for (int m = 1; m <= 3; ++m) { Out o = papply_once(k, m); if (!same(base, o)) { r.fail(std::string("preconditioner apply() depends on the previous contents of its output vector / the heap: fill 0x00 vs ") + (m == 1 ? "0xFF" : m == 2 ? "0xAA" : "random") + " (" + pclasses[k.cls] + "/" + coarsenings[k.c] + "/" + relaxations[k.r] + ")"); break; } }
    Line l; l << base.tag; for (double d : base.x) l << hex(d);
    r.out = l.get(); r.nontrivial = base.tag == "ok" && k.A.n > 1; r.tag("papply").tag(pclasses[k.cls]).tag(relaxations[k.r]).tag(base.tag);
    if (!k.extra.empty()) r.tag("nondefault_params");
    for (auto &key : vh_poison::sites_since_mark()) r.tag("site:" + key);
    return r;
}

static Result execute(const Toks &t) {
    if (t[0] == "papply") return execute_papply(t);
    if (t[0] == "pcomp") return execute_pcomp(t);
    if (t[0] == "phist") return execute_phist(t);
    Cur c(t); if (t[0] != "pipe") return Result("bad-op");
    Case k; k.c = c.nat(); k.r = c.nat(); k.s = c.nat(); k.ce = c.nat(); k.ml = c.nat(); k.dc = c.nat(); k.npre = c.nat(); k.npost = c.nat(); k.ncycle = c.nat(); k.maxiter = c.nat();
    k.A = c.mat(); k.f = c.vec(); k.extra = read_extra(c); c.expect_end();
    std::string why; if (!crs_wf(*k.A.crs(), why) || k.A.n != k.A.m || (long)k.f.size() != k.A.n) throw bad_input("shape");
    if (k.c < 0 || k.c > 3 || k.r < 0 || k.r > 8 || k.s < 0 || k.s > 8 || k.ml < 1) throw bad_input("enum");
    Result r;
    Out base = run_once(k, 0);
    for (int m = 1; m <= 3; ++m) { Out o = run_once(k, m); if (!same(base, o)) { r.fail(std::string("result depends on heap contents: fill 0x00 vs ") + (m == 1 ? "0xFF" : m == 2 ? "0xAA" : "random") + " (" + coarsenings[k.c] + "/" + relaxations[k.r] + "/" + solvers[k.s] + ")"); break; } }
    { Out o = run_once(k, 0); if (!same(base, o)) r.fail("second run in the same process differs (allocation history)"); }
    // truthfulness of a returned residual in the degenerate cases too (loose: this is the double pipeline)
    if (base.tag == "ok" && std::isfinite(base.resid) && std::string(solvers[k.s]) != "preonly") {
        long double nf = 0, nr = 0; std::vector<long double> ax(k.A.n, 0);
        for (long i = 0; i < k.A.n; ++i) for (auto j = k.A.ptr[i]; j < k.A.ptr[i+1]; ++j) ax[i] += (long double)k.A.val[j].v.get_d() * base.x[k.A.col[j]];
        for (long i = 0; i < k.A.n; ++i) { long double fi = k.f[i].v.get_d(); nf += fi * fi; nr += (fi - ax[i]) * (fi - ax[i]); }
        long double tr = nf > 0 ? sqrtl(nr / nf) : sqrtl(nr);
        if (base.resid < 1e-6 && tr > 1e-3) r.fail("reported residual below 1e-6 but true relative residual above 1e-3");
    }
    Line l; l << base.tag << base.iters << hex(base.resid); for (double d : base.x) l << hex(d);
    r.out = l.get();
    r.nontrivial = base.tag == "ok" && k.A.n > 1;
    r.tag(coarsenings[k.c]).tag(relaxations[k.r]).tag(solvers[k.s]).tag(base.tag);
    if (!k.extra.empty()) r.tag("nondefault_params");
    for (auto &key : vh_poison::sites_since_mark()) r.tag("site:" + key);
    return r;
}

static Mat dyadic_spd(Rng &rng, long n, int kind) {   // weights k/2: exact in binary64
    return gen_spd(rng, n, kind, 3);
}

// non-default values for every importable parameter of the components (the property quantifies over configurations);
// each table entry: key, candidate values.  Fill factors / thresholds / degrees include fractional and boundary values.
struct PV { const char *key; std::vector<const char*> vals; };
static const std::vector<PV>& relax_params(long r) {
    static const std::vector<PV> solve = { {"solve.serial", {"true", "false"}}, {"solve.damping", {"0.5", "1"}} };
    static const std::vector<std::vector<PV>> t = {
        /* gauss_seidel */ { {"serial", {"true", "false"}} },
        /* ilu0 */ { {"damping", {"0.5", "0.75", "1"}}, solve[0], solve[1] },
        /* iluk */ { {"k", {"0", "1", "2", "3", "5"}}, {"damping", {"0.5", "1"}}, solve[0] },
        /* ilup */ { {"k", {"0", "1", "2", "3"}}, {"damping", {"0.5", "1"}}, solve[0] },
        /* ilut */ { {"p", {"0.5", "1", "1.5", "2.5", "3", "1.25", "7.75"}}, {"tau", {"0", "1e-8", "0.0078125", "0.125", "0.5"}}, {"damping", {"0.5", "1"}}, solve[0] },
        /* damped_jacobi */ { {"damping", {"0.25", "0.5", "1"}} },
        /* spai0 */ { },
        /* spai1 */ { },
        /* chebyshev */ { {"degree", {"1", "2", "3", "7"}}, {"higher", {"1", "1.25"}}, {"lower", {"0.0625", "0.25"}}, {"power_iters", {"0", "1", "3"}}, {"scale", {"true", "false"}} },
    };
    return t[r];
}
static const std::vector<PV>& coarsening_params(long c) {
    static const std::vector<std::vector<PV>> t = {
        /* ruge_stuben */ { {"eps_strong", {"0.125", "0.25", "0.5", "0.75"}}, {"do_trunc", {"true", "false"}}, {"eps_trunc", {"0.0625", "0.2", "0.5"}} },
        /* aggregation */ { {"over_interp", {"1", "1.5", "2"}}, {"aggr.eps_strong", {"0", "0.03125", "0.25", "0.5"}}, {"aggr.block_size", {"1", "2", "3"}} },
        /* smoothed_aggregation */ { {"relax", {"0.5", "1", "1.5"}}, {"estimate_spectral_radius", {"true", "false"}}, {"power_iters", {"0", "1", "4"}}, {"aggr.eps_strong", {"0", "0.03125", "0.25"}}, {"aggr.block_size", {"1", "2", "3"}} },
        /* smoothed_aggr_emin */ { {"aggr.eps_strong", {"0", "0.03125", "0.25"}}, {"aggr.block_size", {"1", "2"}} },
    };
    return t[c];
}
static const std::vector<PV>& solver_params(long s) {
    static const std::vector<PV> side = { {"pside", {"left", "right"}} };
    static const std::vector<std::vector<PV>> t = {
        /* cg */ { {"ns_search", {"true"}}, {"abstol", {"1e-3"}} },
        /* bicgstab */ { side[0], {"check_after", {"true", "false"}}, {"ns_search", {"true"}} },
        /* bicgstabl */ { side[0], {"L", {"1", "2", "3", "4"}}, {"delta", {"0", "0.5"}}, {"convex", {"true", "false"}} },
        /* gmres */ { side[0], {"M", {"1", "2", "3", "5"}} },
        /* lgmres */ { side[0], {"M", {"1", "2", "4"}}, {"K", {"0", "1", "2", "3"}}, {"always_reset", {"true", "false"}} },
        /* fgmres */ { {"M", {"1", "2", "3", "5"}} },
        /* idrs */ { {"s", {"1", "2", "3", "5"}}, {"omega", {"0", "0.7"}}, {"smoothing", {"true", "false"}}, {"replacement", {"true", "false"}} },
        /* richardson */ { {"damping", {"0.5", "1"}} },
        /* preonly */ { },
    };
    return t[s];
}
static void pick_params(Rng &rng, const char *prefix, const std::vector<PV> &tab, Extra &e) {
    for (auto &pv : tab) if (rng.coin(1, 2)) e.push_back({std::string(prefix) + pv.key, pv.vals[rng.range(0, (long)pv.vals.size() - 1)]});
}
static void put_extra(Line &l, Rng &rng, long c, long r, long s) {
    Extra e; pick_params(rng, "relax.", relax_params(r), e);
    if (c >= 0) pick_params(rng, "coarsening.", coarsening_params(c), e);
    if (s >= 0) pick_params(rng, "solver.", solver_params(s), e);
    l << (long)e.size(); for (auto &kv : e) l << kv.first << kv.second;
}
static void emit(std::vector<std::string> &lines, Rng &rng, const Mat &A, long c, long r, long s, long ce, long ml, long dc, bool nondefault = false) {
    Line l; l << "pipe" << c << r << s << ce << ml << dc << rng.range(1, 2) << rng.range(1, 2) << rng.range(1, 2) << rng.range(1, 12) << A << gen_vec(rng, A.n, true);
    if (nondefault) put_extra(l, rng, c, r, s);
    lines.push_back(l.get());
}

static void gen_phist(Rng &rng, const Opts &o, std::vector<std::string> &lines, long count) {
    static const std::vector<long> ces = { 0, 1, 2, 4, 3000 }; static const std::vector<long> mls = { 1, 2, 3, 10 };
    for (long k = 0; k < count; ++k) {
        long n = rng.range(2, o.thorough() ? 60 : 36);
        // anisotropic / weighted grids and random graphs: many different spectral bounds (centres d with fl(fl(1/d)*d) != 1)
        Mat A = rng.coin(1, 5) ? gen_convdiff(rng, n) : dyadic_spd(rng, n, (int)rng.range(0, 3));
        long cls = rng.coin(3, 4) ? 0 : 1, c = rng.range(0, 3), r = k % 9;
        Line l; l << "phist" << cls << c << r << rng.pick(ces) << rng.pick(mls) << rng.coin(3, 4) << A << gen_vec(rng, A.n, true);
        if (rng.coin()) put_extra(l, rng, cls == 0 ? c : -1, r, -1);
        lines.push_back(l.get());
    }
}

static void generate(Rng &rng, const Opts &o, std::vector<std::string> &lines) {
    long N = o.cases > 0 ? o.cases : (o.thorough() ? 1500 : 120);
#ifdef PIPE_HIST_ONLY
    gen_phist(rng, o, lines, 3 * N); return;
#endif
    static const std::vector<long> ces = { 0, 1, 2, 4, 3000 }; static const std::vector<long> mls = { 1, 2, 3, 10 };
    // degenerate inputs (each with a few component combinations)
    std::vector<Mat> deg;
    deg.push_back(from_rows(1, 1, {{{0, Q(3)}}}));                                                         // 1x1
    { std::vector<std::vector<std::pair<long,Q>>> rows(6); for (long i = 0; i < 6; ++i) rows[i].push_back({i, Q(i + 1)}); deg.push_back(from_rows(6, 6, rows)); }   // diagonal: coarsens to nothing
    { Mat a = gen_spd(rng, 4, 0, 2), b = gen_spd(rng, 3, 0, 2); auto ra = to_rows(a), rb = to_rows(b); for (auto &row : rb) { for (auto &cv : row) cv.first += 4; ra.push_back(row); } deg.push_back(from_rows(7, 7, ra)); }   // disconnected
    deg.push_back(from_rows(3, 3, {{{0, Q(4)}, {1, Q(-1)}, {2, Q(-1)}}, {{0, Q(1)}, {1, Q(4)}, {2, Q(1)}}, {{0, Q(1)}, {1, Q(1)}, {2, Q(4)}}}));   // rows with only positive off-diagonals
    { Mat a = gen_spd(rng, 8, 0, 2); auto ra = to_rows(a); for (auto &cv : ra[3]) if (cv.first != 3) cv.second = Q(1); for (auto &cv : ra[4]) if (cv.first != 4) cv.second = Q(1); deg.push_back(from_rows(8, 8, ra)); }
    for (auto &A : deg) for (int rep = 0; rep < (o.thorough() ? 12 : 4); ++rep)
        emit(lines, rng, A, rng.range(0, 3), rng.range(0, 8), rng.range(0, 8), rng.pick(ces), rng.pick(mls), rng.coin(3, 4));
    for (long k = 0; k < N; ++k) {
        long n = rng.range(2, o.thorough() ? 60 : 30);
        Mat A = rng.coin(1, 5) ? gen_convdiff(rng, n) : dyadic_spd(rng, n, (int)rng.range(0, 3));
        if (rng.coin(1, 5)) A = unsort(rng, A, false);
        emit(lines, rng, A, rng.range(0, 3), rng.range(0, 8), rng.range(0, 8), rng.pick(ces), rng.pick(mls), rng.coin(3, 4));
    }
    // non-default component parameters (fill factors, thresholds, degrees, restart lengths, sides ...): the same pipeline
    // with a random subset of the importable parameters of the three components set to non-default values; the
    // relaxation cycles through all nine kinds so that each meets its own parameters in every run; larger matrices
    // (3D-like fill) so that fill-controlled factorisations actually use their quota
    for (long k = 0; k < N; ++k) {
        long n = rng.range(2, o.thorough() ? 90 : 45);
        Mat A = rng.coin(1, 5) ? gen_convdiff(rng, n) : dyadic_spd(rng, n, (int)rng.range(0, 3));
        if (rng.coin(1, 5)) A = unsort(rng, A, false);
        emit(lines, rng, A, rng.range(0, 3), k % 9, rng.range(0, 8), rng.pick(ces), rng.pick(mls), rng.coin(3, 4), true);
    }
    for (long k = 0; k < N / 2; ++k) {
        long n = rng.range(2, 20);
        Mat A = rng.coin(1, 5) ? gen_convdiff(rng, n) : dyadic_spd(rng, n, (int)rng.range(0, 3));
        long cls = rng.range(0, 2), c = rng.range(0, 3), r = rng.range(0, 8);
        Line l; l << "papply" << cls << c << r << rng.pick(ces) << rng.pick(mls) << rng.coin(3, 4) << A << gen_vec(rng, A.n, true);
        if (rng.coin()) put_extra(l, rng, cls == 0 ? c : -1, r, -1);
        lines.push_back(l.get());
    }
    // composites / kernels in double: every kind with every block size, on block-structured SPD matrices
    for (long rep = 0; rep < (o.thorough() ? 12 : 2); ++rep) for (long kind = 0; kind <= 5; ++kind) for (long B = (kind == 3 ? 1 : 2); B <= (kind > 3 ? 2 : 3); ++B) {
        long nb = rng.range(2, o.thorough() ? 12 : 6), n = nb * B;
        Mat A = rng.coin(1, 4) ? gen_convdiff(rng, n) : dyadic_spd(rng, n, (int)rng.range(0, 3));
        Line l; l << "pcomp" << kind << B << A << gen_vec(rng, n, true);
        lines.push_back(l.get());
    }
    gen_phist(rng, o, lines, N / 2);
    lines.push_back("pipe 9 0 0 2 10 1 1 1 1 5 1 1 1 0 2 1 1");      // unknown coarsening index
}

VH_MAIN(generate, execute)
