// C11, other value types: the distributed primitives of amgcl::mpi executed at a value type V that is NOT a real
// scalar -- std::complex<double> (h_mpi_cx.cpp, with the Lean model at Gaussian rationals) and
// static_matrix<double|std::complex<double>, N, N> blocks (h_mpi_block.cpp, implementation-side oracles only).
//
// MPI datatypes exist only for built-in types (and contiguous arrays of them), so the real code runs in binary64 on
// EXACT data: every scalar component is a small integer / dyadic rational (rule `exact()` of mpi_common.hpp), every
// result component is checked to be dyadic with magnitude < 2^53, and all oracles compare EXACT Gaussian rationals.
//
// A value of type V is written as its scalar components in row-major order, a complex scalar as `re im`:
//   complex scalar: 2 tokens; N x N real block: N*N tokens; N x N complex block: 2*N*N tokens;
//   a vector element (rhs type: scalar, or N x 1 block) correspondingly 1 | 2 | N | 2N tokens.
// Vectors `n e_1 .. e_n`, CRS matrices `nrows ncols` then per row `k c_1 v_1 .. c_k v_k` (sizes in BLOCK units).
//
// Ops (suffix after the harness' prefix; partitions `np s_1 .. s_np` in block units):
//   split rp cp A | spmv rp cp a A x b y | residual rp cp A f x | ip p x y | norm p x | transpose rp cp A
//   remote_rows rp mp cp A B | product rp mp cp A B | scale rp cp A s | sort rp cp A
//   gersh scaled p A | power scaled iters p A
// Oracles (rank 0, independent of the Lean model):
//   * the gathered result equals the SERIAL amgcl kernel at the same value type on the assembled data, and
//   * equals a dense recomputation over exact Gaussian rationals on the matrix EXPANDED to scalars
//     (blocks -> N x N scalar tiles): y = a A x + b y, r = f - A x, <x,y> = sum x_i conj(y_i) (conjugate-linear in
//     the SECOND argument), <x,x> real and = sum |x_i|^2, transpose = conjugate transpose, product = A B, scale;
//   * collective scalars are bitwise identical on all ranks.
#pragma once
#include "mpi_common.hpp"
#include <complex>
#include <functional>
#include <amgcl/value_type/complex.hpp>
#include <amgcl/value_type/static_matrix.hpp>

typedef std::complex<double> Cd;

// ---------------------------------------------------------------- exact Gaussian rationals
struct CQ { Q re, im; CQ() {} CQ(const Q &r, const Q &i) : re(r), im(i) {} };
static inline CQ operator+(const CQ &a, const CQ &b) { return CQ(a.re + b.re, a.im + b.im); }
static inline CQ operator-(const CQ &a, const CQ &b) { return CQ(a.re - b.re, a.im - b.im); }
static inline CQ operator*(const CQ &a, const CQ &b) { return CQ(a.re * b.re - a.im * b.im, a.re * b.im + a.im * b.re); }
static inline CQ cj(const CQ &a) { return CQ(a.re, -a.im); }
static inline bool operator==(const CQ &a, const CQ &b) { return a.re.v == b.re.v && a.im.v == b.im.v; }
static inline bool operator!=(const CQ &a, const CQ &b) { return !(a == b); }
static inline bool cq_zero(const CQ &a) { return a.re.v == 0 && a.im.v == 0; }
typedef std::vector<CQ> CVecQ;
typedef std::vector<std::vector<CQ>> CDense;

static CDense cd_mul(const CDense &A, const CDense &B, size_t mcols) {
    size_t n = A.size(), k = B.size(); CDense C(n, CVecQ(mcols));
    for (size_t i = 0; i < n; ++i) for (size_t l = 0; l < k; ++l) if (!cq_zero(A[i][l])) for (size_t j = 0; j < mcols; ++j) C[i][j] = C[i][j] + A[i][l] * B[l][j];
    return C;
}
static CVecQ cd_mv(const CDense &A, const CVecQ &x) {
    CVecQ y(A.size()); for (size_t i = 0; i < A.size(); ++i) for (size_t j = 0; j < x.size(); ++j) y[i] = y[i] + A[i][j] * x[j]; return y;
}
static CDense cd_adjoint(const CDense &A, size_t mcols) {
    CDense T(mcols, CVecQ(A.size())); for (size_t i = 0; i < A.size(); ++i) for (size_t j = 0; j < mcols; ++j) T[j][i] = cj(A[i][j]); return T;
}
static bool cd_eq(const CDense &a, const CDense &b) {
    if (a.size() != b.size()) return false;
    for (size_t i = 0; i < a.size(); ++i) { if (a[i].size() != b[i].size()) return false; for (size_t j = 0; j < a[i].size(); ++j) if (a[i][j] != b[i][j]) return false; }
    return true;
}
static bool cv_eq(const CVecQ &a, const CVecQ &b) { if (a.size() != b.size()) return false; for (size_t i = 0; i < a.size(); ++i) if (a[i] != b[i]) return false; return true; }
// is the rational q the square of a rational?
static bool is_square(const Q &q) {
    if (q.v < 0) return false;
    return mpz_perfect_square_p(q.v.get_num_mpz_t()) != 0 && mpz_perfect_square_p(q.v.get_den_mpz_t()) != 0;
}

// ---------------------------------------------------------------- scalar traits (double | complex<double>)
template <class S> struct ST;
template <> struct ST<double> {
    static const bool cx = false;
    static double rd(Cur &c) { return exact(c.rat()); }
    static CQ q(double v) { return CQ(Q(v), Q(0)); }
    static bool ok(double v) { return dyadic_ok(v); }
    static void put(Line &l, double v) { l << qd(v); }
    static double make(long re, long) { return (double)re; }
};
template <> struct ST<Cd> {
    static const bool cx = true;
    static Cd rd(Cur &c) { double re = exact(c.rat()); double im = exact(c.rat()); return Cd(re, im); }
    static CQ q(const Cd &v) { return CQ(Q(v.real()), Q(v.imag())); }
    static bool ok(const Cd &v) { return dyadic_ok(v.real()) && dyadic_ok(v.imag()); }
    static void put(Line &l, const Cd &v) { l << qd(v.real()); l << qd(v.imag()); }
    static Cd make(long re, long im) { return Cd((double)re, (double)im); }
};

// ---------------------------------------------------------------- value-type traits
template <class V> struct VT {                      // scalar value types: rhs type = V, 1 x 1 "block"
    typedef V S; typedef V R; static const int B = 1;
    static V rd(Cur &c) { return ST<S>::rd(c); }
    static R rdr(Cur &c) { return ST<S>::rd(c); }
    static CQ at(const V &v, int, int) { return ST<S>::q(v); }
    static CQ atr(const R &v, int) { return ST<S>::q(v); }
    static void put(Line &l, const V &v) { ST<S>::put(l, v); }
    static void putr(Line &l, const R &v) { ST<S>::put(l, v); }
    static bool ok(const V &v) { return ST<S>::ok(v); }
    static bool okr(const R &v) { return ST<S>::ok(v); }
    static std::string name() { return ST<S>::cx ? "cx" : "re"; }
};
template <class T, int N> struct VT< amgcl::static_matrix<T, N, N> > {
    typedef T S; typedef amgcl::static_matrix<T, N, N> V; typedef amgcl::static_matrix<T, N, 1> R; static const int B = N;
    static V rd(Cur &c) { V v; for (int i = 0; i < N * N; ++i) v(i) = ST<T>::rd(c); return v; }
    static R rdr(Cur &c) { R v; for (int i = 0; i < N; ++i) v(i) = ST<T>::rd(c); return v; }
    static CQ at(const V &v, int i, int j) { return ST<T>::q(v(i, j)); }
    static CQ atr(const R &v, int i) { return ST<T>::q(v(i)); }
    static void put(Line &l, const V &v) { for (int i = 0; i < N * N; ++i) ST<T>::put(l, v(i)); }
    static void putr(Line &l, const R &v) { for (int i = 0; i < N; ++i) ST<T>::put(l, v(i)); }
    static bool ok(const V &v) { for (int i = 0; i < N * N; ++i) if (!ST<T>::ok(v(i))) return false; return true; }
    static bool okr(const R &v) { for (int i = 0; i < N; ++i) if (!ST<T>::ok(v(i))) return false; return true; }
    static std::string name() { return std::string(ST<T>::cx ? "cx" : "re") + "_b" + std::to_string(N); }
};

// ---------------------------------------------------------------- matrices / vectors in protocol form
template <class V> struct GMat { long n = 0, m = 0; std::vector<ptrdiff_t> ptr, col; std::vector<V> val; };
// `check_cols`: columns must be < ncols (false for the remote part of a distributed matrix: global columns, ncols = number
// of distinct remote columns)
template <class V> static GMat<V> rd_mat(Cur &c, bool check_cols = true) {
    GMat<V> M; M.n = c.nat(); M.m = c.nat(); if (M.n < 0 || M.m < 0) throw bad_input("size"); M.ptr.push_back(0);
    for (long r = 0; r < M.n; ++r) {
        long k = c.nat(); if (k < 0) throw bad_input("k");
        for (long j = 0; j < k; ++j) { long cc = c.nat(); if (cc < 0 || (check_cols && cc >= M.m)) throw bad_input("col"); M.col.push_back(cc); M.val.push_back(VT<V>::rd(c)); }
        M.ptr.push_back((ptrdiff_t)M.col.size());
    }
    return M;
}
template <class V> static std::vector<typename VT<V>::R> rd_vec(Cur &c) {
    long n = c.nat(); if (n < 0) throw bad_input("n"); std::vector<typename VT<V>::R> v; v.reserve(n);
    for (long i = 0; i < n; ++i) v.push_back(VT<V>::rdr(c)); return v;
}
template <class V> static void need_gm(const GMat<V> &A, const Part &rp, const Part &cp) { need(rp.np() == cp.np() && rp.sum == A.n && cp.sum == A.m); }

// dense scalar expansion of a block CRS matrix given by (n, m, ptr, col, val); duplicates are summed
template <class V, class P, class C, class W> static CDense cd_of(long n, long m, const P &ptr, const C &col, const W &val) {
    const int B = VT<V>::B; CDense D(n * B, CVecQ(m * B));
    for (long i = 0; i < n; ++i) for (auto j = ptr[i]; j < ptr[i+1]; ++j) for (int a = 0; a < B; ++a) for (int b = 0; b < B; ++b) { CQ &d = D[i * B + a][col[j] * B + b]; d = d + VT<V>::at(val[j], a, b); }
    return D;
}
template <class V> static CDense cd_of(const GMat<V> &A) { return cd_of<V>(A.n, A.m, A.ptr, A.col, A.val); }
template <class V> static CDense cd_of(const amgcl::backend::crs<V> &A) { return cd_of<V>((long)A.nrows, (long)A.ncols, A.ptr, A.col, A.val); }
template <class V> static CVecQ cv_of(const std::vector<typename VT<V>::R> &x) {
    const int B = VT<V>::B; CVecQ v(x.size() * B); for (size_t i = 0; i < x.size(); ++i) for (int a = 0; a < B; ++a) v[i * B + a] = VT<V>::atr(x[i], a); return v;
}

template <class V> static void put_crs_vt(Line &l, const amgcl::backend::crs<V> &A) {
    l << A.nrows << A.ncols;
    for (size_t i = 0; i < A.nrows; ++i) { l << (long)(A.ptr[i+1] - A.ptr[i]); for (auto j = A.ptr[i]; j < A.ptr[i+1]; ++j) { l << (long)A.col[j]; VT<V>::put(l, A.val[j]); } }
}
template <class V> static Line& operator<<(Line &l, const GMat<V> &A) {
    l << A.n << A.m;
    for (long i = 0; i < A.n; ++i) { l << (long)(A.ptr[i+1] - A.ptr[i]); for (auto j = A.ptr[i]; j < A.ptr[i+1]; ++j) { l << (long)A.col[j]; VT<V>::put(l, A.val[j]); } }
    return l;
}
template <class V> static void put_rvec(Line &l, const std::vector<typename VT<V>::R> &v) { l << v.size(); for (auto &e : v) VT<V>::putr(l, e); }
template <class S> static std::string bits_of(const S &v) { const unsigned char *p = (const unsigned char*)&v; std::string s; char b[4]; for (size_t i = 0; i < sizeof(S); ++i) { snprintf(b, sizeof b, "%02x", p[i]); s += b; } return s; }

template <class V> static bool has_remote_gm(const GMat<V> &A, const Part &rp, const Part &cp) {
    for (int r = 0; r < rp.np(); ++r) for (long i = rp.off[r]; i < rp.off[r+1]; ++i) for (auto j = A.ptr[i]; j < A.ptr[i+1]; ++j) if (A.col[j] < cp.off[r] || A.col[j] >= cp.off[r+1]) return true;
    return false;
}
// "genuinely non-real / non-commutative": some scalar component has a non-zero imaginary part, or the block is not diagonal
template <class V> static bool genuine(const V &v) {
    const int B = VT<V>::B;
    for (int a = 0; a < B; ++a) for (int b = 0; b < B; ++b) { CQ q = VT<V>::at(v, a, b); if (q.im.v != 0) return true; if (a != b && q.re.v != 0) return true; }
    return false;
}

// ---------------------------------------------------------------- the executor
template <class V> struct VtExec {
    typedef VT<V> T; typedef typename T::S S; typedef typename T::R R;
    typedef amgcl::backend::builtin<V> BK; typedef amgcl::mpi::distributed_matrix<BK> DMv; typedef amgcl::backend::crs<V> Crsv;
    typedef GMat<V> GM; typedef std::vector<R> RVec;
    static const int B = T::B;

    static std::shared_ptr<DMv> make_dm(const Ctx &x, const GM &A, const Part &rp, const Part &cp) {
        long rb = rp.off[x.rank], re = rp.off[x.rank + 1];
        std::vector<ptrdiff_t> ptr(1, 0), col; std::vector<V> val;
        for (long i = rb; i < re; ++i) { for (auto j = A.ptr[i]; j < A.ptr[i+1]; ++j) { col.push_back(A.col[j]); val.push_back(A.val[j]); } ptr.push_back((ptrdiff_t)col.size()); }
        // the constructor under test: splits the strip into a_loc / a_rem and builds the communication pattern
        return std::make_shared<DMv>(x.comm, std::make_tuple((size_t)(re - rb), ptr, col, val), (ptrdiff_t)cp.p[x.rank]);
    }
    static std::shared_ptr<Crsv> serial(const GM &A) { return std::make_shared<Crsv>((size_t)A.n, (size_t)A.m, A.ptr, A.col, A.val); }
    static std::string dm_str(const DMv &A) { Line l; put_crs_vt<V>(l, *A.local()); put_crs_vt<V>(l, *A.remote()); return l.get(); }
    static RVec slice(const RVec &v, const Part &p, int r) { return RVec(v.begin() + p.off[r], v.begin() + p.off[r + 1]); }
    // gather the rank-local pieces of a distributed vector (as text) to rank 0
    static RVec gather_rvec(const Ctx &x, const RVec &loc, const Part &P) {
        Line l; for (auto &e : loc) T::putr(l, e);
        auto parts = gather_str(x, l.get()); RVec g;
        if (x.rank == 0) { Toks t = split(join(parts)); Cur c(t, 0); for (long i = 0; i < P.sum; ++i) g.push_back(T::rdr(c)); c.expect_end(); }
        return g;
    }
    static bool same_on_all(const Ctx &x, const S &v) {
        auto all = gather_str(x, bits_of(v)); bool ok = true; if (x.rank == 0) for (auto &s : all) if (s != all[0]) ok = false; return ok;
    }
    // rank 0: parse the gathered per-rank `loc rem` strings, check the structure of every part and assemble the dense
    // (scalar-expanded) global matrix
    static bool assemble(const std::vector<std::string> &parts, const Part &rp, const Part &cp, CDense &G, std::string &why, bool &exactv) {
        G.assign(rp.sum * B, CVecQ(cp.sum * B)); exactv = true;
        for (int r = 0; r < rp.np(); ++r) {
            Toks t = split(parts[r]); Cur c(t, 0); GM L = rd_mat<V>(c, false), Rm = rd_mat<V>(c, false);
            if (L.n != rp.p[r] || Rm.n != rp.p[r]) { why = "part has wrong row count"; return false; }
            if (L.m != cp.p[r]) { why = "a_loc has wrong column count"; return false; }
            std::set<long> rc;
            for (long i = 0; i < L.n; ++i) {
                for (auto j = L.ptr[i]; j < L.ptr[i+1]; ++j) {
                    if (L.col[j] < 0 || L.col[j] >= cp.p[r]) { why = "local column out of range"; return false; }
                    for (int a = 0; a < B; ++a) for (int b = 0; b < B; ++b) { CQ &d = G[(rp.off[r] + i) * B + a][(cp.off[r] + L.col[j]) * B + b]; d = d + T::at(L.val[j], a, b); }
                }
                for (auto j = Rm.ptr[i]; j < Rm.ptr[i+1]; ++j) {
                    long gc = Rm.col[j]; if (gc < 0 || gc >= cp.sum || (gc >= cp.off[r] && gc < cp.off[r+1])) { why = "remote column not remote"; return false; }
                    rc.insert(gc);
                    for (int a = 0; a < B; ++a) for (int b = 0; b < B; ++b) { CQ &d = G[(rp.off[r] + i) * B + a][gc * B + b]; d = d + T::at(Rm.val[j], a, b); }
                }
            }
            if ((long)rc.size() != Rm.m) { why = "a_rem->ncols != number of distinct remote columns"; return false; }
            for (auto &v : L.val) if (!T::ok(v)) exactv = false;
            for (auto &v : Rm.val) if (!T::ok(v)) exactv = false;
        }
        return true;
    }
    static void tags(Result &r, const std::string &op, const Part &rp, const Part &cp, bool rect) { ::tags(r, op.c_str(), rp, cp, rect); r.tag(T::name()); }
    // Frobenius norm of every entry rational?  (Gershgorin: math::norm must be exact)
    static bool norms_exact(const GM &A) {
        for (auto &v : A.val) { Q s(0); for (int a = 0; a < B; ++a) for (int b = 0; b < B; ++b) { CQ q = T::at(v, a, b); s += q.re * q.re + q.im * q.im; } if (!is_square(s)) return false; }
        return true;
    }
    static bool any_genuine(const GM &A) { for (auto &v : A.val) if (genuine<V>(v)) return true; return false; }
    static bool any_cx(const RVec &x) { for (auto &e : x) for (int a = 0; a < B; ++a) if (T::atr(e, a).im.v != 0) return true; return false; }

    static Result run(const std::string &op, Cur &c) {
        Result r;
        if (op == "split") {
            Part rp = part(c), cp = part(c); GM A = rd_mat<V>(c); c.expect_end(); need_gm(A, rp, cp);
            Ctx x = ctx_for(rp.np()); if (!x.active) return r;
            auto D = make_dm(x, A, rp, cp);
            const auto &C = D->cpat(); const Crsv &rem = *D->remote();
            Line p; put_vec(p, C.recv.nbr); put_vec(p, C.recv.ptr); put_vec(p, C.send.nbr); put_vec(p, C.send.ptr); put_vec(p, C.send.col);
            std::vector<long> li, ni; for (size_t j = 0; j < rem.nnz; ++j) { li.push_back(C.local_index(rem.col[j])); ni.push_back(C.domain(rem.col[j])); }
            put_vec(p, li); put_vec(p, ni);
            // pattern oracle on the implementation, with values of the rhs type of V: ship (global index, -global index)
            // of every owned column; each remote column must arrive in the slot its renumbered index points to
            std::vector<R> sv(C.send.count()), rv(C.recv.count(), amgcl::math::constant<R>(-1.0));
            for (size_t i = 0; i < sv.size(); ++i) sv[i] = amgcl::math::constant<R>((double)(cp.off[x.rank] + C.send.col[i]));
            C.exchange(sv.data(), rv.data());
            bool pat_ok = true; std::set<long> distinct;
            for (size_t j = 0; j < rem.nnz; ++j) {
                distinct.insert(rem.col[j]); long s = C.local_index(rem.col[j]);
                if (s < 0 || s >= (long)rv.size()) { pat_ok = false; continue; }
                R want = amgcl::math::constant<R>((double)rem.col[j]);
                for (int a = 0; a < B; ++a) if (T::atr(rv[s], a) != T::atr(want, a)) pat_ok = false;
            }
            if (distinct.size() != C.recv.count()) pat_ok = false;
            for (size_t i = 0; i < C.send.col.size(); ++i) if (C.send.col[i] < 0 || C.send.col[i] >= cp.p[x.rank]) pat_ok = false;
            pat_ok = all_true(x, pat_ok);
            bool sizes_ok = all_true(x, D->glob_rows() == A.n && D->glob_cols() == A.m && D->glob_nonzeros() == (long)A.col.size() && D->loc_rows() == rp.p[x.rank] && D->loc_cols() == cp.p[x.rank]);
            auto parts = gather_str(x, dm_str(*D)); auto pats = gather_str(x, p.get());
            if (x.rank) return r;
            CDense G; std::string why; bool ex;
            if (!assemble(parts, rp, cp, G, why, ex)) r.fail("split: " + why); else if (!cd_eq(G, cd_of(A))) r.fail("assembled split != A");
            if (!pat_ok) r.fail("a remote column is not received in the slot its renumbered index points to");
            if (!sizes_ok) r.fail("global/local sizes wrong or not identical on all ranks");
            r.out = (Line() << A.n << A.m << A.col.size()).get() + " " + join(parts) + " " + join(pats);
            r.nontrivial = has_remote_gm(A, rp, cp); tags(r, "split", rp, cp, A.n != A.m);
        } else if (op == "spmv" || op == "residual") {
            bool sp = op == "spmv";
            Part rp = part(c), cp = part(c); S al = ST<S>::make(1, 0), be = ST<S>::make(0, 0); GM A; RVec X, Y, F;
            if (sp) { al = ST<S>::rd(c); A = rd_mat<V>(c); X = rd_vec<V>(c); be = ST<S>::rd(c); Y = rd_vec<V>(c); }
            else { A = rd_mat<V>(c); F = rd_vec<V>(c); X = rd_vec<V>(c); Y = F; }
            c.expect_end(); need_gm(A, rp, cp); need((long)X.size() == A.m && (long)Y.size() == A.n);
            Ctx x = ctx_for(rp.np()); if (!x.active) return r;
            auto D = make_dm(x, A, rp, cp); D->move_to_backend();
            RVec xl = slice(X, cp, x.rank), yl = slice(Y, rp, x.rank);
            if (sp) amgcl::backend::spmv(al, *D, xl, be, yl);
            else { RVec fl = yl; for (auto &e : yl) e = amgcl::math::constant<R>(12345.0); amgcl::backend::residual(fl, *D, xl, yl); }
            RVec g = gather_rvec(x, yl, rp);
            if (x.rank) return r;
            // (1) serial kernel at the same value type on the assembled matrix
            RVec Ys = Y; auto Sm = serial(A);
            if (sp) amgcl::backend::spmv(al, *Sm, X, be, Ys); else amgcl::backend::residual(F, *Sm, X, Ys);
            // (2) dense exact recomputation on the scalar expansion
            CVecQ ax = cd_mv(cd_of(A), cv_of<V>(X)), y0 = cv_of<V>(Y), ref(ax.size());
            CQ qa = ST<S>::q(al), qb = ST<S>::q(be);
            for (size_t i = 0; i < ax.size(); ++i) ref[i] = sp ? qa * ax[i] + qb * y0[i] : y0[i] - ax[i];
            CVecQ got = cv_of<V>(g);
            bool ex = true; for (auto &e : g) if (!T::okr(e)) ex = false;
            if (!cv_eq(got, cv_of<V>(Ys))) r.fail(sp ? "distributed spmv != serial spmv on the assembled matrix" : "distributed residual != serial residual on the assembled matrix");
            if (!cv_eq(got, ref)) r.fail(sp ? "distributed spmv != alpha*A*x + beta*y (dense, exact)" : "distributed residual != f - A*x (dense, exact)");
            if (!ex) r.fail("inexact: result is not a small dyadic number");
            Line l; put_rvec<V>(l, g); r.out = l.get();
            r.nontrivial = has_remote_gm(A, rp, cp) && any_genuine(A); tags(r, op, rp, cp, A.n != A.m); if (sp && cq_zero(qb)) r.tag("beta0");
        } else if (op == "ip" || op == "norm") {
            bool nrm = op == "norm";
            Part p = part(c); RVec X = rd_vec<V>(c), Y = nrm ? X : rd_vec<V>(c); c.expect_end(); need((long)X.size() == p.sum && (long)Y.size() == p.sum);
            Ctx x = ctx_for(p.np()); if (!x.active) return r;
            RVec xl = slice(X, p, x.rank), yl = slice(Y, p, x.rank);
            amgcl::mpi::inner_product ip(x.comm);
            S v = ip(xl, yl);
            bool same = same_on_all(x, v);
            if (x.rank) return r;
            S s = amgcl::backend::inner_product(X, Y);                        // serial kernel on the assembled vectors
            CVecQ xq = cv_of<V>(X), yq = cv_of<V>(Y); CQ ref;                  // <x,y> = sum x_i conj(y_i)
            for (size_t i = 0; i < xq.size(); ++i) ref = ref + xq[i] * cj(yq[i]);
            CQ got = ST<S>::q(v);
            if (!same) r.fail("inner product differs between ranks");
            if (got != ST<S>::q(s)) r.fail("distributed inner product != serial inner product (got " + got.re.str() + " " + got.im.str() + ", serial " + ST<S>::q(s).re.str() + " " + ST<S>::q(s).im.str() + ")");
            if (got != ref) r.fail("distributed inner product != sum x_i * conj(y_i) (dense, exact)");
            if (nrm && (got.im.v != 0 || got.re.v < 0)) r.fail("<x,x> is not a non-negative real number");
            if (!ST<S>::ok(v)) r.fail("inexact");
            Line l; ST<S>::put(l, v); r.out = l.get();
            r.nontrivial = p.sum > 0 && (nrm ? any_cx(X) || !ST<S>::cx : ref.im.v != 0 || !ST<S>::cx); tags(r, op, p, p, false); if (ref.im.v != 0) r.tag("ip_nonreal");
        } else if (op == "transpose" || op == "sort") {
            Part rp = part(c), cp = part(c); GM A = rd_mat<V>(c); c.expect_end(); need_gm(A, rp, cp);
            Ctx x = ctx_for(rp.np()); if (!x.active) return r;
            auto D = make_dm(x, A, rp, cp);
            bool tr = op == "transpose", loc_ok = true;
            std::shared_ptr<DMv> Tm = D;
            if (tr) Tm = amgcl::mpi::transpose(*D); else amgcl::mpi::sort_rows(*D);
            if (tr) loc_ok = Tm->glob_rows() == A.m && Tm->glob_cols() == A.n && Tm->glob_nonzeros() == (long)A.col.size();
            else { for (const Crsv *P : { Tm->local().get(), Tm->remote().get() }) for (size_t i = 0; i < P->nrows; ++i) for (auto j = P->ptr[i]; j + 1 < P->ptr[i+1]; ++j) if (P->col[j] > P->col[j+1]) loc_ok = false; }
            loc_ok = all_true(x, loc_ok);
            auto parts = gather_str(x, dm_str(*Tm));
            if (x.rank) return r;
            CDense G, ref, ref2; std::string why; bool ex;
            if (tr) { auto St = amgcl::backend::transpose(*serial(A)); ref = cd_of(*St); ref2 = cd_adjoint(cd_of(A), A.m * B); } else ref = ref2 = cd_of(A);
            if (!assemble(parts, tr ? cp : rp, tr ? rp : cp, G, why, ex)) r.fail(op + ": " + why);
            else {
                if (!cd_eq(G, ref)) r.fail(tr ? "distributed transpose != serial transpose of the assembled matrix" : "sort_rows changed the matrix");
                if (!cd_eq(G, ref2)) r.fail("distributed transpose != conjugate transpose (dense, exact)");
            }
            if (!loc_ok) r.fail(tr ? "transpose: global sizes wrong" : "sort_rows: a part is not sorted");
            r.out = join(parts);
            r.nontrivial = has_remote_gm(A, rp, cp) && (!tr || any_genuine(A)); tags(r, tr ? "transpose" : "sort_rows", rp, cp, A.n != A.m);
        } else if (op == "scale") {
            Part rp = part(c), cp = part(c); GM A = rd_mat<V>(c); S s = ST<S>::rd(c); c.expect_end(); need_gm(A, rp, cp);
            Ctx x = ctx_for(rp.np()); if (!x.active) return r;
            auto D = make_dm(x, A, rp, cp);
            amgcl::mpi::scale(*D, s);
            auto parts = gather_str(x, dm_str(*D));
            if (x.rank) return r;
            auto Sm = serial(A); amgcl::backend::scale(*Sm, s);
            CDense G, ref = cd_of(A); CQ qs = ST<S>::q(s); for (auto &row : ref) for (auto &e : row) e = e * qs;
            std::string why; bool ex = true;
            if (!assemble(parts, rp, cp, G, why, ex)) r.fail("scale: " + why);
            else { if (!cd_eq(G, cd_of(*Sm))) r.fail("distributed scale != serial scale"); if (!cd_eq(G, ref)) r.fail("distributed scale != s*A (dense, exact)"); }
            if (!ex) r.fail("inexact");
            r.out = join(parts); r.nontrivial = A.col.size() > 0 && (qs.im.v != 0 || !ST<S>::cx); tags(r, "scale", rp, cp, A.n != A.m);
        } else if (op == "product" || op == "remote_rows") {
            Part rp = part(c), mp = part(c), cp = part(c); GM A = rd_mat<V>(c), Bm = rd_mat<V>(c); c.expect_end(); need_gm(A, rp, mp); need_gm(Bm, mp, cp);
            Ctx x = ctx_for(rp.np()); if (!x.active) return r;
            auto DA = make_dm(x, A, rp, mp), DB = make_dm(x, Bm, mp, cp);
            if (op == "remote_rows") {
                auto N = amgcl::mpi::remote_rows(DA->cpat(), *DB);
                // oracle (every rank holds the global input): row i of B_nbr is the global row of B named by the i-th
                // distinct remote column of A on this rank
                std::set<long> rc; const Crsv &ar = *DA->remote(); for (size_t j = 0; j < ar.nnz; ++j) rc.insert(ar.col[j]);
                bool ok = N->nrows == rc.size(); CDense DBd = cd_of(Bm); size_t i = 0;
                for (long gc : rc) {
                    if (!ok) break;
                    CDense row(B, CVecQ(Bm.m * B));
                    for (auto j = N->ptr[i]; j < N->ptr[i+1]; ++j) {
                        if (N->col[j] < 0 || N->col[j] >= Bm.m) { ok = false; break; }
                        for (int a = 0; a < B; ++a) for (int b = 0; b < B; ++b) { CQ &d = row[a][N->col[j] * B + b]; d = d + T::at(N->val[j], a, b); }
                    }
                    for (int a = 0; ok && a < B; ++a) if (!cv_eq(row[a], DBd[gc * B + a])) ok = false;
                    ++i;
                }
                ok = all_true(x, ok);
                Line l; put_crs_vt<V>(l, *N); auto parts = gather_str(x, l.get());
                if (x.rank) return r;
                if (!ok) r.fail("remote_rows: a received row is not the requested global row of B");
                r.out = join(parts); r.nontrivial = has_remote_gm(A, rp, mp); tags(r, "remote_rows", rp, cp, A.n != A.m || Bm.n != Bm.m);
            } else {
                auto P = amgcl::mpi::product(*DA, *DB);
                bool sz = all_true(x, P->glob_rows() == A.n && P->glob_cols() == Bm.m);
                auto parts = gather_str(x, dm_str(*P));
                if (x.rank) return r;
                auto Sm = amgcl::backend::product(*serial(A), *serial(Bm));
                CDense G, ref = cd_mul(cd_of(A), cd_of(Bm), Bm.m * B); std::string why; bool ex = true;
                if (!assemble(parts, rp, cp, G, why, ex)) r.fail("product: " + why);
                else { if (!cd_eq(G, cd_of(*Sm))) r.fail("distributed product != serial product of the assembled matrices"); if (!cd_eq(G, ref)) r.fail("distributed product != A*B (dense, exact)"); }
                if (!sz) r.fail("product: global sizes wrong"); if (!ex) r.fail("inexact");
                r.out = join(parts); r.nontrivial = has_remote_gm(A, rp, mp) && Bm.col.size() > 0 && any_genuine(A) && any_genuine(Bm); tags(r, "product", rp, cp, A.n != A.m || Bm.n != Bm.m);
            }
        } else if (op == "gersh" || op == "power") {
            long scf = c.nat(); need(scf == 0 || scf == 1); bool sc = scf != 0; long iters = 0; if (op == "power") { iters = c.nat(); need(iters > 0); }
            Part p = part(c); GM A = rd_mat<V>(c); c.expect_end(); need_gm(A, p, p);
            if (op == "gersh") need(norms_exact(A));                            // math::norm of every entry must be exact
            Ctx x = ctx_for(p.np()); if (!x.active) return r;
            auto D = make_dm(x, A, p, p);
            double g = sc ? amgcl::backend::spectral_radius<true>(*D, (int)iters) : amgcl::backend::spectral_radius<false>(*D, (int)iters);
            bool same = same_on_all(x, g);
            if (x.rank) return r;
            if (!same) r.fail("spectral radius estimate differs between ranks");
            if (op == "power") { r.out = same ? "rank-consistent" : "rank-inconsistent"; r.nontrivial = A.n > 1 && p.np() > 1; tags(r, "power", p, p, false); return r; }
            auto Sm = serial(A); double ref = sc ? amgcl::backend::spectral_radius<true>(*Sm, 0) : amgcl::backend::spectral_radius<false>(*Sm, 0);
            bool alldiag = true; for (long i = 0; i < A.n; ++i) { int nd = 0; for (auto j = A.ptr[i]; j < A.ptr[i+1]; ++j) if (A.col[j] == i) ++nd; if (nd != 1) alldiag = false; }
            if ((alldiag || !sc) && g != ref) r.fail("distributed Gershgorin estimate != serial estimate");
            if (!sc) {      // dense, exact: max over block rows of the sum of the Frobenius norms of the stored entries
                Q best(0);
                for (long i = 0; i < A.n; ++i) { Q s(0); for (auto j = A.ptr[i]; j < A.ptr[i+1]; ++j) { Q n2(0); for (int a = 0; a < B; ++a) for (int b = 0; b < B; ++b) { CQ q = T::at(A.val[j], a, b); n2 += q.re * q.re + q.im * q.im; } mpz_class nn, dd; mpz_sqrt(nn.get_mpz_t(), n2.v.get_num_mpz_t()); mpz_sqrt(dd.get_mpz_t(), n2.v.get_den_mpz_t()); mpq_class rt(nn, dd); rt.canonicalize(); s += Q(rt, Q::raw()); } if (s > best) best = s; }
                if (Q(g).v != best.v) r.fail("distributed Gershgorin estimate != max_i sum_j |a_ij| (dense, exact)");
            }
            if ((B == 1 || !sc) && !dyadic_ok(g)) r.fail("inexact");
            r.out = (Line() << qd(g)).get(); r.nontrivial = A.col.size() > 0 && p.np() > 1 && any_genuine(A); tags(r, sc ? "gersh_scaled" : "gersh", p, p, false); if (!alldiag) r.tag("missing_diag");
        } else r.out = "bad-op";
        return r;
    }
};

// ---------------------------------------------------------------- generation
// scalar components: small integers; a complex component has a non-zero imaginary part with probability 7/8
template <class S> static S gen_scalar(Rng &rng, long pm);
template <> double gen_scalar<double>(Rng &rng, long pm) { return (double)rng.range(-pm, pm); }
template <> Cd gen_scalar<Cd>(Rng &rng, long pm) { for (;;) { long re = rng.range(-pm, pm), im = rng.range(-pm, pm); if (im == 0 && !rng.coin(1, 8)) continue; return Cd((double)re, (double)im); } }

template <class V> struct VtGen {
    typedef VT<V> T; typedef typename T::S S; typedef typename T::R R; typedef GMat<V> GM; static const int B = T::B;
    static_assert(VT<V>::B >= 1 && VT<V>::B <= 3, "dval: magnitudes are tabulated for block sizes 1..3");
    static bool zero_v(const V &v) { for (int a = 0; a < B; ++a) for (int b = 0; b < B; ++b) if (!cq_zero(T::at(v, a, b))) return false; return true; }
    static V from_fn(const std::function<S(int,int)> &f) { V v = amgcl::math::zero<V>(); set_all(v, f); return v; }
    static void set_all(V &v, const std::function<S(int,int)> &f) { set_impl(v, f, std::integral_constant<bool, (VT<V>::B > 1)>()); }
    static void set_impl(V &v, const std::function<S(int,int)> &f, std::true_type) { for (int a = 0; a < B; ++a) for (int b = 0; b < B; ++b) v(a, b) = f(a, b); }
    static void set_impl(V &v, const std::function<S(int,int)> &f, std::false_type) { v = f(0, 0); }
    static void setr(R &v, int a, const S &s) { setr_impl(v, a, s, std::integral_constant<bool, (VT<V>::B > 1)>()); }
    static void setr_impl(R &v, int a, const S &s, std::true_type) { v(a) = s; }
    static void setr_impl(R &v, int, const S &s, std::false_type) { v = s; }
    // non-zero value: full (non-symmetric, non-diagonal) blocks
    static V val(Rng &rng, long pm = 3) { for (;;) { V v = from_fn([&](int, int) { return gen_scalar<S>(rng, pm); }); if (!zero_v(v)) return v; } }
    // non-zero value whose Frobenius norm is an integer (rejection sampling over small integer components)
    static V nval(Rng &rng) {
        for (;;) {
            long pm = B == 1 ? 12 : 2; V v = from_fn([&](int, int) { return gen_scalar<S>(rng, pm); });
            Q s(0); for (int a = 0; a < B; ++a) for (int b = 0; b < B; ++b) { CQ q = T::at(v, a, b); s += q.re * q.re + q.im * q.im; }
            if (s.v != 0 && is_square(s)) return v;
        }
    }
    // diagonal value for the scaled Gershgorin estimate: a signed permutation pattern (times i at random for complex
    // components) with magnitudes 2^k * (1 | 3,4 | 1,2,2), so that the Frobenius norm is an integer; for scalars the
    // inverse is exact as well (blocks: the inverse is computed by the same code on the serial and the distributed side)
    static V dval(Rng &rng) {
        static const double pw[] = { 1, 2, 4, 0.5, 8 };
        static const double mg[3][3] = { { 1, 0, 0 }, { 3, 4, 0 }, { 1, 2, 2 } };
        std::vector<int> perm(B); for (int a = 0; a < B; ++a) perm[a] = a; for (int a = B - 1; a > 0; --a) std::swap(perm[a], perm[rng.range(0, a)]);
        std::vector<int> mp(B); for (int a = 0; a < B; ++a) mp[a] = a; for (int a = B - 1; a > 0; --a) std::swap(mp[a], mp[rng.range(0, a)]);
        double sc = pw[rng.range(0, 4)];
        std::vector<S> d(B); for (int a = 0; a < B; ++a) { double m = sc * mg[B - 1][mp[a]] * (rng.coin() ? 1 : -1); d[a] = (ST<S>::cx && rng.coin()) ? ST<S>::make(0, 1) * m : ST<S>::make(1, 0) * m; }
        return from_fn([&](int a, int b) { return perm[a] == b ? d[a] : ST<S>::make(0, 0); });
    }
    static R rval(Rng &rng) { R v = amgcl::math::zero<R>(); for (int a = 0; a < B; ++a) setr(v, a, gen_scalar<S>(rng, 4)); return v; }
    static std::vector<R> vec(Rng &rng, long n) { std::vector<R> v; for (long i = 0; i < n; ++i) v.push_back(rval(rng)); return v; }
    static S coef(Rng &rng) { if (rng.coin(1, 4)) return ST<S>::make(rng.coin() ? 0 : 1, 0); return gen_scalar<S>(rng, 2); }

    typedef std::vector<std::vector<std::pair<long, V>>> Rows;
    static GM from_rows(long n, long m, const Rows &rows) {
        GM M; M.n = n; M.m = m; M.ptr.push_back(0);
        for (auto &r : rows) { for (auto &cv : r) { M.col.push_back(cv.first); M.val.push_back(cv.second); } M.ptr.push_back((ptrdiff_t)M.col.size()); }
        return M;
    }
    // sparse matrix with small-integer entries; optionally unsorted rows and duplicate entries (a + b split of one entry)
    static GM mat(Rng &rng, long n, long m, int dens, bool messy, bool norm_exact = false) {
        Rows rows(n);
        for (long i = 0; i < n; ++i) for (long j = 0; j < m; ++j) if (rng.range(0, 99) < dens) rows[i].push_back({j, norm_exact ? nval(rng) : val(rng)});
        if (messy) {
            if (rng.coin()) for (auto &r : rows) { size_t k = r.size(); for (size_t j = 0; j < k; ++j) if (rng.coin(1, 4)) r.push_back({r[j].first, norm_exact ? nval(rng) : val(rng, 2)}); }
            for (auto &r : rows) for (size_t i = r.size(); i > 1; --i) std::swap(r[i - 1], r[rng.range(0, (long)i - 1)]);
        }
        return from_rows(n, m, rows);
    }
    // square matrix with exactly one diagonal entry per row (dval); `drop`: some rows without
    static GM gmat(Rng &rng, long n, int dens, bool drop) {
        Rows rows(n);
        for (long i = 0; i < n; ++i) { for (long j = 0; j < n; ++j) { if (j == i) { if (!(drop && rng.coin(1, 4))) rows[i].push_back({i, dval(rng)}); } else if (rng.range(0, 99) < dens) rows[i].push_back({j, nval(rng)}); } }
        return from_rows(n, n, rows);
    }
    static void pv(Line &l, const std::vector<R> &v) { put_rvec<V>(l, v); }
    static void ps(Line &l, const S &s) { ST<S>::put(l, s); }

    // `pre`: op prefix including the type selector tokens of the harness, e.g. "cdist_" or "bdist_"; `sel`: tokens after the op
    static std::string gen_case(Rng &rng, const std::string &pre, const std::string &sel, int which, const std::vector<long> &rp, const std::vector<long> &mp, const std::vector<long> &cp, bool messy) {
        long n = 0, k = 0, m = 0; for (long s : rp) n += s; for (long s : mp) k += s; for (long s : cp) m += s;
        int dens = (int)rng.range(15, 70);
        Line l; auto opn = [&](const char *o) { l << (pre + o); if (!sel.empty()) l << sel; };
        switch (which) {
        case 0: opn("split"); lp(l, rp); lp(l, cp); l << mat(rng, n, m, dens, messy); break;
        case 1: opn("spmv"); lp(l, rp); lp(l, cp); ps(l, coef(rng)); l << mat(rng, n, m, dens, messy); pv(l, vec(rng, m)); ps(l, coef(rng)); pv(l, vec(rng, n)); break;
        case 2: opn("residual"); lp(l, rp); lp(l, cp); l << mat(rng, n, m, dens, messy); pv(l, vec(rng, n)); pv(l, vec(rng, m)); break;
        case 3: if (rng.coin(1, 4)) { opn("norm"); lp(l, rp); pv(l, vec(rng, n)); } else { opn("ip"); lp(l, rp); pv(l, vec(rng, n)); pv(l, vec(rng, n)); } break;
        case 4: opn("transpose"); lp(l, rp); lp(l, cp); l << mat(rng, n, m, dens, messy); break;
        case 5: opn("product"); lp(l, rp); lp(l, mp); lp(l, cp); l << mat(rng, n, k, dens, messy) << mat(rng, k, m, dens, messy); break;
        case 6: opn("remote_rows"); lp(l, rp); lp(l, mp); lp(l, cp); l << mat(rng, n, k, dens, messy) << mat(rng, k, m, dens, messy); break;
        case 7: opn("scale"); lp(l, rp); lp(l, cp); l << mat(rng, n, m, dens, messy); ps(l, rng.coin(1, 6) ? ST<S>::make(1, 0) * 0.5 : gen_scalar<S>(rng, 3)); break;
        case 8: opn("sort"); lp(l, rp); lp(l, cp); l << mat(rng, n, m, dens, true); break;
        case 9: { bool sc = rng.coin(); opn("gersh"); l << sc; lp(l, rp); if (sc) l << gmat(rng, n, dens, rng.coin(1, 6)); else l << mat(rng, n, n, dens, messy, true); break; }
        default: opn("power"); l << rng.coin() << rng.range(1, 4); lp(l, rp); l << gmat(rng, n, dens, false); break;
        }
        return l.get();
    }
    // every contiguous partition of n <= nmax rows over np = 1..W ranks (rows and columns partitioned alike, the op rotating),
    // then N random cases with independent row / inner / column partitions
    static void generate(Rng &rng, const std::string &pre, const std::string &sel, int W, long nmax, long N, long hi, std::vector<std::string> &lines) {
        int rot = (int)rng.range(0, 9);
        for (int np = 1; np <= W; ++np) for (long n = 0; n <= nmax; ++n) {
            std::vector<std::vector<long>> parts; std::vector<long> cur; compositions(n, np, cur, parts);
            for (auto &p : parts) { int w = rot++ % 10; lines.push_back(gen_case(rng, pre, sel, w, p, p, p, rng.coin(1, 4))); }
        }
        for (long k = 0; k < N; ++k) {
            int np = (int)rng.range(1, W);
            long n = rng.range(0, hi), m = rng.coin(2, 3) ? n : rng.range(0, hi), kk = rng.coin(2, 3) ? n : rng.range(0, hi);
            int w = (int)rng.range(0, 10);
            auto rp = rand_part(rng, n, np);
            if (w == 3 || w >= 9) lines.push_back(gen_case(rng, pre, sel, w, rp, rp, rp, rng.coin(1, 3)));
            else lines.push_back(gen_case(rng, pre, sel, w, rp, rand_part(rng, kk, np), (m == n && rng.coin()) ? rp : rand_part(rng, m, np), rng.coin(1, 3)));
        }
    }
};
