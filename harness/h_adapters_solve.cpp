// C13 harness (oracle-only part): FULL SOLVES of block-structured and complex systems through every wrapper, real
// amgcl code at exact types; the oracle is always evaluated against the ORIGINAL SCALAR (resp. complex) system.
//   s_block kind b wrap A f      wrap 0 make_block_solver, 1 relaxation::as_block (scalar backend), 2 coarsening::as_scalar
//                                (block backend), 3 backend::builtin_hybrid;
//                                kind 0: exact solve (single level = skyline LU, solver::preonly): A x == f exactly
//                                kind 1: multilevel AMG + CG/BiCGStab, <= 3 iterations: reported residual ==
//                                        rsqrt(|f - A x|^2) / rsqrt(|f|^2) recomputed on the scalar system
//   s_complex kind A w           complex system through adapter::complex_matrix / complex_range, real AMG at Q
//   t_mixed dim n                TEST (floating point, not a theorem): amg<builtin<float>> under cg<builtin<double>>
//                                on the Poisson model problems reaches the default tolerance 1e-8 (true residual recomputed)
//   s_block3 kind b wrap form A1 A2 f   the SOLVE-TIME-MATRIX overload operator()(A, rhs, x) of every wrapper: set up for A1,
//                                solve with A2 (a separately assembled copy, a scaled / shifted / perturbed matrix on the same
//                                pattern, a matrix with a different pattern) handed over as  form 0 scalar tuple, 1 separately
//                                assembled scalar crs (rows listed backwards), 2 adapter::block_matrix, 3 block-valued crs.
//                                kind 0: exact one-level preconditioner of A1, Krylov method run to convergence (<= min(n, 10)
//                                iterations); kind 1: multilevel AMG of A1, <= 3 iterations.  Oracles, all in the ORIGINAL
//                                SCALAR system of A2: reported residual == true residual; a converged solve satisfies
//                                A2 x == f; the result equals that of the scalar solver with the same preconditioner (kind 0:
//                                scalar backend with the exact preconditioner; kind 1: the block backend called directly
//                                resp. the scalar backend for the hybrid backend); A2 == A1 gives the result of the
//                                two-argument overload; CG with SPD A1, A2 converges within n iterations; A2 = c A1 in one.
//   s_complex3 kind A1 A2 w      the same for the complex adapter: solve(complex_matrix(A2), w, z) after a setup for A1
//   t_mixed3 b wrap m upd        TEST (floating point): single precision (block) preconditioner under a double precision
//                                (block) solver, entries NOT representable in float, the double matrix is given at solve time
//                                (operator()(A, rhs, x), as in the mixed-precision tutorials); upd 1: the solve-time matrix
//                                has updated coefficients, upd 2: the same in double precision throughout (wrap 0).  Reported < 1e-8 and TRUE residual (exact, from the doubles) <= 1e-8.
// Output line: `<iters> <reported residual>` | `exact` | `breakdown`; no Lean model is involved ("no_model").
#include "gen_adapters.hpp"
#include <amgcl/adapter/crs_tuple.hpp>
#include <amgcl/adapter/block_matrix.hpp>
#include <amgcl/adapter/complex.hpp>
#include <amgcl/value_type/static_matrix.hpp>
#include <amgcl/value_type/complex.hpp>
#include <amgcl/backend/builtin_hybrid.hpp>
#include <amgcl/make_solver.hpp>
#include <amgcl/make_block_solver.hpp>
#include <amgcl/amg.hpp>
#include <amgcl/coarsening/aggregation.hpp>
#include <amgcl/coarsening/smoothed_aggregation.hpp>
#include <amgcl/coarsening/as_scalar.hpp>
#include <amgcl/relaxation/ilu0.hpp>
#include <amgcl/relaxation/spai0.hpp>
#include <amgcl/relaxation/damped_jacobi.hpp>
#include <amgcl/relaxation/as_block.hpp>
#include <amgcl/solver/cg.hpp>
#include <amgcl/solver/bicgstab.hpp>
#include <amgcl/solver/preonly.hpp>
using namespace vh;
namespace C = amgcl::coarsening; namespace R = amgcl::relaxation; namespace S = amgcl::solver;

static std::vector<Q> to_std(const NVec &v) { std::vector<Q> r(v.size()); for (size_t i = 0; i < v.size(); ++i) r[i] = v[i]; return r; }
static Q dot(const std::vector<Q> &a, const std::vector<Q> &b) { Q s(0); for (size_t i = 0; i < a.size(); ++i) s += a[i] * b[i]; return s; }
static Q nrm(const std::vector<Q> &v) { return vq::sqrt(vq::abs(dot(v, v))); }
static Mat checked(Cur &c) { Mat A = c.mat(); std::string why; if (!crs_wf(*A.crs(), why)) throw bad_input(why); return A; }

// the oracle: x against the scalar system A x = f
static void judge(Result &r, const Mat &A, const std::vector<Q> &f, const std::vector<Q> &x, long kind, size_t iters, const Q &res, size_t maxiter) {
    std::vector<Q> rr = dmv(dense(A), x); for (size_t i = 0; i < rr.size(); ++i) rr[i] = f[i] - rr[i];
    if (kind == 0) {
        for (auto &e : rr) if (e != 0) { r.fail("exact solve through the wrapper: returned x does not satisfy the original scalar system"); break; }
        r.out = "exact";
    } else {
        Q truth = nrm(rr) / nrm(f);
        if (res.v != truth.v) r.fail("reported residual is not the residual of the returned x in the original scalar system");
        if (iters > maxiter) r.fail("iters > maxiter");
        r.out = (Line() << iters << res).get();
        r.tag("it" + std::to_string(iters));
    }
}

template <class Prm> static void amg_prm(Prm &p, long kind) {
    if (kind == 0) { p.coarse_enough = 100000; p.direct_coarse = true; }        // one level: the direct solver
    else { p.coarse_enough = 1; p.direct_coarse = true; p.npre = 1; p.npost = 1; }
}
template <class SP> static void it_prm(SP &p) { p.maxiter = 3; p.tol = 0; p.abstol = 0; }   // exactly three iterations unless r == 0
static void it_prm(amgcl::detail::empty_params&) {}

template <class Solver, class MatrixIn> static void run_solver(Result &r, const MatrixIn &Ain, typename Solver::params prm, const Mat &A, const std::vector<Q> &f, long kind) {
    try {
        Solver solve(Ain, prm);
        NVec F = nvec(f), X(A.n); for (long i = 0; i < A.n; ++i) X[i] = Q(0);
        size_t it; Q res;
        std::tie(it, res) = solve(F, X);
        judge(r, A, f, to_std(X), kind, it, res, 3);
    } catch (const std::runtime_error &e) {
        if (getenv("VH_DEBUG")) std::cerr << "exception: " << e.what() << "\n";
        r.out = "breakdown"; r.tag("breakdown");
        if (kind == 0) r.fail(std::string("exact solve threw: ") + e.what());
    }
}

// ---------------------------------------------------------------- the solve-time-matrix overload operator()(A, rhs, x)
struct Sol { bool threw = false; size_t it = 0; Q res; std::vector<Q> x; };
static bool same_sol(const Sol &a, const Sol &b) {
    if (a.threw != b.threw) return false;
    if (a.threw) return true;
    if (a.it != b.it || a.res.v != b.res.v || a.x.size() != b.x.size()) return false;
    for (size_t i = 0; i < a.x.size(); ++i) if (a.x[i].v != b.x[i].v) return false;
    return true;
}
template <class Fn> static Sol guarded(long n, Fn fn) {
    Sol s;
    try { NVec X(n); for (long i = 0; i < n; ++i) X[i] = Q(0); std::tie(s.it, s.res) = fn(X); s.x = to_std(X); }
    catch (const std::runtime_error &e) { if (getenv("VH_DEBUG")) std::cerr << "exception: " << e.what() << "\n"; s.threw = true; }
    return s;
}
static bool same_matrix(const Mat &A, const Mat &B) { return A.n == B.n && A.m == B.m && A.ptr == B.ptr && A.col == B.col && dense(A) == dense(B); }
static bool same_pattern(const Mat &A, const Mat &B) { return A.n == B.n && A.m == B.m && A.ptr == B.ptr && A.col == B.col; }
// A2 == c * A1 with one c != 0, 1 on a common pattern
static bool is_scaled(const Mat &A1, const Mat &A2) {
    if (!same_pattern(A1, A2) || A1.val.empty()) return false;
    size_t k = 0; while (k < A1.val.size() && A1.val[k] == 0) ++k; if (k == A1.val.size()) return false;
    Q c = A2.val[k] / A1.val[k]; if (c == 0 || c == 1) return false;
    for (size_t j = 0; j < A1.val.size(); ++j) if ((A1.val[j] * c).v != A2.val[j].v) return false;
    return true;
}
// symmetric with positive pivots (exact elimination without pivoting)
static bool is_spd(const Mat &A) {
    if (!is_symmetric(A)) return false;
    Dense D = dense(A); long n = A.n;
    for (long k = 0; k < n; ++k) { if (!(D[k][k] > 0)) return false; for (long i = k + 1; i < n; ++i) { if (D[i][k] == 0) continue; Q l = D[i][k] / D[k][k]; for (long j = k; j < n; ++j) D[i][j] -= l * D[k][j]; } }
    return true;
}
// how the matrix is handed to the solve step; B is the block size of the wrapper
template <int B, class Solver, class FV, class XV>
static std::tuple<size_t, Q> call_form(const Solver &solve, long form, const Mat &A2, const FV &F, XV &X) {
    typedef amgcl::static_matrix<Q, B, B> Blk;
    std::vector<ptrdiff_t> ptr(A2.ptr), col(A2.col); std::vector<Q> val(A2.val); ptrdiff_t n = A2.n;
    auto At = std::tie(n, ptr, col, val);
    if (form == 0) return solve(At, F, X);
    if (form == 1) {                    // a separately assembled scalar matrix: every row lists its entries backwards
        for (ptrdiff_t i = 0; i < n; ++i) { std::reverse(col.begin() + ptr[i], col.begin() + ptr[i+1]); std::reverse(val.begin() + ptr[i], val.begin() + ptr[i+1]); }
        amgcl::backend::crs<Q> Ac(At); return solve(Ac, F, X);
    }
    if (form == 2) return solve(amgcl::adapter::block_matrix<Blk>(At), F, X);
    if (form == 3) { amgcl::backend::crs<Blk> Ab(amgcl::adapter::block_matrix<Blk>(At)); return solve(Ab, F, X); }
    return solve(F, X);                 // form 4: the two-argument overload (internal, for A2 == A1)
}
// kind 0 runs to convergence (<= n iterations in exact arithmetic); the numbers grow with every iteration, so the run is
// capped at 10 iterations (the generators keep n <= 9 for kind 0; the convergence oracle applies to n <= 10 only)
static size_t maxiter3(long kind, long n) { return kind == 0 ? (size_t)std::min<long>(n, 10) : 3; }
template <class SP> static void it_prm3(SP &p, long kind, long n) { p.maxiter = maxiter3(kind, n); p.tol = 0; p.abstol = 0; }

struct Judge3 { const char *refname; bool cg; };
// the oracles of the solve-time overload; everything is evaluated on the scalar system of A2
static void judge3(Result &r, const Mat &A1, const Mat &A2, const std::vector<Q> &f, long kind, const Sol &s, const Sol *ref, const Sol *two, const Judge3 &j) {
    const bool same = same_matrix(A1, A2), scaled = is_scaled(A1, A2);
    r.tag(same ? "same" : scaled ? "scaled" : same_pattern(A1, A2) ? "same_pattern" : "diff_pattern");
    auto differential = [&]() {
        if (ref && !same_sol(s, *ref)) r.fail(std::string("operator()(A, rhs, x): the result differs from ") + j.refname + " for the same solve-time matrix");
        if (two && !same_sol(s, *two)) r.fail("operator()(A, rhs, x) with A equal to the setup matrix differs from operator()(rhs, x)");
    };
    if (s.threw) {
        r.out = "breakdown"; r.tag("breakdown");
        if (kind == 0 && j.cg) r.fail("CG with the exact preconditioner threw");
        differential();
        return;
    }
    size_t maxiter = maxiter3(kind, A2.n);
    std::vector<Q> rr = dmv(dense(A2), s.x); for (size_t i = 0; i < rr.size(); ++i) rr[i] = f[i] - rr[i];
    Q truth = nrm(rr) / nrm(f);
    if (s.res.v != truth.v) {
        std::vector<Q> r1 = dmv(dense(A1), s.x); for (size_t i = 0; i < r1.size(); ++i) r1[i] = f[i] - r1[i];
        Q t1 = nrm(r1) / nrm(f);
        r.fail(std::string("operator()(A, rhs, x): reported residual is not the residual of the returned x in the scalar system of the matrix given at solve time")
            + (s.res.v == t1.v ? " (it is the residual in the SETUP matrix: the solve-time matrix was ignored)" : ""));
    }
    bool zero = true; for (auto &e : rr) if (e != 0) { zero = false; break; }
    // (the norm of the exact type is rsqrt, resolution 2^-32: a reported 0 means |f - A x| < 2^-32, checked here without rsqrt)
    if (s.res == 0) { r.tag(zero ? "converged_exactly" : "converged"); Q lim = Q::frac(1, 1L << 32); if (!(dot(rr, rr) < lim * lim)) r.fail("operator()(A, rhs, x): converged solve (reported residual 0) does not satisfy A x = rhs (to 2^-32) for the matrix given at solve time"); }
    if (s.it > maxiter) r.fail("iters > maxiter");
    if (kind == 0 && j.cg && A2.n <= 10 && s.res != 0 && is_spd(A1) && is_spd(A2)) r.fail("CG (exact arithmetic, SPD matrix, exact SPD preconditioner of the setup matrix) did not solve the solve-time system within n iterations");
    if (kind == 0 && scaled && !(s.it == 1 && zero)) r.fail("solve-time matrix c * (setup matrix) under the exact preconditioner: not solved in one iteration");
    differential();
    r.out = (Line() << s.it << s.res).get();
    r.tag("it" + std::to_string(s.it));
}

template <class It> struct is_cg : std::false_type {};
template <class Bk, class Ip> struct is_cg<S::cg<Bk, Ip>> : std::true_type {};

template <int B> struct Wrap {
    typedef amgcl::static_matrix<Q, B, B> Blk;
    typedef amgcl::backend::builtin<Blk> BB;
    typedef amgcl::backend::builtin<Q> SB;
    typedef amgcl::backend::builtin_hybrid<Blk> HB;
    typedef S::detail::default_inner_product DIP;

    // set up for A1 (scalar tuple), solve through operator()(A2, f, x) with A2 in the given form
    template <class Sv> static Sol solve3(const Mat &A1, const typename Sv::params &p, long form, const Mat &A2, const std::vector<Q> &f) {
        return guarded(A2.n, [&](NVec &X) {
            std::vector<ptrdiff_t> ptr(A1.ptr), col(A1.col); std::vector<Q> val(A1.val); ptrdiff_t n = A1.n;
            Sv solve(std::tie(n, ptr, col, val), p);
            NVec F = nvec(f);
            return call_form<B>(solve, form, A2, F, X);
        });
    }
    // reference for kind 0: the same Krylov method on the scalar backend with the exact (one-level) preconditioner of A1
    template <template <class, class> class It> static Sol ref_scalar_exact(const Mat &A1, const Mat &A2, const std::vector<Q> &f) {
        typedef amgcl::make_solver<amgcl::amg<SB, C::smoothed_aggregation, R::spai0>, It<SB, DIP>> Rf;
        typename Rf::params q; amg_prm(q.precond, 0); it_prm3(q.solver, 0, A2.n);
        return solve3<Rf>(A1, q, 0, A2, f);
    }
    // reference for the multilevel case of the block wrappers: the block backend called directly with block-valued
    // matrix and vectors (what make_block_solver is documented to do)
    template <class Rf> static Sol ref_block_direct(const Mat &A1, const typename Rf::params &p, const Mat &A2, const std::vector<Q> &f) {
        return guarded(A2.n, [&](NVec &X) {
            std::vector<ptrdiff_t> ptr(A1.ptr), col(A1.col); std::vector<Q> val(A1.val); ptrdiff_t n = A1.n;
            amgcl::backend::crs<Q> As(std::tie(n, ptr, col, val)); amgcl::backend::sort_rows(As);
            Rf solve(amgcl::adapter::block_matrix<Blk>(As), p);
            std::vector<ptrdiff_t> ptr2(A2.ptr), col2(A2.col); std::vector<Q> val2(A2.val);
            amgcl::backend::crs<Blk> Ab(amgcl::adapter::block_matrix<Blk>(std::tie(n, ptr2, col2, val2)));
            NVec F = nvec(f);
            auto Fb = amgcl::backend::reinterpret_as_rhs<Blk>(F); auto Xb = amgcl::backend::reinterpret_as_rhs<Blk>(X);
            return solve(Ab, Fb, Xb);
        });
    }

    template <template <class> class Co, template <class> class Re, template <class, class> class It>
    static void block_solver3(Result &r, const Mat &A1, const Mat &A2, const std::vector<Q> &f, long kind, long form, bool scalar_coarsening = false) {
        typedef amgcl::make_block_solver<amgcl::amg<BB, Co, Re>, It<BB, DIP>> Sv;
        typename Sv::params p; amg_prm(p.precond, kind); it_prm3(p.solver, kind, A2.n);
        if (kind == 1 && scalar_coarsening) p.precond.coarsening.aggr.block_size = B;
        Sol s = solve3<Sv>(A1, p, form, A2, f), ref, two;
        if (kind == 0) ref = ref_scalar_exact<It>(A1, A2, f);
        else {
            typedef amgcl::make_solver<amgcl::amg<BB, Co, Re>, It<BB, DIP>> Rf;
            typename Rf::params q; q.precond = p.precond; q.solver = p.solver;
            ref = ref_block_direct<Rf>(A1, q, A2, f);
        }
        bool same = same_matrix(A1, A2); if (same) two = solve3<Sv>(A1, p, 4, A2, f);
        judge3(r, A1, A2, f, kind, s, &ref, same ? &two : nullptr, Judge3{ kind == 0 ? "the scalar solver with the same (exact) preconditioner" : "the block backend called directly with the same preconditioner", is_cg<It<BB, DIP>>::value });
    }
    template <template <class> class Co, template <class> class Re, template <class, class> class It>
    static void scalar_backend3(Result &r, const Mat &A1, const Mat &A2, const std::vector<Q> &f, long kind, long form) {      // as_block
        typedef amgcl::make_solver<amgcl::amg<SB, Co, Re>, It<SB, DIP>> Sv;
        typename Sv::params p; amg_prm(p.precond, kind); it_prm3(p.solver, kind, A2.n);
        if (kind == 1) p.precond.coarsening.aggr.block_size = B;
        Sol s = solve3<Sv>(A1, p, form, A2, f), ref, two;
        // kind 1: no independent scalar formulation of a block smoother; the reference is the same solver with the
        // solve-time matrix as a plain scalar tuple (the result may not depend on the representation of A2)
        if (kind == 0) ref = ref_scalar_exact<It>(A1, A2, f); else ref = solve3<Sv>(A1, p, 0, A2, f);
        bool same = same_matrix(A1, A2); if (same) two = solve3<Sv>(A1, p, 4, A2, f);
        judge3(r, A1, A2, f, kind, s, (kind == 0 || form != 0) ? &ref : nullptr, same ? &two : nullptr, Judge3{ kind == 0 ? "the scalar solver with the same (exact) preconditioner" : "the same solver given the matrix as a scalar tuple", is_cg<It<SB, DIP>>::value });
    }
    template <template <class> class Co, template <class> class Re, template <class, class> class It>
    static void hybrid3(Result &r, const Mat &A1, const Mat &A2, const std::vector<Q> &f, long kind, long form) {
        typedef amgcl::make_solver<amgcl::amg<HB, Co, Re>, It<HB, DIP>> Sv;
        typename Sv::params p; amg_prm(p.precond, kind); it_prm3(p.solver, kind, A2.n);
        if (kind == 1) p.precond.coarsening.aggr.block_size = B;
        Sol s = solve3<Sv>(A1, p, form, A2, f), ref, two;
        if (kind == 0) ref = ref_scalar_exact<It>(A1, A2, f);
        else {          // the hybrid backend builds the hierarchy on scalar matrices: same AMG on the scalar backend
            typedef amgcl::make_solver<amgcl::amg<SB, Co, Re>, It<SB, DIP>> Rf;
            typename Rf::params q; amg_prm(q.precond, kind); q.precond.coarsening.aggr.block_size = B; it_prm3(q.solver, kind, A2.n);
            ref = solve3<Rf>(A1, q, 0, A2, f);
        }
        bool same = same_matrix(A1, A2); if (same) two = solve3<Sv>(A1, p, 4, A2, f);
        judge3(r, A1, A2, f, kind, s, &ref, same ? &two : nullptr, Judge3{ kind == 0 ? "the scalar solver with the same (exact) preconditioner" : "the scalar backend with the same AMG preconditioner", is_cg<It<HB, DIP>>::value });
    }

    template <template <class> class Co, template <class> class Re, template <class, class> class It>
    static void block_solver(Result &r, const Mat &A, const std::vector<Q> &f, long kind, bool scalar_coarsening = false) {
        std::vector<ptrdiff_t> ptr(A.ptr), col(A.col); std::vector<Q> val(A.val); ptrdiff_t n = A.n;
        auto At = std::tie(n, ptr, col, val);
        if (kind == 0) {
            typedef amgcl::make_block_solver<amgcl::amg<BB, Co, Re>, S::preonly<BB>> Sv;
            typename Sv::params p; amg_prm(p.precond, 0); run_solver<Sv>(r, At, p, A, f, 0);
        } else {
            typedef amgcl::make_block_solver<amgcl::amg<BB, Co, Re>, It<BB, S::detail::default_inner_product>> Sv;
            typename Sv::params p; amg_prm(p.precond, 1); it_prm(p.solver);
            // a coarsening that works on the unblocked matrix must keep the coarse sizes divisible by B
            if (scalar_coarsening) p.precond.coarsening.aggr.block_size = B;
            run_solver<Sv>(r, At, p, A, f, 1);
        }
    }
    template <template <class> class Co, template <class> class Re, template <class, class> class It>
    static void scalar_backend(Result &r, const Mat &A, const std::vector<Q> &f, long kind) {      // as_block
        std::vector<ptrdiff_t> ptr(A.ptr), col(A.col); std::vector<Q> val(A.val); ptrdiff_t n = A.n;
        auto At = std::tie(n, ptr, col, val);
        if (kind == 0) {
            typedef amgcl::make_solver<amgcl::amg<SB, Co, Re>, S::preonly<SB>> Sv;
            typename Sv::params p; amg_prm(p.precond, 0); run_solver<Sv>(r, At, p, A, f, 0);
        } else {
            typedef amgcl::make_solver<amgcl::amg<SB, Co, Re>, It<SB, S::detail::default_inner_product>> Sv;
            typename Sv::params p; amg_prm(p.precond, 1); it_prm(p.solver); p.precond.coarsening.aggr.block_size = B;   // block smoother on every level
            run_solver<Sv>(r, At, p, A, f, 1);
        }
    }
    template <template <class> class Co, template <class> class Re, template <class, class> class It>
    static void hybrid(Result &r, const Mat &A, const std::vector<Q> &f, long kind) {
        std::vector<ptrdiff_t> ptr(A.ptr), col(A.col); std::vector<Q> val(A.val); ptrdiff_t n = A.n;
        auto At = std::tie(n, ptr, col, val);
        if (kind == 0) {
            typedef amgcl::make_solver<amgcl::amg<HB, Co, Re>, S::preonly<HB>> Sv;
            typename Sv::params p; amg_prm(p.precond, 0); run_solver<Sv>(r, At, p, A, f, 0);
        } else {
            typedef amgcl::make_solver<amgcl::amg<HB, Co, Re>, It<HB, S::detail::default_inner_product>> Sv;
            typename Sv::params p; amg_prm(p.precond, 1); it_prm(p.solver); p.precond.coarsening.aggr.block_size = B;   // level matrices are stored in block format
            run_solver<Sv>(r, At, p, A, f, 1);
        }
    }
    template <class T> using as_block_ilu0 = typename R::as_block<BB, R::ilu0>::template type<T>;
    template <class T> using as_block_spai0 = typename R::as_block<BB, R::spai0>::template type<T>;
    template <class T> using as_scalar_sa = typename C::as_scalar<C::smoothed_aggregation>::template type<T>;
    template <class T> using as_scalar_ag = typename C::as_scalar<C::aggregation>::template type<T>;
};

// ---------------------------------------------------------------- complex matrices in protocol form
typedef std::complex<Q> Cq;
struct CMat { long n = 0; std::vector<ptrdiff_t> ptr, col; std::vector<Cq> val; };
static CMat read_cmat(Cur &c) {
    CMat A; A.n = c.nat(); long m = c.nat(); if (A.n <= 0 || m != A.n) throw bad_input("shape");
    A.ptr.push_back(0);
    for (long i = 0; i < A.n; ++i) { long k = c.nat(); if (k < 0) throw bad_input("k"); for (long j = 0; j < k; ++j) { long cc = c.nat(); if (cc < 0 || cc >= m) throw bad_input("col"); A.col.push_back(cc); Q re = c.rat(), im = c.rat(); A.val.push_back(Cq(re, im)); } A.ptr.push_back((ptrdiff_t)A.col.size()); }
    return A;
}
// a + bi -> [[a, -b], [b, a]], assembled by hand (duplicates merged, rows sorted)
static Mat real_equivalent(const CMat &A) {
    std::vector<std::map<long, Q>> rows(2 * A.n);
    for (long i = 0; i < A.n; ++i) for (auto j = A.ptr[i]; j < A.ptr[i+1]; ++j) {
        long cc = A.col[j]; const Q &a = A.val[j].real(), &b = A.val[j].imag();
        rows[2*i][2*cc] += a; rows[2*i][2*cc+1] -= b; rows[2*i+1][2*cc] += b; rows[2*i+1][2*cc+1] += a;
    }
    std::vector<std::vector<std::pair<long,Q>>> rr(2 * A.n);
    for (long i = 0; i < 2 * A.n; ++i) for (auto &cv : rows[i]) rr[i].push_back({ cv.first, cv.second });
    return from_rows(2 * A.n, 2 * A.n, rr);
}

// ---------------------------------------------------------------- floating-point TEST of the solve-time overload
struct Mixed { size_t it = 0; double res = 0, truth = 0; };
static std::string sci(double v) { char buf[40]; snprintf(buf, sizeof buf, "%.3e", v); return buf; }
// (weighted 5-point Laplacian / 3 + kappa(i,j) / 100) (x) C with an SPD b x b coupling matrix C; the weights of the left half
// of the domain are multiplied by `scale`.  SPD; no entry is representable in single precision.
static long assemble_mixed(int B, long m, double scale, std::vector<ptrdiff_t> &ptr, std::vector<ptrdiff_t> &col, std::vector<double> &val, std::vector<double> &rhs) {
    std::vector<std::vector<double>> Cm(B, std::vector<double>(B));
    for (int a = 0; a < B; ++a) for (int b = 0; b < B; ++b) Cm[a][b] = B == 1 ? 1.1 : (a == b ? 1.1 + 0.1 * a : 0.3 / (1 + std::abs(a - b)));
    auto g = [&](long i) { return i < m / 2 ? scale : 1.0; };
    auto w = [&](long i1, long i2) { return (g(i1) + g(i2)) / 6.0; };       // edge weight, symmetric
    long N = m * m * B; ptr.assign(1, 0); col.clear(); val.clear(); rhs.assign(N, 0.0);
    for (long j = 0; j < m; ++j) for (long i = 0; i < m; ++i) {
        long k = j * m + i;
        double wl = w(i - 1, i), wr = w(i, i + 1), wv = g(i) / 3.0;
        double kappa = (1.0 + 0.3 * std::sin(0.2 * i) * std::cos(0.15 * j)) * g(i);
        for (int a = 0; a < B; ++a) {
            auto put = [&](long kk, double v) { for (int b = 0; b < B; ++b) { col.push_back(kk * B + b); val.push_back(v * Cm[a][b]); } };
            if (j > 0) put(k - m, -wv);
            if (i > 0) put(k - 1, -wl);
            put(k, wl + wr + 2 * wv + 0.01 * kappa);
            if (i + 1 < m) put(k + 1, -wr);
            if (j + 1 < m) put(k + m, -wv);
            ptr.push_back((ptrdiff_t)col.size());
            rhs[k * B + a] = 1.0 + 0.1 * a + 0.01 * (i - j);
        }
    }
    return N;
}
template <class Sv, class Prm> static Mixed mixed_run(const Prm &p, long m, int B, bool updated) {
    std::vector<ptrdiff_t> ptr, col, ptr2, col2; std::vector<double> val, rhs, val2, rhs2;
    ptrdiff_t N = assemble_mixed(B, m, 1.0, ptr, col, val, rhs);
    if (updated) assemble_mixed(B, m, 2.5, ptr2, col2, val2, rhs2); else { ptr2 = ptr; col2 = col; val2 = val; }
    Sv solve(std::tie(N, ptr, col, val), p);
    std::vector<double> x(N, 0.0);
    Mixed q; std::tie(q.it, q.res) = solve(std::tie(N, ptr2, col2, val2), rhs, x);
    for (double v : x) if (!std::isfinite(v)) { q.truth = std::numeric_limits<double>::infinity(); return q; }     // (GMP traps on non-finite doubles)
    mpq_class rr2 = 0, ff2 = 0;       // true residual in exact rational arithmetic from the returned doubles
    for (long i = 0; i < N; ++i) { mpq_class s = 0; for (auto j = ptr2[i]; j < ptr2[i+1]; ++j) s += mpq_class(val2[j]) * mpq_class(x[col2[j]]); mpq_class e = mpq_class(rhs[i]) - s; rr2 += e * e; ff2 += mpq_class(rhs[i]) * mpq_class(rhs[i]); }
    q.truth = std::sqrt(mpq_class(rr2 / ff2).get_d());
    return q;
}
template <int B> static Mixed mixed3(long wrap, long m, long upd) {
    namespace bk = amgcl::backend;
    typedef typename std::conditional<B == 1, float,  amgcl::static_matrix<float,  B, B>>::type fblk;
    typedef typename std::conditional<B == 1, double, amgcl::static_matrix<double, B, B>>::type dblk;
    const bool updated = upd > 0;
    if (wrap == 0) {                     // make_block_solver (make_solver for b = 1)
        if (upd == 2) {                  // double precision everywhere, updated coefficients
            typedef amgcl::amg<bk::builtin<dblk>, C::smoothed_aggregation, R::spai0> P; typedef S::cg<bk::builtin<dblk>> K;
            typedef typename std::conditional<B == 1, amgcl::make_solver<P, K>, amgcl::make_block_solver<P, K>>::type Sv;
            typename Sv::params p; p.precond.coarse_enough = 50; return mixed_run<Sv>(p, m, B, true);
        }
        typedef amgcl::amg<bk::builtin<fblk>, C::smoothed_aggregation, R::spai0> P; typedef S::cg<bk::builtin<dblk>> K;
        typedef typename std::conditional<B == 1, amgcl::make_solver<P, K>, amgcl::make_block_solver<P, K>>::type Sv;
        typename Sv::params p; p.precond.coarse_enough = 50; return mixed_run<Sv>(p, m, B, updated);
    }
    if (upd == 2) throw bad_input("double-precision updated-matrix test is run through make_block_solver");
    if (wrap == 1) {                     // scalar backends, block smoother
        typedef amgcl::amg<bk::builtin<float>, C::smoothed_aggregation, R::as_block<bk::builtin<fblk>, R::spai0>::template type> P;
        typedef amgcl::make_solver<P, S::cg<bk::builtin<double>>> Sv;
        typename Sv::params p; p.precond.coarse_enough = 50 * B; p.precond.coarsening.aggr.block_size = B; return mixed_run<Sv>(p, m, B, updated);
    }
    if (wrap == 2) {                     // block backends, scalar coarsening
        typedef amgcl::amg<bk::builtin<fblk>, C::as_scalar<C::smoothed_aggregation>::template type, R::spai0> P;
        typedef amgcl::make_block_solver<P, S::cg<bk::builtin<dblk>>> Sv;
        typename Sv::params p; p.precond.coarse_enough = 50; p.precond.coarsening.aggr.block_size = B; return mixed_run<Sv>(p, m, B, updated);
    }
    typedef amgcl::amg<bk::builtin_hybrid<fblk>, C::smoothed_aggregation, R::spai0> P;      // hybrid preconditioner, scalar double solver
    typedef amgcl::make_solver<P, S::cg<bk::builtin<double>>> Sv;
    typename Sv::params p; p.precond.coarse_enough = 50 * B; p.precond.coarsening.aggr.block_size = B; return mixed_run<Sv>(p, m, B, updated);
}
template <> Mixed mixed3<1>(long wrap, long m, long upd) {
    namespace bk = amgcl::backend;
    if (wrap != 0) throw bad_input("b = 1 is the plain make_solver");
    if (upd == 2) { typedef amgcl::make_solver<amgcl::amg<bk::builtin<double>, C::smoothed_aggregation, R::spai0>, S::cg<bk::builtin<double>>> Sv; Sv::params p; p.precond.coarse_enough = 50; return mixed_run<Sv>(p, m, 1, true); }
    typedef amgcl::make_solver<amgcl::amg<bk::builtin<float>, C::smoothed_aggregation, R::spai0>, S::cg<bk::builtin<double>>> Sv;
    Sv::params p; p.precond.coarse_enough = 50; return mixed_run<Sv>(p, m, 1, upd > 0);
}

static Result execute(const Toks &t) {
    Cur c(t); const std::string &op = t[0]; Result r;
    if (op == "s_block") {
        long kind = c.nat(), b = c.nat(), wrap = c.nat(); Mat A = checked(c); auto f = c.vec(); c.expect_end();
        if (kind < 0 || kind > 1 || b < 2 || b > 4 || wrap < 0 || wrap > 3 || A.n != A.m || A.n % b || (long)f.size() != A.n || A.n == 0) throw bad_input("shape");
        if (!crs_sorted_nodup(*A.crs())) throw bad_input("block wrappers take row-sorted matrices");      // see C17: block adapter
        if (dot(f, f) == 0) throw bad_input("zero rhs");
        if (wrap == 0) {
            if (b == 2) Wrap<2>::block_solver<C::smoothed_aggregation, R::ilu0, S::bicgstab>(r, A, f, kind);
            else if (b == 3) Wrap<3>::block_solver<C::aggregation, R::spai0, S::cg>(r, A, f, kind);
            else Wrap<4>::block_solver<C::smoothed_aggregation, R::damped_jacobi, S::bicgstab>(r, A, f, kind);
        } else if (wrap == 1) {
            if (b == 2) Wrap<2>::scalar_backend<C::smoothed_aggregation, Wrap<2>::as_block_ilu0, S::bicgstab>(r, A, f, kind);
            else if (b == 3) Wrap<3>::scalar_backend<C::aggregation, Wrap<3>::as_block_spai0, S::cg>(r, A, f, kind);
            else throw bad_input("as_block is run for b = 2, 3");
        } else if (wrap == 2) {
            if (b == 2) Wrap<2>::block_solver<Wrap<2>::as_scalar_sa, R::spai0, S::cg>(r, A, f, kind, true);
            else if (b == 4) Wrap<4>::block_solver<Wrap<4>::as_scalar_ag, R::ilu0, S::bicgstab>(r, A, f, kind, true);
            else throw bad_input("as_scalar is run for b = 2, 4");
        } else {
            if (b == 2) Wrap<2>::hybrid<C::smoothed_aggregation, R::spai0, S::cg>(r, A, f, kind);
            else if (b == 3) Wrap<3>::hybrid<C::aggregation, R::ilu0, S::bicgstab>(r, A, f, kind);
            else throw bad_input("hybrid is run for b = 2, 3");
        }
        static const char *wn[] = { "make_block_solver", "as_block", "as_scalar", "hybrid" };
        r.tag(std::string(wn[wrap]) + std::to_string(b)); r.tag(kind ? "iterative" : "exact");
        { std::set<std::pair<long,long>> blocks; for (long i = 0; i < A.n; ++i) for (auto j = A.ptr[i]; j < A.ptr[i+1]; ++j) blocks.insert({ i / b, (long)A.col[j] / b }); if (blocks.size() * b * b != A.col.size()) r.tag("incomplete"); }
        r.nontrivial = A.n > b;
    } else if (op == "s_block3") {
        long kind = c.nat(), b = c.nat(), wrap = c.nat(), form = c.nat(); Mat A1 = checked(c), A2 = checked(c); auto f = c.vec(); c.expect_end();
        if (kind < 0 || kind > 1 || b < 2 || b > 4 || wrap < 0 || wrap > 3 || form < 0 || form > 3 || A1.n != A1.m || A2.n != A2.m || A2.n != A1.n || A1.n % b || (long)f.size() != A1.n || A1.n == 0) throw bad_input("shape");
        if (!crs_sorted_nodup(*A1.crs()) || !crs_sorted_nodup(*A2.crs())) throw bad_input("block wrappers take row-sorted matrices");
        if (dot(f, f) == 0) throw bad_input("zero rhs");
        if (wrap == 0) {
            if (b == 2) Wrap<2>::block_solver3<C::smoothed_aggregation, R::ilu0, S::bicgstab>(r, A1, A2, f, kind, form);
            else if (b == 3) Wrap<3>::block_solver3<C::aggregation, R::spai0, S::cg>(r, A1, A2, f, kind, form);
            else Wrap<4>::block_solver3<C::smoothed_aggregation, R::damped_jacobi, S::cg>(r, A1, A2, f, kind, form);
        } else if (wrap == 1) {
            if (b == 2) Wrap<2>::scalar_backend3<C::smoothed_aggregation, Wrap<2>::as_block_ilu0, S::bicgstab>(r, A1, A2, f, kind, form);
            else if (b == 3) Wrap<3>::scalar_backend3<C::aggregation, Wrap<3>::as_block_spai0, S::cg>(r, A1, A2, f, kind, form);
            else throw bad_input("as_block is run for b = 2, 3");
        } else if (wrap == 2) {
            if (b == 2) Wrap<2>::block_solver3<Wrap<2>::as_scalar_sa, R::spai0, S::cg>(r, A1, A2, f, kind, form, true);
            else if (b == 4) Wrap<4>::block_solver3<Wrap<4>::as_scalar_ag, R::ilu0, S::bicgstab>(r, A1, A2, f, kind, form, true);
            else throw bad_input("as_scalar is run for b = 2, 4");
        } else {
            if (b == 2) Wrap<2>::hybrid3<C::smoothed_aggregation, R::spai0, S::cg>(r, A1, A2, f, kind, form);
            else if (b == 3) Wrap<3>::hybrid3<C::aggregation, R::ilu0, S::bicgstab>(r, A1, A2, f, kind, form);
            else throw bad_input("hybrid is run for b = 2, 3");
        }
        static const char *wn[] = { "make_block_solver", "as_block", "as_scalar", "hybrid" };
        static const char *fn[] = { "A:tuple", "A:crs", "A:block_adapter", "A:block_crs" };
        r.tag(std::string(wn[wrap]) + std::to_string(b) + "/3arg"); r.tag(kind ? "iterative" : "exact_precond"); r.tag(fn[form]);
        r.nontrivial = A1.n > b;
    } else if (op == "s_complex") {
        typedef std::complex<Q> Cq;
        long kind = c.nat(); long n = c.nat(), m = c.nat(); if (kind < 0 || kind > 1 || n <= 0 || m != n) throw bad_input("shape");
        std::vector<ptrdiff_t> ptr(1, 0), col; std::vector<Cq> val;
        for (long i = 0; i < n; ++i) { long k = c.nat(); if (k < 0) throw bad_input("k"); for (long j = 0; j < k; ++j) { long cc = c.nat(); if (cc < 0 || cc >= m) throw bad_input("col"); col.push_back(cc); Q re = c.rat(), im = c.rat(); val.push_back(Cq(re, im)); } ptr.push_back((ptrdiff_t)col.size()); }
        long wn = c.nat(); if (wn != n) throw bad_input("w"); std::vector<Cq> w(n); for (auto &e : w) { Q re = c.rat(), im = c.rat(); e = Cq(re, im); }
        c.expect_end();
        ptrdiff_t nn = n; auto A = std::tie(nn, ptr, col, val);
        std::vector<Cq> z(n, Cq(Q(0), Q(0)));
        typedef amgcl::backend::builtin<Q> SB;
        size_t it = 0; Q res(0);
        try {
            auto wr = amgcl::adapter::complex_range(w); auto zr = amgcl::adapter::complex_range(z);
            if (kind == 0) {
                typedef amgcl::make_solver<amgcl::amg<SB, C::smoothed_aggregation, R::spai0>, S::preonly<SB>> Sv;
                Sv::params p; amg_prm(p.precond, 0); Sv solve(amgcl::adapter::complex_matrix(A), p); std::tie(it, res) = solve(wr, zr);
            } else {
                typedef amgcl::make_solver<amgcl::amg<SB, C::smoothed_aggregation, R::ilu0>, S::bicgstab<SB>> Sv;
                Sv::params p; amg_prm(p.precond, 1); it_prm(p.solver); Sv solve(amgcl::adapter::complex_matrix(A), p); std::tie(it, res) = solve(wr, zr);
            }
            // oracle on the COMPLEX system: r = w - A z in complex arithmetic, written out
            std::vector<Q> rr(2 * n), ww(2 * n);
            for (long i = 0; i < n; ++i) {
                Q sre(0), sim(0);
                for (auto j = ptr[i]; j < ptr[i+1]; ++j) { const Cq &a = val[j], &zz = z[col[j]]; sre += a.real() * zz.real() - a.imag() * zz.imag(); sim += a.real() * zz.imag() + a.imag() * zz.real(); }
                rr[2*i] = w[i].real() - sre; rr[2*i+1] = w[i].imag() - sim; ww[2*i] = w[i].real(); ww[2*i+1] = w[i].imag();
            }
            if (kind == 0) { for (auto &e : rr) if (e != 0) { r.fail("real-equivalent exact solve: z does not satisfy the complex system"); break; } r.out = "exact"; }
            else { Q truth = nrm(rr) / nrm(ww); if (res.v != truth.v) r.fail("reported residual of the real-equivalent solve is not the residual of z in the complex system"); r.out = (Line() << it << res).get(); }
        } catch (const std::runtime_error &e) { r.out = "breakdown"; r.tag("breakdown"); if (kind == 0) r.fail(std::string("exact solve threw: ") + e.what()); }
        r.tag("complex"); r.tag(kind ? "iterative" : "exact"); r.nontrivial = n > 1;
    } else if (op == "s_complex3") {
        long kind = c.nat(); if (kind < 0 || kind > 1) throw bad_input("kind");
        CMat A1 = read_cmat(c), A2 = read_cmat(c); long n = A1.n; if (A2.n != n) throw bad_input("shape");
        long wn = c.nat(); if (wn != n) throw bad_input("w"); std::vector<Cq> w(n); for (auto &e : w) { Q re = c.rat(), im = c.rat(); e = Cq(re, im); }
        c.expect_end();
        { Q s(0); for (auto &e : w) s += e.real() * e.real() + e.imag() * e.imag(); if (s == 0) throw bad_input("zero rhs"); }
        typedef amgcl::backend::builtin<Q> SB;
        typedef amgcl::make_solver<amgcl::amg<SB, C::smoothed_aggregation, R::ilu0>, S::bicgstab<SB>> Sv;
        Sv::params p; amg_prm(p.precond, kind); it_prm3(p.solver, kind, 2 * n);
        Mat R1 = real_equivalent(A1), R2 = real_equivalent(A2);
        std::vector<Q> ww(2 * n); for (long i = 0; i < n; ++i) { ww[2*i] = w[i].real(); ww[2*i+1] = w[i].imag(); }
        // through the adapter: setup complex_matrix(A1), solve(complex_matrix(A2), complex_range(w), complex_range(z))
        Sol s; std::vector<Cq> z(n, Cq(Q(0), Q(0)));
        try {
            ptrdiff_t nn = n; Sv solve(amgcl::adapter::complex_matrix(std::tie(nn, A1.ptr, A1.col, A1.val)), p);
            auto wr = amgcl::adapter::complex_range(w); auto zr = amgcl::adapter::complex_range(z);
            std::tie(s.it, s.res) = solve(amgcl::adapter::complex_matrix(std::tie(nn, A2.ptr, A2.col, A2.val)), wr, zr);
            s.x.resize(2 * n); for (long i = 0; i < n; ++i) { s.x[2*i] = z[i].real(); s.x[2*i+1] = z[i].imag(); }
        } catch (const std::runtime_error &e) { s.threw = true; }
        // the scalar solver on the hand-assembled real-equivalent matrices [[a,-b],[b,a]]
        Sol ref = Wrap<2>::solve3<Sv>(R1, p, 0, R2, ww);
        bool same = same_matrix(R1, R2); Sol two;
        if (same) two = Wrap<2>::solve3<Sv>(R1, p, 4, R2, ww);
        judge3(r, R1, R2, ww, kind, s, &ref, same ? &two : nullptr, Judge3{ "the scalar solver on the hand-assembled real-equivalent system", false });
        r.tag("complex/3arg"); r.tag(kind ? "iterative" : "exact_precond"); r.nontrivial = n > 1;
    } else if (op == "t_mixed3") {
        long b = c.nat(), wrap = c.nat(), m = c.nat(), upd = c.nat(); c.expect_end();
        if (b < 1 || b > 4 || wrap < 0 || wrap > 3 || m < 4 || m > 64 || upd < 0 || upd > 2 || (b == 1 && wrap != 0)) throw bad_input("shape");
        Mixed q;
        if (b == 1) q = mixed3<1>(wrap, m, upd); else if (b == 2) q = mixed3<2>(wrap, m, upd); else if (b == 3) q = mixed3<3>(wrap, m, upd); else q = mixed3<4>(wrap, m, upd);
        if (!(q.res < 1e-8)) r.fail("mixed precision / updated matrix, operator()(A, rhs, x): reported residual does not reach 1e-8");
        if (!(q.truth <= 1e-8 * 1.01)) r.fail("mixed precision / updated matrix, operator()(A, rhs, x): TRUE residual " + sci(q.truth) + " of the double scalar system given at solve time does not reach 1e-8 (reported " + sci(q.res) + ")");
        if (q.it >= 100) r.fail("mixed precision / updated matrix: maxiter reached");
        r.out = (Line() << "mixed3" << (long)q.it << (q.truth <= 1e-8 * 1.01 ? "true<=1e-8" : "true>1e-8")).get();
        static const char *wn[] = { "make_block_solver", "as_block", "as_scalar", "hybrid" };
        r.tag("mixed_test"); r.tag(std::string(b == 1 ? "make_solver" : wn[wrap]) + std::to_string(b) + (upd ? "/updated" : "/float_precond")); r.nontrivial = true;
    } else if (op == "t_mixed") {
        long dim = c.nat(), n = c.nat(); c.expect_end(); if (dim < 2 || dim > 3 || n < 2 || n > 80) throw bad_input("shape");
        long N = dim == 2 ? n * n : n * n * n;
        std::vector<ptrdiff_t> ptr(1, 0), col; std::vector<double> val;
        for (long k = 0; k < (dim == 3 ? n : 1); ++k) for (long j = 0; j < n; ++j) for (long i = 0; i < n; ++i) {
            long id = (k * n + j) * n + i;
            if (dim == 3 && k > 0) { col.push_back(id - n * n); val.push_back(-1); }
            if (j > 0) { col.push_back(id - n); val.push_back(-1); }
            if (i > 0) { col.push_back(id - 1); val.push_back(-1); }
            col.push_back(id); val.push_back(2.0 * dim);
            if (i + 1 < n) { col.push_back(id + 1); val.push_back(-1); }
            if (j + 1 < n) { col.push_back(id + n); val.push_back(-1); }
            if (dim == 3 && k + 1 < n) { col.push_back(id + n * n); val.push_back(-1); }
            ptr.push_back((ptrdiff_t)col.size());
        }
        std::vector<double> f(N, 1.0), x(N, 0.0);
        typedef amgcl::make_solver<amgcl::amg<amgcl::backend::builtin<float>, C::smoothed_aggregation, R::spai0>, S::cg<amgcl::backend::builtin<double>>> Sv;
        Sv::params p;                                            // defaults: tol = 1e-8, maxiter = 100
        if (N <= 3000) p.precond.coarse_enough = 100;           // (default 3000 would make small problems a single float LU)
        ptrdiff_t nn = N; Sv solve(std::tie(nn, ptr, col, val), p);
        size_t it; double res; std::tie(it, res) = solve(f, x);
        // true residual in exact rational arithmetic from the returned doubles
        mpq_class rr2 = 0, ff2 = 0; bool finite = true; for (double v : x) if (!std::isfinite(v)) finite = false;      // (GMP traps on non-finite doubles)
        if (finite) for (long i = 0; i < N; ++i) { mpq_class s = 0; for (auto j = ptr[i]; j < ptr[i+1]; ++j) s += mpq_class(val[j]) * mpq_class(x[col[j]]); mpq_class e = mpq_class(f[i]) - s; rr2 += e * e; ff2 += mpq_class(f[i]) * mpq_class(f[i]); }
        double truth = finite ? std::sqrt(mpq_class(rr2 / ff2).get_d()) : std::numeric_limits<double>::infinity();
        if (!(res < 1e-8)) r.fail("mixed precision: reported residual does not reach 1e-8");
        if (!(truth <= 1e-8 * 1.01)) r.fail("mixed precision: TRUE residual " + std::to_string(truth) + " does not reach 1e-8");
        if (it >= 100) r.fail("mixed precision: maxiter reached");
        r.out = (Line() << "mixed" << (long)it << (truth <= 1e-8 ? "true<=1e-8" : "true>1e-8")).get();
        r.tag("mixed_test"); r.nontrivial = true;
    } else r.out = "bad-op";
    return r;
}

static void put_block_case(Rng &rng, const Opts &o, std::vector<std::string> &lines, long kind, long b, long wrap) {
    long nb = rng.range(2, o.thorough() ? 6 : 4);
    Mat A;
    bool spd_needed = (wrap == 0 && b == 3) || (wrap == 1 && b == 3) || (wrap == 2 && b == 2) || (wrap == 3 && b == 2);   // CG combos
    int fam = (int)rng.range(0, 2);
    if (spd_needed || fam == 0) A = kron(gen_spd(rng, nb, -1), spd_block(rng, b, rng.coin(1, 3)));      // SPD Kronecker type
    else A = gen_block_structured(rng, nb, nb, b, (int)rng.range(20, 60), fam == 1 ? 100 : (int)rng.range(20, 80), false, true);   // diag. dominant, (in)complete blocks
    std::vector<Q> f = gen_vec(rng, A.n); if (dot(f, f) == 0) f[0] = Q(1);
    lines.push_back((Line() << "s_block" << kind << b << wrap << A << f).get());
}

// the matrix handed to the solve step, derived from the setup matrix A1 (sorted rows, full diagonal):
//   fam 0 the same matrix (assembled again)   1 c * A1   2 diagonal shift (same pattern)   3 perturbed coefficients (same
//   pattern)   4 different pattern: extra couplings / another matrix of the same family and size.  SPD stays SPD,
//   strictly diagonally dominant stays strictly diagonally dominant.
static Mat solve_time_matrix(Rng &rng, const Mat &A1, long b, int fam, bool spd) {
    auto rows = to_rows(A1); long n = A1.n;
    auto at = [&](long i, long j) -> Q* { for (auto &cv : rows[i]) if (cv.first == j) return &cv.second; return nullptr; };
    auto add = [&](long i, long j, const Q &v) { if (Q *e = at(i, j)) *e += v; else { rows[i].push_back({ j, v }); std::sort(rows[i].begin(), rows[i].end(), [](const std::pair<long,Q> &x, const std::pair<long,Q> &y) { return x.first < y.first; }); } };
    if (fam == 1) { static const std::vector<Q> cs = { Q(2), Q(3), Q::frac(1, 2), Q::frac(3, 2), Q::frac(2, 3) }; Q c = rng.pick(cs); for (auto &r : rows) for (auto &cv : r) cv.second *= c; }
    else if (fam == 2) { bool any = false; for (long i = 0; i < n; ++i) if (rng.coin(1, 3) || (i == n - 1 && !any)) { add(i, i, Q::frac(rng.range(1, 6), 2)); any = true; } }
    else if (fam == 3 || fam == 4) {
        long cnt = rng.range(1, 3);
        for (long q = 0; q < cnt; ++q) {
            // fam 3: an existing off-diagonal coupling, fam 4: a coupling that is not stored (if there is one)
            std::vector<std::pair<long,long>> cand;
            for (long i = 0; i < n; ++i) for (long j = 0; j < n; ++j) if (i != j && (!spd || i < j) && ((at(i, j) != nullptr) == (fam == 3))) cand.push_back({ i, j });
            if (cand.empty()) break;
            auto ij = cand[rng.next() % cand.size()]; long i = ij.first, j = ij.second;
            Q t = Q::frac(rng.range(1, 4), 4);
            if (spd) { add(i, j, -t); add(j, i, -t); add(i, i, t); add(j, j, t); }          // + t (e_i - e_j)(e_i - e_j)^T
            else { add(i, j, rng.coin() ? t : -t); add(i, i, t); }
        }
    }
    (void)b;
    return from_rows(n, n, rows);
}
static void put_block3_case(Rng &rng, const Opts &o, std::vector<std::string> &lines, long kind, long b, long wrap, int fam, long form) {
    // kind 0 runs the Krylov method to convergence at exact rationals: keep n small
    long nb = kind == 0 ? rng.range(2, b == 4 ? 2 : 3) : rng.range(2, o.thorough() ? 6 : 4);
    bool spd = (wrap == 0 && b >= 3) || (wrap == 1 && b == 3) || (wrap == 2 && b == 2) || (wrap == 3 && b == 2) || rng.coin(1, 3);   // CG combos
    auto gen = [&](long nbb, int kind_spd) { return spd ? kron(gen_spd(rng, nbb, kind_spd), spd_block(rng, b, rng.coin(1, 3)))
                                        : gen_block_structured(rng, nbb, nbb, b, (int)rng.range(20, 60), rng.coin() ? 100 : (int)rng.range(20, 80), false, true); };
    Mat A1 = gen(nb, kind == 0 ? (int)(2 * rng.range(0, 1)) : -1), A2;
    if (fam == 5) { A2 = gen(A1.n / b, (int)(2 * rng.range(0, 1))); if (A2.n != A1.n) A2 = solve_time_matrix(rng, A1, b, 4, spd); }   // another matrix of the family
    else A2 = solve_time_matrix(rng, A1, b, fam, spd);
    std::vector<Q> f = gen_vec(rng, A1.n); if (dot(f, f) == 0) f[0] = Q(1);
    lines.push_back((Line() << "s_block3" << kind << b << wrap << form << A1 << A2 << f).get());
}
static void put_cmat(Line &l, const Mat &Sm, const std::map<std::pair<long,long>, Q> &K, const Q &sigma, bool shifted) {
    long n = Sm.n; l << n << n;
    for (long i = 0; i < n; ++i) { l << (long)(Sm.ptr[i+1] - Sm.ptr[i]); for (auto j = Sm.ptr[i]; j < Sm.ptr[i+1]; ++j) { long cc = Sm.col[j]; l << cc; auto it = K.find({ i, cc }); Q im = shifted ? (cc == i ? sigma : Q(0)) : (cc == i || it == K.end() ? Q(0) : it->second); put_cx(l, Sm.val[j], im); } }
}

static void generate(Rng &rng, const Opts &o, std::vector<std::string> &lines) {
    long rounds = o.cases > 0 ? o.cases : (o.thorough() ? 60 : 8);
    static const long combos[][2] = { {2,0},{3,0},{4,0},{2,1},{3,1},{2,2},{4,2},{2,3},{3,3} };
    for (long k = 0; k < rounds; ++k) {
        for (auto &cb : combos) for (long kind = 0; kind < 2; ++kind) put_block_case(rng, o, lines, kind, cb[0], cb[1]);
        // the solve-time-matrix overload: every wrapper, every family of A2 and every representation within 6 resp. 4 rounds
        { long ci = 0; for (auto &cb : combos) { for (long kind = 0; kind < 2; ++kind) put_block3_case(rng, o, lines, kind, cb[0], cb[1], (int)((k + ci + 3 * kind) % 6), (k + ci / 2 + kind) % 4); ++ci; } }
        for (long kind = 0; kind < 2; ++kind) for (int rep = 0; rep < 2; ++rep) {         // complex adapter, solve-time overload
            long n = rng.range(2, o.thorough() && kind == 1 ? 7 : 4);      // kind 0 runs up to 2n exact BiCGStab iterations
            Mat Sm = gen_spd(rng, n, 2 * (int)rng.range(0, 1)); n = Sm.n;
            int fam = (int)((k + kind + 2 * rep) % 5);
            Mat S2 = fam == 4 ? gen_spd(rng, n, 2) : solve_time_matrix(rng, Sm, 1, fam, true); if (S2.n != n) S2 = solve_time_matrix(rng, Sm, 1, 4, true);
            std::map<std::pair<long,long>, Q> K1, K2;
            for (int which = 0; which < 2; ++which) { const Mat &M = which ? S2 : Sm; auto &K = which ? K2 : K1;
                for (long i = 0; i < n; ++i) for (auto j = M.ptr[i]; j < M.ptr[i+1]; ++j) { long cc = M.col[j]; if (cc > i) { Q v = which && K1.count({ i, cc }) && fam != 3 ? K1[{ i, cc }] : Q::frac(rng.range(-1, 1), 4); K[{ i, cc }] = v; K[{ cc, i }] = -v; } } }
            if (fam == 1) for (auto &kv : K2) kv.second *= S2.val[0] / Sm.val[0];     // the whole complex matrix is scaled
            bool shifted = rng.coin(); Q sigma = Q::frac(rng.range(1, 3), 2), sigma2 = fam == 0 ? sigma : fam == 1 ? sigma * (S2.val[0] / Sm.val[0]) : Q::frac(rng.range(1, 5), 2);
            Line l; l << "s_complex3" << kind; put_cmat(l, Sm, K1, sigma, shifted); put_cmat(l, S2, K2, sigma2, shifted);
            l << n; for (long i = 0; i < n; ++i) put_cx(l, rng.rat_nz(), rng.rat());
            lines.push_back(l.get());
        }
        for (long kind = 0; kind < 2; ++kind) for (int rep = 0; rep < 2; ++rep) {       // complex: Hermitian positive definite and shifted
            long n = rng.range(2, o.thorough() ? 9 : 6);
            Mat Sm = gen_spd(rng, n, -1); n = Sm.n;
            bool shifted = rep == 1;
            Line l; l << "s_complex" << kind << n << n;
            // Hermitian: A = S + i*K with K real antisymmetric small, diagonal real; shifted: A = S + i*sigma*I (complex symmetric)
            std::map<std::pair<long,long>, Q> K;
            for (long i = 0; i < n; ++i) for (auto j = Sm.ptr[i]; j < Sm.ptr[i+1]; ++j) { long cc = Sm.col[j]; if (cc > i) { Q v = Q::frac(rng.range(-1, 1), 4); K[{i, cc}] = v; K[{cc, i}] = -v; } }
            Q sigma = Q::frac(rng.range(1, 3), 2);
            for (long i = 0; i < n; ++i) { l << (long)(Sm.ptr[i+1] - Sm.ptr[i]); for (auto j = Sm.ptr[i]; j < Sm.ptr[i+1]; ++j) { long cc = Sm.col[j]; l << cc; Q im = shifted ? (cc == i ? sigma : Q(0)) : (cc == i ? Q(0) : K[{i, cc}]); put_cx(l, Sm.val[j], im); } }
            l << n; for (long i = 0; i < n; ++i) put_cx(l, rng.rat_nz(), rng.rat());
            lines.push_back(l.get());
        }
    }
    // labelled floating-point test of the mixed-precision clause (fixed model problems + one seed-dependent size)
    for (long n : { 16L, 32L, 64L }) lines.push_back((Line() << "t_mixed" << 2L << n).get());
    for (long n : { 8L, 16L }) lines.push_back((Line() << "t_mixed" << 3L << n).get());
    lines.push_back((Line() << "t_mixed" << 2L << rng.range(10, o.thorough() ? 48 : 24)).get());
    lines.push_back((Line() << "t_mixed" << 3L << rng.range(5, o.thorough() ? 14 : 9)).get());
    // the solve-time overload in floating point: float (block) preconditioner under a double (block) solver on entries that
    // are not representable in float, and updated coefficients; every wrapper and block size
    {
        static const long mc[][2] = { {1,0},{2,0},{3,0},{4,0},{2,1},{3,1},{2,2},{4,2},{2,3},{3,3} };
        for (auto &c : mc) lines.push_back((Line() << "t_mixed3" << c[0] << c[1] << rng.range(12, o.thorough() ? 40 : 24) << 0L).get());
        for (auto &c : mc) if (o.thorough() || rng.coin(1, 2)) lines.push_back((Line() << "t_mixed3" << c[0] << c[1] << rng.range(12, o.thorough() ? 40 : 24) << 1L).get());
        for (long b = 1; b <= 4; ++b) lines.push_back((Line() << "t_mixed3" << b << 0L << rng.range(12, o.thorough() ? 40 : 24) << 2L).get());
    }
    lines.push_back("s_block 0 2 0 3 3 1 0 1 1 1 1 1 2 1 3 1 1 1");        // size not divisible by the block size
    lines.push_back("s_block3 1 2 0 0 2 2 1 0 1 1 1 1 4 4 1 0 1 1 1 1 1 2 1 1 3 1 2 1 1");     // setup and solve-time matrices of different size
    lines.push_back("s_block3 1 2 0 7 2 2 1 0 1 1 1 1 2 2 1 0 1 1 1 1 2 1 1");                 // unknown matrix form
    lines.push_back("t_mixed3 1 2 16 0");                                                      // b = 1 has no block wrapper
    lines.push_back("s_block 0 5 0 0 0 0");                                  // block size out of range
}

VH_MAIN(generate, execute)
