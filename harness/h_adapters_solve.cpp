// C13 harness (oracle-only part): FULL SOLVES of block-structured and complex systems through every wrapper, real
// amgcl code at exact types; the oracle is always evaluated against the ORIGINAL SCALAR (resp. complex) system.
//   s_block kind b wrap A f      wrap 0 make_block_solver, 1 relaxation::as_block (scalar backend), 2 coarsening::as_scalar
//                                (block backend), 3 backend::builtin_hybrid;
//                                kind 0: exact solve (single level = skyline LU, solver::preonly): A x == f exactly
//                                kind 1: multilevel AMG + CG/BiCGStab, <= 3 iterations: reported residual ==
//                                        rsqrt(|f - A x|^2) / rsqrt(|f|^2) recomputed on the scalar system
//   s_complex kind A w           complex system through adapter::complex_matrix / complex_range, real AMG at Q
//   t_mixed dim n                TEST (floating point, not a theorem): amg<builtin<float>> under cg<builtin<double>>
//                                on the Poisson model problems reaches the default tolerance 1e-8 (true residual recomputed)
// Output line: `<iters> <reported residual>` | `exact` | `breakdown`; no Lean model is involved ("no_model").
#include "gen_adapters.hpp"
#include <amgcl/adapter/crs_tuple.hpp>
#include <amgcl/adapter/block_matrix.hpp>
#include <amgcl/adapter/complex.hpp>
#include <amgcl/value_type/static_matrix.hpp>
#include <amgcl/value_type/complex.hpp>
#include <amgcl/backend/builtin_hybrid.hpp>
#include <amgcl/make_solver.hpp>
#include <amgcl/make_block_solver.hpp>
#include <amgcl/amg.hpp>
#include <amgcl/coarsening/aggregation.hpp>
#include <amgcl/coarsening/smoothed_aggregation.hpp>
#include <amgcl/coarsening/as_scalar.hpp>
#include <amgcl/relaxation/ilu0.hpp>
#include <amgcl/relaxation/spai0.hpp>
#include <amgcl/relaxation/damped_jacobi.hpp>
#include <amgcl/relaxation/as_block.hpp>
#include <amgcl/solver/cg.hpp>
#include <amgcl/solver/bicgstab.hpp>
#include <amgcl/solver/preonly.hpp>
using namespace vh;
namespace C = amgcl::coarsening; namespace R = amgcl::relaxation; namespace S = amgcl::solver;

static std::vector<Q> to_std(const NVec &v) { std::vector<Q> r(v.size()); for (size_t i = 0; i < v.size(); ++i) r[i] = v[i]; return r; }
static Q dot(const std::vector<Q> &a, const std::vector<Q> &b) { Q s(0); for (size_t i = 0; i < a.size(); ++i) s += a[i] * b[i]; return s; }
static Q nrm(const std::vector<Q> &v) { return vq::sqrt(vq::abs(dot(v, v))); }
static Mat checked(Cur &c) { Mat A = c.mat(); std::string why; if (!crs_wf(*A.crs(), why)) throw bad_input(why); return A; }

// the oracle: x against the scalar system A x = f
static void judge(Result &r, const Mat &A, const std::vector<Q> &f, const std::vector<Q> &x, long kind, size_t iters, const Q &res, size_t maxiter) {
    std::vector<Q> rr = dmv(dense(A), x); for (size_t i = 0; i < rr.size(); ++i) rr[i] = f[i] - rr[i];
    if (kind == 0) {
        for (auto &e : rr) if (e != 0) { r.fail("exact solve through the wrapper: returned x does not satisfy the original scalar system"); break; }
        r.out = "exact";
    } else {
        Q truth = nrm(rr) / nrm(f);
        if (res.v != truth.v) r.fail("reported residual is not the residual of the returned x in the original scalar system");
        if (iters > maxiter) r.fail("iters > maxiter");
        r.out = (Line() << iters << res).get();
        r.tag("it" + std::to_string(iters));
    }
}

template <class Prm> static void amg_prm(Prm &p, long kind) {
    if (kind == 0) { p.coarse_enough = 100000; p.direct_coarse = true; }        // one level: the direct solver
    else { p.coarse_enough = 1; p.direct_coarse = true; p.npre = 1; p.npost = 1; }
}
template <class SP> static void it_prm(SP &p) { p.maxiter = 3; p.tol = 0; p.abstol = 0; }   // exactly three iterations unless r == 0
static void it_prm(amgcl::detail::empty_params&) {}

template <class Solver, class MatrixIn> static void run_solver(Result &r, const MatrixIn &Ain, typename Solver::params prm, const Mat &A, const std::vector<Q> &f, long kind) {
    try {
        Solver solve(Ain, prm);
        NVec F = nvec(f), X(A.n); for (long i = 0; i < A.n; ++i) X[i] = Q(0);
        size_t it; Q res;
        std::tie(it, res) = solve(F, X);
        judge(r, A, f, to_std(X), kind, it, res, 3);
    } catch (const std::runtime_error &e) {
        if (getenv("VH_DEBUG")) std::cerr << "exception: " << e.what() << "\n";
        r.out = "breakdown"; r.tag("breakdown");
        if (kind == 0) r.fail(std::string("exact solve threw: ") + e.what());
    }
}

template <int B> struct Wrap {
    typedef amgcl::static_matrix<Q, B, B> Blk;
    typedef amgcl::backend::builtin<Blk> BB;
    typedef amgcl::backend::builtin<Q> SB;
    typedef amgcl::backend::builtin_hybrid<Blk> HB;

    template <template <class> class Co, template <class> class Re, template <class, class> class It>
    static void block_solver(Result &r, const Mat &A, const std::vector<Q> &f, long kind, bool scalar_coarsening = false) {
        std::vector<ptrdiff_t> ptr(A.ptr), col(A.col); std::vector<Q> val(A.val); ptrdiff_t n = A.n;
        auto At = std::tie(n, ptr, col, val);
        if (kind == 0) {
            typedef amgcl::make_block_solver<amgcl::amg<BB, Co, Re>, S::preonly<BB>> Sv;
            typename Sv::params p; amg_prm(p.precond, 0); run_solver<Sv>(r, At, p, A, f, 0);
        } else {
            typedef amgcl::make_block_solver<amgcl::amg<BB, Co, Re>, It<BB, S::detail::default_inner_product>> Sv;
            typename Sv::params p; amg_prm(p.precond, 1); it_prm(p.solver);
            // a coarsening that works on the unblocked matrix must keep the coarse sizes divisible by B
            if (scalar_coarsening) p.precond.coarsening.aggr.block_size = B;
            run_solver<Sv>(r, At, p, A, f, 1);
        }
    }
    template <template <class> class Co, template <class> class Re, template <class, class> class It>
    static void scalar_backend(Result &r, const Mat &A, const std::vector<Q> &f, long kind) {      // as_block
        std::vector<ptrdiff_t> ptr(A.ptr), col(A.col); std::vector<Q> val(A.val); ptrdiff_t n = A.n;
        auto At = std::tie(n, ptr, col, val);
        if (kind == 0) {
            typedef amgcl::make_solver<amgcl::amg<SB, Co, Re>, S::preonly<SB>> Sv;
            typename Sv::params p; amg_prm(p.precond, 0); run_solver<Sv>(r, At, p, A, f, 0);
        } else {
            typedef amgcl::make_solver<amgcl::amg<SB, Co, Re>, It<SB, S::detail::default_inner_product>> Sv;
            typename Sv::params p; amg_prm(p.precond, 1); it_prm(p.solver); p.precond.coarsening.aggr.block_size = B;   // block smoother on every level
            run_solver<Sv>(r, At, p, A, f, 1);
        }
    }
    template <template <class> class Co, template <class> class Re, template <class, class> class It>
    static void hybrid(Result &r, const Mat &A, const std::vector<Q> &f, long kind) {
        std::vector<ptrdiff_t> ptr(A.ptr), col(A.col); std::vector<Q> val(A.val); ptrdiff_t n = A.n;
        auto At = std::tie(n, ptr, col, val);
        if (kind == 0) {
            typedef amgcl::make_solver<amgcl::amg<HB, Co, Re>, S::preonly<HB>> Sv;
            typename Sv::params p; amg_prm(p.precond, 0); run_solver<Sv>(r, At, p, A, f, 0);
        } else {
            typedef amgcl::make_solver<amgcl::amg<HB, Co, Re>, It<HB, S::detail::default_inner_product>> Sv;
            typename Sv::params p; amg_prm(p.precond, 1); it_prm(p.solver); p.precond.coarsening.aggr.block_size = B;   // level matrices are stored in block format
            run_solver<Sv>(r, At, p, A, f, 1);
        }
    }
    template <class T> using as_block_ilu0 = typename R::as_block<BB, R::ilu0>::template type<T>;
    template <class T> using as_block_spai0 = typename R::as_block<BB, R::spai0>::template type<T>;
    template <class T> using as_scalar_sa = typename C::as_scalar<C::smoothed_aggregation>::template type<T>;
    template <class T> using as_scalar_ag = typename C::as_scalar<C::aggregation>::template type<T>;
};

static Result execute(const Toks &t) {
    Cur c(t); const std::string &op = t[0]; Result r;
    if (op == "s_block") {
        long kind = c.nat(), b = c.nat(), wrap = c.nat(); Mat A = checked(c); auto f = c.vec(); c.expect_end();
        if (kind < 0 || kind > 1 || b < 2 || b > 4 || wrap < 0 || wrap > 3 || A.n != A.m || A.n % b || (long)f.size() != A.n || A.n == 0) throw bad_input("shape");
        if (!crs_sorted_nodup(*A.crs())) throw bad_input("block wrappers take row-sorted matrices");      // see C17: block adapter
        if (dot(f, f) == 0) throw bad_input("zero rhs");
        if (wrap == 0) {
            if (b == 2) Wrap<2>::block_solver<C::smoothed_aggregation, R::ilu0, S::bicgstab>(r, A, f, kind);
            else if (b == 3) Wrap<3>::block_solver<C::aggregation, R::spai0, S::cg>(r, A, f, kind);
            else Wrap<4>::block_solver<C::smoothed_aggregation, R::damped_jacobi, S::bicgstab>(r, A, f, kind);
        } else if (wrap == 1) {
            if (b == 2) Wrap<2>::scalar_backend<C::smoothed_aggregation, Wrap<2>::as_block_ilu0, S::bicgstab>(r, A, f, kind);
            else if (b == 3) Wrap<3>::scalar_backend<C::aggregation, Wrap<3>::as_block_spai0, S::cg>(r, A, f, kind);
            else throw bad_input("as_block is run for b = 2, 3");
        } else if (wrap == 2) {
            if (b == 2) Wrap<2>::block_solver<Wrap<2>::as_scalar_sa, R::spai0, S::cg>(r, A, f, kind, true);
            else if (b == 4) Wrap<4>::block_solver<Wrap<4>::as_scalar_ag, R::ilu0, S::bicgstab>(r, A, f, kind, true);
            else throw bad_input("as_scalar is run for b = 2, 4");
        } else {
            if (b == 2) Wrap<2>::hybrid<C::smoothed_aggregation, R::spai0, S::cg>(r, A, f, kind);
            else if (b == 3) Wrap<3>::hybrid<C::aggregation, R::ilu0, S::bicgstab>(r, A, f, kind);
            else throw bad_input("hybrid is run for b = 2, 3");
        }
        static const char *wn[] = { "make_block_solver", "as_block", "as_scalar", "hybrid" };
        r.tag(std::string(wn[wrap]) + std::to_string(b)); r.tag(kind ? "iterative" : "exact");
        { std::set<std::pair<long,long>> blocks; for (long i = 0; i < A.n; ++i) for (auto j = A.ptr[i]; j < A.ptr[i+1]; ++j) blocks.insert({ i / b, (long)A.col[j] / b }); if (blocks.size() * b * b != A.col.size()) r.tag("incomplete"); }
        r.nontrivial = A.n > b;
    } else if (op == "s_complex") {
        typedef std::complex<Q> Cq;
        long kind = c.nat(); long n = c.nat(), m = c.nat(); if (kind < 0 || kind > 1 || n <= 0 || m != n) throw bad_input("shape");
        std::vector<ptrdiff_t> ptr(1, 0), col; std::vector<Cq> val;
        for (long i = 0; i < n; ++i) { long k = c.nat(); if (k < 0) throw bad_input("k"); for (long j = 0; j < k; ++j) { long cc = c.nat(); if (cc < 0 || cc >= m) throw bad_input("col"); col.push_back(cc); Q re = c.rat(), im = c.rat(); val.push_back(Cq(re, im)); } ptr.push_back((ptrdiff_t)col.size()); }
        long wn = c.nat(); if (wn != n) throw bad_input("w"); std::vector<Cq> w(n); for (auto &e : w) { Q re = c.rat(), im = c.rat(); e = Cq(re, im); }
        c.expect_end();
        ptrdiff_t nn = n; auto A = std::tie(nn, ptr, col, val);
        std::vector<Cq> z(n, Cq(Q(0), Q(0)));
        typedef amgcl::backend::builtin<Q> SB;
        size_t it = 0; Q res(0);
        try {
            auto wr = amgcl::adapter::complex_range(w); auto zr = amgcl::adapter::complex_range(z);
            if (kind == 0) {
                typedef amgcl::make_solver<amgcl::amg<SB, C::smoothed_aggregation, R::spai0>, S::preonly<SB>> Sv;
                Sv::params p; amg_prm(p.precond, 0); Sv solve(amgcl::adapter::complex_matrix(A), p); std::tie(it, res) = solve(wr, zr);
            } else {
                typedef amgcl::make_solver<amgcl::amg<SB, C::smoothed_aggregation, R::ilu0>, S::bicgstab<SB>> Sv;
                Sv::params p; amg_prm(p.precond, 1); it_prm(p.solver); Sv solve(amgcl::adapter::complex_matrix(A), p); std::tie(it, res) = solve(wr, zr);
            }
            // oracle on the COMPLEX system: r = w - A z in complex arithmetic, written out
            std::vector<Q> rr(2 * n), ww(2 * n);
            for (long i = 0; i < n; ++i) {
                Q sre(0), sim(0);
                for (auto j = ptr[i]; j < ptr[i+1]; ++j) { const Cq &a = val[j], &zz = z[col[j]]; sre += a.real() * zz.real() - a.imag() * zz.imag(); sim += a.real() * zz.imag() + a.imag() * zz.real(); }
                rr[2*i] = w[i].real() - sre; rr[2*i+1] = w[i].imag() - sim; ww[2*i] = w[i].real(); ww[2*i+1] = w[i].imag();
            }
            if (kind == 0) { for (auto &e : rr) if (e != 0) { r.fail("real-equivalent exact solve: z does not satisfy the complex system"); break; } r.out = "exact"; }
            else { Q truth = nrm(rr) / nrm(ww); if (res.v != truth.v) r.fail("reported residual of the real-equivalent solve is not the residual of z in the complex system"); r.out = (Line() << it << res).get(); }
        } catch (const std::runtime_error &e) { r.out = "breakdown"; r.tag("breakdown"); if (kind == 0) r.fail(std::string("exact solve threw: ") + e.what()); }
        r.tag("complex"); r.tag(kind ? "iterative" : "exact"); r.nontrivial = n > 1;
    } else if (op == "t_mixed") {
        long dim = c.nat(), n = c.nat(); c.expect_end(); if (dim < 2 || dim > 3 || n < 2 || n > 80) throw bad_input("shape");
        long N = dim == 2 ? n * n : n * n * n;
        std::vector<ptrdiff_t> ptr(1, 0), col; std::vector<double> val;
        for (long k = 0; k < (dim == 3 ? n : 1); ++k) for (long j = 0; j < n; ++j) for (long i = 0; i < n; ++i) {
            long id = (k * n + j) * n + i;
            if (dim == 3 && k > 0) { col.push_back(id - n * n); val.push_back(-1); }
            if (j > 0) { col.push_back(id - n); val.push_back(-1); }
            if (i > 0) { col.push_back(id - 1); val.push_back(-1); }
            col.push_back(id); val.push_back(2.0 * dim);
            if (i + 1 < n) { col.push_back(id + 1); val.push_back(-1); }
            if (j + 1 < n) { col.push_back(id + n); val.push_back(-1); }
            if (dim == 3 && k + 1 < n) { col.push_back(id + n * n); val.push_back(-1); }
            ptr.push_back((ptrdiff_t)col.size());
        }
        std::vector<double> f(N, 1.0), x(N, 0.0);
        typedef amgcl::make_solver<amgcl::amg<amgcl::backend::builtin<float>, C::smoothed_aggregation, R::spai0>, S::cg<amgcl::backend::builtin<double>>> Sv;
        Sv::params p;                                            // defaults: tol = 1e-8, maxiter = 100
        if (N <= 3000) p.precond.coarse_enough = 100;           // (default 3000 would make small problems a single float LU)
        ptrdiff_t nn = N; Sv solve(std::tie(nn, ptr, col, val), p);
        size_t it; double res; std::tie(it, res) = solve(f, x);
        // true residual in exact rational arithmetic from the returned doubles
        mpq_class rr2 = 0, ff2 = 0;
        for (long i = 0; i < N; ++i) { mpq_class s = 0; for (auto j = ptr[i]; j < ptr[i+1]; ++j) s += mpq_class(val[j]) * mpq_class(x[col[j]]); mpq_class e = mpq_class(f[i]) - s; rr2 += e * e; ff2 += mpq_class(f[i]) * mpq_class(f[i]); }
        double truth = std::sqrt(mpq_class(rr2 / ff2).get_d());
        if (!(res < 1e-8)) r.fail("mixed precision: reported residual does not reach 1e-8");
        if (!(truth <= 1e-8 * 1.01)) r.fail("mixed precision: TRUE residual " + std::to_string(truth) + " does not reach 1e-8");
        if (it >= 100) r.fail("mixed precision: maxiter reached");
        r.out = (Line() << "mixed" << (long)it << (truth <= 1e-8 ? "true<=1e-8" : "true>1e-8")).get();
        r.tag("mixed_test"); r.nontrivial = true;
    } else r.out = "bad-op";
    return r;
}

static void put_block_case(Rng &rng, const Opts &o, std::vector<std::string> &lines, long kind, long b, long wrap) {
    long nb = rng.range(2, o.thorough() ? 6 : 4);
    Mat A;
    bool spd_needed = (wrap == 0 && b == 3) || (wrap == 1 && b == 3) || (wrap == 2 && b == 2) || (wrap == 3 && b == 2);   // CG combos
    int fam = (int)rng.range(0, 2);
    if (spd_needed || fam == 0) A = kron(gen_spd(rng, nb, -1), spd_block(rng, b, rng.coin(1, 3)));      // SPD Kronecker type
    else A = gen_block_structured(rng, nb, nb, b, (int)rng.range(20, 60), fam == 1 ? 100 : (int)rng.range(20, 80), false, true);   // diag. dominant, (in)complete blocks
    std::vector<Q> f = gen_vec(rng, A.n); if (dot(f, f) == 0) f[0] = Q(1);
    lines.push_back((Line() << "s_block" << kind << b << wrap << A << f).get());
}

static void generate(Rng &rng, const Opts &o, std::vector<std::string> &lines) {
    long rounds = o.cases > 0 ? o.cases : (o.thorough() ? 60 : 8);
    static const long combos[][2] = { {2,0},{3,0},{4,0},{2,1},{3,1},{2,2},{4,2},{2,3},{3,3} };
    for (long k = 0; k < rounds; ++k) {
        for (auto &cb : combos) for (long kind = 0; kind < 2; ++kind) put_block_case(rng, o, lines, kind, cb[0], cb[1]);
        for (long kind = 0; kind < 2; ++kind) for (int rep = 0; rep < 2; ++rep) {       // complex: Hermitian positive definite and shifted
            long n = rng.range(2, o.thorough() ? 9 : 6);
            Mat Sm = gen_spd(rng, n, -1); n = Sm.n;
            bool shifted = rep == 1;
            Line l; l << "s_complex" << kind << n << n;
            // Hermitian: A = S + i*K with K real antisymmetric small, diagonal real; shifted: A = S + i*sigma*I (complex symmetric)
            std::map<std::pair<long,long>, Q> K;
            for (long i = 0; i < n; ++i) for (auto j = Sm.ptr[i]; j < Sm.ptr[i+1]; ++j) { long cc = Sm.col[j]; if (cc > i) { Q v = Q::frac(rng.range(-1, 1), 4); K[{i, cc}] = v; K[{cc, i}] = -v; } }
            Q sigma = Q::frac(rng.range(1, 3), 2);
            for (long i = 0; i < n; ++i) { l << (long)(Sm.ptr[i+1] - Sm.ptr[i]); for (auto j = Sm.ptr[i]; j < Sm.ptr[i+1]; ++j) { long cc = Sm.col[j]; l << cc; Q im = shifted ? (cc == i ? sigma : Q(0)) : (cc == i ? Q(0) : K[{i, cc}]); put_cx(l, Sm.val[j], im); } }
            l << n; for (long i = 0; i < n; ++i) put_cx(l, rng.rat_nz(), rng.rat());
            lines.push_back(l.get());
        }
    }
    // labelled floating-point test of the mixed-precision clause (fixed model problems + one seed-dependent size)
    for (long n : { 16L, 32L, 64L }) lines.push_back((Line() << "t_mixed" << 2L << n).get());
    for (long n : { 8L, 16L }) lines.push_back((Line() << "t_mixed" << 3L << n).get());
    lines.push_back((Line() << "t_mixed" << 2L << rng.range(10, o.thorough() ? 48 : 24)).get());
    lines.push_back((Line() << "t_mixed" << 3L << rng.range(5, o.thorough() ? 14 : 9)).get());
    lines.push_back("s_block 0 2 0 3 3 1 0 1 1 1 1 1 2 1 3 1 1 1");        // size not divisible by the block size
    lines.push_back("s_block 0 5 0 0 0 0");                                  // block size out of range
}

VH_MAIN(generate, execute)
