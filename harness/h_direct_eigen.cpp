// C16 harness (LABELLED floating-point test, "no_model"): the Eigen direct-solver wrapper amgcl::solver::EigenSolver<S>
// (solver/eigen.hpp) and the direct solver of the Eigen backend, on exact-in-binary64 integer data.  IEEE rounding is not
// modelled: the oracle recomputes the residual of the returned doubles in exact rational arithmetic.
//   deig_solve kind A k b_1 .. b_k     kind 0 SparseLU<SparseMatrix<double,ColMajor,int>>, 1 SimplicialLDLT, 2 SimplicialLLT (SPD
//                                      input), 3 SparseQR, 4 SparseLU on a ROW-major int matrix type, 5 SparseLU ColMajor/long;
//                                      ONE solver object, right-hand sides b_1 .. b_k, then b_1 again
//   deig_amg form A b                  amg<Backend> with coarse_enough >= n: apply() is the backend's direct solver;
//                                      form 0 backend::eigen<double> (direct_solver = skyline_lu<double>), 1 the same backend
//                                      with EigenSolver<SparseLU> as its direct solver, 2 backend::builtin<double>
// Oracles: |b - A x|_inf <= 2^-36 (|A|_inf |x|_inf + |b|_inf) for the NON-transposed A (a wrapper that hands the rows over as
// columns solves A^T x = b); on monomial matrices (one power-of-two entry per row and column: every operation is exact in
// any pivot order of an LU / LDL^T elimination; not claimed for LLT and QR, which take square roots) x is the exact solution; the repeated right-hand side gives the bitwise identical result.
// Output: `<n> <k> ok` (deterministic; the doubles themselves are not compared with a model).
#include "gen.hpp"
#include <Eigen/SparseCore>
#include <Eigen/SparseLU>
#include <Eigen/SparseCholesky>
#include <Eigen/SparseQR>
#include <amgcl/backend/builtin.hpp>
#include <amgcl/backend/eigen.hpp>
#include <amgcl/solver/eigen.hpp>
#include <amgcl/solver/skyline_lu.hpp>
#include <amgcl/amg.hpp>
#include <amgcl/coarsening/smoothed_aggregation.hpp>
#include <amgcl/relaxation/spai0.hpp>
using namespace vh;

static bool small_int(const Q &x) { return !x.poison && x.v.get_den() == 1 && abs(x.v.get_num()) <= (1L << 20); }
static Q qabs(const Q &x) { return x < 0 ? Q(0) - x : x; }
static Q inf_norm(const std::vector<Q> &v) { Q m(0); for (auto &x : v) if (qabs(x) > m) m = qabs(x); return m; }
static Q inf_norm(const Dense &D) { Q m(0); for (auto &r : D) { Q s(0); for (auto &x : r) s += qabs(x); if (s > m) m = s; } return m; }
static bool is_monomial_pow2(const Mat &A) {
    if (A.n != A.m) return false; std::vector<int> seen(A.n, 0);
    for (long i = 0; i < A.n; ++i) { if (A.ptr[i+1] - A.ptr[i] != 1) return false; long c = A.col[A.ptr[i]]; if (seen[c]++) return false; long v = labs(A.val[A.ptr[i]].v.get_num().get_si()); if (v == 0 || (v & (v - 1))) return false; }
    return true;
}
// exact non-singularity
static bool nonsingular(Dense M) {
    size_t n = M.size();
    for (size_t k = 0; k < n; ++k) { size_t p = k; while (p < n && M[p][k] == 0) ++p; if (p == n) return false; std::swap(M[p], M[k]);
        for (size_t i = k + 1; i < n; ++i) { if (M[i][k] == 0) continue; Q f = M[i][k] / M[k][k]; for (size_t j = k; j < n; ++j) M[i][j] -= f * M[k][j]; } }
    return true;
}
static bool is_spd(const Mat &A) {
    if (!is_symmetric(A)) return false; Dense D = dense(A); long n = A.n;
    for (long k = 0; k < n; ++k) { if (!(D[k][k] > 0)) return false; for (long i = k + 1; i < n; ++i) { if (D[i][k] == 0) continue; Q l = D[i][k] / D[k][k]; for (long j = k; j < n; ++j) D[i][j] -= l * D[k][j]; } }
    return true;
}
static void judge(Result &r, const Mat &A, const Dense &D, const std::vector<Q> &b, const std::vector<double> &xd, const std::string &what, bool exact_class = true) {
    std::vector<Q> x(xd.size()); for (size_t i = 0; i < xd.size(); ++i) { if (!std::isfinite(xd[i])) { r.fail(what + ": non-finite entry in the solution"); return; } x[i] = Q(xd[i]); }
    std::vector<Q> rr = dmv(D, x); for (size_t i = 0; i < rr.size(); ++i) rr[i] = b[i] - rr[i];
    Q tol = Q::frac(1, 1L << 36), bound = tol * (inf_norm(D) * inf_norm(x) + inf_norm(b));
    if (inf_norm(rr) > bound) {
        Dense T(D.size(), std::vector<Q>(D.size())); for (size_t i = 0; i < D.size(); ++i) for (size_t j = 0; j < D.size(); ++j) T[i][j] = D[j][i];
        std::vector<Q> rt = dmv(T, x); for (size_t i = 0; i < rt.size(); ++i) rt[i] = b[i] - rt[i];
        r.fail(what + ": the returned x does not solve A x = b (residual above 2^-36 (|A||x| + |b|))" + (inf_norm(rt) <= bound ? "; it solves the TRANSPOSED system" : ""));
    }
    if (exact_class && is_monomial_pow2(A)) { r.tag("monomial"); for (auto &e : rr) if (e != 0) { r.fail(what + ": monomial power-of-two matrix: the solution is not exact"); break; } }
    bool exact = true; for (auto &e : rr) if (e != 0) exact = false; if (exact) r.tag("exact");
}

struct DMat { std::vector<ptrdiff_t> ptr, col; std::vector<double> val; std::shared_ptr<amgcl::backend::crs<double>> crs; };
static DMat dmat(const Mat &A) { DMat M; M.ptr = A.ptr; M.col = A.col; M.val.resize(A.val.size()); for (size_t i = 0; i < M.val.size(); ++i) M.val[i] = A.val[i].v.get_d(); M.crs = std::make_shared<amgcl::backend::crs<double>>((size_t)A.n, (size_t)A.m, M.ptr, M.col, M.val); return M; }

template <class Solver> static void run_solver(Result &r, const Mat &A, const std::vector<std::vector<Q>> &bs, const char *name, bool exact_class = true) {
    DMat M = dmat(A); Dense D = dense(A);
    amgcl::solver::EigenSolver<Solver> S(*M.crs);
    std::vector<std::vector<double>> xs;
    for (size_t k = 0; k <= bs.size(); ++k) {
        const std::vector<Q> &b = bs[k % bs.size()];
        std::vector<double> f(b.size()), x(b.size(), std::numeric_limits<double>::quiet_NaN()); for (size_t i = 0; i < b.size(); ++i) f[i] = b[i].v.get_d();
        S(f, x); xs.push_back(x);
        judge(r, A, D, b, x, std::string("EigenSolver<") + name + "> solve " + std::to_string(k + 1), exact_class);
    }
    if (memcmp(xs.front().data(), xs.back().data(), xs.front().size() * sizeof(double))) r.fail(std::string("EigenSolver<") + name + ">: the same right-hand side gives a different result after other solves on the same object");
    std::ostringstream os; os << S; if (os.str() != "eigen: " + std::to_string(A.n) + " unknowns") r.fail("EigenSolver operator<<");
}

// the Eigen backend with the Eigen wrapper as its direct solver
struct eigen_lu_backend : amgcl::backend::eigen<double> {
    typedef amgcl::solver::EigenSolver<Eigen::SparseLU<Eigen::SparseMatrix<double, Eigen::ColMajor, int>>> direct_solver;
    static std::shared_ptr<direct_solver> create_solver(std::shared_ptr<amgcl::backend::builtin<double>::matrix> A, const params&) { return std::make_shared<direct_solver>(*A); }
};
template <class Backend, class Vec> static std::vector<double> amg_solve(const Mat &A, const std::vector<Q> &b) {
    DMat M = dmat(A);
    typedef amgcl::amg<Backend, amgcl::coarsening::smoothed_aggregation, amgcl::relaxation::spai0> AMG;
    typename AMG::params p; p.coarse_enough = (unsigned)A.n + 5; p.direct_coarse = true;
    AMG amg(*M.crs, p);
    Vec f(A.n), x(A.n); for (long i = 0; i < A.n; ++i) { f[i] = b[i].v.get_d(); x[i] = std::numeric_limits<double>::quiet_NaN(); }
    amg.apply(f, x);
    std::vector<double> out(A.n); for (long i = 0; i < A.n; ++i) out[i] = x[i]; return out;
}

static Result execute(const Toks &t) {
    Cur c(t); const std::string &op = t[0]; Result r;
    if (op != "deig_solve" && op != "deig_amg") return Result("bad-op");
    long kind = c.nat(); Mat A = c.mat();
    std::string why; if (!crs_wf(*A.crs(), why) || A.n != A.m || A.n < 1 || !crs_sorted_nodup(*A.crs())) throw bad_input("shape");
    for (auto &v : A.val) if (!small_int(v)) throw bad_input("not exact");
    std::vector<std::vector<Q>> bs;
    if (op == "deig_solve") { long k = c.nat(); if (k < 1 || k > 4) throw bad_input("k"); for (long q = 0; q < k; ++q) bs.push_back(c.vec()); } else bs.push_back(c.vec());
    c.expect_end();
    for (auto &b : bs) { if ((long)b.size() != A.n) throw bad_input("b"); for (auto &v : b) if (!small_int(v)) throw bad_input("not exact"); }
    if (!nonsingular(dense(A))) throw bad_input("singular");
    static_assert(std::is_same<amgcl::backend::eigen<double>::direct_solver, amgcl::solver::skyline_lu<double>>::value, "eigen backend direct solver");
    static_assert(std::is_same<amgcl::backend::builtin<double>::direct_solver, amgcl::solver::skyline_lu<double>>::value, "builtin backend direct solver");
    if (op == "deig_solve") {
        if (kind < 0 || kind > 5) throw bad_input("kind");
        if ((kind == 1 || kind == 2) && !is_spd(A)) throw bad_input("spd");
        typedef Eigen::SparseMatrix<double, Eigen::ColMajor, int> CM; typedef Eigen::SparseMatrix<double, Eigen::RowMajor, int> RM; typedef Eigen::SparseMatrix<double, Eigen::ColMajor, long> CL;
        switch (kind) {
            case 0: run_solver<Eigen::SparseLU<CM>>(r, A, bs, "SparseLU<ColMajor,int>"); break;
            case 1: run_solver<Eigen::SimplicialLDLT<CM>>(r, A, bs, "SimplicialLDLT"); break;
            case 2: run_solver<Eigen::SimplicialLLT<CM>>(r, A, bs, "SimplicialLLT", false); break;       // takes square roots: no exactness claim
            case 3: run_solver<Eigen::SparseQR<CM, Eigen::COLAMDOrdering<int>>>(r, A, bs, "SparseQR", false); break;      // Householder norms: no exactness claim
            case 4: run_solver<Eigen::SimplicialLDLT<RM>>(r, A, bs, "SimplicialLDLT<RowMajor>"); break;
            case 5: run_solver<Eigen::SparseLU<CL>>(r, A, bs, "SparseLU<ColMajor,long>"); break;
        }
        r.out = (Line() << A.n << (long)bs.size() << "ok").get();
    } else {
        if (kind < 0 || kind > 2) throw bad_input("form");
        typedef Eigen::Matrix<double, Eigen::Dynamic, 1> EV;
        bool zero_diag = false; { Dense D = dense(A); for (long i = 0; i < A.n; ++i) if (D[i][i] == 0) zero_diag = true; }
        std::vector<double> x;
        try { x = kind == 0 ? amg_solve<amgcl::backend::eigen<double>, EV>(A, bs[0]) : kind == 1 ? amg_solve<eigen_lu_backend, EV>(A, bs[0]) : amg_solve<amgcl::backend::builtin<double>, std::vector<double>>(A, bs[0]); }
        catch (const std::runtime_error &e) {
            // skyline_lu does not pivot: a zero diagonal entry of the input is its documented failure ("Zero diagonal in skyline_lu")
            if (kind == 1 || !zero_diag) r.fail(std::string("one-level amg threw on a non-singular matrix") + (zero_diag ? "" : " with non-zero diagonal") + ": " + e.what());
            r.out = (Line() << A.n << 1L << "zero_pivot").get(); r.tag("zero_pivot"); r.tag(op + std::to_string(kind)); return r;
        }
        judge(r, A, dense(A), bs[0], x, kind == 0 ? "amg<backend::eigen<double>> (one level, skyline_lu)" : kind == 1 ? "amg<eigen backend with EigenSolver<SparseLU>> (one level)" : "amg<backend::builtin<double>> (one level, skyline_lu)");
        r.out = (Line() << A.n << 1L << "ok").get();
    }
    bool sym = is_symmetric(A); r.tag(sym ? "symmetric" : "nonsymmetric"); r.tag(op + std::to_string(kind));
    r.nontrivial = A.n > 1 && (long)A.col.size() > A.n;
    return r;
}

// ---------------------------------------------------------------- generators
// integer SPD M-matrix (graph Laplacian with integer weights + integer shifts); possibly disconnected
static Mat gen_int_spd(Rng &rng, long n) {
    std::vector<Edge> e; int fam = (int)rng.range(0, 2);
    if (fam == 0) { for (long i = 0; i + 1 < n; ++i) if (!rng.coin(1, 6)) e.push_back({i, i + 1, Q(rng.range(1, 4))}); }        // chain, sometimes cut: disconnected
    else if (fam == 1) { long nx = std::max<long>(2, (long)std::sqrt((double)n)); for (long i = 0; i < n; ++i) { if ((i + 1) % nx && i + 1 < n) e.push_back({i, i + 1, Q(rng.range(1, 4))}); if (i + nx < n) e.push_back({i, i + nx, Q(rng.range(1, 4))}); } }
    else { for (long i = 1; i < n; ++i) e.push_back({rng.range(0, i - 1), i, Q(rng.range(1, 4))}); for (long k = 0; k < n / 2; ++k) { long a = rng.range(0, n - 1), b = rng.range(0, n - 1); if (a != b) e.push_back({a, b, Q(rng.range(1, 3))}); } }
    std::vector<Q> shift(n); for (auto &s : shift) s = Q(rng.range(1, 3));
    return mmatrix_from_edges(n, e, shift);
}
// non-symmetric, strictly diagonally dominant by rows, integer entries, random pattern (possibly disconnected)
static Mat gen_int_nonsym(Rng &rng, long n) {
    std::vector<std::vector<std::pair<long,Q>>> rows(n);
    for (long i = 0; i < n; ++i) { Q s(0); std::map<long,Q> m; long k = rng.range(0, 3); for (long q = 0; q < k; ++q) { long j = rng.range(0, n - 1); if (j == i) continue; Q v = Q(rng.range(-4, 4)); if (v == 0) continue; m[j] = v; }
        for (auto &cv : m) s += qabs(cv.second); m[i] = (s + Q(rng.range(1, 3))) * Q(rng.coin() ? 1 : -1); for (auto &cv : m) rows[i].push_back({cv.first, cv.second}); }
    return from_rows(n, n, rows);
}
static Mat gen_monomial(Rng &rng, long n) {
    std::vector<long> p(n); for (long i = 0; i < n; ++i) p[i] = i; for (long k = n; k > 1; --k) std::swap(p[k-1], p[rng.next() % k]);
    std::vector<std::vector<std::pair<long,Q>>> rows(n); for (long i = 0; i < n; ++i) rows[i].push_back({p[i], Q((rng.coin() ? 1L : -1L) * (1L << rng.range(0, 3)))});
    return from_rows(n, n, rows);
}
static void generate(Rng &rng, const Opts &o, std::vector<std::string> &lines) {
    long N = o.cases > 0 ? o.cases : (o.thorough() ? 1200 : 120);
    for (long k = 0; k < N; ++k) {
        long n = rng.range(1, o.thorough() ? 24 : 12);
        long fam = rng.range(0, 9); Mat A; bool spd = false, mono = false;
        if (fam <= 3) { A = gen_int_spd(rng, n); spd = true; } else if (fam <= 8) A = gen_int_nonsym(rng, n); else { A = gen_monomial(rng, n); mono = true; }
        if (!nonsingular(dense(A))) { A = gen_int_spd(rng, n); spd = true; mono = false; }
        Line l;
        if (rng.coin(1, 4)) { l << "deig_amg" << rng.range(0, 2) << A << (mono ? dmv(dense(A), gen_vec(rng, n, true)) : gen_vec(rng, n, true)); }
        else {
            static const std::vector<long> gen_kinds = { 0, 0, 3, 5 }, spd_kinds = { 0, 1, 2, 4, 3, 5, 1 };
            long kind = spd ? rng.pick(spd_kinds) : rng.pick(gen_kinds); long nb = rng.range(1, 3);
            l << "deig_solve" << kind << A << nb; for (long q = 0; q < nb; ++q) l << (rng.coin() ? dmv(dense(A), gen_vec(rng, n, true)) : gen_vec(rng, n, true));
        }
        lines.push_back(l.get());
    }
    lines.push_back("deig_solve 1 2 2 2 0 1 1 2 2 0 3 1 1 1 2 1 1");        // LDLT on a non-symmetric matrix
    lines.push_back("deig_solve 0 2 2 1 0 1 1 0 1 1 2 1 1");                 // singular
    lines.push_back("deig_solve 9 1 1 1 0 1 1 1 1");
}

VH_MAIN(generate, execute)
