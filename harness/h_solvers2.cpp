// C01 / C05 / C15 harness, second solver package: the REAL amgcl::solver::{gmres,fgmres,lgmres,idrs,bicgstabl}
// <builtin<Q>> at the exact rational type Q, called through operator()(A, P, rhs, x) as make_solver.hpp does.
//
// Ops (the same text is fed to the Lean model, lean/Amgcl/Driver/Solvers2.lean):
//   solve_gmres      side M maxiter tol abstol ns                       A PREC f x0
//   solve_fgmres     M maxiter tol abstol ns                            A PREC f x0
//   solve_lgmres     side M K always_reset maxiter tol abstol ns        A PREC f x0
//   hist_gmres | hist_fgmres | hist_lgmres   <params as above>  n k (A PREC f x0)^k            (ONE solver object)
// PREC = id | diag <vec> | mat <CRS>; result "ok <iters> <res> <x>" or "precondition <x>"; hist_*: joined by " | ".
// M >= 1 (L >= 1, s >= 1) is required: bad-input otherwise.
//
// Implementation-side oracles (exact arithmetic, independent of the Lean model):
//   C01  reported residual == |sqrt(<R,R>)|/norm_rhs with R = f - A x (right, fgmres) resp. P(f - A x) (left),
//        recomputed densely from the returned x with the same sqrt; iters <= maxiter; early return on ||f|| < eps
//   C05  exact preconditioner (P A == I) and exact root of <r0,r0>: exactly one iteration and A x == f;
//        identity of the GMRES / FGMRES iterate: x - x0 in P K_k(AP, r0)   (rank test, exact)
//   C15  every call of a history equals the same call on a fresh object (LGMRES: only with always_reset; without it
//        the carried augmentation vectors are the documented exception and the difference is only tagged); rhs and
//        matrix unchanged; zero rhs -> zero vector, 0 iterations; converged guess returned unchanged in 0 iterations
#include "solvers_common.hpp"
#include <amgcl/solver/gmres.hpp>
#include <amgcl/solver/fgmres.hpp>
#include <amgcl/solver/lgmres.hpp>
#include <tuple>
using namespace vh;
using namespace vsolv;

#ifndef VH_PROP
#define VH_PROP 0
#endif
static const bool O_C01 = VH_PROP == 0 || VH_PROP == 1;
static const bool O_C05 = VH_PROP == 0 || VH_PROP == 5;
static const bool O_C15 = VH_PROP == 0 || VH_PROP == 15;

typedef amgcl::solver::gmres<Backend>  GMRES;
typedef amgcl::solver::fgmres<Backend> FGMRES;
typedef amgcl::solver::lgmres<Backend> LGMRES;

enum { S_GMRES = 0, S_FGMRES = 1, S_LGMRES = 2 };
struct Prm { int solver = 0; bool left = false; long M = 1, K = 0, maxiter = 0; Q tol, abstol; bool always_reset = true, ns = false; };

static bool parse_side(Cur &c) { const std::string &s = c.tok(); if (s == "left") return true; if (s == "right") return false; throw bad_input("side"); }
static Prm parse_prm(int solver, Cur &c) {
    Prm p; p.solver = solver;
    if (solver == S_GMRES || solver == S_LGMRES) p.left = parse_side(c);
    p.M = parse_nat(c);
    if (solver == S_LGMRES) { p.K = parse_nat(c); p.always_reset = parse_bool(c); }
    p.maxiter = parse_nat(c); p.tol = c.rat(); p.abstol = c.rat(); p.ns = parse_bool(c);
    if (p.M < 1) throw bad_input("M");
    return p;
}
static amgcl::preconditioner::side::type side_of(const Prm &p) { return p.left ? amgcl::preconditioner::side::left : amgcl::preconditioner::side::right; }
static GMRES::params gm_prm(const Prm &p) { GMRES::params q; q.M = p.M; q.pside = side_of(p); q.maxiter = p.maxiter; q.tol = p.tol; q.abstol = p.abstol; q.ns_search = p.ns; q.verbose = false; return q; }
static FGMRES::params fg_prm(const Prm &p) { FGMRES::params q; q.M = p.M; q.maxiter = p.maxiter; q.tol = p.tol; q.abstol = p.abstol; q.ns_search = p.ns; q.verbose = false; return q; }
static LGMRES::params lg_prm(const Prm &p) { LGMRES::params q; q.M = p.M; q.K = p.K; q.always_reset = p.always_reset; q.pside = side_of(p); q.maxiter = p.maxiter; q.tol = p.tol; q.abstol = p.abstol; q.ns_search = p.ns; q.verbose = false; return q; }

// the private norm() of gmres / fgmres / lgmres / idrs: std::abs(sqrt(inner_product(x, x)))
static Q nrmA(const std::vector<Q> &v) { return vq::abs(vq::sqrt(dot(v, v))); }
static bool left_kind(const Prm &p) { return p.left && (p.solver == S_GMRES || p.solver == S_LGMRES); }

// ------------------------------------------------------------------ property oracles on ONE call's result
// `fresh_semantics`: the object is known to behave like a fresh one for this call (false for LGMRES without
// always_reset inside a history: augmentation vectors of earlier calls take part)
static void oracle(const Prm &p, const CallData &d, const Out &o, Result &r, bool fresh_semantics) {
    const long n = d.n();
    if (O_C15 && !o.inputs_untouched) r.fail("rhs or system matrix modified by the solve");
    Dense A = dense(d.A), PD = d.pdense();
    Q nf = nrmA(d.f), eps = mach_eps();
    bool tiny = nf < eps;
    if (tiny) r.tag(dot(d.f, d.f) == 0 ? "zero_rhs" : "tiny_rhs");
    if (tiny && !p.ns) {
        if (O_C15 && (o.thrown || o.it != 0)) r.fail("zero rhs: expected 0 iterations");
        if (O_C15) for (long i = 0; i < n; ++i) if (o.x[i] != 0) { r.fail("zero rhs: x is not the zero vector"); break; }
        if (O_C01 && !o.thrown && o.res.v != nf.v) r.fail("zero rhs: reported value is not ||f||");
        return;
    }
    if (tiny) { nf = Q(1); r.tag("ns_search"); }
    if (o.thrown) { r.tag("precondition"); r.fail("gmres / fgmres / lgmres have no preconditions"); return; }
    Q epsT = std::max(p.tol * nf, p.abstol);
    if (O_C01 && o.it > p.maxiter) r.fail("iters > maxiter");
    std::vector<Q> tr = resid(A, d.f, o.x);
    std::vector<Q> trp = left_kind(p) ? dmv(PD, tr) : tr;
    Q truth = nrmA(trp) / nf;
    if (O_C01 && o.res.v != truth.v) r.fail("reported residual != recomputed true residual of the returned x");
    // C15: converged guess
    std::vector<Q> r0 = resid(A, d.f, d.x0), r0p = left_kind(p) ? dmv(PD, r0) : r0;
    Q res0 = nrmA(r0p);
    bool conv0 = res0 < epsT;
    if (conv0) {
        r.tag("conv_guess");
        if (O_C15 && o.it != 0) r.fail("converged initial guess: iterations were made");
        if (O_C15) for (long i = 0; i < n; ++i) if (o.x[i].v != d.x0[i].v) { r.fail("converged initial guess modified"); break; }
    }
    if (o.it == p.maxiter && !(nrmA(trp) < epsT)) r.tag("maxiter_hit"); else if (o.it > 0) r.tag("converged");
    if (!conv0 && p.maxiter > 0 && O_C01 && o.it == 0) r.fail("no iteration made although not converged and maxiter > 0");
    long MM = p.solver == S_LGMRES ? p.M + p.K : p.M;
    if (o.it > MM) r.tag("restarted");
    // C05: the iterate lies in the right affine space: x - x0 in P K_k(AP, r0) (right) / K_k(PA, P r0) (left), k = iters
    // (for LGMRES only when no augmentation vector can take part: K = 0, or the first cycle of a fresh-like object)
    bool plain = p.solver != S_LGMRES || p.K == 0;
    if (O_C05 && fresh_semantics && plain && o.it >= 1 && n <= 12) {
        std::vector<std::vector<Q>> Kr; std::vector<Q> z = left_kind(p) ? r0p : dmv(PD, r0);
        for (long k = 0; k < o.it; ++k) { Kr.push_back(z); z = dmv(PD, dmv(A, z)); }
        std::vector<Q> dx(n); for (long i = 0; i < n; ++i) dx[i] = o.x[i] - d.x0[i];
        std::vector<std::vector<Q>> K2 = Kr; K2.push_back(dx);
        if (rank_of(K2) != rank_of(Kr)) r.fail("x_k - x0 not in the (preconditioned) Krylov space of dimension k = iters");
        r.tag("krylov_membership");
    }
    // C05: exact preconditioner and exact root -> one iteration, exact solution
    bool exactP = n > 0 && is_identity(dmul(PD, A));
    if (exactP) {
        r.tag("exact_prec");
        Q nr = res0; bool root_exact = nr * nr == dot(r0p, r0p);
        if (root_exact) r.tag("exact_root");
        bool applies = fresh_semantics && p.maxiter >= 1 && !conv0 && epsT > 0 && root_exact && dot(r0p, r0p) != 0;
        if (applies && O_C05) {
            if (o.it != 1) r.fail("exact preconditioner: expected exactly one iteration");
            for (long i = 0; i < n; ++i) if (tr[i] != 0) { r.fail("exact preconditioner: A x != f after one iteration"); break; }
            r.tag("exact_prec_one_step");
        }
    }
}

static const char *solver_name(int s) { return s == S_GMRES ? "gmres" : s == S_FGMRES ? "fgmres" : "lgmres"; }

static Out run_fresh(const Prm &p, const CallData &d) {
    switch (p.solver) {
        case S_GMRES:  { GMRES S(d.n(), gm_prm(p)); return call(S, d); }
        case S_FGMRES: { FGMRES S(d.n(), fg_prm(p)); return call(S, d); }
        default:       { LGMRES S(d.n(), lg_prm(p)); return call(S, d); }
    }
}

template <class Solver>
static void run_history(const Solver &S, const Prm &p, const std::vector<CallData> &cs, Result &r) {
    std::string out; long total_it = 0;
    const bool carries = p.solver == S_LGMRES && !p.always_reset && p.K > 0;   // the documented exception of C15
    bool carried = false;                                                      // an earlier call stored an augmentation vector
    for (size_t k = 0; k < cs.size(); ++k) {
        Out o = call(S, cs[k]);                      // the shared object
        Out fr = run_fresh(p, cs[k]);                // a freshly constructed object, same call
        bool same = same_out(o, fr);
        if (!same) {
            if (carries) r.tag("lgmres_history_dependent");
            else if (O_C15) r.fail("history: call " + std::to_string(k) + " differs from the same call on a fresh object");
        }
        oracle(p, cs[k], o, r, !(carries && carried));
        if (carries && !o.thrown && o.it > 0) carried = true;
        if (k) out += " | ";
        out += show(o);
        total_it += o.thrown ? 0 : o.it;
    }
    r.out = out;
    r.nontrivial = cs.size() >= 2 && total_it >= 2;
    r.tag(std::string("hist_") + solver_name(p.solver)); r.tag("hist_len" + std::to_string(cs.size()));
    if (carries) r.tag("lgmres_no_reset");
}

static Result execute(const Toks &t) {
    Cur c(t);
    const std::string &op = t[0];
    Result r;
    int solver = -1; bool hist = false;
    if (op == "solve_gmres") solver = S_GMRES; else if (op == "solve_fgmres") solver = S_FGMRES; else if (op == "solve_lgmres") solver = S_LGMRES;
    else if (op == "hist_gmres") { solver = S_GMRES; hist = true; } else if (op == "hist_fgmres") { solver = S_FGMRES; hist = true; } else if (op == "hist_lgmres") { solver = S_LGMRES; hist = true; }
    else { r.out = "bad-op"; return r; }
    Prm p = parse_prm(solver, c);
    if (!hist) {
        CallData d = parse_call(c); c.expect_end(); validate(d);
        Out o = run_fresh(p, d);
        oracle(p, d, o, r, true);
        r.out = show(o);
        r.nontrivial = !o.thrown && o.it >= 2;
        r.tag(solver_name(solver)); if (solver != S_FGMRES) r.tag(p.left ? "left" : "right");
        r.tag("M" + std::to_string(p.M)); if (solver == S_LGMRES) r.tag("K" + std::to_string(p.K));
        if (!o.thrown) r.tag("it" + std::to_string(o.it));
        r.tag(d.pk == 0 ? "prec_id" : d.pk == 1 ? "prec_diag" : "prec_mat");
        r.tag(is_symmetric(d.A) ? "sym" : "nonsym");
        bool x0nz = false; for (auto &v : d.x0) if (v != 0) x0nz = true; if (x0nz) r.tag("x0_nonzero");
    } else {
        long n = parse_nat(c), k = parse_nat(c);
        std::vector<CallData> cs;
        for (long i = 0; i < k; ++i) cs.push_back(parse_call(c));
        c.expect_end();
        for (auto &d : cs) { validate(d); if (d.n() != n) throw bad_input("n"); }
        if (solver == S_GMRES) { GMRES S(n, gm_prm(p)); run_history(S, p, cs, r); }
        else if (solver == S_FGMRES) { FGMRES S(n, fg_prm(p)); run_history(S, p, cs, r); }
        else { LGMRES S(n, lg_prm(p)); run_history(S, p, cs, r); }
    }
    return r;
}

// ------------------------------------------------------------------ generators
static void put_prm(Rng &rng, Line &l, int solver, long maxit_hi) {
    if (solver == S_GMRES || solver == S_LGMRES) l << (rng.coin() ? "left" : "right");
    if (solver == S_LGMRES) { long K = rng.range(0, 2); l << rng.range(1, 3 - (K > 1 ? 1 : 0)) << K << rng.coin(); }
    else l << rng.range(1, 4);
    l << rng.range(0, maxit_hi) << gen_tol(rng) << gen_abstol(rng);
    l << rng.coin(1, 6);
}
// right-hand sides whose norm has an exact rational root (so that the exact-preconditioner clause is testable)
static std::vector<Q> pythag(Rng &rng, long n) {
    static const std::vector<std::vector<long>> base = { {3, 4}, {1, 2, 2}, {2, 3, 6}, {1, 4, 8}, {5, 12}, {2, 2, 1}, {7}, {6, 8} };
    std::vector<Q> f(n, Q(0)); if (!n) return f;
    for (int tries = 0; tries < 20; ++tries) {
        const auto &b = rng.pick(base); if ((long)b.size() > n) continue;
        std::vector<long> pos; for (long i = 0; i < n; ++i) pos.push_back(i);
        for (size_t i = 0; i < b.size(); ++i) { long k = rng.range((long)i, n - 1); std::swap(pos[i], pos[k]); f[pos[i]] = Q(rng.coin() ? b[i] : -b[i]); }
        return f;
    }
    f[0] = Q(2); return f;
}
static void put_call2(Rng &rng, Line &l, long n) {
    std::string fam, kind; Mat A = gen_matrix(rng, n, fam);
    n = A.n;
    if (n > 0 && rng.coin(1, 8)) {                  // exact inverse as preconditioner, rhs with an exact norm, x0 = 0
        Dense I;
        if (dinv(dense(A), I)) { l << A << "mat" << dense_to_mat(I) << pythag(rng, n) << std::vector<Q>(n, Q(0)); return; }
    }
    l << A; put_prec(rng, l, A);
    std::vector<Q> f = gen_rhs(rng, n, kind);
    l << f << gen_x0(rng, A, f);
}

static void generate(Rng &rng, const Opts &o, std::vector<std::string> &lines) {
    long N = o.cases > 0 ? o.cases : (o.thorough() ? 2500 : 260);
    // fixed edge cases: 1x1, n = 0, zero matrix, maxiter 0, restart with M = 1, identity matrix (breakdown-like H(1,0) = 0)
    lines.push_back("solve_gmres right 2 3 0 0 0 2 2 0 0 id 2 1 2 2 0 0");
    lines.push_back("solve_gmres left 2 3 0 0 0 2 2 0 0 id 2 1 2 2 0 0");
    lines.push_back("solve_gmres right 1 4 1/100 0 0 2 2 2 0 2 1 1 2 0 1 1 3 id 2 1 3 2 0 0");
    lines.push_back("solve_gmres right 3 5 1/100 0 0 1 1 1 0 2 id 1 4 1 0");
    lines.push_back("solve_gmres left 2 2 1/100 0 0 0 0 id 0 0");
    lines.push_back("solve_gmres right 2 0 1/10 0 0 2 2 1 0 2 1 1 3 id 2 1 2 2 0 0");
    lines.push_back("solve_gmres right 2 4 1/1000 0 0 2 2 1 0 1 1 1 1 id 2 3 4 2 0 0");
    lines.push_back("solve_fgmres 2 3 0 0 0 2 2 0 0 id 2 1 2 2 0 0");
    lines.push_back("solve_fgmres 2 4 1/1000 0 0 2 2 2 0 2 1 1 2 0 1 1 3 diag 2 1/2 1/3 2 3 4 2 0 0");
    lines.push_back("solve_fgmres 1 3 1/100 0 0 0 0 id 0 0");
    lines.push_back("solve_lgmres right 2 1 1 5 1/1000 0 0 2 2 2 0 2 1 1 2 0 1 1 3 id 2 1 3 2 0 0");
    lines.push_back("solve_lgmres left 1 2 0 4 0 0 0 2 2 2 0 2 1 1 2 0 1 1 3 diag 2 1/2 1/3 2 1 3 2 1 1");
    lines.push_back("solve_lgmres right 2 0 1 3 0 0 0 2 2 0 0 id 2 1 2 2 0 0");
    lines.push_back("hist_lgmres right 1 2 0 3 0 0 0 2 2 2 2 0 2 1 1 2 0 1 1 3 id 2 1 3 2 0 0 2 2 2 0 2 1 1 2 0 1 1 3 id 2 1 3 2 0 0");
    // malformed stream
    lines.push_back("solve_gmres right 0 3 0 0 0 2 2 1 0 1 1 1 1 id 2 1 2 2 0 0");              // M = 0
    lines.push_back("solve_fgmres 0 3 0 0 0 2 2 1 0 1 1 1 1 id 2 1 2 2 0 0");                    // M = 0
    lines.push_back("solve_lgmres right 0 1 1 3 0 0 0 2 2 1 0 1 1 1 1 id 2 1 2 2 0 0");          // M = 0
    lines.push_back("solve_gmres up 2 3 0 0 0 2 2 1 0 1 1 1 1 id 2 1 2 2 0 0");                  // bad side
    lines.push_back("solve_gmres right 2 3 0 0 0 2 2 1 0 1 1 1 1 id 3 1 2 3 2 0 0");             // rhs too long
    lines.push_back("solve_gmres right 2 3 0 0 0 2 2 1 2 1 1 1 1 id 2 1 2 2 0 0");               // column out of range
    lines.push_back("solve_fgmres 2 3 0 0 0 2 3 1 0 1 1 1 1 id 2 1 2 2 0 0");                    // non-square
    lines.push_back("solve_fgmres 2 x 0 0 0 2 2 1 0 1 1 1 1 id 2 1 2 2 0 0");                    // maxiter not a number
    lines.push_back("solve_lgmres right 2 1 2 3 0 0 0 2 2 1 0 1 1 1 1 id 2 1 2 2 0 0");          // always_reset not a boolean
    lines.push_back("solve_gmres right 2 3 0 0 0 2 2 1 0 1 1 1 1 id 2 1 2 2 0 0 7");             // trailing token
    lines.push_back("solve_gmres right 2 3 0 0 0 2 2 1 0 1 1 1 1 id 2 1 2 2 0");                 // x0 too short
    lines.push_back("hist_gmres right 2 3 0 0 0 2 2 2 2 1 0 1 1 1 1 id 2 1 2 2 0 0 1 1 1 0 1 id 1 1 1 0");   // second call has another n
    const long nmax = o.thorough() ? 8 : 6;
    for (long k = 0; k < N; ++k) {
        Line l;
        int which = (int)rng.range(0, 19);
        long n = rng.range(1, nmax);
        if (rng.coin(1, 40)) n = 0;
        if (which < 6) { l << "solve_gmres"; put_prm(rng, l, S_GMRES, 4); put_call2(rng, l, n); }
        else if (which < 10) { l << "solve_fgmres"; put_prm(rng, l, S_FGMRES, 4); put_call2(rng, l, n); }
        else if (which < 14) { l << "solve_lgmres"; put_prm(rng, l, S_LGMRES, 4); put_call2(rng, l, n); }
        else {
            int solver = which < 16 ? S_GMRES : which < 17 ? S_FGMRES : S_LGMRES;
            l << (solver == S_GMRES ? "hist_gmres" : solver == S_FGMRES ? "hist_fgmres" : "hist_lgmres");
            put_prm(rng, l, solver, 3);
            long len = rng.range(2, o.thorough() ? 5 : 3);
            n = rng.range(1, 4);
            std::vector<std::string> calls;
            for (long j = 0; j < len; ) {
                Line c; std::string fam, kind; Mat A = gen_matrix(rng, n, fam);
                if (A.n != n) continue;
                c << A; put_prec(rng, c, A); std::vector<Q> f = gen_rhs(rng, n, kind); c << f << gen_x0(rng, A, f);
                calls.push_back(c.get()); ++j;
            }
            l << n << len; for (auto &s : calls) l << s;
        }
        lines.push_back(l.get());
    }
}

VH_MAIN(generate, execute)
